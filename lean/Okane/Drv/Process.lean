import Okane.Drv.Core
/-!
`drv process`: input = output lines of `hx process` (`<id> tree=<sexp> result=<sexp>`),
output = `<id> agree` | `<id> DISAGREE model=<...>` | `<id> undecodable`.
-/
namespace Okane.Drv.Process
open Okane Okane.Drv

def step (line : String) : String :=
  let (id, fs) := splitFields line
  match field fs "tree", field fs "result" with
  | some t, some r =>
    match decEntries t, (Sexp.parse r).bind decResult with
    | some es, some impl =>
      match impl with
      | .other s => s!"{id} skip impl={s.toStr}"
      | _ =>
        let (ok, m) := compareProcess es impl
        if ok then s!"{id} agree" else s!"{id} DISAGREE model={m}"
    | none, _ => s!"{id} undecodable tree"
    | _, none => s!"{id} undecodable result"
  | _, _ => s!"{id} bad-case"

def main : IO Unit := forEachLine step

end Okane.Drv.Process
