import Okane.Drv.IOUtil
import Okane.Drv.DecodeSyntax
import Okane.Model.Parse
import Okane.Model.Unparse
import Okane.Lemmas.C05Txn
import Okane.Lemmas.ExprParse
/-!
Driver for C05 (same record formats as `harness/src/c05.rs`).

`drv c05 parse` — case: `<enc(text)>`; record: `<start>:<end> <entry sexp> | ... # done | # err <off> <end> <line> | # panic .. | # fuel`
`drv c05 fmt`   — case: `<enc(text)>`; record: `ok <enc(formatted)>` | `err parse` | `panic ..`
`drv c05 wf`    — case: `<enc(text)>`; record: `wf` | `notwf <index of first entry violating WFEntry>` | `noparse`
                  (the image property: what the model parser returns satisfies the printer's well-formedness predicate `wfEntry`
                  and `plainEntry` — the hypotheses of theorem C05_entry / C05_roundtrip)
-/
namespace Okane.Drv.C05
open Okane Okane.Parse

def entriesStr (es : List Parsed) : String :=
  " | ".intercalate (es.map fun p => s!"{p.start}:{p.stop} {(encEntry p.entry).toStr}")

def parseStep (line : String) : String :=
  match Sexp.decode (line.trimAscii.toString) with
  | none => "bad-case"
  | some text =>
    let (es, ending) := parseLedgerRun text.toList
    let tail := match ending with
      | .done => "# done"
      | .error e => s!"# err {e.offset} {e.spanEnd} {e.lineStart}"
      | .panic s => s!"# panic {Sexp.encode s}"
      | .fuelOut => "# fuel"
    if es.isEmpty then tail else entriesStr es ++ " " ++ tail

def fmtStep (line : String) : String :=
  match Sexp.decode (line.trimAscii.toString) with
  | none => "bad-case"
  | some text =>
    match Unparse.format Unparse.widthCjk text.toList with
    | .ok out => "ok " ++ Sexp.encode (String.ofList out)
    | .err _ => "err parse"
    | .panic s => "panic " ++ Sexp.encode s
    | .fuelOut => "fuel"

def wfStep (line : String) : String :=
  match Sexp.decode (line.trimAscii.toString) with
  | none => "bad-case"
  | some text =>
    match parseEntries text.toList with
    | .ok es =>
      match (es.zipIdx.find? fun (e, _) => !(Unparse.wfEntry (Unparse.canonEntry e) &&
          (Unparse.exprsOfEntry (Unparse.canonEntry e)).all ExprParse.plainV)) with
      | none => "wf"
      | some (_, i) => s!"notwf {i}"
    | _ => "noparse"

def main (args : List String) : IO Unit :=
  match args with
  | "fmt" :: _ => forEachLine fmtStep
  | "wf" :: _ => forEachLine wfStep
  | _ => forEachLine parseStep

end Okane.Drv.C05
