import Okane.Drv.Core
import Okane.Model.Diag
/-!
Driver for C06.
`drv c06 class` : input lines are `hx c06 inproc` records (`<id> parse=.. ... process=<class> [tree=<sexp>] ms=..`);
                  output `<id> model=<ok|err:<idx>:<Kind>|panic:<site>|fuelOut|notree|undecodable>` —
                  the outcome class of the model's `process` on the tree the real loader delivered.
`drv c06 perr`  : input `<id> <enc file text> <startPos> <errPos>`; output the model's `ParseError::new`:
                  `<id> ls=<line_start> span=<a>..<b> len=<|input|>` or `<id> panic:<site>` / `<id> fuelOut`.
-/
namespace Okane.Drv.C06
open Okane Okane.Drv

def kindOf (e : BkErrS) : String :=
  match (bkErrDesc e).1 with
  | .atom k :: _ => k
  | _ => "?"

def classStep (line : String) : String :=
  let (id, fs) := splitFields line
  match field fs "tree" with
  | none => s!"{id} model=notree"
  | some t =>
    match decEntries t with
    | none => s!"{id} model=undecodable"
    | some es =>
      match Okane.process es with
      | .ok _ => s!"{id} model=ok"
      | .err (i, e) => s!"{id} model=err:{i}:{kindOf e}"
      | .panic s => s!"{id} model=panic:{Sexp.encode s}"
      | .fuelOut => s!"{id} model=fuelOut"

def perrStep (line : String) : String :=
  match words line with
  | [id, text, sp, ep] =>
    match Sexp.decode text, sp.toNat?, ep.toNat? with
    | some t, some startPos, some errPos =>
      let bytes := t.toUTF8.toList
      match Diag.parseErrorNew (Diag.parseErrorFuel bytes) bytes startPos errPos with
      | .ok pe => s!"{id} ls={pe.lineStart} span={pe.errorSpan.start}..{pe.errorSpan.stop} len={pe.input.length}"
      | .err _ => s!"{id} err"
      | .panic s => s!"{id} panic:{Sexp.encode s}"
      | .fuelOut => s!"{id} fuelOut"
    | _, _, _ => s!"{id} bad-case"
  | _ => "bad-case"

def main (args : List String) : IO Unit :=
  match args with
  | ["perr"] => forEachLine perrStep
  | _ => forEachLine classStep

end Okane.Drv.C06
