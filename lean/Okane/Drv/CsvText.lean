import Okane.Drv.C16
import Okane.Model.CsvText
/-!
Driver `drv csvtext`: the CSV importer model from the BYTES of the file (`Model/CsvText.lean`: the `csv` crate's record
reader as configured by `csv::import`, `read_line` skipping, UTF-8 validation per record).

Case line = the case line of `drv c16` (`cells=` and `decs=` are not consulted) plus

  `src=<percent-encoded BYTES of the file> delim=<enc format.delimiter> skip=<format.skip.head>`

Output: `<id> import=<..> inexact=<0|1> proc=<..> cells=<C> lines=(l0 l1 ..) short=<-|(line want got)>`
  `import`, `inexact`, `proc` as `drv c16` prints them, computed by `csvImportTextFlagged` (the model splits the text itself);
  C : `(ok (h1 h2 ..) (c1 c2 ..) .. [utf8err])` header and records as the MODEL's reader yields them, reading stops at the first
      record that is not UTF-8 | `(ioerr)` a skipped line is not UTF-8   (same shape as `cells=` of `hx c16` / `hx c16 text`);
  `lines` : the `Position::line` of the header and of every record shown;
  `short` : what the message `csv record length too short at line {}: want {}, got {}` names for this file, if the field map
      can be built and some record is that short.

`drv csvtext split` — the reader alone, see `splitStep`.
-/
namespace Okane.Drv.CsvText
open Okane Okane.Drv Okane.Import Okane.Import.CsvText Sexp

def decBytes (s : String) : Option Bytes :=
  if s == "~" then some [] else Sexp.decodeBytes s.toList []

def showRecord (r : List String) : String := "(" ++ " ".intercalate (r.map Sexp.encode) ++ ")"

/-- the records in front of the first undecodable one, and whether one follows -/
def shownCells (recs : List (Nat × List Bytes)) : List String × List Nat × Bool :=
  let rec go : List (Nat × List Bytes) → List String × List Nat × Bool
    | [] => ([], [], false)
    | (l, r) :: rest =>
      match decodeRecord r with
      | some sr => let (a, b, c) := go rest; (showRecord sr :: a, l :: b, c)
      | none => ([], [], true)
  go recs

def cellsOf (t : TextCfg) (file : Bytes) : String × String :=
  match skipHead t.skipHead.toNat file with
  | .ok rest =>
    let recs := readRecordsPos t.delimByte rest
    -- `rdr.headers()` of an input without records is an empty record at the reader's position (line 1)
    let recs := if recs.isEmpty then [(1, [])] else recs
    let (shown, lines, bad) := shownCells recs
    ("(ok " ++ " ".intercalate (shown ++ (if bad then ["utf8err"] else [])) ++ ")",
     "(" ++ " ".intercalate (lines.map toString) ++ ")")
  | _ => ("(ioerr)", "()")

def shortOf (cfg : CsvCfg) (t : TextCfg) (file : Bytes) : String :=
  match skipHead t.skipHead.toNat file with
  | .ok rest =>
    let recs := readRecordsPos t.delimByte rest
    match decodeRecord (headerOf recs) with
    | some header =>
      match FieldMap.tryNew cfg.fields header with
      | .ok fm =>
        match shortRecord fm.maxColumn (bodyOf recs) with
        | some (l, w, g) => s!"({l} {w} {g})"
        | none => "-"
      | _ => "-"
    | none => "-"
  | _ => "-"

def step (line : String) : String :=
  let (id, fs) := splitFields line
  match field fs "cfg", field fs "dates", field fs "caps", field fs "fund", field fs "src", field fs "delim", field fs "skip" with
  | some cfg, some dates, some caps, some fund, some src, some delim, some skip =>
    match (Sexp.parse cfg).bind C16.decCfg, (Sexp.parse dates).bind C16.decDateTable, (Sexp.parse caps).bind C16.decCaps,
          (Sexp.parse fund).bind C16.decFund, decBytes src, Sexp.decode delim, skip.toInt? with
    | some cfg, some dates, some caps, some fund, some src, some delim, some skip =>
      let env : CsvEnv := Cells.cellEnv (C16.tableFn dates) (C16.capsFn caps)
      let t : TextCfg := ⟨delim, skip⟩
      let r := csvImportTextFlagged env cfg t src
      let inexact := match r with
        | .ok ts => ts.any (·.2)
        | _ => false
      let (cells, lines) := cellsOf t src
      C16.report id cfg.account fund (r.map' (List.map Prod.fst)) inexact ++
        s!" cells={cells} lines={lines} short={shortOf cfg t src}"
    | none, _, _, _, _, _, _ => s!"{id} undecodable cfg"
    | _, none, _, _, _, _, _ => s!"{id} undecodable dates"
    | _, _, none, _, _, _, _ => s!"{id} undecodable caps"
    | _, _, _, none, _, _, _ => s!"{id} undecodable fund"
    | _, _, _, _, none, _, _ => s!"{id} undecodable src"
    | _, _, _, _, _, none, _ => s!"{id} undecodable delim"
    | _, _, _, _, _, _, none => s!"{id} undecodable skip"
  | _, _, _, _, _, _, _ => s!"{id} bad-case"

/-- `drv csvtext split`: the reader alone.  `<id> src=<enc bytes> delim=<enc format.delimiter> skip=<n>` ->
`<id> cells=<C> lines=(l0 l1 ..)` (for the CSV streams of other properties: compare `cells` with what the crate yielded). -/
def splitStep (line : String) : String :=
  let (id, fs) := splitFields line
  match (field fs "src").bind decBytes, (field fs "delim").bind Sexp.decode, (field fs "skip").bind String.toInt? with
  | some src, some delim, some skip =>
    let (cells, lines) := cellsOf ⟨delim, skip⟩ src
    s!"{id} cells={cells} lines={lines}"
  | _, _, _ => s!"{id} bad-case"

def main (args : List String) : IO Unit :=
  match args with
  | "split" :: _ => forEachLine splitStep
  | _ => forEachLine step

end Okane.Drv.CsvText
