import Okane.Drv.IOUtil
/-! Driver commands for C10 (stub: replaced when the property's streams are built). -/
namespace Okane.Drv.C10

def main (args : List String) : IO Unit := do
  let _ := args
  pure ()

end Okane.Drv.C10
