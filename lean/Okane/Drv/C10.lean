import Okane.Drv.C09
/-!
Driver for C10.  Input: the output lines of `hx c10`
  `<id> tree=(...) pdb=(...) result=(ok (txns ...) (bal ...)) qs=((T U|H (d ..) (start?) (end?) <res>) ...) rates=(...)`
For every query the model's `Query.balance` is computed (under several pop / neighbour orders) and compared with
what `Ledger::balance` returned.  Output: `<id> agree q=<n> ties=<k> inexact=<k>` | `<id> DISAGREE ...`.
-/
namespace Okane.Drv.C10
open Okane Okane.Drv Okane.Drv.C09 Okane.Price Okane.Query Sexp

inductive BRes where
  | ok (b : Balance String String)
  | err (kind : String)
  | crash (what : String)

def BRes.toStr : BRes → String
  | .ok b => "(ok " ++ (Sexp.list (sortBalance b |>.map fun kv =>
      .list [mkStr kv.1, .list (kv.2.map fun cv => .list [mkStr cv.1, encRat cv.2])])).toStr ++ ")"
  | .err k => "(err " ++ k ++ ")"
  | .crash w => "(crash " ++ w ++ ")"

def decBRes : Sexp → Option BRes
  | .list [.atom "ok", b] => (decBalance b).map .ok
  | .list [.atom "err", .atom k] => some (.err k)
  | _ => none

def balanceClose (a b : Balance String String) : Bool :=
  let x := sortBalance a; let y := sortBalance b
  x.length == y.length && (x.zip y).all fun (p, q) =>
    p.1 == q.1 && p.2.length == q.2.length && (p.2.zip q.2).all fun (u, v) => u.1 == v.1 && ratClose u.2 v.2

def bresCmp : BRes → BRes → Nat
  | .ok a, .ok b => if balanceEq a b then 2 else if balanceClose a b then 1 else 0
  | .err a, .err b => if a == b then 2 else 0
  | _, _ => 0

def modelBalance (w : World) (cfg : Cfg String) (target : String) (historical : Bool) (now : Date)
    (start stop : Option Date) : BRes :=
  match toConversion w.store (some target) historical now with
  | .ok conv =>
    match Query.balance w.st.ctx.prec (envOf cfg w.repo) w.st.txns w.st.bal ⟨conv, ⟨start, stop⟩⟩ with
    | .ok b => .ok b
    | .err (.commodityNotFound _) => .err "CommodityNotFound"
    | .err (.evalFailed _) => .err "EvalFailed"
    | .err (.conversionFailure _) => .err "CommodityConversionFailure"
    | .panic s => .crash s
    | .fuelOut => .crash "fuelOut"
  | .err _ => .err "CommodityNotFound"
  | _ => .crash "toConversion"

def checkQuery (w : World) (t : Tally) : Sexp → Tally
  | .list [tg, mode, now, s, e, r] =>
    match tg.str?, decDate now, decOpt decDate s, decOpt decDate e, decBRes r with
    | some target, some now, some start, some stop, some impl =>
      let hist := match mode with | .atom "H" => true | _ => false
      let ms := (cfgs ++ [cfgHeap w.repo fuel]).map fun cfg => modelBalance w cfg target hist now start stop
      let best := (ms.map (bresCmp impl)).foldl max 0
      let first := ms.headD (.crash "none")
      let tie := ms.any fun m => bresCmp first m != 2
      if best == 0 then
        let showD := fun (d : Option Date) => (d.map Date.fmtHyphen).getD "-"
        let msg := "at=(" ++ target ++ " " ++ (if hist then "H" else "U") ++ " now=" ++ now.fmtHyphen ++ " start=" ++ showD start ++
          " end=" ++ showD stop ++ ") impl=" ++ impl.toStr ++ " model=" ++ first.toStr
        { t with n := t.n + 1, bad := t.bad.orElse fun _ => some msg }
      else
        { t with n := t.n + 1, ties := t.ties + (if tie then 1 else 0), inexact := t.inexact + (if best == 1 then 1 else 0) }
    | _, _, _, _, _ => { t with bad := some "undecodable query record" }
  | _ => { t with bad := some "undecodable query record" }

def step (line : String) : String :=
  let (id, fs) := splitFields line
  match field fs "tree", field fs "pdb", field fs "result", field fs "qs" with
  | some t, some pdb, some result, some q =>
    match decEntries t, (Sexp.parse pdb).bind decDb, (Sexp.parse result).bind decResult, Sexp.parse q with
    | some es, some db, some (.ok txns bal), some (.list qs) =>
      -- the model parses the price-db TEXT itself (Okane.PriceDbFile) when the harness echoes it; the generator's
      -- structured records are then only a cross-check
      let world : Except String World :=
        match field fs "db" with
        | some dbt =>
          if dbt == "~" then mkWorld es db else
          match Sexp.decode dbt with
          | none => .error "undecodable db text"
          | some text =>
            match mkWorldText es text.toList with
            | .ok (.ok w) =>
              match PriceDbFile.parsePriceDb text.toList with
              | .ok rs => if recsMatch rs db then .ok w else .error "model-parsed price-db records differ from the generator's"
              | _ => .error "price db parses in processPriceDb but not in parsePriceDb"
            | .ok (.error e) => .error ("model rejects the price db the implementation loaded " ++ showErr e)
            | .error e => .error e
        | none => mkWorld es db
      match world with
      | .error e => s!"{id} DISAGREE implementation processed the ledger, {e}"
      | .ok w =>
        if !(listAll2 txnEq w.st.txns txns && balanceEq w.st.bal bal) then
          s!"{id} DISAGREE book-keeping result differs (see `hx process` / C01-C04)"
        else
          let tally := qs.foldl (checkQuery w) {}
          match tally.bad with
          | some b => s!"{id} DISAGREE {b}"
          | none => s!"{id} agree q={tally.n} ties={tally.ties} inexact={tally.inexact}"
    | some _, some _, some _, some _ => s!"{id} skip impl={result.take 80}"
    | _, _, _, _ => s!"{id} undecodable"
  | _, _, _, _ => s!"{id} bad-case"

def main (_args : List String) : IO Unit := forEachLine step

end Okane.Drv.C10
