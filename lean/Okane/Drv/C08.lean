import Okane.Drv.IOUtil
import Okane.Drv.DecodeSyntax
import Okane.Model.ExprSyntax
import Okane.Model.Eval
import Okane.Spec.Expr
/-!
Driver for C08.

`drv c08 model` : line `<position> <enc expr text>` -> the model parser (`ExprSyntax.valueExpr`) on the text the
                  position hands to `value_expr`, then the model evaluator (`evalRo` / `evalMut`) and the position's
                  conversion (`toAmount` / `toPosting` / `toSingle` + zero-rate check):
                  `tree=<sexp | - | partial> res=(ok ((C num/den)...)) | (err KIND..) | (parse-err)`
`drv c08 ref`   : line `<sexp of a ValueExpr>` (the tree the IMPLEMENTATION parsed) -> the reference denotation
                  (`Spec/Expr.lean`): `(num p/q)` | `(com (C p/q)...)` | `(err KIND)` | `(unstratified)`
-/
namespace Okane.Drv.C08
open Okane Okane.ExprSyntax Okane.Spec

def errName : EvalErr → String
  | .unmatchingOperation => "UnmatchingOperation"
  | .unmatchingCommodities => "UnmatchingCommodities"
  | .unknownCommodity => "UnknownCommodity"
  | .divideByZero => "DivideByZero"
  | .numberOverflow => "NumberOverflow"
  | .amountRequired => "AmountRequired"
  | .postingAmountRequired => "PostingAmountRequired"
  | .singleAmountRequired => "SingleAmountRequired"

def sortPairs (xs : List (String × Rat)) : List (String × Rat) :=
  (xs.toArray.qsort fun a b => a.1 < b.1).toList

def showAmount (a : Amount String) : String :=
  "(" ++ " ".intercalate ((sortPairs a).map fun kv => s!"({Sexp.encode kv.1} {ratStr kv.2})") ++ ")"

def showErr (e : EvalErr) : String := s!"(err EvalFailure {errName e})"

/-- the commodity store of the shared `eval` ledger: `commodity A` … `commodity D` -/
def evalStore : Store := ⟨[("A", none), ("B", none), ("C", none), ("D", none)]⟩

def evalPosition (pos : String) (v : VExpr) : String :=
  match pos with
  | "eval" =>
    match evalRo evalStore v with
    | .ok ev => match ev.toAmount with
      | .ok a => s!"(ok {showAmount a})"
      | .err e => showErr e
      | _ => "(crash)"
    | .err e => showErr e
    | _ => "(crash)"
  | "amount" | "balance" =>
    match evalMut evalStore v with
    | .ok (ev, _) => match ev.toPosting with
      | .ok p => s!"(ok {showAmount p.toAmount})"
      | .err e => showErr e
      | _ => "(crash)"
    | .err e => showErr e
    | _ => "(crash)"
  | _ =>
    -- cost / lot: `Exchange::try_from_syntax` on a posting of `1 C`
    match evalMut evalStore v with
    | .ok (ev, _) => match ev.toSingle with
      | .ok s =>
        if s.value = 0 then "(err ZeroExchangeRate)"
        else if s.commodity = "C" then "(err ExchangeWithAmountCommodity)"
        else s!"(ok {showAmount [(s.commodity, s.value * 1)]})"
      | .err e => showErr e
      | _ => "(crash)"
    | .err e => showErr e
    | _ => "(crash)"

def modelRec (pos : String) (text : List Char) : String :=
  let suffix : List Char := match pos with
    | "eval" => []
    | "lot" => "}\n".toList
    | _ => ['\n']
  -- every ledger position is preceded by `space0` in parse/posting.rs; `Ledger::eval` parses from the first character
  let text := if pos == "eval" then text else skipSpaces text
  match parseValueExpr (text ++ suffix) with
  | .ok v rest =>
    if skipSpaces rest == suffix then s!"tree={(encVExpr v).toStr} res={evalPosition pos v}"
    else if pos == "eval" then "tree=- res=(parse-err)"
    else "tree=partial res=(partial)"
  | .fail _ => "tree=- res=(parse-err)"
  | .fuelOut => "tree=fuel res=(fuel)"

def showRVal : RVal → String
  | .num r => s!"(num {ratStr r})"
  | .com ks f =>
    let ks' := (ks.eraseDups.toArray.qsort (· < ·)).toList
    "(com " ++ " ".intercalate (ks'.map fun k => s!"({Sexp.encode k} {ratStr (f k)})") ++ ")"

def refRec (line : String) : String :=
  match Sexp.parse line with
  | none => "bad-case"
  | some sx =>
    match decVExpr sx with
    | none => "bad-case"
    | some v =>
      match ofVExpr v with
      | none => "(unstratified)"
      | some t =>
        match t.den (fun c => some c) with
        | .ok r => showRVal r
        | .err e => s!"(err {errName e})"
        | _ => "(crash)"

def main (args : List String) : IO Unit :=
  match args with
  | ["ref"] => forEachLine refRec
  | _ => forEachLine fun line =>
    match words line with
    | [p, t] => match Sexp.decode t with
      | some s => modelRec p s.toList
      | none => "bad-case"
    | _ => "bad-case"

end Okane.Drv.C08
