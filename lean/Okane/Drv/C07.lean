import Okane.Drv.IOUtil
import Okane.Model.ExprSyntax
import Okane.Spec.Literal
import Okane.Base.Num
import Okane.Model.ImportCsvCells
/-!
Driver for C07.

`drv c07 lit`  : line `<enc text>`             -> model of `PrettyDecimal::from_str` + `to_string`
`drv c07 pos`  : line `<position> <enc text>`  -> the model's expression / amount parser on the text the position
                 hands to it (`<lit> USD` followed by what the template puts after it)
`drv c07 spec` : line `<enc text>`             -> the executable *statement* (`Spec/Literal.lean`), for cross-checking
                 the python oracle: `wf=<0|1> rep=<0|1> value=<num/den> scale=<n> grouped=<0|1>`
Records as in `harness/src/c07.rs`; `partial` = the model parser stopped before the end of the literal (no prediction).
-/
namespace Okane.Drv.C07
open Okane Okane.Literal Okane.ExprSyntax

def fmtTag : Option Fmt → String
  | none => "n"
  | some .plain => "p"
  | some .comma3dot => "c"

def showDec (d : PDec) : String :=
  s!"(dec {if d.neg then 1 else 0} {d.mant} {d.scale} {fmtTag d.fmt})"

def okRec (d : PDec) : String := s!"ok {showDec d} print={Sexp.encode (String.ofList (printPDec d))}"

def litRec (s : List Char) : String :=
  match scan s with
  | .ok d => okRec d
  | .err (.unexpectedChar i) => s!"err UnexpectedChar {i}"
  | .err (.commaRequired i) => s!"err CommaRequired {i}"
  | .err (.unexpectedEnd n) => s!"err UnexpectedEnd {n}"
  | .err .invalidDecimal => "err InvalidDecimal"
  | .panic p => s!"panic {Sexp.encode p}"
  | .fuelOut => "fuel"

def posRec (pos : String) (lit : List Char) : String :=
  let usd := " USD".toList
  let want := if pos == "bare" || pos == "barebal" || pos == "factor" then "" else "USD"
  let finishV (r : PRes VExpr) (suffix : List Char) (pick : VExpr → Option (PDec × String)) : String :=
    match r with
    | .ok v rest =>
      match pick v with
      | some (d, c) => if c == want && rest == suffix then okRec d else "partial"
      | none => "partial"
    | .fail _ => "parse-err"
    | .fuelOut => "fuel"
  let plain : VExpr → Option (PDec × String)
    | .amt d c => some (d, c)
    | _ => none
  match pos with
  | "paren" =>
    let t := '(' :: lit ++ usd ++ ")\n".toList
    finishV (parseValueExpr t) ['\n'] fun
      | .paren (.val (.amt d c)) => some (d, c)
      | _ => none
  | "neg" =>
    let t := "(-".toList ++ lit ++ usd ++ ")\n".toList
    finishV (parseValueExpr t) ['\n'] fun
      | .paren (.neg (.val (.amt d c))) => some (d, c)
      | _ => none
  | "lot" => finishV (parseValueExpr (lit ++ usd ++ "}\n".toList)) "}\n".toList plain
  | "lottotal" => finishV (parseValueExpr (lit ++ usd ++ "}}\n".toList)) "}}\n".toList plain
  | "format" | "pricedb" => finishV (amount (lit ++ usd ++ ['\n'])) ['\n'] plain
  | "tryfrom" | "tryfromneg" =>
    -- the library entry `expr::Amount::try_from` (`unary_amount`), modelled in Model/ImportCsvCells.lean
    let t := (if pos == "tryfromneg" then ['-'] else []) ++ lit ++ usd
    match Okane.Import.Cells.cellAmount t with
    | some (d, c) => if c == "USD".toList then okRec d else "partial"
    | none => "parse-err"
  | "bare" | "barebal" => finishV (parseValueExpr (lit ++ ['\n'])) ['\n'] plain
  | "factor" =>
    let t := '(' :: lit ++ " * 2 USD)\n".toList
    finishV (parseValueExpr t) ['\n'] fun
      | .paren (.bin .mul (.val (.amt d c)) _) => some (d, c)
      | _ => none
  | _ => finishV (parseValueExpr (lit ++ usd ++ ['\n'])) ['\n'] plain

def specRec (s : List Char) : String :=
  let b (x : Bool) := if x then "1" else "0"
  s!"wf={b (Spec.WellFormedLiteral s)} rep={b (Spec.Representable s)} value={ratStr (Spec.litValue s)} scale={Spec.litScale s} grouped={b (Spec.hasThousands s)}"

def main (args : List String) : IO Unit :=
  match args with
  | ["pos"] => forEachLine fun line =>
    match words line with
    | [p, t] => match Sexp.decode t with
      | some s => posRec p s.toList
      | none => "bad-case"
    | _ => "bad-case"
  | ["spec"] => forEachLine fun line =>
    match Sexp.decode line.trimAscii.toString with
    | some s => specRec s.toList
    | none => "bad-case"
  | _ => forEachLine fun line =>
    match Sexp.decode line.trimAscii.toString with
    | some s => litRec s.toList
    | none => "bad-case"

end Okane.Drv.C07
