import Okane.Drv.IOUtil
import Okane.Drv.DecodeSyntax
import Okane.Spec.Import
import Okane.Drv.Viseca
/-!
Driver for C15.

`drv c15 txn` — line (same as `hx c15 txn`):
   `(txn (d Y M D) <payee> (amt NEG MANT SCALE <commodity>) <src-account> ((<commodity> PREC)...) <op>...)`
   `<op>` = `(eff (d Y M D))` `(code s)` `(comment s)` `(dest s)` `(clear u|c|p)` `(transferred amt)`
            `(rate <source> <target> (dec NEG MANT SCALE))` `(balance amt)` `(charge <payee> amt)` `(chargeni <payee> amt)`
   → `(ok <txn-tree> clean=0|1 readable=0|1)` | `(err builder <Kind>)` | `(err to_double_entry <Kind>)`
   where the tree is in the format of harness/src/tree.rs, `clean` is `CleanText` of the record and
   `readable` is `ReadableTree` of the tree.
`drv c15 readable` — line: a `<txn-tree>` → `readable=0|1` (`ReadableTree` evaluated on a tree the real importer built).
`drv c15 viseca` — the Viseca statement model on the lines of a statement (`Drv/Viseca.lean`).
`drv c15 csv` — the CSV importer model on the cells of a statement, number cells and templates decoded by the MODEL from their
   text (`Cells.cellEnv`, `Cells.decodePos`); shared with `drv c17 csv`, see `Drv/C17.lean` (`csvStep`).
-/
namespace Okane.Drv.C15
open Okane Okane.Import Okane.Drv Sexp

def decDec (n m s : Sexp) : Option Dec := do
  let n ← n.nat?; let m ← m.nat?; let s ← s.nat?
  pure ⟨n == 1, m, s⟩

def decAmt : Sexp → Option OwnedAmount
  | .list [.atom "amt", n, m, s, c] => do
    let d ← decDec n m s; let c ← c.str?
    pure ⟨d, c⟩
  | _ => none

inductive StepRes where
  | bad
  | err (e : ImportErr)
  | ok (t : Txn)

def applyOp (t : Txn) : Sexp → StepRes
  | .list [.atom "eff", d] => match decDate d with | some d => .ok (t.setEffectiveDate d) | none => .bad
  | .list [.atom "code", s] => match s.str? with | some s => .ok (t.setCode s) | none => .bad
  | .list [.atom "comment", s] => match s.str? with | some s => .ok (t.addComment s) | none => .bad
  | .list [.atom "dest", s] => match s.str? with | some s => .ok (t.setDestAccount s) | none => .bad
  | .list [.atom "clear", c] => match decClear c with | some c => .ok (t.setClearState c) | none => .bad
  | .list [.atom "transferred", a] => match decAmt a with | some a => .ok (t.setTransferredAmount a) | none => .bad
  | .list [.atom "balance", a] => match decAmt a with | some a => .ok (t.setBalance a) | none => .bad
  | .list [.atom "charge", p, a] =>
    match p.str?, decAmt a with | some p, some a => .ok (t.addCharge p a) | _, _ => .bad
  | .list [.atom "chargeni", p, a] =>
    match p.str?, decAmt a with
    | some p, some a => (match t.tryAddChargeNotIncluded p a with | .ok t => .ok t | .err e => .err e | _ => .bad)
    | _, _ => .bad
  | .list [.atom "rate", src, tgt, .list [.atom "dec", n, m, s]] =>
    match src.str?, tgt.str?, decDec n m s with
    | some src, some tgt, some d => (match t.addRate ⟨src, tgt⟩ d with | .ok t => .ok t | .err e => .err e | _ => .bad)
    | _, _, _ => .bad
  | _ => .bad

def applyOps (t : Txn) : List Sexp → StepRes
  | [] => .ok t
  | op :: rest => match applyOp t op with
    | .ok t => applyOps t rest
    | r => r

def b01 (b : Bool) : String := if b then "1" else "0"

def txnStep (line : String) : String :=
  match Sexp.parse line with
  | some (.list (.atom "txn" :: d :: payee :: amt :: src :: _prec :: ops)) =>
    match decDate d, payee.str?, decAmt amt, src.str? with
    | some d, some payee, some amt, some src =>
      match applyOps (Txn.new d payee amt) ops with
      | .bad => "(bad-case)"
      | .err e => s!"(err builder {e.kind})"
      | .ok t =>
        match t.toDoubleEntry src with
        | .ok tr => s!"(ok {(encTxn tr).toStr} clean={b01 (CleanText t src)} readable={b01 (ReadableTree tr)})"
        | .err e => s!"(err to_double_entry {e.kind})"
        | _ => "(crash)"
    | _, _, _, _ => "(bad-case)"
  | _ => "(bad-case)"

def readableStep (line : String) : String :=
  match (Sexp.parse line).bind decTxn with
  | some tr => s!"readable={b01 (ReadableTree tr)}"
  | none => "(bad-case)"

def main (args : List String) : IO Unit :=
  match args with
  | "txn" :: _ => forEachLine txnStep
  | "readable" :: _ => forEachLine readableStep
  | "viseca" :: _ => Okane.Drv.Viseca.main
  | "csv" :: _ => forEachLine Okane.Drv.C17.csvStep
  | _ => forEachLine fun _ => "(bad-mode)"

end Okane.Drv.C15
