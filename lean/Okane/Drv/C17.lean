import Okane.Drv.IOUtil
/-! Driver commands for C17 (stub: replaced when the property's streams are built). -/
namespace Okane.Drv.C17

def main (args : List String) : IO Unit := do
  let _ := args
  pure ()

end Okane.Drv.C17
