import Okane.Drv.IOUtil
import Okane.Drv.DecodeSyntax
import Okane.Spec.Import
import Okane.Model.ImportCsvCells
import Okane.Model.ImportLedger
/-!
Driver for C17.

`drv c17 select` — line: `(case <file-path> (<doc>...))` → `(some <entry>)` | `(none)` | `(err select <Kind>)`
`drv c17 rules`  — line: `(case (<rule>...) (<rec>...) (<tab>...))` →
      `(ok (frags <frag>...) (given <frag>))` : every fragment the fold can produce over all iteration orders of the
      field maps (sorted text order, deduplicated), and the one for the order as written; or `(table-incomplete <pat> <text>)`.

`drv c17 csv` (also `drv c15 csv`) — the CSV importer MODEL on the cells of a statement, number cells and templates decoded
      by the model itself from their TEXT (`Cells.cellEnv` = the model of `str_to_comma_decimal`, `Cells.decodePos` = the model
      of `Template::from_str`); chrono and the regex engine stay tables handed over by the harness (`hx c15 csv`):
      line: `(case <entry> (pats (<pattern> 0|1)...) (table <tab>...) (cells (<cell>...) (<cell>...)...) (dates (<cell> (d Y M D))...))`
      (first cell list = header) → `(ok (import <I>))`, `<I>` = `(ok <txn-tree>...)` | `(err import <Kind> ~)` |
      `(err to_double_entry <Kind> ~)` | `(panic <site>)`; or `(table-incomplete <pattern> <text>)`.

Forms (text atoms percent-encoded):
  conv   := (conv extract|compute <opt text> sec|pri 0|1)
  fm     := ((<field-name> <pattern>)...)
  matcher:= (or <fm>...) | (field <fm>)
  rule   := (rule <matcher> 0|1 <opt payee> <opt account> <opt conv>)
  format := (format <date> ((<commodity> <precision>)...) ((<key> (i N)|(l text)|(t text))...) <delimiter> <skip> o2n|n2o)
  ccfg   := (prim <text>) | (spec <text> <conv>)
  doc    := (doc <path> <opt encoding> <opt account> <opt a|l> <opt operator> <opt ccfg> <opt format> (<rule>...))
  entry  := (entry <path> <encoding> <account> a|l <opt operator> (spec <text> <conv>) <format> (<rule>...))
  rec    := (<field-name> P <opt text>) | (<field-name> T 0|1 <opt text>) | (<field-name> C <opt text>)
  tab    := (<pattern> <text> n) | (<pattern> <text> (m <opt payee> <opt code>))
  frag   := (frag 0|1 <opt payee> <opt account> <opt code> <opt conv>)
where `<opt x>` is `()` or `(x)`.  Maps are printed sorted by key.
-/
namespace Okane.Drv.C17
open Okane Okane.Import Sexp

def decOpt {α} (f : Sexp → Option α) : Sexp → Option (Option α)
  | .list [] => some none
  | .list [x] => (f x).map some
  | _ => none

def encOpt {α} (f : α → Sexp) : Option α → Sexp
  | none => .list []
  | some x => .list [f x]

def decBool : Sexp → Option Bool
  | .atom "0" => some false
  | .atom "1" => some true
  | _ => none

def encBool (b : Bool) : Sexp := .atom (if b then "1" else "0")

def decConv : Sexp → Option Conversion
  | .list [.atom "conv", a, c, r, d] => do
    let a ← match a with | .atom "extract" => some ConvAmountMode.extract | .atom "compute" => some .compute | _ => none
    let c ← decOpt Sexp.str? c
    let r ← match r with | .atom "sec" => some ConvRateMode.priceOfSecondary | .atom "pri" => some .priceOfPrimary | _ => none
    let d ← decBool d
    pure ⟨a, c, r, d⟩
  | _ => none

def encConv (c : Conversion) : Sexp :=
  tagged "conv" [.atom (match c.amount with | .extract => "extract" | .compute => "compute"),
    encOpt mkStr c.commodity, .atom (match c.rate with | .priceOfSecondary => "sec" | .priceOfPrimary => "pri"),
    encBool c.disabled]

def decFM : Sexp → Option FieldMatcher
  | .list xs => do
    let fs ← xs.mapM fun
      | .list [.atom f, p] => do
        let f ← Field.ofName? f; let p ← p.str?
        pure (f, p)
      | _ => none
    pure ⟨fs⟩
  | _ => none

def sortBy {α} (key : α → String) (xs : List α) : List α := xs.mergeSort (fun a b => decide (key a ≤ key b))

def encFM (m : FieldMatcher) : Sexp :=
  .list ((sortBy (fun (fp : Field × String) => fp.1.name) m.fields).map fun fp => .list [.atom fp.1.name, mkStr fp.2])

def decMatcher : Sexp → Option Matcher
  | .list (.atom "or" :: ms) => (ms.mapM decFM).map .or
  | .list [.atom "field", m] => (decFM m).map .field
  | _ => none

def encMatcher : Matcher → Sexp
  | .or ms => tagged "or" (ms.map encFM)
  | .field m => tagged "field" [encFM m]

def decRule : Sexp → Option Rule
  | .list [.atom "rule", m, p, py, ac, cv] => do
    let m ← decMatcher m; let p ← decBool p
    let py ← decOpt Sexp.str? py; let ac ← decOpt Sexp.str? ac; let cv ← decOpt decConv cv
    pure ⟨m, p, py, ac, cv⟩
  | _ => none

def encRule (r : Rule) : Sexp :=
  tagged "rule" [encMatcher r.matcher, encBool r.pending, encOpt mkStr r.payee, encOpt mkStr r.account,
    encOpt encConv r.conversion]

def decPos : Sexp → Option FieldPos
  | .list [.atom "i", n] => n.nat?.map .index
  | .list [.atom "l", s] => s.str?.map .label
  | .list [.atom "t", s] => s.str?.map .template
  | _ => none

def encPos : FieldPos → Sexp
  | .index n => tagged "i" [mkNat n]
  | .label s => tagged "l" [mkStr s]
  | .template s => tagged "t" [mkStr s]

def decFormat : Sexp → Option FormatSpec
  | .list [.atom "format", d, .list cs, .list fs, dl, sk, ro] => do
    let d ← d.str?
    let cs ← cs.mapM fun
      | .list [c, n] => do let c ← c.str?; let n ← n.nat?; pure (c, n)
      | _ => none
    let fs ← fs.mapM fun
      | .list [.atom k, p] => do let k ← FieldKey.ofName? k; let p ← decPos p; pure (k, p)
      | _ => none
    let dl ← dl.str?; let sk ← sk.int?
    let ro ← match ro with | .atom "o2n" => some RowOrder.oldToNew | .atom "n2o" => some .newToOld | _ => none
    pure ⟨d, cs, fs, dl, sk, ro⟩
  | _ => none

def encFormat (f : FormatSpec) : Sexp :=
  tagged "format" [mkStr f.date,
    .list ((sortBy (fun (kv : String × Nat) => kv.1) f.commodity).map fun kv => .list [mkStr kv.1, mkNat kv.2]),
    .list ((sortBy (fun (kv : FieldKey × FieldPos) => kv.1.name) f.fields).map fun kv => .list [.atom kv.1.name, encPos kv.2]),
    mkStr f.delimiter, mkInt f.skipHead, .atom (match f.rowOrder with | .oldToNew => "o2n" | .newToOld => "n2o")]

def decCCfg : Sexp → Option CommodityConfig
  | .list [.atom "prim", s] => s.str?.map .primaryCommodity
  | .list [.atom "spec", s, c] => do let s ← s.str?; let c ← decConv c; pure (.spec ⟨s, c⟩)
  | _ => none

def decAT : Sexp → Option AccountType
  | .atom "a" => some .asset
  | .atom "l" => some .liability
  | _ => none

def decDoc : Sexp → Option ConfigFragment
  | .list [.atom "doc", p, e, a, t, o, c, f, .list rs] => do
    let p ← p.str?; let e ← decOpt Sexp.str? e; let a ← decOpt Sexp.str? a; let t ← decOpt decAT t
    let o ← decOpt Sexp.str? o; let c ← decOpt decCCfg c; let f ← decOpt decFormat f; let rs ← rs.mapM decRule
    pure ⟨p, e, a, t, o, c, f, rs⟩
  | _ => none

def encEntry (e : ConfigEntry) : Sexp :=
  tagged "entry" [mkStr e.path, mkStr e.encoding, mkStr e.account,
    .atom (match e.accountType with | .asset => "a" | .liability => "l"), encOpt mkStr e.operator,
    tagged "spec" [mkStr e.commodity.primary, encConv e.commodity.conversion], encFormat e.format,
    .list (e.rewrite.map encRule)]

def selectStep (line : String) : String :=
  match Sexp.parse line with
  | some (.list [.atom "case", p, .list ds]) =>
    match p.str?, ds.mapM decDoc with
    | some path, some docs =>
      match select docs path with
      | .ok none => "(none)"
      | .ok (some e) => (tagged "some" [encEntry e]).toStr
      | .err e => s!"(err select {e.kind})"
      | _ => "(crash)"
    | _, _ => "(bad-case)"
  | _ => "(bad-case)"

/-! ## rules -/

def decRec (xs : List Sexp) : Option (List (Field × FieldKind)) :=
  xs.mapM fun
    | .list [.atom f, .atom "P", v] => do let f ← Field.ofName? f; let v ← decOpt Sexp.str? v; pure (f, .payee v)
    | .list [.atom f, .atom "T", k, v] => do
      let f ← Field.ofName? f; let k ← decBool k; let v ← decOpt Sexp.str? v; pure (f, .text v k)
    | .list [.atom f, .atom "C", v] => do let f ← Field.ofName? f; let v ← decOpt Sexp.str? v; pure (f, .code v)
    | _ => none

def mkRecord (kinds : List (Field × FieldKind)) : Record := fun f =>
  match kinds.find? (fun kv => kv.1 == f) with
  | some kv => kv.2
  | none => .text none true

abbrev Table := List ((String × String) × Option Matched)

def decTab (xs : List Sexp) : Option Table :=
  xs.mapM fun
    | .list [p, h, .atom "n"] => do let p ← p.str?; let h ← h.str?; pure ((p, h), none)
    | .list [p, h, .list [.atom "m", py, cd]] => do
      let p ← p.str?; let h ← h.str?; let py ← decOpt Sexp.str? py; let cd ← decOpt Sexp.str? cd
      pure ((p, h), some ⟨py, cd⟩)
    | _ => none

/-- the regex engine's verdicts as handed over by the harness -/
def tableCaptures (t : Table) : Captures := fun pat hay =>
  match t.find? (fun e => e.1.1 == pat && e.1.2 == hay) with
  | some e => e.2
  | none => none

def encFrag (f : Fragment) : Sexp :=
  tagged "frag" [encBool f.cleared, encOpt mkStr f.payee, encOpt mkStr f.account, encOpt mkStr f.code,
    encOpt encConv f.conversion]

def dedup {α} [BEq α] (xs : List α) : List α := xs.foldl (fun acc x => if acc.contains x then acc else acc ++ [x]) []

/-- all orders of a list -/
def perms {α} : List α → List (List α)
  | [] => [[]]
  | x :: xs => (perms xs).flatMap fun p => (List.range (p.length + 1)).map fun i => p.take i ++ x :: p.drop i

/-- what one field matcher can return over all iteration orders of its map -/
def andSet (cap : Captures) (r : Record) (m : FieldMatcher) (cur : Fragment) : List (Option Fragment) :=
  dedup ((perms m.fields).map fun fs => andExtract cap r fs cur)

/-- what an OR-list can return: each element has its own map, hence its own order -/
def orSet (cap : Captures) (r : Record) : List FieldMatcher → Fragment → List (Option Fragment)
  | [], _ => [none]
  | m :: rest, cur =>
    let s := andSet cap r m cur
    let somes := s.filter Option.isSome
    if s.contains none then dedup (somes ++ orSet cap r rest cur) else somes

def stepSet (cap : Captures) (r : Record) (frags : List Fragment) (rule : Rule) : List Fragment :=
  dedup (frags.flatMap fun f =>
    (orSet cap r rule.matcher.elements f).map fun
      | some u => f.addAssign (ruleFinish rule u)
      | none => f)

def extractSet (cap : Captures) (rules : List Rule) (r : Record) : List Fragment :=
  rules.foldl (stepSet cap r) [{}]

/-- the first (pattern, text) pair the fold could look at that the table does not decide -/
def tableGap (rules : List Rule) (kinds : List (Field × FieldKind)) (t : Table) : Option (String × String) :=
  let r := mkRecord kinds
  let pats := rules.flatMap fun rule => rule.matcher.elements.flatMap fun m =>
    m.fields.filterMap fun fp => match r fp.1 with | .code _ => none | _ => some fp.2
  let hays := kinds.filterMap (fun kv => match kv.2 with | .payee v => v | .text v _ => v | .code _ => none)
    ++ rules.filterMap (·.payee)
    ++ t.filterMap (fun e => e.2.bind (·.payee))
  (pats.flatMap fun p => hays.map fun h => (p, h)).find? fun ph => !(t.any fun e => e.1.1 == ph.1 && e.1.2 == ph.2)

def rulesStep (line : String) : String :=
  match Sexp.parse line with
  | some (.list [.atom "case", .list rs, .list rec, .list tab]) =>
    match rs.mapM decRule, decRec rec, decTab tab with
    | some rules, some kinds, some table =>
      match tableGap rules kinds table with
      | some (p, h) => s!"(table-incomplete {Sexp.encode p} {Sexp.encode h})"
      | none =>
        let cap := tableCaptures table
        let r := mkRecord kinds
        let all := (extractSet cap rules r).map fun f => (encFrag f).toStr
        let all := all.mergeSort (fun a b => decide (a ≤ b))
        let given := (encFrag (extract cap rules r)).toStr
        let m := matching cap rules r
        s!"(ok (frags {" ".intercalate all}) (given {given}) (matching {m.length}))"
    | _, _, _ => "(bad-case)"
  | _ => "(bad-case)"

/-! ## csv: the importer model from the TEXT of the cells -/

def decEntry : Sexp → Option ConfigEntry
  | .list [.atom "entry", p, e, a, t, o, .list [.atom "spec", prim, cv], f, .list rs] => do
    let p ← p.str?; let e ← e.str?; let a ← a.str?; let t ← decAT t
    let o ← decOpt Sexp.str? o; let prim ← prim.str?; let cv ← decConv cv; let f ← decFormat f
    let rs ← rs.mapM decRule
    pure ⟨p, e, a, t, o, ⟨prim, cv⟩, f, rs⟩
  | _ => none

/-- the part of the configuration `csv::import` reads; template texts go through the MODEL's template parser -/
def csvCfgOf (e : ConfigEntry) : CsvCfg :=
  { account := e.account, accountType := e.accountType, operator := e.operator, primary := e.commodity.primary,
    conversion := e.commodity.conversion, rowOrder := e.format.rowOrder,
    fields := e.format.fields.map fun kv => (kv.1, Cells.decodePos kv.2), rewrite := e.rewrite }

def decCellRow : Sexp → Option (List String)
  | .list xs => xs.mapM Sexp.str?
  | _ => none

def decDates (xs : List Sexp) : Option (List (String × Date)) :=
  xs.mapM fun
    | .list [c, d] => do let c ← c.str?; let d ← Drv.decDate d; pure (c, d)
    | _ => none

def decPatFlags (xs : List Sexp) : Option (List (String × Bool)) :=
  xs.mapM fun
    | .list [p, v] => do let p ← p.str?; let v ← decBool v; pure (p, v)
    | _ => none

/-- `csv::import` after decoding, in the order of the Rust: field map, then the extractor (patterns must compile, fields must
be ones the CSV matcher knows), then the records -/
def csvModel (env : CsvEnv) (cfg : CsvCfg) (validPattern : String → Bool) (hdr : List String) (recs : List (List String)) :
    Outcome ImportErr (List Txn) :=
  match FieldMap.tryNew cfg.fields hdr with
  | .ok _ =>
    match checkRules .csv validPattern (fun _ _ => true) cfg.rewrite with
    | .ok () => csvImport env cfg hdr recs
    | .err e => .err e
    | .panic s => .panic s
    | .fuelOut => .fuelOut
  | .err e => .err e
  | .panic s => .panic s
  | .fuelOut => .fuelOut

/-- the first (pattern, text) the rules could look at on some record that the table does not decide -/
def csvTableGap (env : CsvEnv) (cfg : CsvCfg) (hdr : List String) (recs : List (List String)) (t : Table) :
    Option (String × String) :=
  match FieldMap.tryNew cfg.fields hdr with
  | .ok fm =>
    recs.findSome? fun rec =>
      match readRow env cfg fm rec with
      | .ok (some v) =>
        tableGap cfg.rewrite [(Field.payee, FieldKind.payee (some v.payee)), (Field.category, FieldKind.text v.category false),
          (Field.secondaryCommodity, FieldKind.text v.secondaryCommodity false)] t
      | _ => none
  | _ => none

def csvStep (line : String) : String :=
  match Sexp.parse line with
  | some (.list [.atom "case", cfg, .list (.atom "pats" :: pats), .list (.atom "table" :: tab), .list (.atom "cells" :: rows),
                 .list (.atom "dates" :: dates)]) =>
    match decEntry cfg, decPatFlags pats, decTab tab, rows.mapM decCellRow, decDates dates with
    | some entry, some pats, some table, some (hdr :: recs), some dates =>
      let cfg := csvCfgOf entry
      let env := Cells.cellEnv (fun s => (dates.find? fun e => e.1 == s).map (·.2)) (tableCaptures table)
      let valid := fun p => match pats.find? (fun pv => pv.1 == p) with | some pv => pv.2 | none => true
      let gap := if pats.any (fun pv => !pv.2) then none else csvTableGap env cfg hdr recs table
      match gap with
      | some (p, h) => s!"(table-incomplete {Sexp.encode p} {Sexp.encode h})"
      | none =>
        let imp :=
          match csvModel env cfg valid hdr recs with
          | .ok ts =>
            (match ledgerOf cfg.account ts with
             | .ok trs => tagged "ok" (trs.map Drv.encTxn)
             | .err e => tagged "err" [.atom "to_double_entry", .atom e.kind, .atom "~"]
             | .panic s => tagged "panic" [mkStr s]
             | .fuelOut => .atom "(fuel-out)")
          | .err e => tagged "err" [.atom "import", .atom e.kind, .atom "~"]
          | .panic s => tagged "panic" [mkStr s]
          | .fuelOut => .atom "(fuel-out)"
        (tagged "ok" [tagged "import" [imp]]).toStr
    | _, _, _, _, _ => "(bad-case)"
  | _ => "(bad-case)"

def main (args : List String) : IO Unit :=
  match args with
  | "select" :: _ => forEachLine selectStep
  | "rules" :: _ => forEachLine rulesStep
  | "csv" :: _ => forEachLine csvStep
  | _ => forEachLine fun _ => "(bad-mode)"

end Okane.Drv.C17
