import Okane.Drv.IOUtil
import Okane.Drv.DecodeSyntax
import Okane.Model.Print
/-!
Driver for C19 (printer model).

* `drv c19 print`  — case: `(precs (C N) ...) (e1 e2 ...)` (entries in the format of harness/src/tree.rs);
                     output `out=<enc>`: `Okane.Print.formatEntries prec entries`.
* `drv c19 width`  — case: blank separated hex code points; output `cp:w` per code point (`Okane.Print.widthCjk`),
                     `cp:-` for a code point outside `inWidthTable`.
* `drv c19 ranges` — one line per input line: the domain of the width table, `lo-hi` (hex) blank separated.
-/
namespace Okane.Drv.C19
open Okane Okane.Print

def decPrecs : Sexp → Option (List (String × Nat))
  | .list (.atom "precs" :: ps) => ps.mapM fun
    | .list [c, n] => do
      let c ← c.str?; let n ← n.nat?
      pure (c, n)
    | _ => none
  | _ => none

/-- `precisions.get(commodity).unwrap_or(0)` -/
def precOf (ps : List (String × Nat)) (c : String) : Nat :=
  match ps.find? (·.1 == c) with
  | some p => p.2
  | none => 0

def stepPrint (line : String) : String :=
  match Sexp.parse ("(" ++ line ++ ")") with
  | some (.list [ps, es]) =>
    match decPrecs ps, decList decEntry es with
    | some ps, some es => "out=" ++ Sexp.encode (String.ofList (formatEntries (precOf ps) es))
    | none, _ => "bad-case precs"
    | _, none => "bad-case tree"
  | _ => "bad-case sexp"

def hexVal? (s : String) : Option Nat :=
  s.toList.foldlM (fun acc c => (Sexp.hexVal c).map (acc * 16 + ·)) 0

def stepWidth (line : String) : String :=
  " ".intercalate <| (words line).map fun wd =>
    match hexVal? wd with
    | some n =>
      let c := Char.ofNat n
      if c.toNat == n && inWidthTable c then s!"{wd}:{widthCjk c}" else s!"{wd}:-"
    | none => s!"{wd}:-"

def toHex (n : Nat) : String := String.ofList (Nat.toDigits 16 n)

def stepRanges (_ : String) : String :=
  " ".intercalate (tableRanges.map fun r => s!"{toHex r.1}-{toHex r.2}")

def main (args : List String) : IO Unit :=
  match args with
  | ["print"] => forEachLine stepPrint
  | ["width"] => forEachLine stepWidth
  | ["ranges"] => forEachLine stepRanges
  | _ => IO.eprintln "usage: drv c19 print|width|ranges"

end Okane.Drv.C19
