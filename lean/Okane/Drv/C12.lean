import Okane.Drv.IOUtil
/-! Driver commands for C12 (stub: replaced when the property's streams are built). -/
namespace Okane.Drv.C12

def main (args : List String) : IO Unit := do
  let _ := args
  pure ()

end Okane.Drv.C12
