import Okane.Drv.Core
import Okane.Spec.Alias
/-!
Driver for C12.  `drv c12 pair`: input = output lines of `hx c12 pair`
(`<id> to=<tree> ro=<result> go=<register> [ts=<tree> rs=<result> gs=<register>] bin=..`).
Output: `<id> mo=<v> [ms=<v> same=<yes|no> rel=<yes|no>] canon=<yes|no:name>`
  mo / ms : the model's `process` on the implementation's parsed tree vs. the implementation's result (original / substituted)
  same    : the model's results for the two ledgers are equal (the instance of theorem `C12_transparent_decl`)
  rel     : the two trees are entry-by-entry the same up to respelling of names through the model's context at that point
            (`EntriesRel`, evaluated) — i.e. the pair really is inside the theorem's hypothesis
  canon   : `C12_canonical` evaluated on the implementation's result: every account / commodity name it reports is a
            canonical record of the model's final context, never an alias key
-/
namespace Okane.Drv.C12
open Okane Okane.Drv Sexp

def sameName (s : Store) (x y : String) : Bool :=
  x == y || (match s.resolve x, s.resolve y with
    | some a, some b => a == b
    | _, _ => false)

def sameComm (s : Store) (x y : String) : Bool :=
  x == y || (!x.isEmpty && !y.isEmpty && sameName s x y)

mutual
partial def exprRelB (s : Store) : Expr → Expr → Bool
  | .neg a, .neg b => exprRelB s a b
  | .bin o l r, .bin o' l' r' => o == o' && exprRelB s l l' && exprRelB s r r'
  | .val v, .val v' => vexprRelB s v v'
  | _, _ => false
partial def vexprRelB (s : Store) : VExpr → VExpr → Bool
  | .paren a, .paren b => exprRelB s a b
  | .amt v c, .amt v' c' => v == v' && sameComm s c c'
  | _, _ => false
end

def exchRelB (s : Store) : Exchange → Exchange → Bool
  | .total a, .total b => vexprRelB s a b
  | .rate a, .rate b => vexprRelB s a b
  | _, _ => false

def optRelB {α} (r : α → α → Bool) : Option α → Option α → Bool
  | none, none => true
  | some a, some b => r a b
  | _, _ => false

def postingRelB (c : Ctx) (p q : Posting) : Bool :=
  sameName c.accounts p.account q.account && p.clear == q.clear &&
  optRelB (fun a b => vexprRelB c.commodities a.amount b.amount && optRelB (exchRelB c.commodities) a.cost b.cost &&
      optRelB (exchRelB c.commodities) a.lot.price b.lot.price && a.lot.date == b.lot.date && a.lot.note == b.lot.note)
    p.amount q.amount &&
  optRelB (vexprRelB c.commodities) p.balance q.balance && p.metadata == q.metadata

def entryRelB (c : Ctx) : Entry → Entry → Bool
  | .txn t, .txn u => t.date == u.date && t.payee == u.payee && listAll2 (postingRelB c) t.posts u.posts
  | e, e' => e == e'

/-- `EntriesRel`, evaluated along the model's run of the original ledger. -/
def entriesRelB : ProcState → List Entry → List Entry → Bool
  | _, [], [] => true
  | st, e :: es, e' :: es' =>
    entryRelB st.ctx e e' &&
      (match stepEntry st e with
       | .ok st' => entriesRelB st' es es'
       | _ => true)
  | _, _, _ => false

/-- names reported by the implementation: accounts and commodities of transactions and balances. -/
def reportedNames : ImplResult → List String × List String
  | .ok ts b =>
    let accs := ts.flatMap (fun t => t.postings.map (·.account)) ++ b.map (·.1)
    let comms := ts.flatMap (fun t => t.postings.flatMap fun p =>
        p.amount.map (·.1) ++ (match p.converted with | some s => [s.commodity] | none => [])) ++
      b.flatMap (fun kv => kv.2.map (·.1))
    (accs, comms)
  | _ => ([], [])

def canonCheck (m : Outcome (Nat × BkErrS) ProcState) (impl : ImplResult) : String :=
  match m with
  | .ok st =>
    let (accs, comms) := reportedNames impl
    match accs.find? (fun a => AMap.get? st.ctx.accounts.recs a != some none) with
    | some a => "no:account:" ++ Sexp.encode a
    | none =>
      match comms.find? (fun c => AMap.get? st.ctx.commodities.recs c != some none) with
      | some c => "no:commodity:" ++ Sexp.encode c
      | none => "yes"
  | _ => "yes"

def verdict (es : List Entry) (impl : ImplResult) : String :=
  match impl with
  | .other s => "skip:" ++ s.toStr
  | _ =>
    let (ok, m) := compareProcess es impl
    if ok then "agree" else "DISAGREE:" ++ (m.replace " " "_")

def resultEq : Outcome (Nat × BkErrS) ProcState → Outcome (Nat × BkErrS) ProcState → Bool
  | .ok a, .ok b => listAll2 txnEq a.txns b.txns && balanceEq a.bal b.bal
  | .err (i, e), .err (j, f) => i == j && (bkErrDesc e).1.map Sexp.toStr == (bkErrDesc f).1.map Sexp.toStr
  | _, _ => false

def step (line : String) : String :=
  let (id, fs) := splitFields line
  match field fs "to", (field fs "ro").bind Sexp.parse with
  | some to, some ro =>
    match decEntries to, decResult ro with
    | some eo, some io =>
      let mo := process eo
      let base := s!"{id} mo={verdict eo io}"
      match field fs "ts", (field fs "rs").bind Sexp.parse with
      | some ts, some rs =>
        match decEntries ts, decResult rs with
        | some es, some is =>
          let ms := process es
          s!"{base} ms={verdict es is} same={if resultEq mo ms then "yes" else "no"} rel={if entriesRelB {} eo es then "yes" else "no"} canon={canonCheck ms is}"
        | _, _ => s!"{id} undecodable substituted"
      | _, _ => s!"{base} canon={canonCheck mo io}"
    | _, _ => s!"{id} undecodable"
  | _, _ => s!"{id} bad-case"

def main (args : List String) : IO Unit :=
  match args with
  | "pair" :: _ => forEachLine step
  | _ => IO.eprintln "usage: drv c12 pair"

end Okane.Drv.C12
