import Okane.Drv.IOUtil
import Okane.Model.Decimal96
/-!
Driver for the `rust_decimal` model (`Okane/Model/Decimal96.lean`); same line protocol and records as `hx dec96`
(harness/src/dec96.rs): a decimal is `N:MANT:SCALE`.
-/
namespace Okane.Drv.Dec96
open Okane Okane.Dec96

def parseDec (s : String) : Option D96 :=
  match s.splitOn ":" with
  | [n, m, sc] =>
    match m.toNat?, sc.toNat? with
    | some m, some sc =>
      if m < 2 ^ 96 ∧ sc ≤ 28 then
        if n == "0" then some ⟨false, m, sc⟩ else if n == "1" then some ⟨true, m, sc⟩ else none
      else none
    | _, _ => none
  | _ => none

def showDec (d : D96) : String := s!"{if d.neg then 1 else 0}:{d.mant}:{d.scale}"

def showOpt : Option D96 → String
  | some d => showDec d
  | none => "none"

def showOp : OpResult → String
  | .val d => showDec d
  | .panic m => "panic:" ++ Sexp.encode m

def parseStrategy : String → Option Strategy
  | "even" => some .midpointNearestEven
  | "away" => some .midpointAwayFromZero
  | "zero-mid" => some .midpointTowardZero
  | "tozero" => some .toZero
  | "fromzero" => some .awayFromZero
  | "posinf" => some .toPositiveInfinity
  | "neginf" => some .toNegativeInfinity
  | _ => none

def b01 (b : Bool) : String := if b then "1" else "0"

def showStr : StrRes → String
  | .ok d => "ok " ++ showDec d
  | .err => "err"
  | .panic => "panic:" ++ Sexp.encode "Scale exceeds maximum supported scale"

def step (line : String) : String :=
  let bad := "bad-case"
  match words line with
  | [op, a, b] =>
    if op == "fromi128" then
      match a.toInt?, b.toNat? with
      | some n, some sc =>
        match tryFromI128WithScale n sc with
        | .ok d => "ok " ++ showDec d
        | .error .scale => "err:scale"
        | .error .max => "err:max"
        | .error .min => "err:min"
      | _, _ => bad
    else if op == "setpos" then
      match parseDec a with
      | some x => showDec (setSignPositive x (b == "1"))
      | none => bad
    else if op == "rescale" then
      match parseDec a, b.toNat? with
      | some x, some n => showDec (rescale x n)
      | _, _ => bad
    else
    match parseDec a, parseDec b with
    | some x, some y =>
      if op == "add" then s!"{showOpt (checkedAdd x y)} {showOp (opAdd x y)}"
      else if op == "sub" then s!"{showOpt (checkedSub x y)} {showOp (opSub x y)}"
      else if op == "mul" then s!"{showOpt (checkedMul x y)} {showOp (opMul x y)}"
      else if op == "div" then s!"{showOpt (checkedDiv x y)} {showOp (opDiv x y)}"
      else if op == "cmp" then
        let o := match cmpImpl x y with | .lt => "lt" | .eq => "eq" | .gt => "gt"
        s!"{o} {b01 (decEq x y)}"
      else bad
    | _, _ => bad
  | [op, a] =>
    if op == "fromstr" then
      match Sexp.decode a with
      | some t => showStr (fromStr t)
      | none => bad
    else
    match parseDec a with
    | some x =>
      if op == "neg" then s!"{showDec (negate x)} {showDec (negate x)}"
      else if op == "abs" then showDec (abs x)
      else if op == "iszero" then b01 (isZero x)
      else if op == "signneg" then b01 (isSignNegative x)
      else if op == "signpos" then b01 (isSignPositive x)
      else if op == "scale" then toString x.scale
      else if op == "mantissa" then toString (mantissa x)
      else if op == "display" then Sexp.encode (String.ofList (display x))
      else bad
    | none => bad
  | [op, a, b, c] =>
    if op == "round" then
      match parseDec a, b.toNat?, parseStrategy c with
      | some x, some dp, some st => showDec (roundDp x dp st)
      | _, _, _ => bad
    else bad
  | _ => bad

def main (_args : List String) : IO Unit := forEachLine step

end Okane.Drv.Dec96
