import Okane.Drv.IOUtil
/-! Driver commands for C01 (stub: replaced when the property's streams are built). -/
namespace Okane.Drv.C01

def main (args : List String) : IO Unit := do
  let _ := args
  pure ()

end Okane.Drv.C01
