import Okane.Drv.Core
import Okane.Model.ImportCsv
import Okane.Model.ImportCsvCells
import Okane.Model.ImportLedger
/-!
Driver for C16 (CSV import).  Case line (built by gen/c16.py from its structured configuration, from the
cells / dates / decimals the harness decoded with the real `csv`, `chrono` and number parser, and from the
regex matches computed for the case):

  `<id> cfg=<CFG> cells=(ok HEADER REC...) dates=((cell DATE)...) decs=((cell neg mant scale)...) caps=((pat hay (payee?) (code?))...) fund=(FUND?)`

  CFG  = `(cfg account asset|liability (operator?) primary CONV o2n|n2o (fields (key POS)...) (rules RULE...))`
  CONV = `(conv extract|compute (commodity?) sec|pri 0|1)`
  POS  = `(index n)` | `(label s)` | `(tpl <template text>)` (parsed by the MODEL's `Cells.parseTemplate`) |
         `(template SEG...)` | `(bad)`;  SEG = `(lit s)` | `(named key)` | `(idx zeroBased)`
  RULE = `(rule (or FM...)|(field FM) 0|1 (payee?) (account?) (CONV?))`;  FM = `((field pattern)...)`
  FUND = `(d y m d) neg mant scale commodity`: the funding transaction put before the import

Output: `<id> import=<(ok TXN...)|(err KIND)|(dberr KIND)|(panic SITE)> inexact=<0|1> proc=<-|(ok BAL)|(err IDX KIND ...)|(panic ..)>`

Number cells are decoded by the MODEL (`Cells.cellDecimal`, the model of `str_to_comma_decimal`'s parser); the `decs`
table of the harness is no longer consulted (`drv c16 table` restores the old behaviour for debugging).

`drv c16 cells` — the cell decoders on their own (same case lines as `hx c16 cells`, see harness/src/c16.rs):
  `<id> num=<enc cell>` -> `<id> num=(none)|(ok (dec neg mant scale fmt) <enc commodity>)|(err)`
  `<id> tpl=<enc template> cells=(ok HEADER REC...) dates=((cell DATE)...) fields=((key oneBasedIndex)...) keys=<k1,k2..>`
      -> `<id> tpl parsed=<(ok SEG...)|(err)> <k1>=<T> <k2>=<T>..`;  T = `(ok <enc rendered>...)|(err KIND)|(dberr KIND)`:
      the model importer run on the records with `fields[key]` replaced by the template (parsed by the model), the
      payee / first posting's commodity of every transaction.
-/
namespace Okane.Drv.C16
open Okane Okane.Drv Okane.Import Sexp

def decBool : Sexp → Option Bool
  | .atom "0" => some false
  | .atom "1" => some true
  | _ => none

def decDec3 (n m s : Sexp) : Option Dec := do
  let n ← n.nat?; let m ← m.nat?; let s ← s.nat?
  pure ⟨n == 1, m, s⟩

def decConv : Sexp → Option Conversion
  | .list [.atom "conv", am, c, rm, dis] => do
    let am ← match am with
      | .atom "extract" => some ConvAmountMode.extract
      | .atom "compute" => some ConvAmountMode.compute
      | _ => none
    let c ← decOpt Sexp.str? c
    let rm ← match rm with
      | .atom "sec" => some ConvRateMode.priceOfSecondary
      | .atom "pri" => some ConvRateMode.priceOfPrimary
      | _ => none
    let dis ← decBool dis
    pure ⟨am, c, rm, dis⟩
  | _ => none

def decFieldMatcher : Sexp → Option FieldMatcher
  | .list xs => do
    let fs ← xs.mapM fun
      | .list [f, p] => do
        let f ← f.str?; let f ← Field.ofName? f; let p ← p.str?
        pure (f, p)
      | _ => none
    pure ⟨fs⟩
  | _ => none

def decMatcher : Sexp → Option Matcher
  | .list (.atom "or" :: ms) => (ms.mapM decFieldMatcher).map Matcher.or
  | .list [.atom "field", m] => (decFieldMatcher m).map Matcher.field
  | _ => none

def decRule : Sexp → Option Rule
  | .list [.atom "rule", m, pending, payee, account, conv] => do
    let m ← decMatcher m; let pending ← decBool pending
    let payee ← decOpt Sexp.str? payee; let account ← decOpt Sexp.str? account
    let conv ← decOpt decConv conv
    pure ⟨m, pending, payee, account, conv⟩
  | _ => none

def decRules : Sexp → Option (List Rule)
  | .list (.atom "rules" :: rs) => rs.mapM decRule
  | _ => none

def decSeg : Sexp → Option Seg
  | .list [.atom "lit", s] => s.str?.map Seg.lit
  | .list [.atom "named", k] => do
    let k ← k.str?; let k ← FieldKey.ofName? k
    pure (.named k)
  | .list [.atom "idx", i] => i.nat?.map Seg.indexed
  | _ => none

def decPos : Sexp → Option CsvPos
  | .list [.atom "index", n] => n.nat?.map CsvPos.index
  | .list [.atom "label", s] => s.str?.map CsvPos.label
  | .list (.atom "template" :: segs) => (segs.mapM decSeg).map CsvPos.template
  | .list [.atom "tpl", t] => t.str?.map fun t => Cells.decodePos (.template t)
  | .list [.atom "bad"] => some .badTemplate
  | _ => none

def decOrder : Sexp → Option RowOrder
  | .atom "o2n" => some .oldToNew
  | .atom "n2o" => some .newToOld
  | _ => none

def decCfg : Sexp → Option CsvCfg
  | .list [.atom "cfg", account, at_, op, primary, conv, order, .list (.atom "fields" :: fs), rules] => do
    let account ← account.str?
    let at_ ← match at_ with
      | .atom "asset" => some AccountType.asset
      | .atom "liability" => some AccountType.liability
      | _ => none
    let op ← decOpt Sexp.str? op
    let primary ← primary.str?
    let conv ← decConv conv
    let order ← decOrder order
    let fs ← fs.mapM fun
      | .list [k, p] => do
        let k ← k.str?; let k ← FieldKey.ofName? k; let p ← decPos p
        pure (k, p)
      | _ => none
    let rules ← decRules rules
    pure ⟨account, at_, op, primary, conv, order, fs, rules⟩
  | _ => none

def decCells : Sexp → Option (List String × List (List String))
  | .list (.atom "ok" :: hdr :: recs) => do
    let h ← decList Sexp.str? hdr
    let rs ← recs.mapM (decList Sexp.str?)
    pure (h, rs)
  | _ => none

def decDateTable : Sexp → Option (List (String × Date))
  | .list xs => xs.mapM fun
    | .list [c, d] => do
      let c ← c.str?; let d ← decDate d
      pure (c, d)
    | _ => none
  | _ => none

def decDecTable : Sexp → Option (List (String × Dec))
  | .list xs => xs.mapM fun
    | .list [c, n, m, s] => do
      let c ← c.str?; let d ← decDec3 n m s
      pure (c, d)
    | _ => none
  | _ => none

/-- regex matches computed outside: `(pattern haystack (payee?) (code?))` -/
def decCaps : Sexp → Option (List ((String × String) × Matched))
  | .list xs => xs.mapM fun
    | .list [p, h, payee, code] => do
      let p ← p.str?; let h ← h.str?
      let payee ← decOpt Sexp.str? payee; let code ← decOpt Sexp.str? code
      pure ((p, h), ⟨payee, code⟩)
    | _ => none
  | _ => none

def capsFn (t : List ((String × String) × Matched)) : Captures := fun pat hay =>
  (t.find? fun e => e.1.1 == pat && e.1.2 == hay).map (·.2)

def tableFn {β} (t : List (String × β)) (s : String) : Option β := (t.find? fun e => e.1 == s).map (·.2)

def decFund : Sexp → Option (Option (Date × Dec × String))
  | .list [] => some none
  | .list [d, n, m, s, c] => do
    let d ← decDate d; let v ← decDec3 n m s; let c ← c.str?
    pure (some (d, v, c))
  | _ => none

/-- model book-keeping over `fund :: entries`, printed canonically -/
def showProc (entries : List Entry) : String :=
  match process entries with
  | .ok st =>
    "(ok " ++ (Sexp.list (sortBalance st.bal |>.map fun kv =>
      .list [mkStr kv.1, .list (kv.2.map fun cv => .list [mkStr cv.1, encRat cv.2])])).toStr ++ ")"
  | .err (i, e) =>
    "(err " ++ toString i ++ " " ++ " ".intercalate ((bkErrDesc e).1.map Sexp.toStr) ++
      (match (bkErrDesc e).2 with
       | none => ""
       | some (a, d) => " " ++ (encAmountR a).toStr ++ (match d with | none => "" | some d => " " ++ (encAmountR d).toStr)) ++ ")"
  | .panic s => "(panic " ++ Sexp.encode s ++ ")"
  | .fuelOut => "(fuelOut)"

/-- shared tail: print the import result and run the model's book-keeping on it -/
def report (id : String) (account : String) (fund : Option (Date × Dec × String))
    (r : Outcome ImportErr (List Txn)) (inexact : Bool) : String :=
  let flag := if inexact then "1" else "0"
  match r with
  | .err e => s!"{id} import=(err {e.kind}) inexact={flag} proc=-"
  | .panic s => s!"{id} import=(panic {Sexp.encode s}) inexact={flag} proc=-"
  | .fuelOut => s!"{id} import=(fuelOut) inexact={flag} proc=-"
  | .ok txns =>
    match ledgerOf account txns with
    | .ok ts =>
      let imp := "(ok" ++ String.join (ts.map fun t => " " ++ (encTxn t).toStr) ++ ")"
      let proc := match fund with
        | none => "-"
        | some (d, b, c) => showProc (Entry.txn (fundTxn account d b c) :: ts.map Entry.txn)
      s!"{id} import={imp} inexact={flag} proc={proc}"
    | .err e => s!"{id} import=(dberr {e.kind}) inexact={flag} proc=-"
    | .panic s => s!"{id} import=(panic {Sexp.encode s}) inexact={flag} proc=-"
    | .fuelOut => s!"{id} import=(fuelOut) inexact={flag} proc=-"

def step (useTable : Bool) (line : String) : String :=
  let (id, fs) := splitFields line
  match field fs "cfg", field fs "cells", field fs "dates", field fs "decs", field fs "caps", field fs "fund" with
  | some cfg, some cells, some dates, some decs, some caps, some fund =>
    match (Sexp.parse cfg).bind decCfg, (Sexp.parse cells).bind decCells, (Sexp.parse dates).bind decDateTable,
          (Sexp.parse decs).bind decDecTable, (Sexp.parse caps).bind decCaps, (Sexp.parse fund).bind decFund with
    | some cfg, some (hdr, recs), some dates, some decs, some caps, some fund =>
      let env : CsvEnv := if useTable then ⟨tableFn decs, tableFn dates, capsFn caps⟩
        else Cells.cellEnv (tableFn dates) (capsFn caps)
      let r := csvImportFlagged env cfg hdr recs
      let inexact := match r with
        | .ok ts => ts.any (·.2)
        | _ => false
      report id cfg.account fund (r.map' (List.map Prod.fst)) inexact
    | none, _, _, _, _, _ => s!"{id} undecodable cfg"
    | _, none, _, _, _, _ => s!"{id} undecodable cells"
    | _, _, none, _, _, _ => s!"{id} undecodable dates"
    | _, _, _, none, _, _ => s!"{id} undecodable decs"
    | _, _, _, _, none, _ => s!"{id} undecodable caps"
    | _, _, _, _, _, none => s!"{id} undecodable fund"
  | _, _, _, _, _, _ => s!"{id} bad-case"

/-! ## `drv c16 cells` -/

def encSeg : Seg → Sexp
  | .lit t => .list [.atom "lit", mkStr t]
  | .named k => .list [.atom "named", .atom k.name]
  | .indexed i => .list [.atom "idx", mkNat i]

def numCell (cell : String) : String :=
  if cell.isEmpty then "(none)"
  else match Cells.cellAmount cell.toList with
    | some (d, c) => "(ok " ++ (encPDec d).toStr ++ " " ++ Sexp.encode (String.ofList c) ++ ")"
    | none => "(err)"

/-- what the harness shows of a transaction for `key` -/
def shownOf (key : String) (t : Transaction) : String :=
  if key == "payee" then t.payee
  else match t.posts.head? with
    | some p =>
      match p.amount with
      | some a => match a.amount with
        | .amt _ c => c
        | .paren _ => "?paren"
      | none => "?none"
    | none => "?none"

def tplRun (tpl : String) (hdr : List String) (recs : List (List String)) (dates : List (String × Date))
    (fields : List (FieldKey × Nat)) (key : String) : String :=
  match FieldKey.ofName? key with
  | none => "(badkey)"
  | some k =>
    let fs : AMap FieldKey CsvPos :=
      (fields.filter (·.1 != k)).map (fun kv => (kv.1, CsvPos.index kv.2)) ++ [(k, Cells.decodePos (.template tpl))]
    let cfg : CsvCfg := ⟨"Assets:Bank", .asset, none, "USD", {}, .oldToNew, fs, []⟩
    let env := Cells.cellEnv (tableFn dates) (fun _ _ => none)
    match csvImport env cfg hdr recs with
    | .ok txns =>
      match ledgerOf cfg.account txns with
      | .ok ts => "(ok" ++ String.join (ts.map fun t => " " ++ Sexp.encode (shownOf key t)) ++ ")"
      | .err e => s!"(dberr {e.kind})"
      | .panic p => s!"(panic {Sexp.encode p})"
      | .fuelOut => "(fuelOut)"
    | .err e => s!"(err {e.kind})"
    | .panic p => s!"(panic {Sexp.encode p})"
    | .fuelOut => "(fuelOut)"

def cellsStep (line : String) : String :=
  let (id, fs) := splitFields line
  match field fs "num", field fs "tpl" with
  | some cell, _ =>
    match Sexp.decode cell with
    | some cell => s!"{id} num={numCell cell}"
    | none => s!"{id} undecodable num"
  | none, some tpl =>
    match Sexp.decode tpl, (field fs "cells").bind Sexp.parse |>.bind decCells,
          (field fs "dates").bind Sexp.parse |>.bind decDateTable,
          (field fs "fields").bind Sexp.parse, (field fs "keys").bind Sexp.decode with
    | some tpl, some (hdr, recs), some dates, some (.list fl), some keys =>
      let fields := fl.filterMap fun
        | .list [k, i] => do
          let k ← k.str?; let k ← FieldKey.ofName? k; let i ← i.nat?
          pure (k, i)
        | _ => none
      let parsed := match Cells.parseTemplate tpl with
        | some segs => "(ok" ++ String.join (segs.map fun sg => " " ++ (encSeg sg).toStr) ++ ")"
        | none => "(err)"
      let parts := (keys.splitOn ",").filter (· ≠ "") |>.map fun k => s!"{k}={tplRun tpl hdr recs dates fields k}"
      s!"{id} tpl parsed={parsed} " ++ " ".intercalate parts
    | _, _, _, _, _ => s!"{id} undecodable tpl case"
  | none, none => s!"{id} bad-case"

def main (args : List String) : IO Unit :=
  match args with
  | "cells" :: _ => forEachLine cellsStep
  | "table" :: _ => forEachLine (step true)
  | _ => forEachLine (step false)

end Okane.Drv.C16
