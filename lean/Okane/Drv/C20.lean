import Okane.Drv.IOUtil
import Okane.Model.Golden
/-!
Driver for C20.  Case line:  `<file> <envAtNew> <envAtAssert> <got>`
  file : `-` (absent) | `b` (present, not UTF-8) | `t:<enc>` (present, UTF-8 text)
         | `d` (absent, and the parent directory does not exist: cannot be written) | `D` (the path is a directory)
  env  : `u` (unset) | `i` (set, not Unicode) | `s:<enc>`
Output: `new=<ok|notFound|invalidData> assert=<pass|panic|-> wrote=<0|1> file=<-|b|t:enc>`
-/
namespace Okane.Drv.C20
open Okane Okane.Golden

def parseFile (s : String) : Option (Option FileContent × Bool) :=
  if s == "-" then some (none, true)
  else if s == "d" then some (none, false)
  else if s == "D" then some (some .directory, false)
  else if s == "b" then some (some .binary, true)
  else if s.startsWith "t:" then (Sexp.decode (s.drop 2).toString).map fun t => (some (.text t.toList), true)
  else none

def parseEnv (s : String) : Option EnvVal :=
  if s == "u" then some .unset
  else if s == "i" then some .invalid
  else if s.startsWith "s:" then (Sexp.decode (s.drop 2).toString).map fun t => .str t.toList
  else none

def showFile : Option FileContent → String
  | none => "-"
  | some .binary => "b"
  | some .directory => "D"
  | some (.text cs) => "t:" ++ Sexp.encode (String.ofList cs)

def step (line : String) : String :=
  match words line with
  | [f, e1, e2, g] =>
    match parseFile f, parseEnv e1, parseEnv e2, Sexp.decode g with
    | some (file, wr), some env1, some env2, some got =>
      let w1 : World := ⟨file, env1, wr⟩
      match Golden.new w1 with
      | .ok gold =>
        let w2 : World := ⟨file, env2, wr⟩
        let (v, w', wrote) := Golden.assert gold got.toList w2
        let vs := match v with | .pass => "pass" | .panic => "panic"
        s!"new=ok assert={vs} wrote={if wrote then 1 else 0} file={showFile w'.file}"
      | .err .notFound => s!"new=notFound assert=- wrote=0 file={showFile file}"
      | .err .invalidData => s!"new=invalidData assert=- wrote=0 file={showFile file}"
      | .err .other => s!"new=otherError assert=- wrote=0 file={showFile file}"
      | _ => "new=crash"
    | _, _, _, _ => "bad-case"
  | _ => "bad-case"

def main (_args : List String) : IO Unit := forEachLine step

end Okane.Drv.C20
