import Okane.Drv.IOUtil
/-! Driver commands for C18 (stub: replaced when the property's streams are built). -/
namespace Okane.Drv.C18

def main (args : List String) : IO Unit := do
  let _ := args
  pure ()

end Okane.Drv.C18
