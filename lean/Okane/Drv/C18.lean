import Okane.Drv.C16
import Okane.Model.ImportCamt
import Okane.Model.ImportCamtXml
import Okane.Model.ImportCamtXmlRender
/-!
Driver for C18 (ISO Camt053 import).  Case line (built by gen/c18.py from the statement structure it rendered
as XML, and from the regex matches computed for the case):

  `<id> cfg=(cfg account (operator?) o2n|n2o (rules RULE...)) stmts=(STMT...) caps=(...) fund=(FUND?)`

  STMT = `(stmt (bals (bal OPBD|CLBD|<other code> AMT C|D)...) (entries NTRY...))`;   AMT = `(neg mant scale ccy)`
  NTRY = `(ntry AMT C|D DATE (DATE?) ((dom fam sub)?) (chgs CHG...) (dtls DTL...) info)`
  CHG  = `(AMT C|D 0|1)`
  DTL  = `(dtl (ref?) AMT C|D ((AMT ((src tgt neg mant scale)?))?) (chgs CHG...) (info (key value)...))`

Output as in Drv/C16.lean.

XML mode (`src=` present): `<id> cfg=CFG src=<enc XML text> caps=(...) fund=(FUND?) [stmts=(STMT...)]` — the model
reads the XML text itself (`CamtXml.camtImportXml`: `Model/Xml.lean` reader + `Model/ImportCamtXml.lean` decoder +
`camtImport`).  The output carries two more fields: `decoded=ok:<number of statements>|xml|unsupported:<enc why>` and,
when `stmts=` was given, `xcheck=same|differs|undecodable` (the model's decoded statements against the structure the
generator rendered).  `drv c18 render` prints the canonical rendering of `stmts=` (see `stepRender`).  What the model declines is printed as `import=(err UnknownFormat)` with `decoded=unsupported:…`.
-/
namespace Okane.Drv.C18
open Okane Okane.Drv Okane.Drv.C16 Okane.Import Sexp

def decAmt : Sexp → Option CamtAmount
  | .list [n, m, s, c] => do
    let v ← decDec3 n m s; let c ← c.str?
    pure ⟨v, c⟩
  | _ => none

def decCd : Sexp → Option CdtDbt
  | .atom "C" => some .credit
  | .atom "D" => some .debit
  | _ => none

def decChg : Sexp → Option ChargeRecord
  | .list [a, cd, incl] => do
    let a ← decAmt a; let cd ← decCd cd; let incl ← decBool incl
    pure ⟨a, cd, incl⟩
  | _ => none

def decChgs : Sexp → Option (List ChargeRecord)
  | .list (.atom "chgs" :: cs) => cs.mapM decChg
  | _ => none

def decXchg : Sexp → Option CurrencyExchange
  | .list [s, t, n, m, sc] => do
    let s ← s.str?; let t ← t.str?; let r ← decDec3 n m sc
    pure ⟨s, t, r⟩
  | _ => none

def decTxAmt : Sexp → Option TxAmount
  | .list [a, x] => do
    let a ← decAmt a; let x ← decOpt decXchg x
    pure ⟨a, x⟩
  | _ => none

def decInfo : Sexp → Option PartyInfo
  | .list (.atom "info" :: kvs) => do
    let kvs ← kvs.mapM fun
      | .list [k, v] => do
        let k ← k.str?; let v ← v.str?
        pure (k, v)
      | _ => none
    let g := fun (k : String) => (kvs.find? fun e => e.1 == k).map (·.2)
    pure { creditorName := g "creditor_name", creditorAccountId := g "creditor_account_id",
           ultimateCreditorName := g "ultimate_creditor_name", debtorName := g "debtor_name",
           debtorAccountId := g "debtor_account_id", ultimateDebtorName := g "ultimate_debtor_name",
           remittanceUnstructured := g "remittance_unstructured_info",
           additionalTransactionInfo := g "additional_transaction_info" }
  | _ => none

def decDtl : Sexp → Option TxDetails
  | .list [.atom "dtl", ref, a, cd, ta, chgs, info] => do
    let ref ← decOpt Sexp.str? ref; let a ← decAmt a; let cd ← decCd cd
    let ta ← decOpt decTxAmt ta; let chgs ← decChgs chgs; let info ← decInfo info
    pure ⟨ref, a, cd, ta, chgs, info⟩
  | _ => none

def decDomain : Sexp → Option (String × String × String)
  | .list [a, b, c] => do
    let a ← a.str?; let b ← b.str?; let c ← c.str?
    pure (a, b, c)
  | _ => none

def decEntry : Sexp → Option CamtEntry
  | .list [.atom "ntry", a, cd, bd, vd, dom, chgs, .list (.atom "dtls" :: ds), info] => do
    let a ← decAmt a; let cd ← decCd cd; let bd ← decDate bd; let vd ← decOpt decDate vd
    let dom ← decOpt decDomain dom; let chgs ← decChgs chgs; let ds ← ds.mapM decDtl; let info ← info.str?
    pure ⟨a, cd, bd, vd, dom, chgs, ds, info⟩
  | _ => none

def decBal : Sexp → Option CamtBalance
  | .list [.atom "bal", code, a, cd] => do
    let code ← match code with
      | .atom "OPBD" => some BalanceCode.opening
      | .atom "CLBD" => some BalanceCode.closing
      | .atom _ => some BalanceCode.other
      | _ => none
    let a ← decAmt a; let cd ← decCd cd
    pure ⟨code, a, cd⟩
  | _ => none

def decStmt : Sexp → Option Statement
  | .list [.atom "stmt", .list (.atom "bals" :: bs), .list (.atom "entries" :: es)] => do
    let bs ← bs.mapM decBal; let es ← es.mapM decEntry
    pure ⟨bs, es⟩
  | _ => none

def decCamtCfg : Sexp → Option CamtCfg
  | .list [.atom "cfg", account, op, order, rules] => do
    let account ← account.str?; let op ← decOpt Sexp.str? op
    let order ← decOrder order; let rules ← decRules rules
    pure ⟨account, op, order, rules⟩
  | _ => none

/-- XML mode: the model decodes the text itself -/
def stepXml (id : String) (fs : List (String × String)) (src : String) : String :=
  match field fs "cfg", field fs "caps", field fs "fund" with
  | some cfg, some caps, some fund =>
    match (Sexp.parse cfg).bind decCamtCfg, Sexp.decode src, (Sexp.parse caps).bind decCaps, (Sexp.parse fund).bind decFund with
    | some cfg, some text, some caps, some fund =>
      let dec := CamtXml.decodeCamt text
      let decoded := match dec with
        | .ok stmts => s!"ok:{stmts.length}"
        | .error .xml => "xml"
        | .error (.unsupported why) => s!"unsupported:{Sexp.encode why}"
      let xcheck := match field fs "stmts" with
        | none => ""
        | some st =>
          match (Sexp.parse st).bind (decList decStmt), dec with
          | some want, .ok got => if want == got then " xcheck=same" else " xcheck=differs"
          | some _, .error _ => " xcheck=differs"
          | none, _ => " xcheck=undecodable"
      report id cfg.account fund (CamtXml.camtImportXml (capsFn caps) cfg text) false ++ s!" decoded={decoded}" ++ xcheck
    | none, _, _, _ => s!"{id} undecodable cfg"
    | _, none, _, _ => s!"{id} undecodable src"
    | _, _, none, _ => s!"{id} undecodable caps"
    | _, _, _, none => s!"{id} undecodable fund"
  | _, _, _ => s!"{id} bad-case"

def step (line : String) : String :=
  let (id, fs) := splitFields line
  match field fs "src" with
  | some src => stepXml id fs src
  | none =>
  match field fs "cfg", field fs "stmts", field fs "caps", field fs "fund" with
  | some cfg, some stmts, some caps, some fund =>
    match (Sexp.parse cfg).bind decCamtCfg, (Sexp.parse stmts).bind (decList decStmt),
          (Sexp.parse caps).bind decCaps, (Sexp.parse fund).bind decFund with
    | some cfg, some stmts, some caps, some fund =>
      report id cfg.account fund (camtImport (capsFn caps) cfg [] stmts) false
    | none, _, _, _ => s!"{id} undecodable cfg"
    | _, none, _, _ => s!"{id} undecodable stmts"
    | _, _, none, _ => s!"{id} undecodable caps"
    | _, _, _, none => s!"{id} undecodable fund"
  | _, _, _, _ => s!"{id} bad-case"

/-- `drv c18 render`: `<id> stmts=(STMT...)` -> `<id> renderable=0|1 xml=<enc CamtXml.render stmts>` (the canonical
rendering of the round-trip theorem; the generator imports it with the real code) -/
def stepRender (line : String) : String :=
  let (id, fs) := splitFields line
  match (field fs "stmts").bind fun s => (Sexp.parse s).bind (decList decStmt) with
  | some stmts =>
    s!"{id} renderable={if CamtXml.Renderable stmts then "1" else "0"} xml={Sexp.encode (CamtXml.render stmts)}"
  | none => s!"{id} undecodable stmts"

def main (args : List String) : IO Unit :=
  if args == ["render"] then forEachLine stepRender else forEachLine step

end Okane.Drv.C18
