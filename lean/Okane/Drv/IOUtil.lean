import Okane.Base.Sexp
/-! Line-protocol plumbing for the model driver. -/
namespace Okane.Drv

/-- read all lines from stdin, apply `f` to each, print the result. -/
partial def forEachLine (f : String → String) : IO Unit := do
  let stdin ← IO.getStdin
  let stdout ← IO.getStdout
  let rec loop : IO Unit := do
    let line ← stdin.getLine
    if line.isEmpty then return ()
    let l := if line.back == '\n' then (line.dropEnd 1).toString else line
    stdout.putStrLn (f l)
    loop
  loop
  stdout.flush

def words (s : String) : List String := (s.splitOn " ").filter (· ≠ "")

end Okane.Drv
