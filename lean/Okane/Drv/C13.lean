import Okane.Drv.Core
import Okane.Drv.C09
import Okane.Model.InlineDisplay
import Okane.Model.CmdText
/-!
Driver for C13.

`drv c13` (no argument): the printed form of a multi-commodity amount (`Okane.Amount.inlineDisplay`, the model of the
repaired `InlinePrintAmount`) run on the decimal text okane printed.
Case line: `<enc commodity>=<enc value text> ...` — the entries of one amount in an arbitrary (shuffled) order;
`-` alone for the empty amount.  Output: `<enc text>` = what okane must have printed for that amount, whatever
order its hash map was in.

`drv c13 cmd`: the text of whole commands (`Okane.CmdText.run`, proved in `Lemmas/CmdTextEq.lean` to be the command
models of the C13 theorems for every layout history).
Case line: `<id> tree=<sexp> cmds=(<cmd> ...)` where `tree` is the implementation's parsed tree as `hx process` prints
it and `<cmd>` is `(balance <date?> <date?>)` (`--start`, `--end`; `()` = absent, `((d Y M D))` = present),
`(register)`, `(register <enc account>)`, `(accounts)` or
`(balancex <enc commodity> H|U <now> <date?> <date?> <db?>)` (`-X`, `--historical` or not, `--now`, `--start`, `--end`,
`--price-db`: `()` = none, `(<enc text of the file>)`), or
`(eval <expr> <date> <commodity?> <db?>)` (`primitive eval`: the expression as `hx c13 expr` parsed it, `-` when it does
not parse; `--date`; `-X`; `--price-db`), answered like `balancex`.
Output: `<id> <res> ...`, one `<res>` per command, in order:
`ok:<enc stdout>` | `err:<entry index>:<enc message>` | `panic:<enc site>` | `fuel` | `badcmd`;
for `balancex`: `<x>|<x>|...` — the result under the heap-faithful pop order (`cfgHeap`, Drv/C09) first, then the
distinct results under other pop orders (the neighbour order is always the sorted one) — with `<x>` =
`ok:<enc stdout>^<enc stdout if no precision were declared>` | `xerr:book:<index>:<enc title>` | `xerr:db` | `xerr:query:<enc text>` | `panic:..` | `fuel`;
or `<id> undecodable` when the tree cannot be decoded.  Numerals are holes `U+0001 num/den U+0002`, a message that
the binary continues with data the model does not carry ends with U+0003 (see `Model/CmdText.lean`).
-/
namespace Okane.Drv.C13
open Okane

def parseEntry (w : String) : Option (String × String) :=
  match w.splitOn "=" with
  | [c, v] =>
    match Sexp.decode c, Sexp.decode v with
    | some c, some v => some (c, v)
    | _, _ => none
  | _ => none

def step (line : String) : String :=
  let ws := words line
  if ws == ["-"] then Sexp.encode (Amount.inlineDisplay (fun a b : String => decide (a ≤ b)) (fun c v => v ++ " " ++ c) ([] : List (String × String)))
  else
    match ws.mapM parseEntry with
    | some es => Sexp.encode (Amount.inlineDisplay (fun a b : String => decide (a ≤ b)) (fun c v => v ++ " " ++ c) es)
    | none => "bad-case"

/-! ## whole commands -/

def decCmd : Sexp → Option CmdText.Cmd
  | .list [.atom "balance", s, e] => do
    let s ← decOpt decDate s; let e ← decOpt decDate e
    pure (.balance ⟨s, e⟩)
  | .list [.atom "register"] => some (.register none)
  | .list [.atom "register", a] => a.str?.map fun a => .register (some a)
  | .list [.atom "accounts"] => some .accounts
  | _ => none

def showResult : CmdText.Result → String
  | .ok out => "ok:" ++ Sexp.encode out
  | .err (i, msg) => "err:" ++ toString i ++ ":" ++ Sexp.encode msg
  | .panic s => "panic:" ++ Sexp.encode s
  | .fuelOut => "fuel"

def showXResult : CmdText.XResult → String
  | .ok out => "ok:" ++ Sexp.encode out
  | .err (.book i msg) => "xerr:book:" ++ toString i ++ ":" ++ Sexp.encode msg
  | .err .priceDb => "xerr:db"
  | .err (.query msg) => "xerr:query:" ++ Sexp.encode msg
  | .panic s => "panic:" ++ Sexp.encode s
  | .fuelOut => "fuel"

/-- `-X`: the heap-faithful configuration first, then whatever else the model allows (distinct results only). -/
def runXAll (dbText : Option (List Char)) (o : CmdText.XOpts) (es : List Entry) : String :=
  let repo : Price.Builder String :=
    match process es with
    | .ok st => match CmdText.loadRepo dbText st with
      | .ok (_, repo) => repo
      | _ => []
    | _ => []
  -- the neighbour order is the sorted one (what the Rust does since fix b2e85da, `ordSorted_string_ok`); the pop
  -- order is `BinaryHeap`'s (simulated), then other pop orders among equal distances
  let alts : List (Price.Cfg String) := C09.cfgHeap repo C09.fuel ::
    [C09.pickMax, C09.pickMaxLast, C09.pickMin, C09.pickFifo, C09.pickLifo].map fun pk => ⟨C09.fuel, pk, C09.ordSorted⟩
  let rs := alts.map fun cfg =>
    match CmdText.runX cfg dbText o es with
    | .ok out =>
      -- the same report with no declared precision (nothing is rounded): lets the check tell a rounding-boundary
      -- difference (rust_decimal's 28-digit products against exact rationals) from a wrong value
      let raw := CmdText.xFinish cfg dbText o
        ((process es).map' fun st => { st with ctx := { st.ctx with formatting := [] } })
      "ok:" ++ Sexp.encode out ++ "^" ++ (match raw with | .ok r => Sexp.encode r | _ => "~")
    | r => showXResult r
  "|".intercalate rs.eraseDups

def decXCmd : Sexp → Option (Option (List Char) × CmdText.XOpts)
  | .list [.atom "balancex", t, mode, now, s, e, db] => do
    let t ← t.str?; let now ← decDate now
    let s ← decOpt decDate s; let e ← decOpt decDate e
    let db ← decOpt Sexp.str? db
    let hist := match mode with | .atom "H" => true | _ => false
    pure (db.map String.toList, { exchange := t, historical := hist, now := now, range := ⟨s, e⟩ })
  | _ => none

structure EvalCase where
  expr : Option VExpr
  date : Date
  exchange : Option String
  db : Option (List Char)

def decEvalCmd : Sexp → Option EvalCase
  | .list [.atom "eval", e, date, ex, db] => do
    let expr ← match e with
      | .atom "-" => some none
      | e => (decVExpr e).map some
    let date ← decDate date
    let ex ← decOpt Sexp.str? ex
    let db ← decOpt Sexp.str? db
    pure ⟨expr, date, ex, db.map String.toList⟩
  | _ => none

def runEvalAll (c : EvalCase) (es : List Entry) : String :=
  let repo : Price.Builder String :=
    match process es with
    | .ok st => match CmdText.loadRepo c.db st with
      | .ok (_, repo) => repo
      | _ => []
    | _ => []
  let alts : List (Price.Cfg String) := C09.cfgHeap repo C09.fuel ::
    [C09.pickMax, C09.pickMaxLast, C09.pickMin, C09.pickFifo, C09.pickLifo].map fun pk => ⟨C09.fuel, pk, C09.ordSorted⟩
  let rs := alts.map fun cfg => showXResult (CmdText.runEval cfg c.db c.expr c.date c.exchange es)
  "|".intercalate rs.eraseDups

def stepCmd (line : String) : String :=
  let (id, fs) := splitFields line
  match field fs "tree", field fs "cmds" with
  | some t, some cs =>
    match decEntries t, Sexp.parse cs with
    | some es, some (.list cmds) =>
      let rs := cmds.map fun c =>
        match decCmd c, decXCmd c, decEvalCmd c with
        | some c, _, _ => showResult (CmdText.run c es)
        | none, some (db, o), _ => runXAll db o es
        | none, none, some ec => runEvalAll ec es
        | none, none, none => "badcmd"
      id ++ " " ++ " ".intercalate rs
    | _, _ => id ++ " undecodable"
  | _, _ => id ++ " bad-case"

def main (args : List String) : IO Unit := do
  match args with
  | "cmd" :: _ => forEachLine stepCmd
  | _ => forEachLine step

end Okane.Drv.C13
