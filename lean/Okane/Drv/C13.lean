import Okane.Drv.IOUtil
import Okane.Model.InlineDisplay
/-!
Driver for C13: the printed form of a multi-commodity amount (`Okane.Amount.inlineDisplay`, the model of the
repaired `InlinePrintAmount`) run on the decimal text okane printed.

Case line: `<enc commodity>=<enc value text> ...` — the entries of one amount in an arbitrary (shuffled) order;
`-` alone for the empty amount.  Output: `<enc text>` = what okane must have printed for that amount, whatever
order its hash map was in.
-/
namespace Okane.Drv.C13
open Okane

def parseEntry (w : String) : Option (String × String) :=
  match w.splitOn "=" with
  | [c, v] =>
    match Sexp.decode c, Sexp.decode v with
    | some c, some v => some (c, v)
    | _, _ => none
  | _ => none

def step (line : String) : String :=
  let ws := words line
  if ws == ["-"] then Sexp.encode (Amount.inlineDisplay (fun a b : String => decide (a ≤ b)) (fun c v => v ++ " " ++ c) ([] : List (String × String)))
  else
    match ws.mapM parseEntry with
    | some es => Sexp.encode (Amount.inlineDisplay (fun a b : String => decide (a ≤ b)) (fun c v => v ++ " " ++ c) es)
    | none => "bad-case"

def main (args : List String) : IO Unit := do
  let _ := args
  forEachLine step

end Okane.Drv.C13
