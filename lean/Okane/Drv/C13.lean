import Okane.Drv.Core
import Okane.Model.InlineDisplay
import Okane.Model.CmdText
/-!
Driver for C13.

`drv c13` (no argument): the printed form of a multi-commodity amount (`Okane.Amount.inlineDisplay`, the model of the
repaired `InlinePrintAmount`) run on the decimal text okane printed.
Case line: `<enc commodity>=<enc value text> ...` — the entries of one amount in an arbitrary (shuffled) order;
`-` alone for the empty amount.  Output: `<enc text>` = what okane must have printed for that amount, whatever
order its hash map was in.

`drv c13 cmd`: the text of whole commands (`Okane.CmdText.run`, proved in `Lemmas/CmdTextEq.lean` to be the command
models of the C13 theorems for every layout history).
Case line: `<id> tree=<sexp> cmds=(<cmd> ...)` where `tree` is the implementation's parsed tree as `hx process` prints
it and `<cmd>` is `(balance <date?> <date?>)` (`--start`, `--end`; `()` = absent, `((d Y M D))` = present),
`(register)`, `(register <enc account>)` or `(accounts)`.
Output: `<id> <res> ...`, one `<res>` per command, in order:
`ok:<enc stdout>` | `err:<entry index>:<enc message>` | `panic:<enc site>` | `fuel` | `badcmd`;
or `<id> undecodable` when the tree cannot be decoded.  Numerals are holes `U+0001 num/den U+0002`, a message that
the binary continues with data the model does not carry ends with U+0003 (see `Model/CmdText.lean`).
-/
namespace Okane.Drv.C13
open Okane

def parseEntry (w : String) : Option (String × String) :=
  match w.splitOn "=" with
  | [c, v] =>
    match Sexp.decode c, Sexp.decode v with
    | some c, some v => some (c, v)
    | _, _ => none
  | _ => none

def step (line : String) : String :=
  let ws := words line
  if ws == ["-"] then Sexp.encode (Amount.inlineDisplay (fun a b : String => decide (a ≤ b)) (fun c v => v ++ " " ++ c) ([] : List (String × String)))
  else
    match ws.mapM parseEntry with
    | some es => Sexp.encode (Amount.inlineDisplay (fun a b : String => decide (a ≤ b)) (fun c v => v ++ " " ++ c) es)
    | none => "bad-case"

/-! ## whole commands -/

def decCmd : Sexp → Option CmdText.Cmd
  | .list [.atom "balance", s, e] => do
    let s ← decOpt decDate s; let e ← decOpt decDate e
    pure (.balance ⟨s, e⟩)
  | .list [.atom "register"] => some (.register none)
  | .list [.atom "register", a] => a.str?.map fun a => .register (some a)
  | .list [.atom "accounts"] => some .accounts
  | _ => none

def showResult : CmdText.Result → String
  | .ok out => "ok:" ++ Sexp.encode out
  | .err (i, msg) => "err:" ++ toString i ++ ":" ++ Sexp.encode msg
  | .panic s => "panic:" ++ Sexp.encode s
  | .fuelOut => "fuel"

def stepCmd (line : String) : String :=
  let (id, fs) := splitFields line
  match field fs "tree", field fs "cmds" with
  | some t, some cs =>
    match decEntries t, Sexp.parse cs with
    | some es, some (.list cmds) =>
      let rs := cmds.map fun c =>
        match decCmd c with
        | some c => showResult (CmdText.run c es)
        | none => "badcmd"
      id ++ " " ++ " ".intercalate rs
    | _, _ => id ++ " undecodable"
  | _, _ => id ++ " bad-case"

def main (args : List String) : IO Unit := do
  match args with
  | "cmd" :: _ => forEachLine stepCmd
  | _ => forEachLine step

end Okane.Drv.C13
