import Okane.Drv.IOUtil
import Okane.Drv.DecodeSyntax
import Okane.Model.Process
/-!
Driver side of the book-keeping correspondence: decode the implementation's canonical result,
run the model on the implementation's parsed tree, compare.
-/
namespace Okane.Drv
open Okane Sexp

/-- key=value fields of a protocol line (`id k1=v1 k2=v2`), values are S-expressions without blanks
outside parentheses, so we split at the top-level ` k=` markers. -/
def splitFields (line : String) : String × List (String × String) :=
  -- fields are introduced by " tree=", " result=", " q=" ...: find " <ident>=(" boundaries at depth 0
  let cs := line.toList
  let rec go (cs : List Char) (depth : Nat) (cur : List Char) (acc : List String) : List String :=
    match cs with
    | [] => (String.ofList cur.reverse :: acc).reverse
    | c :: rest =>
      if c == '(' then go rest (depth + 1) (c :: cur) acc
      else if c == ')' then go rest (depth - 1) (c :: cur) acc
      else if c == ' ' && depth == 0 then go rest depth [] (String.ofList cur.reverse :: acc)
      else go rest depth (c :: cur) acc
  let parts := (go cs 0 [] []).filter (· ≠ "")
  match parts with
  | [] => ("", [])
  | id :: fs =>
    (id, fs.filterMap fun f =>
      match f.splitOn "=" with
      | k :: v :: rest => some (k, "=".intercalate (v :: rest))
      | _ => none)

def field (fs : List (String × String)) (k : String) : Option String := (fs.find? (·.1 == k)).map (·.2)

/-- decimal triple -> Rat -/
def decRat (n m s : Sexp) : Option Rat := do
  let n ← n.nat?; let m ← m.nat?; let s ← s.nat?
  let v := decToRat (m : Int) s
  pure (if n == 1 then -v else v)

/-- `((c n m s) ...)` -/
def decAmount : Sexp → Option (Amount String)
  | .list xs => xs.mapM fun
    | .list [c, n, m, s] => do
      let c ← c.str?; let v ← decRat n m s
      pure (c, v)
    | _ => none
  | _ => none

def decSingle : Sexp → Option (SingleAmount String)
  | .list [c, n, m, s] => do
    let c ← c.str?; let v ← decRat n m s
    pure ⟨v, c⟩
  | _ => none

def decOutPosting : Sexp → Option (OutPosting String String)
  | .list [.atom "p", a, amt, conv] => do
    let a ← a.str?; let amt ← decAmount amt; let conv ← decOpt decSingle conv
    pure ⟨a, amt, conv⟩
  | _ => none

def decOutTxn : Sexp → Option (OutTxn String String)
  | .list (.atom "t" :: d :: ps) => do
    let d ← decDate d; let ps ← ps.mapM decOutPosting
    pure ⟨d, ps⟩
  | _ => none

def decBalance : Sexp → Option (Balance String String)
  | .list xs => xs.mapM fun
    | .list [a, amt] => do
      let a ← a.str?; let amt ← decAmount amt
      pure (a, amt)
    | _ => none
  | _ => none

/-- the implementation's verdict on a ledger -/
inductive ImplResult where
  | ok (txns : List (OutTxn String String)) (bal : Balance String String)
  | err (idx : Option Nat) (desc : List Sexp)
  | other (s : Sexp)

def decResult : Sexp → Option ImplResult
  | .list [.atom "ok", .list (.atom "txns" :: ts), .list [.atom "bal", b]] => do
    let ts ← ts.mapM decOutTxn; let b ← decBalance b
    pure (.ok ts b)
  | .list (.atom "err" :: idx :: desc) => some (.err idx.nat? desc)
  | s => some (.other s)

/-! ## comparison (canonical: maps compared as finite maps) -/

def sortAmount (a : Amount String) : List (String × Rat) :=
  (a.toArray.qsort (fun x y => x.1 < y.1)).toList

def amountEq (a b : Amount String) : Bool := sortAmount a == sortAmount b

def ratClose (x y : Rat) : Bool :=
  let d := ratAbs (x - y)
  let m := if ratAbs x < 1 then (1 : Rat) else ratAbs x
  d ≤ m / (10 : Rat) ^ 18

def singleClose : Option (SingleAmount String) → Option (SingleAmount String) → Bool
  | none, none => true
  | some a, some b => a.commodity == b.commodity && ratClose a.value b.value
  | _, _ => false

def postingEq (a b : OutPosting String String) : Bool :=
  a.account == b.account && amountEq a.amount b.amount && singleClose a.converted b.converted

def listAll2 {α} (f : α → α → Bool) : List α → List α → Bool
  | [], [] => true
  | x :: xs, y :: ys => f x y && listAll2 f xs ys
  | _, _ => false

def txnEq (a b : OutTxn String String) : Bool := a.date == b.date && listAll2 postingEq a.postings b.postings

def sortBalance (b : Balance String String) : List (String × List (String × Rat)) :=
  ((b.map fun kv => (kv.1, sortAmount kv.2)).toArray.qsort (fun x y => x.1 < y.1)).toList

def balanceEq (a b : Balance String String) : Bool := sortBalance a == sortBalance b

/-! ## printing model results in the same canonical format -/

def encRat (r : Rat) : Sexp := .atom (ratStr r)
def encAmountR (a : Amount String) : Sexp := .list ((sortAmount a).map fun kv => .list [mkStr kv.1, encRat kv.2])

def evalErrName : EvalErr → String
  | .unmatchingOperation => "UnmatchingOperation"
  | .unmatchingCommodities => "UnmatchingCommodities"
  | .unknownCommodity => "UnknownCommodity"
  | .divideByZero => "DivideByZero"
  | .numberOverflow => "NumberOverflow"
  | .amountRequired => "AmountRequired"
  | .postingAmountRequired => "PostingAmountRequired"
  | .singleAmountRequired => "SingleAmountRequired"

/-- describe a model error the way harness/src/proc.rs::bk_err_sx describes the implementation's. -/
def bkErrDesc : BkErrS → List Sexp × Option (Amount String × Option (Amount String))
  | .evalFailure e => ([.atom "EvalFailure", .atom (evalErrName e)], none)
  | .balanceFailure => ([.atom "BalanceFailure", .atom "MultiCommodityWithPartialSet"], none)
  | .undeducible i j => ([.atom "UndeduciblePostingAmount", mkNat i, mkNat j], none)
  | .unbalanced r => ([.atom "UnbalancedPostings"], some (r, none))
  | .assertionFailure i c d => ([.atom "BalanceAssertionFailure", mkNat i], some (c, some d))
  | .invalidAccount => ([.atom "InvalidAccount"], none)
  | .invalidCommodity => ([.atom "InvalidCommodity"], none)
  | .zeroAmountWithExchange => ([.atom "ZeroAmountWithExchange"], none)
  | .zeroExchangeRate => ([.atom "ZeroExchangeRate"], none)
  | .exchangeWithAmountCommodity => ([.atom "ExchangeWithAmountCommodity"], none)

def atomsEq : List Sexp → List Sexp → Bool
  | [], [] => true
  | .atom a :: xs, .atom b :: ys => a == b && atomsEq xs ys
  | _, _ => false

/-- compare a model error with the implementation's description. -/
def errEq (idx : Nat) (e : BkErrS) (implIdx : Option Nat) (desc : List Sexp) : Bool :=
  implIdx == some idx &&
  match bkErrDesc e with
  | (heads, none) =>
    -- InvalidAccount/InvalidCommodity carry the intern error kind in the impl's description: ignore it
    match heads, desc with
    | [.atom "InvalidAccount"], .atom "InvalidAccount" :: _ => true
    | [.atom "InvalidCommodity"], .atom "InvalidCommodity" :: _ => true
    | _, _ => atomsEq heads desc
  | (heads, some (a, none)) =>
    match desc.reverse with
    | amt :: revHeads => atomsEq heads revHeads.reverse && (decAmount amt).any (amountEq a)
    | _ => false
  | (heads, some (a, some d)) =>
    match desc.reverse with
    | dAmt :: cAmt :: revHeads =>
      atomsEq heads revHeads.reverse && (decAmount cAmt).any (amountEq a) && (decAmount dAmt).any (amountEq d)
    | _ => false

def showModel : Outcome (Nat × BkErrS) ProcState → String
  | .ok st => "(ok " ++ toString st.txns.length ++ " txns; bal " ++
      (Sexp.list (sortBalance st.bal |>.map fun kv => .list [mkStr kv.1, .list (kv.2.map fun cv => .list [mkStr cv.1, encRat cv.2])])).toStr ++
      "; txns " ++ (Sexp.list (st.txns.map fun t => .list (t.postings.map fun p =>
        .list [mkStr p.account, encAmountR p.amount, match p.converted with | none => .list [] | some s => .list [mkStr s.commodity, encRat s.value]]))).toStr ++ ")"
  | .err (i, e) => "(err " ++ toString i ++ " " ++ (Sexp.list (bkErrDesc e).1).toStr ++
      (match (bkErrDesc e).2 with
       | none => ""
       | some (a, d) => " " ++ (encAmountR a).toStr ++ (match d with | none => "" | some d => " " ++ (encAmountR d).toStr)) ++ ")"
  | .panic s => "(panic " ++ s ++ ")"
  | .fuelOut => "(fuelOut)"

/-- model-vs-implementation verdict for one `process` case. -/
def compareProcess (entries : List Entry) (impl : ImplResult) : Bool × String :=
  let m := process entries
  let agree := match m, impl with
    | .ok st, .ok ts b => listAll2 txnEq st.txns ts && balanceEq st.bal b
    | .err (i, e), .err idx desc => errEq i e idx desc
    | _, _ => false
  (agree, showModel m)

def decEntries (s : String) : Option (List Entry) :=
  match Sexp.parse s with
  | some (.list xs) => xs.mapM decEntry
  | _ => none

end Okane.Drv
