import Okane.Drv.Core
import Okane.Spec.Load
/-!
Driver for C11.  `drv c11 load cs=<0|1> sep=<0|1> dot=<0|1>`: input = output lines of `hx c11 load`
(the implementation's parsed files, callback sequences on both file systems, and every glob call);
the three flags are `glob_match_options()` as probed from `/repo/core/src/load.rs`.
Output: `<id> fake=<v> prod=<v> gfake=<v> gprod=<v> spec=<v>` where `<v>` is `agree` or `DISAGREE:<what the model says>`:
  fake / prod : model `load` on `fakeFS` / `prodFS` of the decoded tree vs. the implementation's callback sequence + error kind
  gfake/gprod : model glob vs. every recorded glob call whose pattern lies in the modelled fragment
  spec        : the property's statement (`expand`, plain substitution) evaluated against what the implementation delivered
-/
namespace Okane.Drv.C11
open Okane Okane.Drv Okane.Load Sexp

def decFile : Sexp → Option (String × Raw)
  | .list (p :: .atom "bin" :: _) => do pure ((← p.str?), .notUtf8)
  | .list (p :: .atom "ok" :: es) => do pure ((← p.str?), .text ⟨← es.mapM decEntry, false⟩)
  | .list (p :: .atom "perr" :: es) => do pure ((← p.str?), .text ⟨← es.mapM decEntry, true⟩)
  | _ => none

/-- `(ok (path entry)...)` / `(err Kind (path entry)...)` -/
def decRes : Sexp → Option (String × List (String × Entry))
  | .list (.atom "ok" :: xs) => do pure ("ok", ← xs.mapM decPE)
  | .list (.atom "err" :: .atom k :: xs) => do pure (k, ← xs.mapM decPE)
  | _ => none
where decPE : Sexp → Option (String × Entry)
  | .list [p, e] => do pure ((← p.str?), (← decEntry e))
  | _ => none

def decGlob : Sexp → Option (String × Option (List String))
  | .list (p :: .atom "ok" :: ps) => do pure ((← p.str?), some (← ps.mapM Sexp.str?))
  | .list [p, .atom "err", .atom _] => do pure ((← p.str?), none)
  | _ => none

def kindOf : Outcome LoadErr Unit → String
  | .ok _ => "ok"
  | .err (.io .notFound _) => "IO:NotFound"
  | .err (.io .invalidData _) => "IO:InvalidData"
  | .err (.io .other _) => "IO:*"
  | .err (.parse _) => "Parse"
  | .err (.rootLoadingPath _) => "RootLoadingPath"
  | .err (.recursiveInclude _) => "RecursiveInclude"
  | .err .invalidIncludeGlob => "InvalidIncludeGlob"
  | .err .globFailure => "GlobFailure"
  | .panic _ => "panic"
  | .fuelOut => "fuelOut"

def kindEq (model impl : String) : Bool :=
  model == impl || (model == "IO:*" && impl.startsWith "IO:" && impl != "IO:NotFound" && impl != "IO:InvalidData")

def seqEq : List (String × Entry) → List (String × Entry) → Bool
  | [], [] => true
  | (p, e) :: xs, (q, f) :: ys => p == q && e == f && seqEq xs ys
  | _, _ => false

def showSeq (xs : List (String × Entry)) : String :=
  " ".intercalate (xs.map fun pe => "(" ++ Sexp.encode pe.1 ++ " " ++ (encEntry pe.2).toStr ++ ")")

def compareLoad (r : LoadRes) (impl : String × List (String × Entry)) : String :=
  let m := r.delivered.map fun pe => (pathStr pe.1, pe.2)
  if kindEq (kindOf r.status) impl.1 && seqEq m impl.2 then "agree"
  else s!"DISAGREE:({kindOf r.status} {showSeq m})"

def sortStrs (xs : List String) : List String := (xs.toArray.qsort (· < ·)).toList

def inFragment (pat : String) : Bool :=
  match tokenize pat.toList with
  | .unsupported => false
  | _ => true

def compareGlobs (g : String → Outcome LoadErr (List Path)) (recorded : List (String × Option (List String))) : String :=
  let bad := recorded.filterMap fun (pat, res) =>
    if !inFragment pat then none else
    let m : Option (List String) := match g pat with
      | .ok ps => some (sortStrs (ps.map pathStr))
      | _ => none
    if m == res.map sortStrs then none
    else some s!"({Sexp.encode pat} model={match m with | some ps => " ".intercalate (ps.map Sexp.encode) | none => "err"})"
  if bad.isEmpty then "agree" else "DISAGREE:" ++ " ".intercalate bad

def flag (args : List String) (name : String) (dflt : Bool) : Bool :=
  match args.find? (·.startsWith (name ++ "=")) with
  | some a => a.endsWith "1"
  | none => dflt

def step (o : GlobOpts) (line : String) : String :=
  let (id, fs) := splitFields line
  let get (k : String) := (field fs k).bind Sexp.parse
  match get "files", get "dirs", (field fs "root").bind Sexp.decode, get "fake", get "prod", get "gfake", get "gprod" with
  | some (.list fl), some (.list dl), some root, some fake, some prod, some (.list gf), some (.list gp) =>
    match fl.mapM decFile, dl.mapM Sexp.str?, gf.mapM decGlob, gp.mapM decGlob with
    | some files, some dirs, some gfake, some gprod =>
      let fuel := files.length + 2
      let rootP := parsePath root
      let tf : Tree := { files := files, dirs := dirs, ext := gfake }
      let tp : Tree := { files := files, dirs := dirs, ext := gprod }
      let vf := match decRes fake with
        | some impl => compareLoad (load (fakeFS o tf) fuel rootP) impl
        | none => "skip"
      let vp := match decRes prod with
        | some impl => compareLoad (load (prodFS o tp) fuel rootP) impl
        | none => "skip"
      -- the statement of the property on the implementation's own behaviour: a successful load delivered exactly
      -- the substitution expansion (no include line, entries in place, matches in sorted order)
      let spec1 := match decRes fake with
        | some ("ok", xs) =>
          match expand (fakeFS o tf) fuel rootP with
          | some ys => if seqEq (ys.map fun pe => (pathStr pe.1, pe.2)) xs then "agree" else "DISAGREE:fake-delivered-is-not-the-expansion"
          | none => "DISAGREE:fake-loaded-but-expansion-undefined"
        | _ => "agree"
      let spec2 := match decRes prod with
        | some ("ok", xs) =>
          match expand (prodFS o tp) fuel rootP with
          | some ys => if seqEq (ys.map fun pe => (pathStr pe.1, pe.2)) xs then "agree" else "DISAGREE:prod-delivered-is-not-the-expansion"
          | none => "DISAGREE:prod-loaded-but-expansion-undefined"
        | _ => "agree"
      let spec := if spec1 == "agree" then spec2 else spec1
      s!"{id} fake={vf} prod={vp} gfake={compareGlobs (fakeGlob o tf) gfake} gprod={compareGlobs (prodGlob o tp) gprod} spec={spec}"
    | _, _, _, _ => s!"{id} undecodable"
  | _, _, _, _, _, _, _ => s!"{id} bad-case"

def main (args : List String) : IO Unit :=
  match args with
  | "load" :: rest =>
    forEachLine (step { caseSensitive := flag rest "cs" true, literalSeparator := flag rest "sep" true,
                        literalLeadingDot := flag rest "dot" true })
  | _ => IO.eprintln "usage: drv c11 load cs=<0|1> sep=<0|1> dot=<0|1>"

end Okane.Drv.C11
