import Okane.Drv.Core
import Okane.Model.Range
/-!
`drv c04`: input = output lines of `hx c04` (`<id> tree=… result=… ranges=… reg=…`).
For every queried range the model's `balanceNoConv` (over the implementation's own transactions and raw balance,
with the declared precisions the model derives from the tree) is compared with the implementation's answer;
the register's running total is recomputed with the model's `register`.
Output: `<id> agree` | `<id> DISAGREE <what>` | `<id> skip …`
-/
namespace Okane.Drv.C04
open Okane Okane.Drv Sexp

def decDateAtom (s : Sexp) : Option (Option Date) :=
  match s with
  | .atom "-" => some none
  | .atom a =>
    match a.splitOn "-" with
    | [y, m, d] => do
      let y ← y.toInt?; let m ← m.toNat?; let d ← d.toNat?
      pure (some ⟨y, m, d⟩)
    | _ => none
  | _ => none

def step (line : String) : String :=
  let (id, fs) := splitFields line
  match field fs "tree", field fs "result", field fs "ranges", field fs "reg" with
  | some t, some r, some rg, some reg =>
    match decEntries t, (Sexp.parse r).bind decResult, Sexp.parse rg, Sexp.parse reg with
    | some es, some (.ok txns raw), some (.list ranges), some (.list regs) =>
      -- declared precisions
      -- (taken from the `commodity … format` declarations alone, so that it does not depend on whether the
      -- model accepts the ledger)
      let fm : AMap String Nat := es.foldl (fun m e =>
        match e with
        | .commodity name details =>
          details.foldl (fun m d => match d with | .format v _ => AMap.insert m name v.scale | _ => m) m
        | _ => m) []
      let prec : String → Option Nat := fun c => AMap.get? fm c
      let bad := ranges.filterMap fun rr =>
        match rr with
        | .list [s, e, b] =>
          match decDateAtom s, decDateAtom e, decBalance b with
          | some s', some e', some implB =>
            let m := balanceNoConv prec txns raw ⟨s', e'⟩
            if balanceEq m implB then none else some s!"range {s.toStr}..{e.toStr} model={(Sexp.list (sortBalance m |>.map fun kv => .list [mkStr kv.1, .list (kv.2.map fun cv => .list [mkStr cv.1, encRat cv.2])])).toStr}"
          | _, _, _ => some s!"undecodable range {rr.toStr}"
        | _ => some "undecodable range"
      -- register
      let implReg := regs.filterMap fun x =>
        match x with
        | .list [a, amt, tot] => do
          let a ← a.str?; let amt ← decAmount amt; let tot ← decAmount tot
          pure (a, amt, tot)
        | _ => none
      let modelReg := register (postingsOf txns (none : Option String))
      let regOk := implReg.length == modelReg.length &&
        listAll2 (fun (x : String × Amount String × Amount String) (y : String × Amount String × Amount String) =>
          x.1 == y.1 && amountEq x.2.1 y.2.1 && amountEq x.2.2 y.2.2) implReg (modelReg.map fun pt => (pt.1.account, pt.1.amount, pt.2))
      if bad.isEmpty && regOk then s!"{id} agree"
      else s!"{id} DISAGREE {" | ".intercalate bad}{if regOk then "" else " register differs"}"
    | _, some _, _, _ => s!"{id} skip not-accepted"
    | _, _, _, _ => s!"{id} undecodable"
  | _, _, _, _ => s!"{id} bad-case"

def main (_args : List String) : IO Unit := forEachLine step

end Okane.Drv.C04
