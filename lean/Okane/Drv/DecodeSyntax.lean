import Okane.Base.Sexp
import Okane.Model.Syntax
/-!
Decoding the harness's S-expression dump of a syntax tree (harness/src/tree.rs) into `Okane.Entry`,
and encoding it back (used by streams that compare trees).
-/
namespace Okane.Drv
open Okane Sexp

def decOpt {α} (f : Sexp → Option α) : Sexp → Option (Option α)
  | .list [] => some none
  | .list [x] => (f x).map some
  | _ => none

def decList {α} (f : Sexp → Option α) : Sexp → Option (List α)
  | .list xs => xs.mapM f
  | _ => none

def decDate : Sexp → Option Date
  | .list [.atom "d", y, m, d] => do
    let y ← y.int?; let m ← m.nat?; let d ← d.nat?
    pure ⟨y, m, d⟩
  | _ => none

def decPDec : Sexp → Option PDec
  | .list [.atom "dec", n, m, s, f] => do
    let n ← n.nat?; let m ← m.nat?; let s ← s.nat?
    let f ← match f with
      | .atom "n" => some none
      | .atom "p" => some (some Fmt.plain)
      | .atom "c" => some (some Fmt.comma3dot)
      | _ => none
    pure ⟨n == 1, m, s, f⟩
  | _ => none

def decOp : Sexp → Option BinOp
  | .atom "add" => some .add | .atom "sub" => some .sub
  | .atom "mul" => some .mul | .atom "div" => some .div
  | _ => none

mutual
partial def decExpr : Sexp → Option Expr
  | .list [.atom "neg", e] => (decExpr e).map .neg
  | .list [.atom "bin", op, l, r] => do
    let op ← decOp op; let l ← decExpr l; let r ← decExpr r
    pure (.bin op l r)
  | .list [.atom "val", v] => (decVExpr v).map .val
  | _ => none
partial def decVExpr : Sexp → Option VExpr
  | .list [.atom "paren", e] => (decExpr e).map .paren
  | .list [.atom "amt", d, c] => do
    let d ← decPDec d; let c ← c.str?
    pure (.amt d c)
  | _ => none
end

def decExchange : Sexp → Option Exchange
  | .list [.atom "total", v] => (decVExpr v).map .total
  | .list [.atom "rate", v] => (decVExpr v).map .rate
  | _ => none

def decClear : Sexp → Option ClearState
  | .atom "u" => some .uncleared | .atom "c" => some .cleared | .atom "p" => some .pending
  | _ => none

def decLot : Sexp → Option Lot
  | .list [.atom "lot", p, d, n] => do
    let p ← decOpt decExchange p; let d ← decOpt decDate d; let n ← decOpt Sexp.str? n
    pure ⟨p, d, n⟩
  | _ => none

def decPostingAmount : Sexp → Option PostingAmount
  | .list [.atom "pa", a, c, l] => do
    let a ← decVExpr a; let c ← decOpt decExchange c; let l ← decLot l
    pure ⟨a, c, l⟩
  | _ => none

def decMetaValue : Sexp → Option MetaValue
  | .list [.atom "text", s] => s.str?.map .text
  | .list [.atom "expr", s] => s.str?.map .expr
  | _ => none

def decMetadata : Sexp → Option Metadata
  | .list [.atom "comment", s] => s.str?.map .comment
  | .list (.atom "tags" :: ts) => (ts.mapM Sexp.str?).map .wordTags
  | .list [.atom "kv", k, v] => do
    let k ← k.str?; let v ← decMetaValue v
    pure (.keyValue k v)
  | _ => none

def decPosting : Sexp → Option Posting
  | .list [.atom "post", acc, cl, amt, bal, md] => do
    let acc ← acc.str?; let cl ← decClear cl
    let amt ← decOpt decPostingAmount amt; let bal ← decOpt decVExpr bal
    let md ← decList decMetadata md
    pure ⟨acc, cl, amt, bal, md⟩
  | _ => none

def decTxn : Sexp → Option Transaction
  | .list [.atom "txn", d, ed, cl, code, payee, posts, md] => do
    let d ← decDate d; let ed ← decOpt decDate ed; let cl ← decClear cl
    let code ← decOpt Sexp.str? code; let payee ← payee.str?
    let posts ← decList decPosting posts; let md ← decList decMetadata md
    pure ⟨d, ed, cl, code, payee, posts, md⟩
  | _ => none

def decAccountDetail : Sexp → Option AccountDetail
  | .list [.atom "comment", s] => s.str?.map .comment
  | .list [.atom "note", s] => s.str?.map .note
  | .list [.atom "alias", s] => s.str?.map .alias
  | _ => none

def decCommodityDetail : Sexp → Option CommodityDetail
  | .list [.atom "comment", s] => s.str?.map .comment
  | .list [.atom "note", s] => s.str?.map .note
  | .list [.atom "alias", s] => s.str?.map .alias
  | .list [.atom "format", .list [.atom "amt", d, c]] => do
    let d ← decPDec d; let c ← c.str?
    pure (.format d c)
  | _ => none

def decEntry : Sexp → Option Entry
  | .list [.atom "comment", s] => s.str?.map .comment
  | .list [.atom "applytag", k, v] => do
    let k ← k.str?; let v ← decOpt decMetaValue v
    pure (.applyTag k v)
  | .list [.atom "endapplytag"] => some .endApplyTag
  | .list [.atom "include", p] => p.str?.map .include
  | .list [.atom "account", n, ds] => do
    let n ← n.str?; let ds ← decList decAccountDetail ds
    pure (.account n ds)
  | .list [.atom "commodity", n, ds] => do
    let n ← n.str?; let ds ← decList decCommodityDetail ds
    pure (.commodity n ds)
  | s@(.list (.atom "txn" :: _)) => (decTxn s).map .txn
  | _ => none

/-! ## encoding (same format) -/

def encOpt {α} (f : α → Sexp) : Option α → Sexp
  | none => .list []
  | some x => .list [f x]

def encDate (d : Date) : Sexp := tagged "d" [mkInt d.y, mkNat d.m, mkNat d.d]

def encPDec (d : PDec) : Sexp :=
  tagged "dec" [mkNat (if d.neg then 1 else 0), mkNat d.mant, mkNat d.scale,
    .atom (match d.fmt with | none => "n" | some .plain => "p" | some .comma3dot => "c")]

def encOp : BinOp → Sexp
  | .add => .atom "add" | .sub => .atom "sub" | .mul => .atom "mul" | .div => .atom "div"

mutual
partial def encExpr : Expr → Sexp
  | .neg e => tagged "neg" [encExpr e]
  | .bin op l r => tagged "bin" [encOp op, encExpr l, encExpr r]
  | .val v => tagged "val" [encVExpr v]
partial def encVExpr : VExpr → Sexp
  | .paren e => tagged "paren" [encExpr e]
  | .amt d c => tagged "amt" [encPDec d, mkStr c]
end

def encExchange : Exchange → Sexp
  | .total v => tagged "total" [encVExpr v]
  | .rate v => tagged "rate" [encVExpr v]

def encClear : ClearState → Sexp
  | .uncleared => .atom "u" | .cleared => .atom "c" | .pending => .atom "p"

def encLot (l : Lot) : Sexp := tagged "lot" [encOpt encExchange l.price, encOpt encDate l.date, encOpt mkStr l.note]

def encPostingAmount (p : PostingAmount) : Sexp :=
  tagged "pa" [encVExpr p.amount, encOpt encExchange p.cost, encLot p.lot]

def encMetaValue : MetaValue → Sexp
  | .text s => tagged "text" [mkStr s]
  | .expr s => tagged "expr" [mkStr s]

def encMetadata : Metadata → Sexp
  | .comment s => tagged "comment" [mkStr s]
  | .wordTags ts => tagged "tags" (ts.map mkStr)
  | .keyValue k v => tagged "kv" [mkStr k, encMetaValue v]

def encPosting (p : Posting) : Sexp :=
  tagged "post" [mkStr p.account, encClear p.clear, encOpt encPostingAmount p.amount,
    encOpt encVExpr p.balance, .list (p.metadata.map encMetadata)]

def encTxn (t : Transaction) : Sexp :=
  tagged "txn" [encDate t.date, encOpt encDate t.effectiveDate, encClear t.clear, encOpt mkStr t.code,
    mkStr t.payee, .list (t.posts.map encPosting), .list (t.metadata.map encMetadata)]

def encEntry : Entry → Sexp
  | .txn t => encTxn t
  | .comment s => tagged "comment" [mkStr s]
  | .applyTag k v => tagged "applytag" [mkStr k, encOpt encMetaValue v]
  | .endApplyTag => tagged "endapplytag" []
  | .include p => tagged "include" [mkStr p]
  | .account n ds => tagged "account" [mkStr n, .list (ds.map fun
      | .comment s => tagged "comment" [mkStr s]
      | .note s => tagged "note" [mkStr s]
      | .alias s => tagged "alias" [mkStr s])]
  | .commodity n ds => tagged "commodity" [mkStr n, .list (ds.map fun
      | .comment s => tagged "comment" [mkStr s]
      | .note s => tagged "note" [mkStr s]
      | .alias s => tagged "alias" [mkStr s]
      | .format d c => tagged "format" [tagged "amt" [encPDec d, mkStr c]])]

end Okane.Drv
