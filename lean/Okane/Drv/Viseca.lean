import Okane.Drv.IOUtil
import Okane.Drv.DecodeSyntax
import Okane.Drv.C17
import Okane.Model.ImportViseca
/-!
Driver for the Viseca statement model (`drv c15 viseca`, dispatched from `Drv/C15.lean`).

line: `(case <entry> (pats (<pattern> 0|1)...) (table <tab>...) (lines <L>...))`
   `<entry>`, `<tab>` in the forms of `Drv/C17.lean` (what `hx c15 viseca` prints as `(cfg ..)` / `(table ..)`),
   `<L>` = `(t <text>)` one line of the file *with* its line feed, or `(bad)` for a line that is not UTF-8.
→ `(ok (parse <P>) (import <I>) (canon 0|1 <text>))`
   `<P>` = `(ok <e>...)` | `(err <Kind> <site> <e>...)`, `<I>` = `(ok <txn-tree>...)` | `(err import <Kind> <site>)`,
   `<e>` as printed by `hx c15 viseca`; `(canon 1 <text>)`: every entry read is canonical (`canonStatement`) and `<text>`
   is `printStatement` of the entries (the text the round-trip theorem is about), else `(canon 0 ~)`.
 | `(table-incomplete <pattern> <text>)`
-/
namespace Okane.Drv.Viseca
open Okane Okane.Import Okane.Import.Viseca Okane.Drv Okane.Drv.C17 Sexp

def decEntryCfg : Sexp → Option ConfigEntry
  | .list [.atom "entry", p, e, a, t, o, .list [.atom "spec", prim, cv], f, .list rs] => do
    let p ← p.str?; let e ← e.str?; let a ← a.str?; let t ← decAT t
    let o ← C17.decOpt Sexp.str? o; let prim ← prim.str?; let cv ← decConv cv; let f ← decFormat f
    let rs ← rs.mapM decRule
    pure ⟨p, e, a, t, o, ⟨prim, cv⟩, f, rs⟩
  | _ => none

def decLine : Sexp → Option RawLine
  | .list [.atom "t", s] => s.str?.map fun s => RawLine.text s.toList
  | .list [.atom "bad"] => some RawLine.invalidUtf8
  | _ => none

def decPats (xs : List Sexp) : Option (List (String × Bool)) :=
  xs.mapM fun
    | .list [p, v] => do let p ← p.str?; let v ← decBool v; pure (p, v)
    | _ => none

def encDec (d : Dec) : Sexp := tagged "dec" [encBool d.neg, mkNat d.mant, mkNat d.scale]
def encAmt (a : OwnedAmount) : Sexp := tagged "amt" [encBool a.value.neg, mkNat a.value.mant, mkNat a.value.scale, mkStr a.commodity]

def encEntry (e : Viseca.Entry) : Sexp :=
  tagged "e" [mkNat e.lineCount, encDate e.date, encDate e.effectiveDate, mkStr e.payee, encDec e.amount, mkStr e.category,
    C17.encOpt encAmt e.spent,
    C17.encOpt (fun (x : Viseca.Exchange) => tagged "x" [encDec x.rate, encDate x.rateDate, encAmt x.equivalent]) e.exchange,
    C17.encOpt (fun (f : Fee) => tagged "f" [encDec f.percent, encAmt f.amount]) e.fee]

def errSite : ImportErr → String
  | .viseca s => s
  | _ => ""

/-- the entries read before the parser stopped (driver-side loop over the model's `parseEntry`) -/
def entriesBefore (primary : String) : Nat → Reader → List Viseca.Entry
  | 0, _ => []
  | fuel + 1, r =>
    match parseEntry primary r with
    | .ok (some e, r') => e :: entriesBefore primary fuel r'
    | _ => []

def step (line : String) : String :=
  match Sexp.parse line with
  | some (.list [.atom "case", cfg, .list (.atom "pats" :: pats), .list (.atom "table" :: tab), .list (.atom "lines" :: ls)]) =>
    match decEntryCfg cfg, decPats pats, decTab tab, ls.mapM decLine with
    | some cfg, some pats, some table, some lines =>
      let primary := cfg.commodity.primary
      let before := entriesBefore primary (lines.length + 1) ⟨lines, 0⟩
      -- (a pattern the regex crate rejects stops the import before any text is looked at: no verdicts needed)
      let gap := if pats.any (fun pv => !pv.2) then none else before.findSome? fun e =>
        tableGap cfg.rewrite [(Field.payee, FieldKind.payee (some e.payee)), (Field.category, FieldKind.text (some e.category) true)] table
      match gap with
      | some (p, h) => s!"(table-incomplete {Sexp.encode p} {Sexp.encode h})"
      | none =>
        let env : VisecaEnv :=
          { cap := tableCaptures table
            validPattern := fun p => match pats.find? (fun pv => pv.1 == p) with | some pv => pv.2 | none => true }
        let parse :=
          match parseEntries primary lines with
          | .ok es => tagged "ok" (es.map encEntry)
          | .err e => tagged "err" ([.atom e.kind, mkStr (errSite e)] ++ before.map encEntry)
          | .panic s => tagged "panic" [mkStr s]
          | .fuelOut => .atom "(fuel-out)"
        let imp :=
          match visecaImport env cfg lines with
          | .ok ts =>
            (match ts.mapM (fun t => match t.toDoubleEntry cfg.account with | .ok tr => some tr | _ => none) with
             | some trs => tagged "ok" (trs.map encTxn)
             | none => tagged "err" [.atom "to_double_entry", .atom "Other", .atom "~"])
          | .err e => tagged "err" [.atom "import", .atom e.kind, mkStr (errSite e)]
          | .panic s => tagged "panic" [mkStr s]
          | .fuelOut => .atom "(fuel-out)"
        let canon :=
          match parseEntries primary lines with
          | .ok es =>
            if canonStatement primary es then
              tagged "canon" [.atom "1", mkStr (String.ofList ((es.flatMap printEntry).flatten))]
            else tagged "canon" [.atom "0", .atom "~"]
          | _ => tagged "canon" [.atom "0", .atom "~"]
        (tagged "ok" [tagged "parse" [parse], tagged "import" [imp], canon]).toStr
    | _, _, _, _ => "(bad-case)"
  | _ => "(bad-case)"

def main : IO Unit := forEachLine step

end Okane.Drv.Viseca
