import Okane.Drv.IOUtil
import Okane.Model.Diag
import Okane.Model.ParseSpans
/-!
Driver for C14.  Input lines (positions are byte offsets taken from the implementation's own error values):
  `<id> bk <enc file text> <a>..<b> <kind> <spans>`   book-keeping error on the entry with span a..b of that file;
        kind ∈ undeducible|assertion|zeroAmountWithExchange|zeroExchangeRate|exchangeWithAmountCommodity|other,
        spans = tracked spans `a..b;c..d` in the order the error carries them, or `-`
  `<id> syn <enc file text> <startPos> <errPos>`       parse error
  `<id> spans <enc file text>`                         the `Tracking` parser model (`Model/ParseSpans.lean`) on the text
Output:
  bk : `<id> ls=<line_start> len=<|text|> anns=<a..b;..> lines=<line of each annotation start;..> last=<line of the entry end> text=<enc>`
  syn: `<id> ls=<line_start> span=<a>..<b> len=<|input|> line=<line shown for the error>`
  spans: `<id> end=done|err:<line_start>:<a>..<b> entries=<s>..<t>:<label>=<a>..<b>,..|<s>..<t>:-|..` — per delivered entry
        its `ParsedContext` span and its tracked spans in `{:?}` order, labelled a(ccount) v(alue = amount) c(ost) l(ot price)
        b(alance) p(osting)
  or `<id> panic:<site>` / `<id> fuelOut`
-/
namespace Okane.Drv.C14
open Okane Okane.Drv Okane.Diag

def parseRange (s : String) : Option Range :=
  match s.splitOn ".." with
  | [a, b] => do
    let a ← a.toNat?; let b ← b.toNat?
    pure ⟨a, b⟩
  | _ => none

def parseRanges (s : String) : Option (List Range) :=
  if s == "-" then some [] else (s.splitOn ";").mapM parseRange

def mkSpans (kind : String) (rs : List Range) : Option BkSpans :=
  match kind, rs with
  | "undeducible", [a, b] => some (.undeducible a b)
  | "assertion", [a, b] => some (.assertion a b)
  | "zeroAmountWithExchange", [a] => some (.zeroAmountWithExchange a)
  | "zeroExchangeRate", [a] => some (.zeroExchangeRate a)
  | "exchangeWithAmountCommodity", [a, b] => some (.exchangeWithAmountCommodity a b)
  | "other", _ => some .other
  | _, _ => none

def showRanges (rs : List Range) : String :=
  if rs.isEmpty then "-" else ";".intercalate (rs.map fun r => s!"{r.start}..{r.stop}")

def bytesToString (bs : Bytes) : String :=
  match String.fromUTF8? ⟨bs.toArray⟩ with
  | some s => s
  | none => "<invalid utf-8>"

def showOutcome {α} (id : String) (o : Outcome Unit α) (f : α → String) : String :=
  match o with
  | .ok a => f a
  | .err _ => s!"{id} err"
  | .panic s => s!"{id} panic:{Sexp.encode s}"
  | .fuelOut => s!"{id} fuelOut"

open Okane.ParseSpans in
/-- labels parallel to `TPosting.spans` / `postSpans` / `TEntry.spans` -/
def spanLabels : TEntry → List String
  | .other _ => []
  | .txn t => t.posts.flatMap fun p =>
      ["a"] ++ (match p.value.amount with
        | none => []
        | some a => ["v"] ++ (if a.cost.isSome then ["c"] else []) ++ (if a.lot.price.isSome then ["l"] else []))
      ++ (if p.value.balance.isSome then ["b"] else []) ++ ["p"]

open Okane.ParseSpans in
def showSpans (text : List Char) : String :=
  let total := Okane.Comb.utf8Len text
  let (es, en) := parseLedgerRunT text
  let one (x : ParsedT) : String :=
    let rs := x.trackedRanges total
    let ls := spanLabels x.entry
    let body :=
      if rs.isEmpty then "-"
      else if ls.length != rs.length then "label-mismatch"
      else ",".intercalate ((ls.zip rs).map fun (l, (a, b)) => s!"{l}={a}..{b}")
    s!"{x.start}..{x.stop}:{body}"
  let ending := match en with
    | .done => "done"
    | .error e => s!"err:{e.lineStart}:{e.offset}..{e.spanEnd}"
    | .panic site => s!"panic:{Sexp.encode site}"
    | .fuelOut => "fuelOut"
  s!"end={ending} entries={if es.isEmpty then "-" else "|".intercalate (es.map one)}"

def step (line : String) : String :=
  match words line with
  | [id, "bk", text, span, kind, spans] =>
    match Sexp.decode text, parseRange span, (parseRanges spans).bind (mkSpans kind) with
    | some t, some sp, some e =>
      let bytes := t.toUTF8.toList
      let pctx : PCtx := ⟨bytes, sp⟩
      showOutcome id (ErrorContext.new "" pctx) fun ctx =>
        showOutcome id (ctx.annotations e) fun anns =>
          let lines := anns.map fun r => snippetLine ctx.lineStart ctx.text r.start
          let last := snippetLine ctx.lineStart ctx.text ctx.text.length
          let ls := ";".intercalate (lines.map toString)
          s!"{id} ls={ctx.lineStart} len={ctx.text.length} anns={showRanges anns} lines={if ls.isEmpty then "-" else ls} last={last} text={Sexp.encode (bytesToString ctx.text)}"
    | _, _, _ => s!"{id} bad-case"
  | [id, "syn", text, sp, ep] =>
    match Sexp.decode text, sp.toNat?, ep.toNat? with
    | some t, some startPos, some errPos =>
      let bytes := t.toUTF8.toList
      showOutcome id (parseErrorNew (parseErrorFuel bytes) bytes startPos errPos) fun pe =>
        s!"{id} ls={pe.lineStart} span={pe.errorSpan.start}..{pe.errorSpan.stop} len={pe.input.length} line={snippetLine pe.lineStart pe.input pe.errorSpan.start}"
    | _, _, _ => s!"{id} bad-case"
  | [id, "spans", text] =>
    match Sexp.decode text with
    | some t => s!"{id} {showSpans t.toList}"
    | none => s!"{id} bad-case"
  | _ => "bad-case"

def main (_args : List String) : IO Unit := forEachLine step

end Okane.Drv.C14
