import Okane.Drv.IOUtil
/-! Driver commands for C14 (stub: replaced when the property's streams are built). -/
namespace Okane.Drv.C14

def main (args : List String) : IO Unit := do
  let _ := args
  pure ()

end Okane.Drv.C14
