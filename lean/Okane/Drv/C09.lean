import Okane.Drv.Core
import Okane.Model.Query
/-!
Driver for C09.  Input: the output lines of `hx c09`
  `<id> tree=(...) pdb=((P (d Y M D) TARGET neg mant scale COMMODITY) ...) result=ok q=(((d Y M D) A B <res>) ...)`
For every query the model's `Query.eval "1 A" {date, exchange B}` is computed under several pop orders and
neighbour orders (the parameters of `Price.priceTable`); the implementation's answer must be one of them.
Output: `<id> agree q=<n> ties=<k> inexact=<k> maxsteps=<n>` | `<id> DISAGREE ...` | `<id> skip ...`.
-/
namespace Okane.Drv.C09
open Okane Okane.Drv Okane.Price Okane.Query Sexp

/-- `(P (d Y M D) TARGET neg mant scale COMMODITY)` -/
structure DbLine where
  date : Date
  target : String
  rate : Rat
  commodity : String

def decDbLine : Sexp → Option DbLine
  | .list [.atom "P", d, t, n, m, s, c] => do
    let d ← decDate d; let t ← t.str?; let r ← decRat n m s; let c ← c.str?
    pure ⟨d, t, r, c⟩
  | _ => none

def decDb : Sexp → Option (List DbLine)
  | .list xs => xs.mapM decDbLine
  | _ => none

/-- `load_price_db`: `ensure(target)`, `ensure(rate.commodity)`, one `PriceEvent{1 target, rate}` per line. -/
def loadDb (store : Store) : List DbLine → Store × List (PriceEvent String)
  | [] => (store, [])
  | l :: rest =>
    let (t, s1) := store.ensure l.target
    let (c, s2) := s1.ensure l.commodity
    let (s3, evs) := loadDb s2 rest
    (s3, ⟨l.date, ⟨1, t⟩, ⟨l.rate, c⟩⟩ :: evs)

/-! ### pop orders and neighbour orders tried by the driver -/

def distLt (a b : Dist) : Bool := decide (a < b)

/-- index of the first maximal element (a max-heap pops a greatest element). -/
def argBest (better : Dist → Dist → Bool) : List (Item String) → Nat
  | [] => 0
  | x :: xs =>
    (xs.foldl (fun (acc : Nat × Nat × Dist) it =>
      let (i, best, bd) := acc
      if better it.dist bd then (i + 1, i + 1, it.dist) else (i + 1, best, bd)) (0, 0, x.dist)).2.1

def pickMax : Nat → List (Item String) → Nat := fun _ q => argBest (fun a b => distLt b a) q
def pickMin : Nat → List (Item String) → Nat := fun _ q => argBest (fun a b => distLt a b) q
def pickFifo : Nat → List (Item String) → Nat := fun _ _ => 0
def pickLifo : Nat → List (Item String) → Nat := fun _ q => q.length - 1
/-- greatest element, the *last* among equals -/
def pickMaxLast : Nat → List (Item String) → Nat := fun _ q => argBest (fun a b => !distLt a b) q

def ordId : String → List (String × PEntry) → List (String × PEntry) := fun _ l => l
def ordRev : String → List (String × PEntry) → List (String × PEntry) := fun _ l => l.reverse

/-- what the Rust does since fix b2e85da: neighbours sorted by commodity name. -/
def ordSorted : String → List (String × PEntry) → List (String × PEntry) :=
  fun _ l => isortBy (fun a b => decide (a.1 ≤ b.1)) l

def fuel : Nat := 200000

def cfgs : List (Cfg String) :=
  [⟨fuel, pickMax, ordSorted⟩, ⟨fuel, pickMaxLast, ordSorted⟩, ⟨fuel, pickMax, ordId⟩, ⟨fuel, pickMax, ordRev⟩, ⟨fuel, pickMaxLast, ordId⟩, ⟨fuel, pickMaxLast, ordRev⟩,
   ⟨fuel, pickMin, ordId⟩, ⟨fuel, pickMin, ordRev⟩, ⟨fuel, pickFifo, ordId⟩, ⟨fuel, pickLifo, ordRev⟩]

def leS (a b : String) : Bool := a ≤ b

def envOf (cfg : Cfg String) (repo : Builder String) : Env String String := ⟨cfg, repo, leS, leS⟩

/-- the processed ledger plus its price repository, as `report::process` with a price db builds it. -/
structure World where
  st : ProcState
  store : Store
  repo : Builder String

def mkWorld (entries : List Entry) (db : List DbLine) : Except String World :=
  match process entries with
  | .ok st =>
    let (store, dbEvents) := loadDb st.ctx.commodities db
    match buildFrom st.events dbEvents with
    | .ok b => .ok ⟨{ st with ctx := { st.ctx with commodities := store } }, store, build b⟩
    | .panic s => .error ("model panic: " ++ s)
    | _ => .error "model: builder failed"
  | .err (i, _) => .error s!"model rejects entry {i}"
  | .panic s => .error ("model panic: " ++ s)
  | .fuelOut => .error "model fuel"

inductive Res where
  | ok (a : Amount String)
  | err (kind : String)
  | crash (what : String)

def Res.toStr : Res → String
  | .ok a => "(ok " ++ (encAmountR a).toStr ++ ")"
  | .err k => "(err " ++ k ++ ")"
  | .crash w => "(crash " ++ w ++ ")"

def resOfOutcome : Outcome (QueryErr String) (Amount String) → Res
  | .ok a => .ok a
  | .err (.commodityNotFound _) => .err "CommodityNotFound"
  | .err (.evalFailed _) => .err "EvalFailed"
  | .err (.conversionFailure _) => .err "CommodityConversionFailure"
  | .panic s => .crash s
  | .fuelOut => .crash "fuelOut"

def decRes : Sexp → Option Res
  | .list [.atom "ok", a] => (decAmount a).map .ok
  | .list [.atom "err", .atom k] => some (.err k)
  | _ => none

def amountClose (a b : Amount String) : Bool :=
  let x := sortAmount a; let y := sortAmount b
  x.length == y.length && (x.zip y).all fun (p, q) => p.1 == q.1 && ratClose p.2 q.2

/-- 0 = differ, 1 = close (within 1e-18 relative), 2 = equal -/
def resCmp : Res → Res → Nat
  | .ok a, .ok b => if amountEq a b then 2 else if amountClose a b then 1 else 0
  | .err a, .err b => if a == b then 2 else 0
  | _, _ => 0

def one : PDec := ⟨false, 1, 0, none⟩

def modelEval (w : World) (cfg : Cfg String) (date : Date) (a b : String) : Res :=
  resOfOutcome (Query.eval (envOf cfg w.repo) w.store (.amt one a) date (some b))

/-- number of loop iterations a table computation takes (for the fuel-bound statistics): smallest fuel
among a few candidates that suffices. -/
def stepsNeeded (w : World) (date : Date) (b : String) : Nat :=
  let cands := (List.range 65).drop 1 ++ [128, 256, 1024, 4096, fuel]
  (cands.find? fun f => (priceTable ⟨f, pickMax, ordSorted⟩ w.repo b date).isOk).getD (fuel + 1)

structure Tally where
  n : Nat := 0
  ties : Nat := 0
  inexact : Nat := 0
  bad : Option String := none

def checkQuery (w : World) (t : Tally) : Sexp → Tally
  | .list [d, a, b, r] =>
    match decDate d, a.str?, b.str?, decRes r with
    | some date, some a, some b, some impl =>
      let ms := cfgs.map fun cfg => modelEval w cfg date a b
      let best := (ms.map (resCmp impl)).foldl max 0
      let first := ms.headD (.crash "none")
      let tie := ms.any fun m => resCmp first m != 2
      if best == 0 then
        { t with n := t.n + 1, bad := t.bad.orElse fun _ => some s!"at=({date.fmtHyphen} {a} {b}) impl={impl.toStr} model={first.toStr}" }
      else
        { t with n := t.n + 1, ties := t.ties + (if tie then 1 else 0), inexact := t.inexact + (if best == 1 then 1 else 0) }
    | _, _, _, _ => { t with bad := some "undecodable query record" }
  | _ => { t with bad := some "undecodable query record" }

def step (line : String) : String :=
  let (id, fs) := splitFields line
  match field fs "tree", field fs "pdb", field fs "result", field fs "q" with
  | some t, some pdb, some result, some q =>
    if result != "ok" then s!"{id} skip impl={result}" else
    match decEntries t, (Sexp.parse pdb).bind decDb, Sexp.parse q with
    | some es, some db, some (.list qs) =>
      match mkWorld es db with
      | .error e => s!"{id} DISAGREE implementation processed the ledger, {e}"
      | .ok w =>
        let tally := qs.foldl (checkQuery w) {}
        match tally.bad with
        | some b => s!"{id} DISAGREE {b}"
        | none =>
          let targets := (qs.filterMap fun | .list [d, _, b, _] => (do let d ← decDate d; let b ← b.str?; pure (d, b)) | _ => none)
          let steps := (targets.reverse.take 40).foldl (fun m db => max m (stepsNeeded w db.1 db.2)) 0
          s!"{id} agree q={tally.n} ties={tally.ties} inexact={tally.inexact} maxsteps={steps}"
    | _, _, _ => s!"{id} undecodable"
  | _, _, _, _ => s!"{id} bad-case"

def main (_args : List String) : IO Unit := forEachLine step

end Okane.Drv.C09
