import Okane.Drv.Core
import Okane.Model.Query
import Okane.Model.PriceDbFile
import Okane.Lemmas.PriceTerm
/-!
Driver for C09.  Input: the output lines of `hx c09`
  `<id> tree=(...) pdb=((P (d Y M D) TARGET neg mant scale COMMODITY) ...)|- [db=<enc text>] result=ok|(...)
        [dberr=(offset end line_start)|io] q=(((d Y M D) A B <res>) ...)`
The **text** of the price database (`db`) is parsed by the model itself (`PriceDbFile.parsePriceDb`) and loaded
with the model of `load_price_db` (`PriceDbFile.processPriceDb`); the generator's structured records (`pdb`, `-`
when there are none) are a cross-check: the model-parsed records must equal them.  When the implementation
failed with `ReportError::PriceDB` the model must fail too, with the same `error_span` and `line_start`.
For every query the model's `Query.eval "1 A" {date, exchange B}` is computed under several pop orders and
neighbour orders (the parameters of `Price.priceTable`); the implementation's answer must be one of them.
Output: `<id> agree q=<n> ties=<k> inexact=<k> maxsteps=<n> recs=<n>` | `<id> agree dberr=(o e l)` |
        `<id> DISAGREE ...` | `<id> skip ...`.
-/
namespace Okane.Drv.C09
open Okane Okane.Drv Okane.Price Okane.Query Sexp

/-- `(P (d Y M D) TARGET neg mant scale COMMODITY)` -/
structure DbLine where
  date : Date
  target : String
  rate : Rat
  commodity : String

def decDbLine : Sexp → Option DbLine
  | .list [.atom "P", d, t, n, m, s, c] => do
    let d ← decDate d; let t ← t.str?; let r ← decRat n m s; let c ← c.str?
    pure ⟨d, t, r, c⟩
  | _ => none

def decDb : Sexp → Option (List DbLine)
  | .list xs => xs.mapM decDbLine
  | _ => none

/-- `load_price_db`: `ensure(target)`, `ensure(rate.commodity)`, one `PriceEvent{1 target, rate}` per line. -/
def loadDb (store : Store) : List DbLine → Store × List (PriceEvent String)
  | [] => (store, [])
  | l :: rest =>
    let (t, s1) := store.ensure l.target
    let (c, s2) := s1.ensure l.commodity
    let (s3, evs) := loadDb s2 rest
    (s3, ⟨l.date, ⟨1, t⟩, ⟨l.rate, c⟩⟩ :: evs)

/-! ### pop orders and neighbour orders tried by the driver -/

def distLt (a b : Dist) : Bool := decide (a < b)

/-- index of the first maximal element (a max-heap pops a greatest element). -/
def argBest (better : Dist → Dist → Bool) : List (Item String) → Nat
  | [] => 0
  | x :: xs =>
    (xs.foldl (fun (acc : Nat × Nat × Dist) it =>
      let (i, best, bd) := acc
      if better it.dist bd then (i + 1, i + 1, it.dist) else (i + 1, best, bd)) (0, 0, x.dist)).2.1

def pickMax : String → Date → Nat → List (Item String) → Nat := fun _ _ _ q => argBest (fun a b => distLt b a) q
def pickMin : String → Date → Nat → List (Item String) → Nat := fun _ _ _ q => argBest (fun a b => distLt a b) q
def pickFifo : String → Date → Nat → List (Item String) → Nat := fun _ _ _ _ => 0
def pickLifo : String → Date → Nat → List (Item String) → Nat := fun _ _ _ q => q.length - 1
/-- greatest element, the *last* among equals -/
def pickMaxLast : String → Date → Nat → List (Item String) → Nat := fun _ _ _ q => argBest (fun a b => !distLt a b) q

def ordId : String → List (String × PEntry) → List (String × PEntry) := fun _ l => l
def ordRev : String → List (String × PEntry) → List (String × PEntry) := fun _ l => l.reverse

/-- what the Rust does since fix b2e85da: neighbours sorted by commodity name. -/
def ordSorted : String → List (String × PEntry) → List (String × PEntry) :=
  fun _ l => isortBy (fun a b => decide (a.1 ≤ b.1)) l


/-! ### a faithful simulation of `std::collections::BinaryHeap` (max-heap on `Distance`, Rust 1.8x `sift_up` /
`sift_down_to_bottom`), used to obtain the exact pop sequence of `compute_price_table`.  The pop sequence is then
turned into a `pick` function, so that the heap-ordered run is *an instance of the model* the theorems quantify
over (`pickHeap`); the driver checks both that instance and the implementation against it. -/

abbrev HItem := Item String

def hLe (a b : HItem) : Bool := decide (a.dist ≤ b.dist)

/-- `sift_up(start, pos)` -/
partial def siftUp (data : Array HItem) (start pos : Nat) : Array HItem :=
  if h : pos < data.size then
    let elt := data[pos]
    let rec go (data : Array HItem) (pos : Nat) : Array HItem × Nat :=
      if pos > start then
        let parent := (pos - 1) / 2
        match data[parent]? with
        | some pe => if hLe elt pe then (data, pos) else go (data.set! pos pe) parent
        | none => (data, pos)
      else (data, pos)
    let (data, pos) := go data pos
    data.set! pos elt
  else data

/-- `sift_down_to_bottom(0)` followed by `sift_up(start, pos)` -/
partial def siftDownToBottom (data : Array HItem) (pos0 : Nat) : Array HItem :=
  let stop := data.size
  match data[pos0]? with
  | none => data
  | some elt =>
    let rec go (data : Array HItem) (pos child : Nat) : Array HItem × Nat × Nat :=
      if child + 2 ≤ stop then
        match data[child]?, data[child + 1]? with
        | some a, some b =>
          let child := if hLe a b then child + 1 else child
          match data[child]? with
          | some c => go (data.set! pos c) child (2 * child + 1)
          | none => (data, pos, child)
        | _, _ => (data, pos, child)
      else (data, pos, child)
    let (data, pos, child) := go data pos0 (2 * pos0 + 1)
    let (data, pos) :=
      if child + 1 == stop then
        match data[child]? with
        | some c => (data.set! pos c, child)
        | none => (data, pos)
      else (data, pos)
    siftUp (data.set! pos elt) pos0 pos

def heapPush (data : Array HItem) (it : HItem) : Array HItem :=
  let old := data.size
  siftUp (data.push it) 0 old

def heapPop (data : Array HItem) : Option (HItem × Array HItem) :=
  match data.back? with
  | none => none
  | some last =>
    let data := data.pop
    if data.isEmpty then some (last, data)
    else
      match data[0]? with
      | some top => some (top, siftDownToBottom (data.set! 0 last) 0)
      | none => none

/-- `compute_price_table` with the real heap and the sorted neighbour order: returns the table and the pop trace. -/
partial def heapRun (repo : Builder String) (priceWith : String) (date : Date) : Table String × List HItem :=
  let out := edgesAt ordSorted repo date
  let rec go (heap : Array HItem) (t : Table String) (trace : List HItem) (n : Nat) : Table String × List HItem :=
    if n == 0 then (t, trace.reverse) else
    match heapPop heap with
    | none => (t, trace.reverse)
    | some (it, heap) =>
      if isStale t it then go heap t (it :: trace) (n - 1)
      else
        let (t, heap) := (out it.node).foldl (fun (st : Table String × Array HItem) e =>
          -- same decision as `Price.relax`; the push goes to the heap
          let (t', pushed) := relax it.dist it.rate (st.1, []) e
          (t', pushed.foldl heapPush st.2)) (t, heap)
        go heap t (it :: trace) (n - 1)
  go #[⟨Dist.zero, priceWith, 1⟩] [] [] 1000000

/-- the heap's pop sequence as a `pick`: at step `i` choose the queued element equal to the `i`-th popped one. -/
def pickHeap (repo : Builder String) (total : Nat) : String → Date → Nat → List HItem → Nat :=
  fun priceWith date n q =>
    let trace := (heapRun repo priceWith date).2
    match trace[total - 1 - n]? with
    | some it => (q.findIdx? (· == it)).getD 0
    | none => 0

def cfgHeap (repo : Builder String) (f : Nat) : Cfg String := ⟨f, pickHeap repo f, ordSorted⟩

/-- fallback fuel where no single date is at hand (C10's balance queries) -/
def fuel : Nat := 200000

/-- the pop orders / neighbour orders tried, with the given fuel.  For C09 the fuel is `fuelBound repo date`,
the bound of theorem `C09_terminates`: a `fuelOut` would contradict it and shows up as a disagreement. -/
def cfgsWith (f : Nat) : List (Cfg String) :=
  [⟨f, pickMax, ordSorted⟩, ⟨f, pickMaxLast, ordSorted⟩, ⟨f, pickMax, ordId⟩, ⟨f, pickMax, ordRev⟩,
   ⟨f, pickMaxLast, ordId⟩, ⟨f, pickMaxLast, ordRev⟩,
   ⟨f, pickMin, ordId⟩, ⟨f, pickMin, ordRev⟩, ⟨f, pickFifo, ordId⟩, ⟨f, pickLifo, ordRev⟩]

def cfgs : List (Cfg String) := cfgsWith fuel

def leS (a b : String) : Bool := a ≤ b

def envOf (cfg : Cfg String) (repo : Builder String) : Env String String := ⟨cfg, repo, leS, leS⟩

/-- the processed ledger plus its price repository, as `report::process` with a price db builds it. -/
structure World where
  st : ProcState
  store : Store
  repo : Builder String

def mkWorld (entries : List Entry) (db : List DbLine) : Except String World :=
  match process entries with
  | .ok st =>
    let (store, dbEvents) := loadDb st.ctx.commodities db
    match buildFrom st.events dbEvents with
    | .ok b => .ok ⟨{ st with ctx := { st.ctx with commodities := store } }, store, build b⟩
    | .panic s => .error ("model panic: " ++ s)
    | _ => .error "model: builder failed"
  | .err (i, _) => .error s!"model rejects entry {i}"
  | .panic s => .error ("model panic: " ++ s)
  | .fuelOut => .error "model fuel"

/-- the world of a case whose price database is given as text: the model parses and loads it
(`report::process` with `price_db_path`; no path = nothing to load = the empty text). -/
def mkWorldText (entries : List Entry) (text : List Char) : Except String (Except Parse.ParseErr World) :=
  match process entries with
  | .ok st =>
    match PriceDbFile.processPriceDb st.events text st.ctx.commodities with
    | .ok (store, repo) => .ok (.ok ⟨{ st with ctx := { st.ctx with commodities := store } }, store, repo⟩)
    | .err e => .ok (.error e)
    | .panic s => .error ("model panic: " ++ s)
    | .fuelOut => .error "model fuel (price db)"
  | .err (i, _) => .error s!"model rejects entry {i}"
  | .panic s => .error ("model panic: " ++ s)
  | .fuelOut => .error "model fuel"

/-- model-parsed records against the generator's structured records -/
def recsMatch (rs : List PriceDbFile.PriceRec) (db : List DbLine) : Bool :=
  rs.length == db.length && (rs.zip db).all fun (r, l) =>
    r.date == l.date && r.target == l.target && r.rate.toRat == l.rate && r.commodity == l.commodity

def showErr (e : Parse.ParseErr) : String := s!"({e.offset} {e.spanEnd} {e.lineStart})"

/-- `dberr=(offset end line_start)` -/
def decDbErr (s : String) : Option (Nat × Nat × Nat) :=
  match Sexp.parse s with
  | some (.list [a, b, c]) => do
    let a ← a.nat?; let b ← b.nat?; let c ← c.nat?
    pure (a, b, c)
  | _ => none

inductive Res where
  | ok (a : Amount String)
  | err (kind : String)
  | crash (what : String)

def Res.toStr : Res → String
  | .ok a => "(ok " ++ (encAmountR a).toStr ++ ")"
  | .err k => "(err " ++ k ++ ")"
  | .crash w => "(crash " ++ w ++ ")"

def resOfOutcome : Outcome (QueryErr String) (Amount String) → Res
  | .ok a => .ok a
  | .err (.commodityNotFound _) => .err "CommodityNotFound"
  | .err (.evalFailed _) => .err "EvalFailed"
  | .err (.conversionFailure _) => .err "CommodityConversionFailure"
  | .panic s => .crash s
  | .fuelOut => .crash "fuelOut"

def decRes : Sexp → Option Res
  | .list [.atom "ok", a] => (decAmount a).map .ok
  | .list [.atom "err", .atom k] => some (.err k)
  | _ => none

def amountClose (a b : Amount String) : Bool :=
  let x := sortAmount a; let y := sortAmount b
  x.length == y.length && (x.zip y).all fun (p, q) => p.1 == q.1 && ratClose p.2 q.2

/-- 0 = differ, 1 = close (within 1e-18 relative), 2 = equal -/
def resCmp : Res → Res → Nat
  | .ok a, .ok b => if amountEq a b then 2 else if amountClose a b then 1 else 0
  | .err a, .err b => if a == b then 2 else 0
  | _, _ => 0

def one : PDec := ⟨false, 1, 0, none⟩

def modelEval (w : World) (cfg : Cfg String) (date : Date) (a b : String) : Res :=
  resOfOutcome (Query.eval (envOf cfg w.repo) w.store (.amt one a) date (some b))

/-- number of loop iterations a table computation takes (for the fuel-bound statistics): smallest fuel
among a few candidates that suffices. -/
def stepsNeeded (w : World) (date : Date) (b : String) : Nat :=
  let cands := (List.range 65).drop 1 ++ [128, 256, 1024, 4096, fuel]
  (cands.find? fun f => (priceTable ⟨f, pickMax, ordSorted⟩ w.repo b date).isOk).getD (fuel + 1)

structure Tally where
  n : Nat := 0
  ties : Nat := 0
  inexact : Nat := 0
  bad : Option String := none

def checkQuery (w : World) (t : Tally) : Sexp → Tally
  | .list [d, a, b, r] =>
    match decDate d, a.str?, b.str?, decRes r with
    | some date, some a, some b, some impl =>
      let ms := (cfgsWith (fuelBound w.repo date) ++ [cfgHeap w.repo (fuelBound w.repo date)]).map fun cfg => modelEval w cfg date a b
      let best := (ms.map (resCmp impl)).foldl max 0
      let first := ms.headD (.crash "none")
      let tie := ms.any fun m => resCmp first m != 2
      if best == 0 then
        { t with n := t.n + 1, bad := t.bad.orElse fun _ => some s!"at=({date.fmtHyphen} {a} {b}) impl={impl.toStr} model={first.toStr}" }
      else
        { t with n := t.n + 1, ties := t.ties + (if tie then 1 else 0), inexact := t.inexact + (if best == 1 then 1 else 0) }
    | _, _, _, _ => { t with bad := some "undecodable query record" }
  | _ => { t with bad := some "undecodable query record" }

def step (line : String) : String :=
  let (id, fs) := splitFields line
  match field fs "tree", field fs "result", field fs "q" with
  | some t, some result, some q =>
    -- the price-db text (absent = no price db path = nothing to load)
    let text? : Option (List Char) :=
      match field fs "db" with
      | none => some []
      | some x => (Sexp.decode x).map String.toList
    -- the structured records (`-` or absent: none given)
    let pdb? : Option (Option (List DbLine)) :=
      match field fs "pdb" with
      | none => some none
      | some "-" => some none
      | some x => ((Sexp.parse x).bind decDb).map some
    match text?, pdb? with
    | some text, some pdb =>
      if result != "ok" then
        -- the implementation failed: only a price-db parse error is this driver's matter
        match field fs "dberr" with
        | none => s!"{id} skip impl={result}"
        | some "io" => s!"{id} skip impl=io"
        | some de =>
          match decDbErr de, PriceDbFile.parsePriceDb text with
          | some (o, e, l), .err me =>
            if me.offset == o && me.spanEnd == e && me.lineStart == l then s!"{id} agree dberr={showErr me}"
            else s!"{id} DISAGREE price-db parse error: impl={de} model={showErr me}"
          | some _, .ok rs => s!"{id} DISAGREE the implementation rejects the price db ({de}), the model reads {rs.length} records"
          | some _, .panic p => s!"{id} DISAGREE model panic (price db): {p}"
          | some _, .fuelOut => s!"{id} DISAGREE model fuel (price db)"
          | none, _ => s!"{id} undecodable"
      else
      match decEntries t, Sexp.parse q with
      | some es, some (.list qs) =>
        match PriceDbFile.parsePriceDb text with
        | .err me => s!"{id} DISAGREE the implementation loads the price db, the model rejects it: {showErr me}"
        | .panic p => s!"{id} DISAGREE model panic (price db): {p}"
        | .fuelOut => s!"{id} DISAGREE model fuel (price db)"
        | .ok rs =>
          if !(pdb.all (recsMatch rs)) then
            s!"{id} DISAGREE the records the model parses from the price-db text differ from the generator's records"
          else
          match mkWorldText es text with
          | .error e => s!"{id} DISAGREE implementation processed the ledger, {e}"
          | .ok (.error me) => s!"{id} DISAGREE the implementation loads the price db, the model rejects it: {showErr me}"
          | .ok (.ok w) =>
            let tally := qs.foldl (checkQuery w) {}
            match tally.bad with
            | some b => s!"{id} DISAGREE {b}"
            | none =>
              let targets := (qs.filterMap fun | .list [d, _, b, _] => (do let d ← decDate d; let b ← b.str?; pure (d, b)) | _ => none)
              let steps := (targets.reverse.take 40).foldl (fun m db => max m (stepsNeeded w db.1 db.2)) 0
              s!"{id} agree q={tally.n} ties={tally.ties} inexact={tally.inexact} maxsteps={steps} recs={rs.length}"
      | _, _ => s!"{id} undecodable"
    | _, _ => s!"{id} undecodable"
  | _, _, _ => s!"{id} bad-case"

def main (_args : List String) : IO Unit := forEachLine step

end Okane.Drv.C09
