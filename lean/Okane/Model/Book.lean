import Okane.Base.Date
import Okane.Model.Amount
/-!
# Book-keeping core (mirror of `core/src/report/book_keeping.rs` after name resolution, and `balance.rs`)

This layer works on *resolved* postings: account and commodity names already interned (`α`, `κ`),
expressions already evaluated (`Model/Resolve.lean` does that, in the Rust's order).  All arithmetic
is exact.  `prec` gives a commodity's declared precision (`CommodityStore::get_decimal_point`).
-/
namespace Okane
variable {α κ : Type} [DecidableEq α] [DecidableEq κ]

/-- `Exchange` after evaluation. -/
inductive RExchange (κ : Type) where
  | total (s : SingleAmount κ)
  | rate (s : SingleAmount κ)
  deriving Repr, DecidableEq

/-- The amount part of a posting after evaluation.  A cost or lot price can only accompany a
single-commodity amount (`Exchange::try_from_syntax` rejects the others), so the type says so. -/
inductive RAmount (κ : Type) where
  | plain (a : PostingAmt κ)
  | priced (s : SingleAmount κ) (cost lot : Option (RExchange κ))
  deriving Repr, DecidableEq

structure RPosting (α κ : Type) where
  account : α
  amount : Option (RAmount κ)
  balance : Option (PostingAmt κ)
  deriving Repr, DecidableEq

structure RTxn (α κ : Type) where
  date : Date
  posts : List (RPosting α κ)
  deriving Repr

/-- `report::Posting`. -/
structure OutPosting (α κ : Type) where
  account : α
  amount : Amount κ
  converted : Option (SingleAmount κ)
  deriving Repr

/-- `report::Transaction`. -/
structure OutTxn (α κ : Type) where
  date : Date
  postings : List (OutPosting α κ)
  deriving Repr

structure PriceEvent (κ : Type) where
  date : Date
  x : SingleAmount κ
  y : SingleAmount κ
  deriving Repr

inductive BkErr (κ : Type) where
  | evalFailure (e : EvalErr)
  | balanceFailure                               -- MultiCommodityWithPartialSet
  | undeducible (first second : Nat)
  | unbalanced (residual : Amount κ)
  | assertionFailure (posting : Nat) (computed diff : Amount κ)
  | invalidAccount
  | invalidCommodity
  | zeroAmountWithExchange
  | zeroExchangeRate
  | exchangeWithAmountCommodity
  deriving Repr

abbrev Balance (α κ : Type) := AMap α (Amount κ)

namespace Balance

def get (b : Balance α κ) (a : α) : Amount κ := (AMap.get? b a).getD []

/-- `add_amount`: add, drop zero entries, return the updated account balance. -/
def addAmount (b : Balance α κ) (a : α) (x : Amount κ) : Balance α κ × Amount κ :=
  let cur := ((get b a).add x).removeZero
  (AMap.insert b a cur, cur)

/-- `add_posting_amount`. -/
def addPostingAmount (b : Balance α κ) (a : α) (x : PostingAmt κ) : Balance α κ × Amount κ :=
  let cur := ((get b a).addPosting x).removeZero
  (AMap.insert b a cur, cur)

/-- `Balance::set_partial`: new balance and the previous value. -/
def setPartial (b : Balance α κ) (a : α) : PostingAmt κ → Outcome (BkErr κ) (Balance α κ × PostingAmt κ)
  | .zero =>
    match (get b a).toPosting with
    | .ok prev => .ok (AMap.insert b a [], prev)
    | _ => .err .balanceFailure
  | .single s =>
    let (cur, prev) := (get b a).setPartial s
    .ok (AMap.insert b a cur, .single prev)

def round (prec : κ → Option Nat) (b : Balance α κ) : Balance α κ := AMap.mapVals (Amount.round prec) b

end Balance

namespace RExchange
/-- `Exchange::exchange`: the amount expressed in the exchange's commodity. -/
def exchange : RExchange κ → SingleAmount κ → SingleAmount κ
  | rate r, a => r.mul a.value
  | total t, a => t.withSignOf a
end RExchange

namespace RAmount
def postingAmt : RAmount κ → PostingAmt κ
  | plain a => a
  | priced s _ _ => .single s
/-- `calculate_balance_amount`: lot price, else cost, else the amount itself. -/
def balanceAmount : RAmount κ → PostingAmt κ
  | plain a => a
  | priced s cost lot =>
    match lot.orElse (fun _ => cost) with
    | some x => .single (x.exchange s)
    | none => .single s
/-- `calculate_converted_amount`: cost, else lot price. -/
def convertedAmount : RAmount κ → Option (SingleAmount κ)
  | plain _ => none
  | priced s cost lot => (cost.orElse (fun _ => lot)).map (fun x => x.exchange s)
/-- `posting_price_event`. -/
def priceEvent (date : Date) : RAmount κ → Option (PriceEvent κ)
  | plain _ => none
  | priced s cost lot =>
    match cost.orElse (fun _ => lot) with
    | none => none
    | some (.rate r) => some ⟨date, ⟨1, s.commodity⟩, r⟩
    | some (.total t) => some ⟨date, s.abs, t⟩
end RAmount

/-- Result of `process_posting` for a posting that is not the omitted one. -/
structure EvaluatedPosting (κ : Type) where
  amount : PostingAmt κ
  converted : Option (SingleAmount κ)
  delta : PostingAmt κ
  deriving Repr

/-- `process_posting`; `idx` is the posting's index (only used to name it in errors). -/
def processPosting (bal : Balance α κ) (date : Date) (idx : Nat) (p : RPosting α κ) :
    Outcome (BkErr κ) (Option (EvaluatedPosting κ) × Option (PriceEvent κ) × Balance α κ) :=
  match p.amount, p.balance with
  | none, none => .ok (none, none, bal)
  | none, some current =>
    match Balance.setPartial bal p.account current with
    | .ok (bal', prev) =>
      match current.checkSub prev with
      | .ok amount => .ok (some ⟨amount, none, amount⟩, none, bal')
      | .err e => .err (.evalFailure e)
      | .panic s => .panic s
      | .fuelOut => .fuelOut
    | .err e => .err e
    | .panic s => .panic s
    | .fuelOut => .fuelOut
  | some ra, bc =>
    let (bal', cur) := Balance.addPostingAmount bal p.account ra.postingAmt
    let check : Option (BkErr κ) :=
      match bc with
      | none => none
      | some expected =>
        let diff := cur.assertBalance expected
        if diff.isAbsoluteZero then none else some (.assertionFailure idx cur diff)
    match check with
    | some e => .err e
    | none => .ok (some ⟨ra.postingAmt, ra.convertedAmount, ra.balanceAmount⟩, ra.priceEvent date, bal')

/-- the two-commodity branch of `check_balance` (after fix F2/F3): both non-zero, opposite sign. -/
def impliedExchange (b : Amount κ) : Option (SingleAmount κ × SingleAmount κ) :=
  match b.maybePair with
  | some (a1, a2) =>
    if a1.value ≠ 0 ∧ a2.value ≠ 0 ∧ ((0 ≤ a1.value) ≠ (0 ≤ a2.value)) then some (a1, a2) else none
  | none => none

/-- fills `converted_amount` of single-commodity postings in one of the two exchanged commodities. -/
def fillConverted (a1 a2 : SingleAmount κ) (p : OutPosting α κ) : OutPosting α κ :=
  match p.amount.toSingle with
  | .ok amt =>
    if a1.commodity = amt.commodity then
      { p with converted := some ⟨ratAbs (a2.value / a1.value) * amt.value, a2.commodity⟩ }
    else if a2.commodity = amt.commodity then
      { p with converted := some ⟨ratAbs (a1.value / a2.value) * amt.value, a1.commodity⟩ }
    else p
  | _ => p

/-- `check_balance`. -/
def checkBalance (prec : κ → Option Nat) (date : Date) (postings : List (OutPosting α κ)) (balance : Amount κ) :
    Outcome (BkErr κ) (List (OutPosting α κ) × Option (PriceEvent κ)) :=
  let b := balance.round prec
  if b.isZero then .ok (postings, none)
  else
    match impliedExchange b with
    | some (a1, a2) => .ok (postings.map (fillConverted a1 a2), some ⟨date, a1.abs, a2.abs⟩)
    | none => .err (.unbalanced b)

/-- state of the posting loop of `add_transaction`. -/
structure TxnState (α κ : Type) where
  postings : List (OutPosting α κ) := []      -- in order
  unfilled : Option Nat := none
  balance : Amount κ := []                    -- running sum of balance deltas
  bal : Balance α κ
  events : List (PriceEvent κ) := []          -- in order
  /-- ghost (not in the Rust): the balance delta contributed by each posting so far, in order
  (`zero` for the omitted posting); `balance` is always their sum. -/
  deltas : List (PostingAmt κ) := []

def stepPosting (date : Date) (st : TxnState α κ) (idx : Nat) (p : RPosting α κ) :
    Outcome (BkErr κ) (TxnState α κ) :=
  match processPosting st.bal date idx p with
  | .ok (some ev, pe, bal') =>
    .ok { st with
          postings := st.postings ++ [⟨p.account, ev.amount.toAmount, ev.converted⟩]
          balance := st.balance.addPosting ev.delta
          bal := bal'
          events := st.events ++ pe.toList
          deltas := st.deltas ++ [ev.delta] }
  | .ok (none, pe, bal') =>
    match st.unfilled with
    | some first => .err (.undeducible first idx)
    | none =>
      .ok { st with
            postings := st.postings ++ [⟨p.account, [], none⟩]
            unfilled := some idx
            bal := bal'
            events := st.events ++ pe.toList
            deltas := st.deltas ++ [.zero] }
  | .err e => .err e
  | .panic s => .panic s
  | .fuelOut => .fuelOut

def loopPostings (date : Date) : TxnState α κ → Nat → List (RPosting α κ) → Outcome (BkErr κ) (TxnState α κ)
  | st, _, [] => .ok st
  | st, idx, p :: ps =>
    match stepPosting date st idx p with
    | .ok st' => loopPostings date st' (idx + 1) ps
    | .err e => .err e
    | .panic s => .panic s
    | .fuelOut => .fuelOut

/-- result of `add_transaction`: the evaluated transaction, the new balance, the price events it logged. -/
structure TxnResult (α κ : Type) where
  txn : OutTxn α κ
  bal : Balance α κ
  events : List (PriceEvent κ)

/-- `add_transaction`. -/
def addTransaction (prec : κ → Option Nat) (bal : Balance α κ) (t : RTxn α κ) :
    Outcome (BkErr κ) (TxnResult α κ) :=
  match loopPostings t.date ⟨[], none, [], bal, [], []⟩ 0 t.posts with
  | .ok st =>
    match st.unfilled with
    | some u =>
      let deduced := st.balance.neg
      let postings := st.postings.modify u (fun p => { p with amount := deduced })
      let account? := (st.postings[u]?).map (·.account)
      match account? with
      | some acct =>
        let (bal', _) := Balance.addAmount st.bal acct deduced
        .ok ⟨⟨t.date, postings⟩, bal', st.events⟩
      | none => .panic "unfilled index out of range"
    | none =>
      match checkBalance prec t.date st.postings st.balance with
      | .ok (postings, pe) => .ok ⟨⟨t.date, postings⟩, st.bal, st.events ++ pe.toList⟩
      | .err e => .err e
      | .panic s => .panic s
      | .fuelOut => .fuelOut
  | .err e => .err e
  | .panic s => .panic s
  | .fuelOut => .fuelOut

end Okane
