import Okane.Base.Outcome
import Okane.Model.Syntax
import Okane.Model.Comb
import Okane.Model.ExprSyntax
/-!
# The ledger parser (mirror of `core/src/parse.rs`, `parse/{adaptor,character,combinator,directive,error,
# metadata,posting,primitive,transaction}.rs`)

Every definition names the Rust item it transliterates; the order of alternatives and of sequencing is the
Rust's.  Value expressions come from `Okane.ExprSyntax` (`parse/expr.rs`), numeric literals from
`Okane.Literal`.  Text fields of the tree are `String`s built with `String.ofList`.

The top of the file is `parseLedger : List Char → …`, the model of `parse_ledger(..).collect()` with the entry
spans of `ParsedContext` and the three observable fields of `ParseError` (`error_span`, `line_start`).
-/
namespace Okane.Parse
open Okane Okane.Comb

/-! ## character classes and trimming -/

/-- Rust `char::is_whitespace` (Unicode `White_Space`), used by `str::trim*` -/
def isRustWhitespace (c : Char) : Bool :=
  let n := c.toNat
  (9 ≤ n && n ≤ 13) || n == 32 || n == 0x85 || n == 0xA0 || n == 0x1680 || (0x2000 ≤ n && n ≤ 0x200A) ||
  n == 0x2028 || n == 0x2029 || n == 0x202F || n == 0x205F || n == 0x3000

/-- Rust `char::is_ascii_whitespace`: blank, tab, LF, FF, CR -/
def isAsciiWhitespace (c : Char) : Bool :=
  c == ' ' || c == '\t' || c == '\n' || c == '\x0c' || c == '\r'

/-- `str::trim_start` -/
def trimStart (s : List Char) : List Char := s.dropWhile isRustWhitespace
/-- `str::trim_end` -/
def trimEnd (s : List Char) : List Char := (s.reverse.dropWhile isRustWhitespace).reverse
/-- `str::trim` -/
def trim (s : List Char) : List Char := trimEnd (trimStart s)

/-- `directive::is_comment_prefix` -/
def isCommentPrefix (c : Char) : Bool := c == ';' || c == '#' || c == '%' || c == '|' || c == '*'

/-! ## `character.rs` -/

/-- `character::line_ending_or_semi` = `alt((line_ending, ";"))` -/
def lineEndingOrSemi : Parser Unit := lineEnding <|| void (literal [';'])
/-- `character::till_line_ending_or_semi` = `take_till(1.., [';', '\r', '\n'])` -/
def tillLineEndingOrSemi : Parser (List Char) := takeTill1 (fun c => c == ';' || c == '\r' || c == '\n')
/-- `character::line_ending_or_eof` = `alt((line_ending, eof))` -/
def lineEndingOrEof : Parser Unit := lineEnding <|| eof
/-- `character::vertical_spaces`:
`repeat(0.., alt((line_ending, (space1, alt((line_ending, eof))))))` -/
def verticalSpaces : Parser Unit :=
  void (repeat0 (lineEnding <|| void (pair space1 (lineEnding <|| eof))))
/-- `character::paren(inner)` = `delimited(one_of('('), inner, one_of(')'))` -/
def paren {α : Type} (inner : Parser α) : Parser α := delimited (char '(') inner (char ')')
/-- the characters at which the text of `paren_str` stops: the closing parenthesis, or the end of the line -/
def isParenStrStop (c : Char) : Bool := c == ')' || c == '\r' || c == '\n'
/-- `character::paren_str` = `paren(take_till(0.., [')', '\r', '\n']))`: "unnested string in paren, which must be closed
on the same line" (at a CR / LF the closing `one_of(')')` fails and the whole `paren_str` backtracks) -/
def parenStr : Parser (List Char) := paren (takeTill0 isParenStrStop)

/-! ## `primitive.rs` -/

/-- value of a run of ASCII digits -/
def digitsVal (ds : List Char) : Nat := ds.foldl (fun n c => n * 10 + (c.toNat - 48)) 0

/-- `NaiveDate::parse_from_str(s, "%Y/%m/%d" | "%F")` on a text `digits sep digits sep digits`:
chrono reads at most 4 year digits and at most 2 month / day digits and requires the whole text to be used,
so a longer run of digits is an error; then the civil date must exist. -/
def dateOf (y m d : List Char) : Option Date :=
  if y.length ≤ 4 ∧ m.length ≤ 2 ∧ d.length ≤ 2 then
    let dt : Date := ⟨(digitsVal y : Int), digitsVal m, digitsVal d⟩
    if dt.valid then some dt else none
  else none

/-- `(digit1, one_of(sep), digit1, one_of(sep), digit1)` -/
def dateShape (sep : Char) : Parser (List Char × List Char × List Char) :=
  digit1 >>- fun y => char sep >>- fun _ => digit1 >>- fun m => char sep >>- fun _ => digit1 >>- fun d =>
  pure (y, m, d)

/-- `primitive::date`: `alt((slash, hyphen)).with_taken().try_map(parse_from_str)` -/
def date : Parser Date :=
  tryMap (dateShape '/' <|| dateShape '-') (fun (y, m, d) => dateOf y m d)

/-! ## `expr.rs` (through `Okane.ExprSyntax`) -/

def ofPRes {α : Type} : ExprSyntax.PRes α → Res α
  | .ok a r => .ok a r
  | .fail p => .bt p
  | .fuelOut => .fuel

/-- `expr::value_expr` -/
def valueExpr : Parser VExpr := fun i => ofPRes (ExprSyntax.parseValueExpr i)

/-- `expr::amount`: `(terminated(pretty_decimal, space0), commodity)` -/
def amount : Parser (PDec × String) := fun i =>
  match ExprSyntax.prettyDecimal i with
  | .ok d rest =>
    let (c, rest') := ExprSyntax.commodity (ExprSyntax.skipSpaces rest)
    .ok (d, String.ofList c) rest'
  | .fail p => .bt p
  | .fuelOut => .fuel

/-! ## `metadata.rs` -/

/-- `metadata::clear_state` -/
def clearState : Parser ClearState :=
  map (fun o => o.getD .uncleared)
    (opt (terminated (value ClearState.cleared (char '*') <|| value ClearState.pending (char '!')) space0))

/-- `metadata::tag_key` = `take_till(1.., is_ascii_whitespace || ':')` -/
def tagKey : Parser (List Char) := takeTill1 (fun c => isAsciiWhitespace c || c == ':')

/-- `metadata::metadata_value` -/
def metadataValue : Parser MetaValue :=
  map (fun x => MetaValue.expr (String.ofList (trim x))) (preceded (literal [':', ':']) tillLineEnding)
  <|| map (fun x => MetaValue.text (String.ofList (trim x))) (preceded (char ':') tillLineEnding)

/-- `metadata::metadata_tags` -/
def metadataTags : Parser Metadata :=
  map (fun ts => Metadata.wordTags (ts.map String.ofList))
    (delimited (char ':') (repeat1 (terminated tagKey (char ':'))) space0)

/-- `metadata::metadata_kv` -/
def metadataKv : Parser Metadata :=
  terminated tagKey space0 >>- fun k => metadataValue >>- fun v => pure (Metadata.keyValue (String.ofList k) v)

/-- `metadata::line_metadata` -/
def lineMetadata : Parser Metadata :=
  delimited (pair (char ';') space0)
    -- tags must occupy the whole line, otherwise the line is a comment
    (terminated metadataTags (peek lineEndingOrEof) <|| metadataKv <|| map (fun s => Metadata.comment (String.ofList (trimEnd s))) tillLineEnding)
    lineEndingOrEof

/-- `metadata::block_metadata` -/
def blockMetadata : Parser (List Metadata) :=
  dispatchOpt fun
    | some ';' => separated1 lineMetadata space1
    | none => pure []
    | _ => preceded lineEnding (repeat0 (preceded space1 lineMetadata))

/-! ## `posting.rs` -/

def isAccountStop (c : Char) : Bool := c == '\n' || c == '\r' || c == ';' || c == ' ' || c == '\t'

/-- the element of `posting_account`'s `repeat_till`: `(opt(" "), take_till(1.., b"\n\r; \t"))` -/
def accountWord : Parser Unit := void (pair (opt (literal [' '])) (takeTill1 isAccountStop))

/-- the terminator: `peek(alt(("  ", (opt(" "), one_of(('\t', ';', '\r', '\n'))).take(), eof)))` -/
def accountEnd : Parser Unit :=
  peek (void (literal [' ', ' '])
    <|| void (pair (opt (literal [' '])) (oneOf fun c => c == '\t' || c == ';' || c == '\r' || c == '\n'))
    <|| eof)

/-- `posting::posting_account` -/
def postingAccount : Parser String :=
  terminated (map (fun x => String.ofList (trimStart x)) (take (repeatTill1 accountWord accountEnd))) space0

/-- `posting::lot_amount` -/
def lotAmount : Parser Exchange :=
  hasPeek (literal ['{', '{']) >>- fun isTotal =>
  if isTotal then
    map Exchange.total (delimited (pair (literal ['{', '{']) space0) valueExpr (pair space0 (literal ['}', '}'])))
  else
    map Exchange.rate (delimited (pair (literal ['{']) space0) valueExpr (pair space0 (literal ['}'])))

/-- the `loop` of `posting::lot` (every round consumes its opening bracket, so `length + 1` rounds suffice) -/
def lotLoop : Nat → Lot → Parser Lot
  | 0, _ => fun _ => .fuel
  | n + 1, lot => fun i =>
    match i with
    | '{' :: _ =>
      if lot.price.isNone then
        (lotAmount >>- fun a => space0 >>- fun _ => lotLoop n { lot with price := some a }) i
      else .bt i
    | '[' :: _ =>
      if lot.date.isNone then
        (delimited (pair (char '[') space0) date (pair space0 (char ']')) >>- fun d => space0 >>- fun _ =>
          lotLoop n { lot with date := some d }) i
      else .bt i
    | '(' :: _ =>
      if lot.note.isNone then
        (paren (takeTill0 fun c => c == '(' || c == ')' || c == '@') >>- fun s => space0 >>- fun _ =>
          lotLoop n { lot with note := some (String.ofList s) }) i
      else .bt i
    | _ => .ok lot i

/-- `posting::lot` -/
def lot : Parser Lot := space0 >>- fun _ => fun i => lotLoop (i.length + 1) {} i

/-- `posting::total_cost` -/
def totalCost : Parser Exchange := map Exchange.total (preceded (pair (literal ['@', '@']) space0) valueExpr)
/-- `posting::rate_cost` -/
def rateCost : Parser Exchange := map Exchange.rate (preceded (pair (literal ['@']) space0) valueExpr)

/-- `posting::posting_amount` -/
def postingAmount : Parser PostingAmount :=
  terminated valueExpr space0 >>- fun amount =>
  lot >>- fun l =>
  hasPeek (char '@') >>- fun isAt =>
  hasPeek (literal ['@', '@']) >>- fun isDoubleAt =>
  cond isAt (condElse isDoubleAt totalCost rateCost) >>- fun cost =>
  pure { amount := amount, cost := cost, lot := l }

/-- `posting::posting` -/
def posting : Parser Posting :=
  preceded space0 clearState >>- fun cs =>
  postingAccount >>- fun account =>
  hasPeek lineEndingOrSemi >>- fun shortcut =>
  if shortcut then
    blockMetadata >>- fun md => pure { account := account, clear := cs, metadata := md }
  else
    opt (terminated postingAmount space0) >>- fun amount =>
    opt (delimited (pair (char '=') space0) valueExpr space0) >>- fun balance =>
    blockMetadata >>- fun md =>
    pure { account := account, clear := cs, amount := amount, balance := balance, metadata := md }

/-! ## `transaction.rs` -/

/-- `transaction::transaction` -/
def transaction : Parser Transaction :=
  date >>- fun d =>
  opt (preceded (char '=') date) >>- fun ed =>
  -- metadata can directly follow the date as well
  hasPeek (lineEndingOrEof <|| void (char ';')) >>- fun isShortest =>
  cond (!isShortest) space1 >>- fun _ =>
  clearState >>- fun cs =>
  opt (terminated parenStr space0) >>- fun code =>
  opt (map trimEnd tillLineEndingOrSemi) >>- fun payee =>
  blockMetadata >>- fun md =>
  repeat0 (preceded (pair (takeWhile1 isSpace) (not lineEndingOrEof)) (cutErr posting)) >>- fun posts =>
  pure { date := d, effectiveDate := ed, clear := cs, code := code.map String.ofList,
         payee := String.ofList (payee.getD []), posts := posts, metadata := md }

/-! ## `directive.rs` -/

/-- `directive::multiline_text(prefix)`:
`repeat(1.., delimited(prefix, till_line_ending, line_ending_or_eof)).fold(String::new, push line, push '\n')` -/
def multilineText {α : Type} (pfx : Parser α) : Parser String :=
  map (fun ls => String.ofList (ls.flatMap fun l => l ++ ['\n']))
    (repeat1 (delimited pfx tillLineEnding lineEndingOrEof))

def kwAccount : List Char := ['a', 'c', 'c', 'o', 'u', 'n', 't']
def kwCommodity : List Char := ['c', 'o', 'm', 'm', 'o', 'd', 'i', 't', 'y']
def kwApply : List Char := ['a', 'p', 'p', 'l', 'y']
def kwTag : List Char := ['t', 'a', 'g']
def kwEnd : List Char := ['e', 'n', 'd']
def kwInclude : List Char := ['i', 'n', 'c', 'l', 'u', 'd', 'e']
def kwNote : List Char := ['n', 'o', 't', 'e']
def kwAlias : List Char := ['a', 'l', 'i', 'a', 's']
def kwFormat : List Char := ['f', 'o', 'r', 'm', 'a', 't']

/-- the rest of a directive's first line: `delimited((literal(kw), space1), till_line_ending, line_ending_or_eof)`
followed by `.trim_end()` -/
def restOfLine {α : Type} (pfx : Parser α) : Parser String :=
  map (fun s => String.ofList (trimEnd s)) (delimited pfx tillLineEnding lineEndingOrEof)

def detailComment : Parser String := multilineText (pair space1 (takeWhile1 isCommentPrefix))
def detailNote : Parser String := multilineText (pair space1 (pair (literal kwNote) space1))
def detailAlias : Parser String := restOfLine (pair space1 (pair (literal kwAlias) space1))

/-- `directive::account_declaration` -/
def accountDeclaration : Parser Entry :=
  restOfLine (pair (literal kwAccount) space1) >>- fun name =>
  repeat0 (map AccountDetail.comment detailComment <|| map AccountDetail.note detailNote
           <|| map AccountDetail.alias detailAlias) >>- fun details =>
  pure (Entry.account name details)

/-- `directive::commodity_declaration` -/
def commodityDeclaration : Parser Entry :=
  restOfLine (pair (literal kwCommodity) space1) >>- fun name =>
  repeat0 (map CommodityDetail.comment detailComment <|| map CommodityDetail.note detailNote
           <|| map CommodityDetail.alias detailAlias
           <|| map (fun (d, c) => CommodityDetail.format d c)
                 (delimited (pair space1 (pair (literal kwFormat) space1)) amount lineEndingOrEof)) >>- fun details =>
  pure (Entry.commodity name details)

/-- `directive::apply_tag` -/
def applyTag : Parser Entry :=
  preceded (pair (literal kwApply) (pair space1 (pair (literal kwTag) space1))) tagKey >>- fun key =>
  delimited space0 (opt metadataValue) lineEndingOrEof >>- fun v =>
  pure (Entry.applyTag (String.ofList key) v)

/-- `directive::end_apply_tag` -/
def endApplyTag : Parser Entry :=
  value Entry.endApplyTag
    (terminated (take (pair (literal kwEnd) (pair space1 (pair (literal kwApply) (pair space1 (literal kwTag))))))
      (pair space0 lineEndingOrEof))

/-- `directive::include` -/
def includeDirective : Parser Entry := map Entry.include (restOfLine (pair (literal kwInclude) space1))

/-- `directive::top_comment` -/
def topComment : Parser Entry := map Entry.comment (multilineText (takeWhile1 isCommentPrefix))

/-! ## `parse.rs` -/

/-- `parse_ledger_entry` -/
def parseLedgerEntry : Parser Entry :=
  dispatch fun c =>
    if c == 'a' then
      preceded (peek (literal kwAccount)) (cutErr accountDeclaration)
      <|| preceded (peek (literal kwApply)) (cutErr applyTag)
    else if c == 'c' then commodityDeclaration
    else if c == 'e' then endApplyTag
    else if c == 'i' then includeDirective
    else if isCommentPrefix c then topComment
    else if c.isDigit then map Entry.txn transaction
    else fail

/-! ## `adaptor.rs`, `error.rs` -/

/-- number of `\n` bytes among the first `p` bytes of `t` (bytes of multi-byte characters are never `\n`) -/
def lfBefore : List Char → Nat → Nat
  | [], _ => 0
  | c :: r, p => if p = 0 then 0 else (if c = '\n' then 1 else 0) + lfBefore r (p - c.utf8Size)

/-- `error::compute_line_number(s, pos)`; panics when `pos` is out of range -/
def computeLineNumber (t : List Char) (pos : Nat) : Outcome Unit Nat :=
  if pos > utf8Len t then .panic "compute_line_number: out-of-range position" else .ok (1 + lfBefore t pos)

/-- the observable part of `ParseError`: `error_span` (bytes, relative to the position at which the iterator
resumed, i.e. before the separator) and `line_start` -/
structure ParseErr where
  offset : Nat
  spanEnd : Nat
  lineStart : Nat
  /-- `ErrMode::Cut` rather than `Backtrack` (not observable through `ParseError`; kept for the theorems) -/
  isCut : Bool := false
  deriving Repr, DecidableEq, Inhabited

/-- one parsed entry with the `span` of its `ParsedContext` (byte offsets into the whole text) -/
structure Parsed where
  start : Nat
  stop : Nat
  entry : Entry
  deriving Repr, Inhabited

/-- `ParseError::new(renderer, initial, input, start, error)`:
`offset = input.offset_from(&start)`, `line_start = compute_line_number(initial, start)`,
`end` = the next char boundary after `offset` within the text from `start` (`offset` itself at end of input).
`atStart` is the remaining input at the checkpoint, `pos` the remaining input where the failure left the stream. -/
def parseErrorNew (whole atStart pos : List Char) (isCut : Bool) : Outcome Unit ParseErr :=
  let offset := utf8Len atStart - utf8Len pos
  match computeLineNumber whole (utf8Len whole - utf8Len atStart) with
  | .ok line =>
    let stop := match pos with
      | [] => offset
      | c :: _ => offset + c.utf8Size
    .ok { offset := offset, spanEnd := stop, lineStart := line, isCut := isCut }
  | .panic s => .panic s
  | _ => .panic "compute_line_number"

/-- what `parse_ledger(..)` yields until it is exhausted or the first error: the entries so far, and how it ended -/
inductive Ending where
  | done
  | error (e : ParseErr)
  | panic (site : String)
  | fuelOut
  deriving Repr, Inhabited

/-- `ParsedIter::next` in a loop (`fuel` bounds the number of entries; every entry consumes at least one
character, so `length + 1` suffices).  `sep` is the separator parser, `p` the entry parser. -/
def parsedIter {α : Type} (p : Parser α) (sep : Parser Unit) (whole : List Char) :
    Nat → List Char → List (Nat × Nat × α) → List (Nat × Nat × α) × Ending
  | 0, _, acc => (acc, .fuelOut)
  | n + 1, i, acc =>
    let failAt (pos : List Char) (isCut : Bool) : List (Nat × Nat × α) × Ending :=
      match parseErrorNew whole i pos isCut with
      | .ok e => (acc, .error e)
      | .panic s => (acc, .panic s)
      | _ => (acc, .panic "ParseError::new")
    match sep i with
    | .ok _ i1 =>
      if i1.isEmpty then (acc, .done) else
      match p i1 with
      | .ok e r =>
        parsedIter p sep whole n r (acc ++ [(utf8Len whole - utf8Len i1, utf8Len whole - utf8Len r, e)])
      | .bt pos => failAt pos false
      | .cut pos => failAt pos true
      | .panic s => (acc, .panic s)
      | .fuel => (acc, .fuelOut)
    | .bt pos => failAt pos false
    | .cut pos => failAt pos true
    | .panic s => (acc, .panic s)
    | .fuel => (acc, .fuelOut)

/-- `parse_ledger(&ParseOptions::default(), text)` run to its first error -/
def parseLedgerRun (text : List Char) : List Parsed × Ending :=
  let (es, e) := parsedIter parseLedgerEntry verticalSpaces text (text.length + 1) text []
  (es.map fun (s, t, x) => ⟨s, t, x⟩, e)

/-- `parse_ledger(..).collect::<Result<Vec<_>, _>>()` -/
def parseLedger (text : List Char) : Outcome ParseErr (List Parsed) :=
  match parseLedgerRun text with
  | (es, .done) => .ok es
  | (_, .error e) => .err e
  | (_, .panic s) => .panic s
  | (_, .fuelOut) => .fuelOut

/-- the entries only -/
def parseEntries (text : List Char) : Outcome ParseErr (List Entry) :=
  (parseLedger text).map' fun es => es.map (·.entry)

end Okane.Parse
