import Okane.Model.Xml
import Okane.Model.ImportCamt
/-!
# ISO Camt053 importer: the decoding layer (mirror of `cli/src/import/iso_camt053/xmlnode.rs` under quick-xml 0.37.4's
serde `Deserializer`), then `camtImportXml = decode ≫ camtImport`

`xmlnode.rs` is a serde schema; what it means is fixed by `serde_derive` (struct visitors: every key in document order;
a key seen twice is `duplicate field`; an unknown key has its value skipped; at the end a missing field is an error
unless it is an `Option` or carries `#[serde(default)]`) and by quick-xml's `de/{mod,map,key,simple_type,text,var}.rs`
(what the keys and values of an element are).  The rules mirrored here (`walk`, and the decoders built on it):

* keys of an element, in order: its attributes (`@` + local name; iterated by `ElementMapAccess`, so an ill-formed
  attribute list is an error for every struct-like element — and only for those), then its children: an element gives its
  **local** name, character data gives `$text`, or `$value` when the struct has a `$value` field; in a struct with a
  `$value` field every child element is `$value`, too.
* a `Vec` field takes the run of directly following elements with the **same qualified name** (`TagFilter::Include`);
  character data directly after an item is an error (it is handed to the item's struct visitor); the run ends at the
  first other element or at the end tag.  The feature `overlapped-lists` is off, so the same key coming again later is
  `duplicate field`: **interleaved lists are an error**.
* a `String` / number / `bool` / date takes the text of its element (`read_text`): no child element allowed, an empty
  element is the empty string; attributes of such an element are never looked at.
* an unknown element is skipped with `read_to_end`, which looks at the **first** event inside it only (so a text that
  cannot be unescaped is an error there and nowhere else in the skipped subtree).
* `Option<T>` of a present element is `Some` (`xsi:nil` is outside the model).
* the root element's name is not looked at; nothing behind its end tag is read.

Leaf values: `Decimal` through `DecimalVisitor::visit_str` = `Decimal::from_str(v).or_else(|_| Decimal::from_scientific(v))`
(rust_decimal 1.37.1 `str.rs`, `decimal.rs`), `NaiveDate` / `DateTime<FixedOffset>` through chrono 0.4.40's `FromStr`
(`format/{parse,scan,parsed}.rs`), `usize` through `u64::from_str`, `bool` through `CowRef::deserialize_bool`.

Outside the model (answered `unsupported`, which `camtImportXml` reports as `UnknownFormat`): what `Model/Xml.lean`
declines; an element inside one of the `$text` wrappers (`Cd`, `CdtDbtInd`, `SubFmlyCd`: after skipping it quick-xml may
forget to trim the next text); `1.5e28`-like numbers whose mantissa leaves 96 bits while a scale is left (rust_decimal
then rounds); DtTm years outside ±262000.
-/
namespace Okane.Import.CamtXml
open Okane Okane.Xml Okane.Import

abbrev D := Except XmlErr

def bad {α : Type} : D α := .error .xml

/-! ## leaf values -/

/-- `char::is_whitespace` (Unicode `White_Space`), what `str::trim_start` removes -/
def rustWs (c : Char) : Bool :=
  let n := c.toNat
  (9 ≤ n && n ≤ 13) || n == 0x20 || n == 0x85 || n == 0xA0 || n == 0x1680 || (0x2000 ≤ n && n ≤ 0x200A)
    || n == 0x2028 || n == 0x2029 || n == 0x202F || n == 0x205F || n == 0x3000

def dval (c : Char) : Nat := c.toNat - 48

def digitsVal (acc : Nat) : List Char → Nat
  | [] => acc
  | c :: r => digitsVal (acc * 10 + dval c) r

/-- `OVERFLOW_U96` -/
def overflowU96 : Nat := 2 ^ 96
/-- `WILL_OVERFLOW_U64 = u64::MAX / 10 - u8::MAX` -/
def willOverflowU64 : Nat := (2 ^ 64 - 1) / 10 - 255

/-- `maybe_round(data, next_byte, scale, point, _)` -/
def maybeRound (data : Nat) (next : Char) (scale : Nat) (point : Bool) : Option (Nat × Nat) :=
  let digit? : Option Nat :=
    if next.isDigit then some (dval next)
    else if next == '_' then some 0
    else if next == '.' && !point then some 0
    else none
  match digit? with
  | none => none
  | some digit =>
    if digit ≥ 5 then
      let data := data + 1
      if data ≥ overflowU96 then
        if scale == 0 then none else some ((data + 4) / 10, scale - 1)
      else some (data, scale)
    else some (data, scale)

/-- `handle_full_128::<POINT, _, true>` on the text `next_byte :: bytes` (`[]`: `handle_data::<_, true>`) -/
def full128 (point : Bool) (data scale : Nat) : List Char → Option (Nat × Nat)
  | [] => some (data, scale)
  | b :: bytes =>
    if b.isDigit then
      let next := data * 10 + dval b
      if next ≥ overflowU96 then
        if !point then none else maybeRound data b scale point
      else
        let scale' := scale + (if point then 1 else 0)
        match bytes with
        | [] => some (next, scale')
        | nb :: rest =>
          if point && scale' ≥ 28 then
            if nb == '_' then full128 point next scale' rest      -- looks one digit further
            else maybeRound next nb scale' point
          else full128 point next scale' (nb :: rest)
    else if b == '.' && !point then full128 true data scale bytes
    else if b == '_' then full128 point data scale bytes
    else none

/-- `byte_dispatch_u64::<POINT, _, HAS, true, false, true>` on the text `b :: bytes` (`[]`: `handle_data::<_, HAS>`):
the 64-bit phase after the sign.  Only the `BIG` instantiation is written: for texts shorter than 18 bytes rust_decimal
runs the same code without the checks `scale >= 28` and `overflow_64`, neither of which can fire on fewer than 18 digits. -/
def dec64 (point has : Bool) (data scale : Nat) : List Char → Option (Nat × Nat)
  | [] => if has then some (data, scale) else none
  | b :: bytes =>
    if b.isDigit then
      let data' := data * 10 + dval b
      let scale' := if point then scale + 1 else 0
      match bytes with
      | [] => some (data', scale')
      | next :: rest =>
        if point && scale' ≥ 28 then maybeRound data' next scale' point
        else if data' ≥ willOverflowU64 then full128 point data' scale' (next :: rest)
        else dec64 point true data' scale' (next :: rest)
    else if b == '.' && !point then dec64 true has data scale bytes
    else if b == '_' && has then dec64 point true data scale bytes
    else none

/-- `Decimal::from_parts`: a zero is never negative -/
def mkDec (neg : Bool) (ms : Nat × Nat) : Dec := ⟨neg && ms.1 != 0, ms.1, ms.2⟩

/-- `Decimal::from_str` = `parse_str_radix_10`: optional sign first, digits with at most one point, `_` after the
first digit; up to 28 places, the rest rounded half up on the next digit alone -/
def decFromStr (s : List Char) : Option Dec :=
  match s with
  | [] => none
  | '-' :: r => (dec64 false false 0 0 r).map (mkDec true)
  | '+' :: r => (dec64 false false 0 0 r).map (mkDec false)
  | _ => (dec64 false false 0 0 s).map (mkDec false)

/-- `u32::from_str`: optional `+`, at least one digit, below `2^32` -/
def parseU32 (s : List Char) : Option Nat :=
  let ds := match s with
    | '+' :: r => r
    | _ => s
  if ds.isEmpty || !ds.all Char.isDigit then none
  else
    let n := digitsVal 0 ds
    if n < 2 ^ 32 then some n else none

/-- `Decimal::normalize_assign` on a non-zero value: trailing zeros of the fraction go -/
def stripZeros : Nat → Nat → Nat → Nat × Nat
  | 0, m, s => (m, s)
  | fuel + 1, m, s => if s > 0 && m % 10 == 0 then stripZeros fuel (m / 10) (s - 1) else (m, s)

/-- `Decimal::from_scientific` -/
def fromScientific (s : List Char) : D Dec :=
  let base := s.takeWhile fun c => !(c == 'e' || c == 'E')
  match s.dropWhile fun c => !(c == 'e' || c == 'E') with
  | [] => bad
  | _ :: exp =>
    match decFromStr base with
    | none => bad
    | some d =>
      match exp with
      | '-' :: stripped =>
        match parseU32 stripped with
        | none => bad
        | some e => if e > 28 || d.scale + e > 28 then bad else .ok { d with scale := d.scale + e }
      | _ =>
        match parseU32 exp with
        | none => bad
        | some e =>
          if e ≤ d.scale then .ok { d with scale := d.scale - e }
          else if e > 28 then bad
          else if d.mant == 0 then .ok ⟨false, 0, 0⟩        -- `mul` answers `Decimal::ZERO`
          else
            let m := d.mant * 10 ^ e
            if m ≥ overflowU96 then
              if d.scale == 0 then bad          -- `ExceedsMaximumPossibleValue`
              else .error (.unsupported "from_scientific: product beyond 96 bits is rescaled")
            else
              let (m', s') := stripZeros d.scale m d.scale
              .ok ⟨d.neg, m', s'⟩

/-- `DecimalVisitor::visit_str` -/
def decimalOfText (s : List Char) : D Dec :=
  match decFromStr s with
  | some d => .ok d
  | none => fromScientific s

/-- `scan::number(s, 1, max)`: the leading ASCII digits, at most `max` of them, as an `i64` -/
def scanNumber (max : Option Nat) (s : List Char) : Option (Nat × List Char) :=
  let all := s.takeWhile Char.isDigit
  let ds := match max with
    | some m => all.take m
    | none => all
  if ds.isEmpty then none
  else
    let n := digitsVal 0 ds
    if n ≥ 2 ^ 63 then none else some (n, s.drop ds.length)

/-- `Item::Numeric(Year)`: white space, then an explicit sign with any number of digits, or up to four digits -/
def scanYear (s : List Char) : Option (Int × List Char) :=
  match s.dropWhile rustWs with
  | '-' :: r => (scanNumber none r).map fun (n, r') => (-(n : Int), r')
  | '+' :: r => (scanNumber none r).map fun (n, r') => ((n : Int), r')
  | r => (scanNumber (some 4) r).map fun (n, r') => ((n : Int), r')

def scan2 (s : List Char) : Option (Nat × List Char) := scanNumber (some 2) (s.dropWhile rustWs)

def expectChar (c : Char) (s : List Char) : Option (List Char) :=
  match s with
  | x :: r => if x == c then some r else none
  | [] => none

/-- the items `Year Space "-" Month Space "-" Day` of `NaiveDate::from_str` and `parse_rfc3339_relaxed` -/
def scanDate (s : List Char) : Option (Int × Nat × Nat × List Char) := do
  let (y, s) ← scanYear s
  let s ← expectChar '-' (s.dropWhile rustWs)
  let (m, s) ← scan2 s
  let s ← expectChar '-' (s.dropWhile rustWs)
  let (d, s) ← scan2 s
  pure (y, m, d, s)

/-- `Parsed::to_naive_date` on year, month, day: `set_year` wants an `i32`, `set_month` 1…12, `set_day` 1…31,
`NaiveDate::from_ymd_opt` a date that exists in chrono's range -/
def mkDate (y : Int) (m d : Nat) : Option Date :=
  let dt : Date := ⟨y, m, d⟩
  if -262143 ≤ y && y ≤ 262142 && dt.valid then some dt else none

/-- `<NaiveDate as FromStr>::from_str` -/
def naiveDateOfText (s : List Char) : Option Date := do
  let (y, m, d, s) ← scanDate s
  if !(s.dropWhile rustWs).isEmpty then none
  mkDate y m d

/-- `scan::timezone_offset(s, colon_or_space, true, false, true)` after the `UTC` alternative: `Z`/`z`, or a sign
(`+`, `-`, U+2212), two digits, any colons / white space, two digits `00`…`59`; the offset in seconds (absolute) -/
def scanOffset (s : List Char) : Option (Nat × List Char) :=
  match s with
  | 'Z' :: r => some (0, r)
  | 'z' :: r => some (0, r)
  | sign :: h1 :: h2 :: r =>
    if (sign == '+' || sign == '-' || sign.toNat == 0x2212) && h1.isDigit && h2.isDigit then
      match r.dropWhile fun c => c == ':' || rustWs c with
      | m1 :: m2 :: r' =>
        if m1.isDigit && m2.isDigit && dval m1 ≤ 5 then some ((dval h1 * 10 + dval h2) * 3600 + (dval m1 * 10 + dval m2) * 60, r')
        else none
      | _ => none
    else none
  | _ => none

/-- `<DateTime<FixedOffset> as FromStr>::from_str` followed by `date_naive()`: the local date as written.
(`none` = `ParseError`.) -/
def dateTimeOfText (s : List Char) : Option Date := do
  let (y, mo, d, s) ← scanDate s
  let s ← match s with
    | c :: r => if c == 'T' || c == 't' || c == ' ' then some r else none
    | [] => none
  let (h, s) ← scan2 s
  let s ← expectChar ':' (s.dropWhile rustWs)
  let (mi, s) ← scan2 s
  let s ← expectChar ':' (s.dropWhile rustWs)
  let (sec, s) ← scan2 s
  -- `Fixed::Nanosecond`: `.` and at least one digit, all further digits skipped
  let s ← match s with
    | '.' :: r => if (r.takeWhile Char.isDigit).isEmpty then none else some (r.dropWhile Char.isDigit)
    | _ => some s
  let s := s.dropWhile rustWs
  let (off, s) ←
    if (s.take 3).map Char.toUpper == "UTC".toList then some (0, s.drop 3) else scanOffset s
  if !(s.dropWhile rustWs).isEmpty then none
  if h > 23 || mi > 59 || sec > 60 || off ≥ 86400 then none
  mkDate y mo d

/-- `u64::from_str` (for `usize`): optional `+`, digits, below `2^64` -/
def u64OfText (s : List Char) : Option Nat :=
  let ds := match s with
    | '+' :: r => r
    | _ => s
  if ds.isEmpty || !ds.all Char.isDigit then none
  else
    let n := digitsVal 0 ds
    if n < 2 ^ 64 then some n else none

/-- `CowRef::deserialize_bool` -/
def boolOfText (s : String) : Option Bool :=
  if s == "1" || s == "true" then some true
  else if s == "0" || s == "false" then some false
  else none

/-! ## elements -/

/-- `Deserializer::read_text` behind the start tag: the text of a leaf element -/
def elemText : List Node → D String
  | [] => .ok ""
  | [.text s] => .ok s
  | _ => bad

/-- `Deserializer::read_to_end` behind the start tag of a skipped element (`IgnoredAny`, `()`): only the first event
inside it is decoded -/
def skipElem : List Node → D Unit
  | .badText :: _ => bad
  | _ => .ok ()

/-- iterating the attributes of a struct-like element: all must be well-formed and distinct as written -/
def attrKeys (attrs : String) : D (List (List Char × List Char)) :=
  match parseAttrs attrs.toList with
  | some l => .ok (l.map fun kv => (attrKey kv.1, kv.2))
  | none => bad

/-- a struct without attribute fields: the attributes are iterated and ignored -/
def noAttrs (attrs : String) : D Unit := (attrKeys attrs).map fun _ => ()

def Node.isElem : Node → Bool
  | .elem .. => true
  | _ => false

def lname (q : String) : String := String.ofList (localName q.toList)

/-- what a struct visitor does with the children of its element -/
structure Spec (σ : Type) where
  /-- the `Vec` fields -/
  isList : String → Bool
  /-- a key coming from an element (for a `Vec` field: its first item); unknown keys skip the element -/
  onElem : σ → String → String → List Node → D σ
  /-- a further item of the `Vec` field that is being read -/
  onItem : σ → String → String → List Node → D σ

/-- the children of a struct-like element without `$text` / `$value` field, in document order.  `open?`: the qualified
name of the list being read (`MapValueSeqAccess` with `TagFilter::Include`). -/
def walk {σ : Type} (sp : Spec σ) : σ → Option String → List Node → D (σ × Option String)
  | st, open?, [] => .ok (st, open?)
  | _, _, .badText :: _ => bad
  | st, open?, .text _ :: rest =>
    match open? with
    | some _ => bad                    -- character data behind a list item goes to the item's struct visitor
    | none => walk sp st none rest     -- key `$text`: unknown, its value ignored
  | st, open?, .elem q a kids :: rest =>
    if open? == some q then
      match sp.onItem st (lname q) a kids with
      | .ok st' => walk sp st' open? rest
      | .error e => .error e
    else
      match sp.onElem st (lname q) a kids with
      | .ok st' => walk sp st' (if sp.isList (lname q) then some q else none) rest
      | .error e => .error e

def runWalk {σ : Type} (sp : Spec σ) (init : σ) (kids : List Node) : D σ :=
  (walk sp init none kids).map Prod.fst

/-- `if Option::is_some(&field) { return Err(duplicate_field) }; field = Some(next_value()?)` -/
def setOnce {α : Type} (slot : Option α) (v : D α) : D (Option α) :=
  match slot with
  | some _ => bad
  | none => v.map some

/-- a required field at the end of the visitor -/
def req {α : Type} : Option α → D α
  | some a => .ok a
  | none => bad

/-- a struct whose only field is `$text` (an enum of codes): attributes iterated, exactly one text -/
def textOnly (attrs : String) (kids : List Node) : D String := do
  noAttrs attrs
  match kids with
  | [.text s] => .ok s
  | _ => if kids.any Node.isElem then .error (.unsupported "element inside a code element") else bad

/-- `CreditDebitIndicator { $text: CreditOrDebit }` -/
def decCdtDbt (attrs : String) (kids : List Node) : D CdtDbt := do
  let s ← textOnly attrs kids
  if s == "CRDT" then .ok .credit else if s == "DBIT" then .ok .debit else bad

/-- `Amount { @Ccy: String, $value: Decimal }` -/
def decAmount (attrs : String) (kids : List Node) : D CamtAmount := do
  let as ← attrKeys attrs
  let ccy ← match as.filter fun kv => kv.1 == "Ccy".toList with
    | [kv] => match unescape kv.2 with
      | some v => .ok (String.ofList v)
      | none => bad
    | _ => bad                 -- missing field `@Ccy` / duplicate field `@Ccy`
  match kids with
  | [.text s] => do
    let v ← decimalOfText s.toList
    .ok ⟨v, ccy⟩
  | _ => bad                   -- missing / duplicate `$value`, or a map where a number is wanted

/-- `ExchangeRate { $value: Decimal }` -/
def decRate (attrs : String) (kids : List Node) : D Dec := do
  noAttrs attrs
  match kids with
  | [.text s] => decimalOfText s.toList
  | _ => bad

/-- `DateHolder { $value: Date }`, `Date::{Dt(NaiveDate), DtTm(DateTime<FixedOffset>)}`, then `as_naive_date` -/
def decDateHolder (attrs : String) (kids : List Node) : D Date := do
  noAttrs attrs
  match kids with
  | [.elem q _ ks] => do
    let s ← elemText ks
    if lname q == "Dt" then
      match naiveDateOfText s.toList with
      | some d => .ok d
      | none => bad
    else if lname q == "DtTm" then
      match dateTimeOfText s.toList with
      | some d => if -262000 ≤ d.y && d.y ≤ 262000 then .ok d else .error (.unsupported "DtTm at the edge of chrono's range")
      | none => bad
    else bad
  | _ => bad

/-! ### charges -/

structure ChargeSlots where
  amt : Option CamtAmount := none
  cd : Option CdtDbt := none
  incl : Option Bool := none

/-- `ChargeRecord` -/
def chargeSpec : Spec ChargeSlots where
  isList := fun _ => false
  onItem := fun st _ _ _ => .ok st
  onElem := fun st k a kids =>
    if k == "Amt" then do let v ← setOnce st.amt (decAmount a kids); .ok { st with amt := v }
    else if k == "CdtDbtInd" then do let v ← setOnce st.cd (decCdtDbt a kids); .ok { st with cd := v }
    else if k == "ChrgInclInd" then do
      let v ← setOnce st.incl (do
        let s ← elemText kids
        match boolOfText s with
        | some b => .ok b
        | none => bad)
      .ok { st with incl := v }
    else do skipElem kids; .ok st

def decCharge (attrs : String) (kids : List Node) : D ChargeRecord := do
  noAttrs attrs
  let st ← runWalk chargeSpec {} kids
  let amt ← req st.amt
  let cd ← req st.cd
  .ok ⟨amt, cd, st.incl.getD false⟩

structure ChargesSlots where
  total : Option CamtAmount := none
  records : Option (List ChargeRecord) := none

/-- `Charges { TtlChrgsAndTaxAmt: Option<Amount>, Rcrd: Vec<ChargeRecord> (default) }` -/
def chargesSpec : Spec ChargesSlots where
  isList := fun k => k == "Rcrd"
  onItem := fun st _ a kids => do
    let r ← decCharge a kids
    .ok { st with records := some (st.records.getD [] ++ [r]) }
  onElem := fun st k a kids =>
    if k == "TtlChrgsAndTaxAmt" then do let v ← setOnce st.total (decAmount a kids); .ok { st with total := v }
    else if k == "Rcrd" then do
      let v ← setOnce st.records ((decCharge a kids).map fun r => [r])
      .ok { st with records := v }
    else do skipElem kids; .ok st

def decCharges (attrs : String) (kids : List Node) : D (List ChargeRecord) := do
  noAttrs attrs
  let st ← runWalk chargesSpec {} kids
  .ok (st.records.getD [])

/-! ### balances -/

/-- a struct with one required struct-valued field `key` -/
def oneFieldSpec {α : Type} (key : String) (dec : String → List Node → D α) : Spec (Option α) where
  isList := fun _ => false
  onItem := fun st _ _ _ => .ok st
  onElem := fun st k a kids =>
    if k == key then setOnce st (dec a kids)
    else do skipElem kids; .ok st

def decOneField {α : Type} (key : String) (dec : String → List Node → D α) (attrs : String) (kids : List Node) : D α := do
  noAttrs attrs
  let st ← runWalk (oneFieldSpec key dec) none kids
  req st

/-- `BalanceCodeValue { $text: BalanceCode }` with `#[serde(other)]` -/
def decBalanceCode (attrs : String) (kids : List Node) : D BalanceCode := do
  let s ← textOnly attrs kids
  .ok (if s == "OPBD" then .opening else if s == "CLBD" then .closing else .other)

structure BalanceSlots where
  tp : Option BalanceCode := none
  amt : Option CamtAmount := none
  cd : Option CdtDbt := none

/-- `Balance { Tp: BalanceType { CdOrPrtry: CodeOrProperty { Cd } }, Amt, CdtDbtInd }` -/
def balanceSpec : Spec BalanceSlots where
  isList := fun _ => false
  onItem := fun st _ _ _ => .ok st
  onElem := fun st k a kids =>
    if k == "Tp" then do
      let v ← setOnce st.tp (decOneField "CdOrPrtry" (decOneField "Cd" decBalanceCode) a kids)
      .ok { st with tp := v }
    else if k == "Amt" then do let v ← setOnce st.amt (decAmount a kids); .ok { st with amt := v }
    else if k == "CdtDbtInd" then do let v ← setOnce st.cd (decCdtDbt a kids); .ok { st with cd := v }
    else do skipElem kids; .ok st

def decBalance (attrs : String) (kids : List Node) : D CamtBalance := do
  noAttrs attrs
  let st ← runWalk balanceSpec {} kids
  let tp ← req st.tp
  let amt ← req st.amt
  let cd ← req st.cd
  .ok ⟨tp, amt, cd⟩

/-! ### bank transaction code -/

def decCodeIn (allowed : List String) (attrs : String) (kids : List Node) : D String := do
  let s ← textOnly attrs kids
  if allowed.contains s then .ok s else bad

structure FamilySlots where
  cd : Option String := none
  sub : Option String := none

/-- `DomainFamily { Cd: DomainFamilyCode, SubFmlyCd: DomainSubFamilyCode }` -/
def familySpec : Spec FamilySlots where
  isList := fun _ => false
  onItem := fun st _ _ _ => .ok st
  onElem := fun st k a kids =>
    if k == "Cd" then do
      let v ← setOnce st.cd (decCodeIn ["ICDT", "RCDT", "RDDT"] a kids); .ok { st with cd := v }
    else if k == "SubFmlyCd" then do
      let v ← setOnce st.sub (decCodeIn ["AUTT", "DAJT", "PMDD", "SALA", "STDO", "OTHR"] a kids); .ok { st with sub := v }
    else do skipElem kids; .ok st

def decFamily (attrs : String) (kids : List Node) : D (String × String) := do
  noAttrs attrs
  let st ← runWalk familySpec {} kids
  let cd ← req st.cd
  let sub ← req st.sub
  .ok (cd, sub)

structure DomainSlots where
  cd : Option String := none
  fmly : Option (String × String) := none

/-- `Domain { Cd: DomainCode (PMNT), Fmly }` -/
def domainSpec : Spec DomainSlots where
  isList := fun _ => false
  onItem := fun st _ _ _ => .ok st
  onElem := fun st k a kids =>
    if k == "Cd" then do let v ← setOnce st.cd (decCodeIn ["PMNT"] a kids); .ok { st with cd := v }
    else if k == "Fmly" then do let v ← setOnce st.fmly (decFamily a kids); .ok { st with fmly := v }
    else do skipElem kids; .ok st

def decDomain (attrs : String) (kids : List Node) : D (String × String × String) := do
  noAttrs attrs
  let st ← runWalk domainSpec {} kids
  let cd ← req st.cd
  let f ← req st.fmly
  .ok (cd, f.1, f.2)

structure PrtrySlots where
  cd : Option String := none
  issr : Option String := none

/-- `Proprietary { Cd: String, Issr: Option<String> }` -/
def prtrySpec : Spec PrtrySlots where
  isList := fun _ => false
  onItem := fun st _ _ _ => .ok st
  onElem := fun st k _ kids =>
    if k == "Cd" then do let v ← setOnce st.cd (elemText kids); .ok { st with cd := v }
    else if k == "Issr" then do let v ← setOnce st.issr (elemText kids); .ok { st with issr := v }
    else do skipElem kids; .ok st

def decPrtry (attrs : String) (kids : List Node) : D Unit := do
  noAttrs attrs
  let st ← runWalk prtrySpec {} kids
  let _ ← req st.cd
  .ok ()

structure BkTxCdSlots where
  domn : Option (String × String × String) := none
  prtry : Option Unit := none

/-- `BankTransactionCode { Domn: Option<Domain>, Prtry: Option<Proprietary> }` -/
def bkTxCdSpec : Spec BkTxCdSlots where
  isList := fun _ => false
  onItem := fun st _ _ _ => .ok st
  onElem := fun st k a kids =>
    if k == "Domn" then do let v ← setOnce st.domn (decDomain a kids); .ok { st with domn := v }
    else if k == "Prtry" then do let v ← setOnce st.prtry (decPrtry a kids); .ok { st with prtry := v }
    else do skipElem kids; .ok st

def decBkTxCd (attrs : String) (kids : List Node) : D (Option (String × String × String)) := do
  noAttrs attrs
  let st ← runWalk bkTxCdSpec {} kids
  .ok st.domn

/-! ### transaction details -/

structure XchgSlots where
  src : Option String := none
  tgt : Option String := none
  rate : Option Dec := none

/-- `CurrencyExchange { SrcCcy, TrgtCcy, XchgRate }` -/
def xchgSpec : Spec XchgSlots where
  isList := fun _ => false
  onItem := fun st _ _ _ => .ok st
  onElem := fun st k a kids =>
    if k == "SrcCcy" then do let v ← setOnce st.src (elemText kids); .ok { st with src := v }
    else if k == "TrgtCcy" then do let v ← setOnce st.tgt (elemText kids); .ok { st with tgt := v }
    else if k == "XchgRate" then do let v ← setOnce st.rate (decRate a kids); .ok { st with rate := v }
    else do skipElem kids; .ok st

def decXchg (attrs : String) (kids : List Node) : D CurrencyExchange := do
  noAttrs attrs
  let st ← runWalk xchgSpec {} kids
  let s ← req st.src
  let t ← req st.tgt
  let r ← req st.rate
  .ok ⟨s, t, r⟩

structure AmtXchgSlots where
  amt : Option CamtAmount := none
  xchg : Option CurrencyExchange := none

/-- `AmountWithExchange { Amt, CcyXchg: Option<CurrencyExchange> }` -/
def amtXchgSpec : Spec AmtXchgSlots where
  isList := fun _ => false
  onItem := fun st _ _ _ => .ok st
  onElem := fun st k a kids =>
    if k == "Amt" then do let v ← setOnce st.amt (decAmount a kids); .ok { st with amt := v }
    else if k == "CcyXchg" then do let v ← setOnce st.xchg (decXchg a kids); .ok { st with xchg := v }
    else do skipElem kids; .ok st

def decAmtXchg (attrs : String) (kids : List Node) : D TxAmount := do
  noAttrs attrs
  let st ← runWalk amtXchgSpec {} kids
  let a ← req st.amt
  .ok ⟨a, st.xchg⟩

structure AmtDtlsSlots where
  instd : Option TxAmount := none
  tx : Option TxAmount := none

/-- `AmountDetails { InstdAmt, TxAmt }` (both required; the importer reads `TxAmt`) -/
def amtDtlsSpec : Spec AmtDtlsSlots where
  isList := fun _ => false
  onItem := fun st _ _ _ => .ok st
  onElem := fun st k a kids =>
    if k == "InstdAmt" then do let v ← setOnce st.instd (decAmtXchg a kids); .ok { st with instd := v }
    else if k == "TxAmt" then do let v ← setOnce st.tx (decAmtXchg a kids); .ok { st with tx := v }
    else do skipElem kids; .ok st

def decAmtDtls (attrs : String) (kids : List Node) : D TxAmount := do
  noAttrs attrs
  let st ← runWalk amtDtlsSpec {} kids
  let _ ← req st.instd
  req st.tx

structure PartySlots where
  nm : Option String := none
  adr : Option Unit := none

/-- `PartyDetails { Nm: String, PstlAdr: Option<()> }` -/
def partySpec : Spec PartySlots where
  isList := fun _ => false
  onItem := fun st _ _ _ => .ok st
  onElem := fun st k _ kids =>
    if k == "Nm" then do let v ← setOnce st.nm (elemText kids); .ok { st with nm := v }
    else if k == "PstlAdr" then do let v ← setOnce st.adr (skipElem kids); .ok { st with adr := v }
    else do skipElem kids; .ok st

/-- the children of an element as `PartyDetails` (the attributes were dealt with by the caller) -/
def decPartyKids (kids : List Node) : D String := do
  let st ← runWalk partySpec {} kids
  req st.nm

def decPartyDetails (attrs : String) (kids : List Node) : D String := do
  noAttrs attrs
  decPartyKids kids

/-- `RelatedParty` (`RelatedPartyVisitor::visit_map`): the **first key** of the element decides — `Pty` means
`Party { Pty: PartyDetails }`, anything else (an attribute, a text, another element) means the details are inline;
no key at all is an error.  The result is `name()`. -/
def decRelatedParty (attrs : String) (kids : List Node) : D String := do
  let as ← attrKeys attrs
  let nested := as.isEmpty && (match kids with
    | .elem q _ _ :: _ => lname q == "Pty"
    | _ => false)
  if as.isEmpty && kids.isEmpty then bad
  else if nested then do
    let st ← runWalk (oneFieldSpec "Pty" decPartyDetails) none kids
    req st
  else decPartyKids kids

/-- `OtherAccountId { Id: String }` -/
def decOthr (attrs : String) (kids : List Node) : D String := do
  noAttrs attrs
  let st ← runWalk (oneFieldSpec "Id" fun _ ks => elemText ks) none kids
  req st

/-- `AccountIdWrapper { $value: AccountId }`, `AccountId::{IBAN(String), Othr(OtherAccountId)}`, then `as_str_id` -/
def decAccountId (attrs : String) (kids : List Node) : D String := do
  noAttrs attrs
  match kids with
  | [.elem q a ks] =>
    if lname q == "IBAN" then elemText ks
    else if lname q == "Othr" then decOthr a ks
    else bad
  | _ => bad

/-- `Account { Id: AccountIdWrapper }` -/
def decAccount (attrs : String) (kids : List Node) : D String := decOneField "Id" decAccountId attrs kids

structure RltdSlots where
  dbtr : Option String := none
  cdtr : Option String := none
  cdtrAcct : Option String := none
  dbtrAcct : Option String := none
  ultDbtr : Option String := none
  ultCdtr : Option String := none

/-- `RelatedParties` -/
def rltdSpec : Spec RltdSlots where
  isList := fun _ => false
  onItem := fun st _ _ _ => .ok st
  onElem := fun st k a kids =>
    if k == "Dbtr" then do let v ← setOnce st.dbtr (decRelatedParty a kids); .ok { st with dbtr := v }
    else if k == "Cdtr" then do let v ← setOnce st.cdtr (decRelatedParty a kids); .ok { st with cdtr := v }
    else if k == "CdtrAcct" then do let v ← setOnce st.cdtrAcct (decAccount a kids); .ok { st with cdtrAcct := v }
    else if k == "DbtrAcct" then do let v ← setOnce st.dbtrAcct (decAccount a kids); .ok { st with dbtrAcct := v }
    else if k == "UltmtDbtr" then do let v ← setOnce st.ultDbtr (decRelatedParty a kids); .ok { st with ultDbtr := v }
    else if k == "UltmtCdtr" then do let v ← setOnce st.ultCdtr (decRelatedParty a kids); .ok { st with ultCdtr := v }
    else do skipElem kids; .ok st

def decRltd (attrs : String) (kids : List Node) : D RltdSlots := do
  noAttrs attrs
  runWalk rltdSpec {} kids

/-- `References { AcctSvcrRef: Option<String> }` / `RemittanceInfo { Ustrd: Option<String> }` -/
def optTextSpec (key : String) : Spec (Option String) where
  isList := fun _ => false
  onItem := fun st _ _ _ => .ok st
  onElem := fun st k _ kids =>
    if k == key then setOnce st (elemText kids)
    else do skipElem kids; .ok st

def decOptText (key : String) (attrs : String) (kids : List Node) : D (Option String) := do
  noAttrs attrs
  runWalk (optTextSpec key) none kids

structure TxDtlsSlots where
  refs : Option (Option String) := none
  amt : Option CamtAmount := none
  cd : Option CdtDbt := none
  amtDtls : Option TxAmount := none
  chrgs : Option (List ChargeRecord) := none
  rltd : Option RltdSlots := none
  rmt : Option (Option String) := none
  addtl : Option String := none

/-- `TransactionDetails` -/
def txDtlsSpec : Spec TxDtlsSlots where
  isList := fun _ => false
  onItem := fun st _ _ _ => .ok st
  onElem := fun st k a kids =>
    if k == "Refs" then do let v ← setOnce st.refs (decOptText "AcctSvcrRef" a kids); .ok { st with refs := v }
    else if k == "Amt" then do let v ← setOnce st.amt (decAmount a kids); .ok { st with amt := v }
    else if k == "CdtDbtInd" then do let v ← setOnce st.cd (decCdtDbt a kids); .ok { st with cd := v }
    else if k == "AmtDtls" then do let v ← setOnce st.amtDtls (decAmtDtls a kids); .ok { st with amtDtls := v }
    else if k == "Chrgs" then do let v ← setOnce st.chrgs (decCharges a kids); .ok { st with chrgs := v }
    else if k == "RltdPties" then do let v ← setOnce st.rltd (decRltd a kids); .ok { st with rltd := v }
    else if k == "RmtInf" then do let v ← setOnce st.rmt (decOptText "Ustrd" a kids); .ok { st with rmt := v }
    else if k == "AddtlTxInf" then do let v ← setOnce st.addtl (elemText kids); .ok { st with addtl := v }
    else do skipElem kids; .ok st

def decTxDtls (attrs : String) (kids : List Node) : D TxDetails := do
  noAttrs attrs
  let st ← runWalk txDtlsSpec {} kids
  let refs ← req st.refs
  let amt ← req st.amt
  let cd ← req st.cd
  let r : RltdSlots := st.rltd.getD {}
  .ok { ref := refs, amount := amt, cd := cd, txAmount := st.amtDtls, charges := st.chrgs.getD [],
        info := { creditorName := r.cdtr, creditorAccountId := r.cdtrAcct, ultimateCreditorName := r.ultCdtr,
                  debtorName := r.dbtr, debtorAccountId := r.dbtrAcct, ultimateDebtorName := r.ultDbtr,
                  remittanceUnstructured := st.rmt.getD none, additionalTransactionInfo := st.addtl } }

/-- `Batch { NbOfTxs: usize }` -/
def decBatch (attrs : String) (kids : List Node) : D Unit := do
  noAttrs attrs
  let st ← runWalk (oneFieldSpec "NbOfTxs" fun _ ks => do
    let s ← elemText ks
    match u64OfText s.toList with
    | some _ => .ok ()
    | none => bad) none kids
  req st

structure NtryDtlsSlots where
  btch : Option Unit := none
  txs : Option (List TxDetails) := none

/-- `EntryDetails { Btch: Batch (default), TxDtls: Vec<TransactionDetails> (default) }` -/
def ntryDtlsSpec : Spec NtryDtlsSlots where
  isList := fun k => k == "TxDtls"
  onItem := fun st _ a kids => do
    let d ← decTxDtls a kids
    .ok { st with txs := some (st.txs.getD [] ++ [d]) }
  onElem := fun st k a kids =>
    if k == "Btch" then do let v ← setOnce st.btch (decBatch a kids); .ok { st with btch := v }
    else if k == "TxDtls" then do
      let v ← setOnce st.txs ((decTxDtls a kids).map fun d => [d]); .ok { st with txs := v }
    else do skipElem kids; .ok st

def decNtryDtls (attrs : String) (kids : List Node) : D (List TxDetails) := do
  noAttrs attrs
  let st ← runWalk ntryDtlsSpec {} kids
  .ok (st.txs.getD [])

/-! ### entries, statements, the document -/

structure EntrySlots where
  amt : Option CamtAmount := none
  cd : Option CdtDbt := none
  bookg : Option Date := none
  val : Option Date := none
  bkTxCd : Option (Option (String × String × String)) := none
  chrgs : Option (List ChargeRecord) := none
  dtls : Option (List TxDetails) := none
  info : Option String := none

/-- `Entry` -/
def entrySpec : Spec EntrySlots where
  isList := fun _ => false
  onItem := fun st _ _ _ => .ok st
  onElem := fun st k a kids =>
    if k == "Amt" then do let v ← setOnce st.amt (decAmount a kids); .ok { st with amt := v }
    else if k == "CdtDbtInd" then do let v ← setOnce st.cd (decCdtDbt a kids); .ok { st with cd := v }
    else if k == "BookgDt" then do let v ← setOnce st.bookg (decDateHolder a kids); .ok { st with bookg := v }
    else if k == "ValDt" then do let v ← setOnce st.val (decDateHolder a kids); .ok { st with val := v }
    else if k == "BkTxCd" then do let v ← setOnce st.bkTxCd (decBkTxCd a kids); .ok { st with bkTxCd := v }
    else if k == "Chrgs" then do let v ← setOnce st.chrgs (decCharges a kids); .ok { st with chrgs := v }
    else if k == "NtryDtls" then do let v ← setOnce st.dtls (decNtryDtls a kids); .ok { st with dtls := v }
    else if k == "AddtlNtryInf" then do let v ← setOnce st.info (elemText kids); .ok { st with info := v }
    else do skipElem kids; .ok st

def decEntry (attrs : String) (kids : List Node) : D CamtEntry := do
  noAttrs attrs
  let st ← runWalk entrySpec {} kids
  let amt ← req st.amt
  let cd ← req st.cd
  let bookg ← req st.bookg
  let dom ← req st.bkTxCd
  let info ← req st.info
  .ok { amount := amt, cd := cd, bookingDate := bookg, valueDate := st.val, domain := dom,
        charges := st.chrgs.getD [], details := st.dtls.getD [], additionalInfo := info }

structure StmtSlots where
  bals : Option (List CamtBalance) := none
  ntries : Option (List CamtEntry) := none

/-- `Statement { Bal: Vec<Balance>, Ntry: Vec<Entry> (default) }` -/
def stmtSpec : Spec StmtSlots where
  isList := fun k => k == "Bal" || k == "Ntry"
  onItem := fun st k a kids =>
    if k == "Bal" then do
      let b ← decBalance a kids
      .ok { st with bals := some (st.bals.getD [] ++ [b]) }
    else do
      let e ← decEntry a kids
      .ok { st with ntries := some (st.ntries.getD [] ++ [e]) }
  onElem := fun st k a kids =>
    if k == "Bal" then do
      let v ← setOnce st.bals ((decBalance a kids).map fun b => [b]); .ok { st with bals := v }
    else if k == "Ntry" then do
      let v ← setOnce st.ntries ((decEntry a kids).map fun e => [e]); .ok { st with ntries := v }
    else do skipElem kids; .ok st

def decStmt (attrs : String) (kids : List Node) : D Statement := do
  noAttrs attrs
  let st ← runWalk stmtSpec {} kids
  let bals ← req st.bals
  .ok ⟨bals, st.ntries.getD []⟩

/-- `BankToCustomerStatement { Stmt: Vec<Statement> }` -/
def b2cSpec : Spec (Option (List Statement)) where
  isList := fun k => k == "Stmt"
  onItem := fun st _ a kids => do
    let s ← decStmt a kids
    .ok (some (st.getD [] ++ [s]))
  onElem := fun st k a kids =>
    if k == "Stmt" then setOnce st ((decStmt a kids).map fun s => [s])
    else do skipElem kids; .ok st

def decB2c (attrs : String) (kids : List Node) : D (List Statement) := do
  noAttrs attrs
  let st ← runWalk b2cSpec none kids
  req st

/-- `Document { BkToCstmrStmt }` on the root element (whatever its name) -/
def decDocument : Node → D (List Statement)
  | .elem _ a kids => decOneField "BkToCstmrStmt" decB2c a kids
  | _ => bad

/-- `quick_xml::de::from_reader::<Document>` and `doc.bank_to_customer.statements` -/
def decodeCamt (text : String) : D (List Statement) :=
  match readDocument text with
  | .ok root => decDocument root
  | .error e => .error e

/-- `DeError` is `ImportError::XML`; what the model declines is reported as `UnknownFormat` (a variant the Camt053
importer never produces; `decodeCamt` keeps the reason) -/
def toImportErr : XmlErr → ImportErr
  | .xml => .xml
  | .unsupported _ => .unknownFormat

/-- `iso_camt053::import` from the text of the file (the extractor is built from the configuration before the file is
read; the model's `CamtCfg` carries the rules already built) -/
def camtImportXml (cap : Captures) (cfg : CamtCfg) (text : String) : Outcome ImportErr (List Txn) :=
  match decodeCamt text with
  | .ok stmts => camtImport cap cfg [] stmts
  | .error e => .err (toImportErr e)

end Okane.Import.CamtXml
