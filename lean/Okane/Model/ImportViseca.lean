import Okane.Model.ImportCsv
import Okane.Model.Parse
import Okane.Model.Literal
/-!
# Viseca statement importer, from the text of the statement
(mirror of `cli/src/import/viseca/parser.rs`, `viseca/format.rs` and `cli/src/import/viseca.rs`)

Unlike the CSV / Camt053 models this one starts at the *lines of the file*: the decoding of a Viseca statement is
okane's own hand-written code.

* `RawLine`, `Reader`            — `LineReader` (`peek`, `read_line`, `line_count`) over what `BufRead::read_line`
                                   hands out: the file cut after every `\n` (`linesOf`), a line that is not UTF-8
                                   being an `io::Error`.
* `firstLine`, `exchangeLine`, `feeLine`, `isAirTagLine` — the four `lazy_static!` regexes as explicit recognisers.
  The regexes are fixed in the source, so the regex crate is *not* a parameter here; every recogniser carries the
  regex text it mirrors and the argument why the deterministic scan returns the captures of the crate's
  leftmost-first (backtracking-priority) semantics.
* `parseEuroDate`                — `NaiveDate::parse_from_str(_, "%d.%m.%y")` on the texts the regexes let through.
* `decFromStr`, `parseDecimal`   — `rust_decimal::Decimal::from_str` (1.37.1 `str.rs`) on the texts the regexes let
                                   through (`[0-9.]*`), with its 64-bit / 96-bit phases, the overflow error and
                                   the round-half-up cut at 28 places that ignores the rest of the text.
* `parseEntry`                   — `Parser::parse_entry`, a state machine over the reader; no fuel (structural).
* `entryToTxn`, `visecaImport`   — the loop of `viseca.rs::import`, composing with `Okane.Import.Txn` and the
                                   rewrite-rule extractor (`Okane.Import.extract`); the regex engine for the
                                   *user's* patterns stays a parameter (`VisecaEnv`), as in the CSV / Camt models.
* `printEntry`                   — NOT part of okane: the canonical text of an `Entry` (specification side of the
                                   round-trip theorem), kept here (core only) so that the driver can hand it to
                                   the real parser.

Error values: `ImportErr.viseca site` carries `"<message head> @ line <n>"` with `n` = `LineReader::line_count`
at the time `Parser::err` is called, exactly as in the Rust message (the free-text detail after the head is dropped).
-/
namespace Okane.Import.Viseca
open Okane Okane.Import

/-! ## Character classes of the regexes -/

/-- Unicode general category `Nd` as compiled into regex-syntax 0.8.5 (`unicode_tables/perl_decimal.rs`,
`DECIMAL_NUMBER`): what `\d` matches (the regexes are built with the default flags, Unicode on). -/
def ndRanges : List (Nat × Nat) :=
  [(0x30, 0x39), (0x660, 0x669), (0x6F0, 0x6F9), (0x7C0, 0x7C9), (0x966, 0x96F), (0x9E6, 0x9EF), (0xA66, 0xA6F),
   (0xAE6, 0xAEF), (0xB66, 0xB6F), (0xBE6, 0xBEF), (0xC66, 0xC6F), (0xCE6, 0xCEF), (0xD66, 0xD6F), (0xDE6, 0xDEF),
   (0xE50, 0xE59), (0xED0, 0xED9), (0xF20, 0xF29), (0x1040, 0x1049), (0x1090, 0x1099), (0x17E0, 0x17E9),
   (0x1810, 0x1819), (0x1946, 0x194F), (0x19D0, 0x19D9), (0x1A80, 0x1A89), (0x1A90, 0x1A99), (0x1B50, 0x1B59),
   (0x1BB0, 0x1BB9), (0x1C40, 0x1C49), (0x1C50, 0x1C59), (0xA620, 0xA629), (0xA8D0, 0xA8D9), (0xA900, 0xA909),
   (0xA9D0, 0xA9D9), (0xA9F0, 0xA9F9), (0xAA50, 0xAA59), (0xABF0, 0xABF9), (0xFF10, 0xFF19), (0x104A0, 0x104A9),
   (0x10D30, 0x10D39), (0x10D40, 0x10D49), (0x11066, 0x1106F), (0x110F0, 0x110F9), (0x11136, 0x1113F),
   (0x111D0, 0x111D9), (0x112F0, 0x112F9), (0x11450, 0x11459), (0x114D0, 0x114D9), (0x11650, 0x11659),
   (0x116C0, 0x116C9), (0x116D0, 0x116E3), (0x11730, 0x11739), (0x118E0, 0x118E9), (0x11950, 0x11959),
   (0x11BF0, 0x11BF9), (0x11C50, 0x11C59), (0x11D50, 0x11D59), (0x11DA0, 0x11DA9), (0x11F50, 0x11F59),
   (0x16130, 0x16139), (0x16A60, 0x16A69), (0x16AC0, 0x16AC9), (0x16B50, 0x16B59), (0x16D70, 0x16D79),
   (0x1CCF0, 0x1CCF9), (0x1D7CE, 0x1D7FF), (0x1E140, 0x1E149), (0x1E2F0, 0x1E2F9), (0x1E4F0, 0x1E4F9),
   (0x1E5F1, 0x1E5FA), (0x1E950, 0x1E959), (0x1FBF0, 0x1FBF9)]

/-- `\d` -/
def isUniDigit (c : Char) : Bool := c.isDigit || ndRanges.any fun r => r.1 ≤ c.toNat && c.toNat ≤ r.2

/-- `[0-9.']` -/
def isNumChar (c : Char) : Bool := c.isDigit || c == '.' || c == '\''
/-- `[0-9.]` -/
def isRateChar (c : Char) : Bool := c.isDigit || c == '.'
/-- `[A-Z]` -/
def isUpperAZ (c : Char) : Bool := c.isUpper
/-- `[[:alnum:]-]` (POSIX classes are ASCII-only) -/
def isAlnumDash (c : Char) : Bool := c.isAlphanum || c == '-'
/-- `.` (no `s` flag): any character but the line feed -/
def isDot (c : Char) : Bool := c != '\n'

/-- `\d{2}.\d{2}.\d{2}` at the start of the text: the eight characters matched, and what follows. -/
def dateShape : List Char → Option (List Char × List Char)
  | a :: b :: x :: c :: d :: y :: e :: f :: rest =>
    if isUniDigit a && isUniDigit b && isDot x && isUniDigit c && isUniDigit d && isDot y && isUniDigit e && isUniDigit f
    then some ([a, b, x, c, d, y, e, f], rest)
    else none
  | _ => none

/-- `[A-Z]{3}` at the start of the text -/
def ccyShape : List Char → Option (List Char × List Char)
  | a :: b :: c :: rest => if isUpperAZ a && isUpperAZ b && isUpperAZ c then some ([a, b, c], rest) else none
  | _ => none

/-- a greedy `[class]+`: the longest run, which must not be empty.  Every such group in the four regexes is followed
by a character outside its class (a blank, `%`, or the end of the text), so giving back part of the run can never
make the rest of the regex match: the longest run is the only candidate the backtracking engine can succeed with. -/
def run1 (p : Char → Bool) (s : List Char) : Option (List Char × List Char) :=
  let r := s.takeWhile p
  if r.isEmpty then none else some (r, s.dropWhile p)

/-- a literal at the start of the text -/
def lit (l : List Char) (s : List Char) : Option (List Char) :=
  if l.isPrefixOf s then some (s.drop l.length) else none

/-! ## `FIRST_LINE` -/

/-- the capture groups of `FIRST_LINE` (`currency` and `examount` sit in one optional group: both or neither) -/
structure FirstCaps where
  date : List Char
  edate : List Char
  payee : List Char
  /-- `(currency, examount)` -/
  spent : Option (List Char × List Char)
  amount : List Char
  neg : Bool
  deriving Repr, DecidableEq, Inhabited

/-- ` (?P<amount>[0-9.']+)(?P<neg> -)?$`: the tail of the regex when the optional currency group is skipped. -/
def tailAmount (s : List Char) : Option (List Char × Bool) :=
  match s with
  | ' ' :: r =>
    match run1 isNumChar r with
    | some (amount, rest) =>
      if rest = [] then some (amount, false)
      else if rest = [' ', '-'] then some (amount, true)
      else none
    | none => none
  | _ => none

/-- `(?: (?P<currency>[A-Z]{3}) (?P<examount>[0-9.']+))` followed by the tail. -/
def tailSpent (s : List Char) : Option ((List Char × List Char) × List Char × Bool) :=
  match s with
  | ' ' :: r =>
    match ccyShape r with
    | some (ccy, ' ' :: r2) =>
      match run1 isNumChar r2 with
      | some (examount, r3) =>
        match tailAmount r3 with
        | some (amount, neg) => some ((ccy, examount), amount, neg)
        | none => none
      | none => none
    | _ => none
  | _ => none

/-- `(?P<payee>.*?)` followed by the rest of the regex: the lazy group tries the shortest payee first, and at each
length the (greedy) optional currency group is tried before skipping it — the order of the two `match`es.  `acc` is
the payee so far, reversed. -/
def payeeScan (acc : List Char) (s : List Char) :
    Option (List Char × Option (List Char × List Char) × List Char × Bool) :=
  match tailSpent s with
  | some (sp, amount, neg) => some (acc.reverse, some sp, amount, neg)
  | none =>
    match tailAmount s with
    | some (amount, neg) => some (acc.reverse, none, amount, neg)
    | none =>
      match s with
      | [] => none
      | c :: rest => if isDot c then payeeScan (c :: acc) rest else none

/-- `FIRST_LINE.captures(l)`:
`^(?P<date>\d{2}.\d{2}.\d{2}) (?P<edate>\d{2}.\d{2}.\d{2}) (?P<payee>.*?)(?: (?P<currency>[A-Z]{3}) (?P<examount>[0-9.']+))? (?P<amount>[0-9.']+)(?P<neg> -)?$` -/
def firstLine (l : List Char) : Option FirstCaps :=
  match dateShape l with
  | some (date, ' ' :: r1) =>
    match dateShape r1 with
    | some (edate, ' ' :: r2) =>
      match payeeScan [] r2 with
      | some (payee, spent, amount, neg) => some ⟨date, edate, payee, spent, amount, neg⟩
      | none => none
    | _ => none
  | _ => none

/-! ## `EXCHANGE_RATE_LINE`, `FEE_LINE`, `AIR_TAG_LINE` -/

structure ExchangeCaps where
  rate : List Char
  date : List Char
  scurrency : List Char
  samount : List Char
  deriving Repr, DecidableEq, Inhabited

/-- `EXCHANGE_RATE_LINE.captures(l)`:
`^Exchange rate (?P<rate>[0-9.]+) of (?P<date>\d{2}.\d{2}.\d{2}) (?P<scurrency>[A-Z]{3}) (?P<samount>[0-9.']+)$` -/
def exchangeLine (l : List Char) : Option ExchangeCaps :=
  match lit "Exchange rate ".toList l with
  | some r0 =>
    match run1 isRateChar r0 with
    | some (rate, r1) =>
      match lit " of ".toList r1 with
      | some r2 =>
        match dateShape r2 with
        | some (date, ' ' :: r3) =>
          match ccyShape r3 with
          | some (ccy, ' ' :: r4) =>
            match run1 isNumChar r4 with
            | some (samount, []) => some ⟨rate, date, ccy, samount⟩
            | _ => none
          | _ => none
        | _ => none
      | none => none
    | none => none
  | none => none

structure FeeCaps where
  credit : Bool
  percent : List Char
  fcurrency : List Char
  famount : List Char
  deriving Repr, DecidableEq, Inhabited

/-- `[Pp]rocessing fee (?P<percent>[0-9.]+)% (?P<fcurrency>[A-Z]{3}) (?P<famount>[0-9.']+)$` -/
def feeBody (credit : Bool) (l : List Char) : Option FeeCaps :=
  match l with
  | p :: r =>
    if p == 'P' || p == 'p' then
      match lit "rocessing fee ".toList r with
      | some r0 =>
        match run1 isRateChar r0 with
        | some (percent, '%' :: ' ' :: r1) =>
          match ccyShape r1 with
          | some (ccy, ' ' :: r2) =>
            match run1 isNumChar r2 with
            | some (famount, []) => some ⟨credit, percent, ccy, famount⟩
            | _ => none
          | _ => none
        | _ => none
      | none => none
    else none
  | [] => none

/-- `FEE_LINE.captures(l)`:
`^(?P<credit>Credit of )?[Pp]rocessing fee (?P<percent>[0-9.]+)% (?P<fcurrency>[A-Z]{3}) (?P<famount>[0-9.']+)$`.
The optional group is greedy; when it matched, skipping it instead would need the line to start with `P`/`p`, but it
starts with `C`: no second candidate. -/
def feeLine (l : List Char) : Option FeeCaps :=
  match lit "Credit of ".toList l with
  | some r => feeBody true r
  | none => feeBody false l

/-- `Air-[[:alnum:]-]+:` at the start of the text -/
def airAt (s : List Char) : Bool :=
  match lit "Air-".toList s with
  | some r =>
    match run1 isAlnumDash r with
    | some (_, ':' :: _) => true
    | _ => false
  | none => false

/-- `AIR_TAG_LINE.is_match_at(buf, 0)` with `AIR_TAG_LINE = ^Air-[[:alnum:]-]+:` (anchored since fix 5a6d633, finding F38:
before it the regex had no `^`, and `is_match_at(_, 0)` only fixes where the *search* starts, so any line merely
containing such a tag was skipped): the line **starts** with the tag. -/
def isAirTagLine (s : List Char) : Bool := airAt s

/-- `is_fee_prefix` -/
def isFeePrefix (buf : List Char) : Bool :=
  "Processing fee".toList.isPrefixOf buf || "Credit of processing fee".toList.isPrefixOf buf

/-! ## `parse_euro_date`, `parse_decimal` -/

/-- `NaiveDate::parse_from_str(s, "%d.%m.%y")` on a text of the shape `\d{2}.\d{2}.\d{2}` (the only texts the
parser hands over).  chrono 0.4.40: `%d` / `%m` / `%y` read one or two **ASCII** digits (`scan::number(s, 1, 2)`), the
literals must be `.`, nothing may be left over — on an eight-character text of that shape this succeeds exactly when
all six digits are ASCII and both separators are `.`; a two-digit year below 70 is 20yy, else 19yy
(`Parsed::resolve_year`); then the civil date must exist. -/
def parseEuroDate : List Char → Option Date
  | [a, b, x, c, d, y, e, f] =>
    if a.isDigit && b.isDigit && x == '.' && c.isDigit && d.isDigit && y == '.' && e.isDigit && f.isDigit then
      let dd := Literal.digitVal a * 10 + Literal.digitVal b
      let mm := Literal.digitVal c * 10 + Literal.digitVal d
      let yy := Literal.digitVal e * 10 + Literal.digitVal f
      let dt : Date := ⟨((if yy < 70 then 2000 + yy else 1900 + yy : Nat) : Int), mm, dd⟩
      if dt.valid then some dt else none
    else none
  | _ => none

/-- `WILL_OVERFLOW_U64 = u64::MAX / 10 - u8::MAX` -/
def willOverflowU64 : Nat := (2 ^ 64 - 1) / 10 - 255
/-- `OVERFLOW_U96 = 1 << 96` -/
def overflowU96 : Nat := 2 ^ 96

/-- `handle_data::<false, HAS>` -/
def handleData (has : Bool) (data scale : Nat) : Option Dec :=
  if has then some ⟨false, data, scale⟩ else none

/-- `maybe_round(data, next_byte, scale, point, false)`: the digit after the cut decides (half up); when the increment
overflows 96 bits one more place is dropped.  **The bytes after `next_byte` are never looked at.** -/
def maybeRound (data : Nat) (nextByte : Char) (scale : Nat) (point : Bool) : Option Dec :=
  let digit? : Option Nat :=
    if nextByte.isDigit then some (Literal.digitVal nextByte)
    else if nextByte == '.' && !point then some 0
    else none
  match digit? with
  | none => none
  | some digit =>
    if digit ≥ 5 then
      let data := data + 1
      if data ≥ overflowU96 then
        if scale = 0 then none
        else handleData true ((data + 4) / 10) (scale - 1)
      else handleData true data scale
    else handleData true data scale

/-- `handle_full_128::<POINT, false, true>(data, bytes, scale, b)` with the text `b :: bytes` (the 96-bit phase). -/
def full128 (point : Bool) (data scale : Nat) : List Char → Option Dec
  | [] => handleData true data scale
  | b :: bytes =>
    if b.isDigit then
      let next := data * 10 + Literal.digitVal b
      if next ≥ overflowU96 then
        if !point then none else maybeRound data b scale point
      else
        let scale' := scale + (if point then 1 else 0)
        match bytes with
        | [] => handleData true next scale'
        | nb :: _ =>
          if point && scale' ≥ 28 then maybeRound next nb scale' point
          else full128 point next scale' bytes
    else if b == '.' && !point then full128 true data scale bytes
    else none

/-- `byte_dispatch_u64::<POINT, false, HAS, true, _, true>(bytes, data64, scale, b)` with the text `b :: bytes`
(`dispatch_next` on the empty text): the 64-bit phase.  Only the `BIG` instantiation is modelled: for texts shorter
than 18 bytes rust_decimal runs the same code without the two checks `scale >= 28` and `overflow_64`, neither of
which can fire on fewer than 18 digits. -/
def dec64 (point has : Bool) (data scale : Nat) : List Char → Option Dec
  | [] => handleData has data scale
  | b :: bytes =>
    if b.isDigit then
      let data' := data * 10 + Literal.digitVal b
      let scale' := if point then scale + 1 else 0
      match bytes with
      | [] => handleData true data' scale'
      | next :: _ =>
        if point && scale' ≥ 28 then maybeRound data' next scale' point
        else if data' ≥ willOverflowU64 then full128 point data' scale' bytes
        else dec64 point true data' scale' bytes
    else if b == '.' && !point then dec64 true has data scale bytes
    else none

/-- `Decimal::from_str` (= `parse_str_radix_10`) on a text over `[0-9.]`; every other character is answered with
`none` here (rust_decimal also knows a leading sign and `_`; `parseDecimal_alphabet` in the lemma file shows the
parser never hands such a text over).  `none` = `Err(rust_decimal::Error)`.  The result never carries a sign. -/
def decFromStr (s : List Char) : Option Dec := dec64 false false 0 0 s

/-- `parse_decimal`: `Decimal::from_str(s.replace('\'', ""))` -/
def parseDecimal (s : List Char) : Option Dec := decFromStr (s.filter (· != '\''))

/-! ## `format.rs` -/

/-- `format::Exchange` -/
structure Exchange where
  rate : Dec
  rateDate : Date
  equivalent : OwnedAmount
  deriving Repr, DecidableEq, Inhabited

/-- `format::Fee` -/
structure Fee where
  percent : Dec
  amount : OwnedAmount
  deriving Repr, DecidableEq, Inhabited

/-- `format::Entry` -/
structure Entry where
  lineCount : Nat
  date : Date
  effectiveDate : Date
  payee : String
  amount : Dec
  category : String
  spent : Option OwnedAmount
  exchange : Option Exchange
  fee : Option Fee
  deriving Repr, DecidableEq, Inhabited

/-! ## `LineReader` -/

/-- what `BufRead::read_line` yields for one line of the file: the text up to and including its `\n` (the last line
may lack it), or `Err(InvalidData)` when the bytes of that line are not UTF-8. -/
inductive RawLine where
  | text (cs : List Char)
  | invalidUtf8
  deriving Repr, DecidableEq, Inhabited

/-- `BufRead::read_line` applied repeatedly to a (valid UTF-8) text: cut after every `\n`. -/
def splitAfterLF (cur : List Char) : List Char → List (List Char)
  | [] => if cur.isEmpty then [] else [cur.reverse]
  | c :: rest => if c == '\n' then (c :: cur).reverse :: splitAfterLF [] rest else splitAfterLF (c :: cur) rest

def linesOf (text : List Char) : List RawLine := (splitAfterLF [] text).map RawLine.text

/-- `LineReader`: the lines not yet consumed and `line_count`.  (`buf` / `is_peek` only cache the head line.) -/
structure Reader where
  rest : List RawLine
  lineCount : Nat := 0
  deriving Repr, DecidableEq, Inhabited

/-- the error constructor `Parser::err`: `"{msg} @ line {line_count}"` -/
def vErr (msg : String) (lineCount : Nat) : ImportErr := .viseca s!"{msg} @ line {lineCount}"

namespace Reader

/-- `LineReader::peek`: the next line without consuming it; the empty text at the end of the file
(`read_bytes == 0` ⇔ the buffer is empty). -/
def peek (r : Reader) : Outcome ImportErr (List Char) :=
  match r.rest with
  | [] => .ok []
  | .text cs :: _ => .ok cs
  | .invalidUtf8 :: _ => .err .io

/-- `LineReader::read_line`: `line_count` is incremented also at the end of the file. -/
def readLine (r : Reader) : Outcome ImportErr (List Char × Reader) :=
  match r.rest with
  | [] => .ok ([], { r with lineCount := r.lineCount + 1 })
  | .text cs :: rest => .ok (cs, ⟨rest, r.lineCount + 1⟩)
  | .invalidUtf8 :: _ => .err .io

end Reader

/-! ## `Parser` -/

def decOne : Dec := ⟨false, 1, 0⟩
def decNegOne : Dec := ⟨true, 1, 0⟩

/-- `parse_decimal(..)?` inside the parser: `From<rust_decimal::Error> for ImportError` -/
def parseDecimalE (s : List Char) : Outcome ImportErr Dec :=
  match parseDecimal s with
  | some d => .ok d
  | none => .err .invalidDecimal

/-- `parse_euro_date(..)?`: `From<chrono::ParseError> for ImportError` -/
def parseEuroDateE (s : List Char) : Outcome ImportErr Date :=
  match parseEuroDate s with
  | some d => .ok d
  | none => .err .invalidDatetime

/-- `Parser::parse_first_line` (the `expect_name` failures cannot happen: every group consulted takes part in every
match, `examount` whenever `currency` does).  `lineCount` is the reader's count, for the message of the first error. -/
def parseFirstLine (lineCount : Nat) (c : FirstCaps) : Outcome ImportErr Entry :=
  match parseEuroDate c.date with
  | none => .err (vErr "invalid date" lineCount)
  | some date =>
    match parseEuroDateE c.edate with
    | .ok edate =>
      let sign := if c.neg then decNegOne else decOne
      let spentR : Outcome ImportErr (Option OwnedAmount) :=
        match c.spent with
        | none => .ok none
        | some (currency, examount) =>
          match parseDecimalE examount with
          | .ok ex => .ok (some ⟨Dec.mul sign ex, String.ofList currency⟩)
          | .err e => .err e
          | .panic s => .panic s
          | .fuelOut => .fuelOut
      match spentR with
      | .ok spent =>
        match parseDecimalE c.amount with
        | .ok amount =>
          .ok { lineCount := 0, date := date, effectiveDate := edate, payee := String.ofList c.payee,
                amount := Dec.mul amount sign, category := "", spent := spent, exchange := none, fee := none }
        | .err e => .err e
        | .panic s => .panic s
        | .fuelOut => .fuelOut
      | .err e => .err e
      | .panic s => .panic s
      | .fuelOut => .fuelOut
    | .err e => .err e
    | .panic s => .panic s
    | .fuelOut => .fuelOut

/-- `Parser::parse_exchange` -/
def parseExchange (r : Reader) : Outcome ImportErr (Exchange × Reader) :=
  match r.readLine with
  | .ok (buf, r1) =>
    if buf.isEmpty then .err (vErr "exchange rate line not found" r1.lineCount)
    else
      match exchangeLine (Parse.trimEnd buf) with
      | none => .err (vErr "Exchange rate ... line expected" r1.lineCount)
      | some c =>
        match parseDecimalE c.rate with
        | .ok rate =>
          match parseEuroDateE c.date with
          | .ok date =>
            match parseDecimalE c.samount with
            | .ok equiv => .ok (⟨rate, date, ⟨equiv, String.ofList c.scurrency⟩⟩, r1)
            | .err e => .err e
            | .panic s => .panic s
            | .fuelOut => .fuelOut
          | .err e => .err e
          | .panic s => .panic s
          | .fuelOut => .fuelOut
        | .err e => .err e
        | .panic s => .panic s
        | .fuelOut => .fuelOut
  | .err e => .err e
  | .panic s => .panic s
  | .fuelOut => .fuelOut

/-- `Parser::parse_fee` -/
def parseFee (r : Reader) : Outcome ImportErr (Option Fee × Reader) :=
  match r.peek with
  | .ok next =>
    if next.isEmpty || !isFeePrefix next then .ok (none, r)
    else
      match r.readLine with
      | .ok (buf, r1) =>
        if buf.isEmpty then .err (vErr "Processing fee line not found" r1.lineCount)
        else
          match feeLine (Parse.trimEnd buf) with
          | none => .err (vErr "Processing fee ... line expected" r1.lineCount)
          | some c =>
            let creditApplier := if c.credit then decNegOne else decOne
            match parseDecimalE c.percent with
            | .ok percent =>
              match parseDecimalE c.famount with
              | .ok famount => .ok (some ⟨percent, ⟨Dec.mul famount creditApplier, String.ofList c.fcurrency⟩⟩, r1)
              | .err e => .err e
              | .panic s => .panic s
              | .fuelOut => .fuelOut
            | .err e => .err e
            | .panic s => .panic s
            | .fuelOut => .fuelOut
      | .err e => .err e
      | .panic s => .panic s
      | .fuelOut => .fuelOut
  | .err e => .err e
  | .panic s => .panic s
  | .fuelOut => .fuelOut

/-- `Parser::skip_air_tags`: the `loop` consumes one line per turn, so it is structural in the lines left. -/
def skipAirLines : List RawLine → Nat → Outcome ImportErr Reader
  | [], n => .ok ⟨[], n⟩
  | .invalidUtf8 :: _, _ => .err .io
  | .text cs :: rest, n =>
    if cs.isEmpty || !isAirTagLine cs then .ok ⟨.text cs :: rest, n⟩
    else skipAirLines rest (n + 1)

def skipAirTags (r : Reader) : Outcome ImportErr Reader := skipAirLines r.rest r.lineCount

/-- `entry_base.spent.as_ref().filter(|spent| *spent.commodity != self.currency).map(|_| self.parse_exchange()).transpose()?`:
an exchange line is read exactly when the record has a currency group in another currency than the card's. -/
def parseExchangeOpt (primary : String) (spent : Option OwnedAmount) (r : Reader) :
    Outcome ImportErr (Option Exchange × Reader) :=
  match spent with
  | some sp =>
    if sp.commodity ≠ primary then
      match parseExchange r with
      | .ok (ex, r3) => .ok (some ex, r3)
      | .err e => .err e
      | .panic s => .panic s
      | .fuelOut => .fuelOut
    else .ok (none, r)
  | none => .ok (none, r)

/-- `entry_base.spent.as_ref().map(|_| self.parse_fee()).transpose()?.flatten()`: a fee line is looked for exactly when the
record has a currency group. -/
def parseFeeOpt (spent : Option OwnedAmount) (r : Reader) : Outcome ImportErr (Option Fee × Reader) :=
  match spent with
  | some _ => parseFee r
  | none => .ok (none, r)

/-- the part of `parse_entry` after the category line was read: exchange, fee, air tags -/
def parseDetails (primary : String) (lineCount : Nat) (base : Entry) (category : String) (r2 : Reader) :
    Outcome ImportErr (Option Entry × Reader) :=
  match parseExchangeOpt primary base.spent r2 with
  | .ok (exchange, r3) =>
    match parseFeeOpt base.spent r3 with
    | .ok (fee, r4) =>
      match skipAirTags r4 with
      | .ok r5 =>
        .ok (some { base with lineCount := lineCount, category := category, exchange := exchange, fee := fee }, r5)
      | .err e => .err e
      | .panic s => .panic s
      | .fuelOut => .fuelOut
    | .err e => .err e
    | .panic s => .panic s
    | .fuelOut => .fuelOut
  | .err e => .err e
  | .panic s => .panic s
  | .fuelOut => .fuelOut

/-- `self.reader.buf.chars().next().unwrap().is_ascii_digit()` (on a non-empty buffer) -/
def startsWithDigit (buf : List Char) : Bool :=
  match buf.head? with
  | some ch => ch.isDigit
  | none => false

/-- `Parser::parse_entry` (`primary` = `Parser::currency`).  `none`: the end of the file. -/
def parseEntry (primary : String) (r : Reader) : Outcome ImportErr (Option Entry × Reader) :=
  match r.readLine with
  | .ok (buf, r1) =>
    if buf.isEmpty then .ok (none, r1)
    else
      let l := Parse.trimEnd buf
      let lineCount := r1.lineCount
      match firstLine l with
      | none => .err (vErr "unsupported entry line" r1.lineCount)
      | some c =>
        match parseFirstLine r1.lineCount c with
        | .ok base =>
          match r1.peek with
          | .ok next =>
            -- next_line_size == 0 || self.reader.buf.chars().next().unwrap().is_ascii_digit()
            if next.isEmpty || startsWithDigit next then
              .ok (some { base with lineCount := lineCount }, r1)
            else
              match r1.readLine with
              | .ok (buf2, r2) =>
                if buf2.isEmpty then .err (vErr "category line not found" r2.lineCount)
                else parseDetails primary lineCount base (String.ofList (Parse.trim buf2)) r2
              | .err e => .err e
              | .panic s => .panic s
              | .fuelOut => .fuelOut
          | .err e => .err e
          | .panic s => .panic s
          | .fuelOut => .fuelOut
        | .err e => .err e
        | .panic s => .panic s
        | .fuelOut => .fuelOut
  | .err e => .err e
  | .panic s => .panic s
  | .fuelOut => .fuelOut

/-- `while let Some(entry) = parser.parse_entry()? { … }` for the parser alone (the statement's records).  Every
turn consumes at least one line; `fuel` is only the recursion handle (`parseEntriesFuel_fine` : `rest.length + 1` is
always enough). -/
def parseEntriesFuel (primary : String) : Nat → Reader → Outcome ImportErr (List Entry)
  | 0, _ => .fuelOut
  | fuel + 1, r =>
    match parseEntry primary r with
    | .ok (none, _) => .ok []
    | .ok (some e, r') =>
      match parseEntriesFuel primary fuel r' with
      | .ok es => .ok (e :: es)
      | .err x => .err x
      | .panic s => .panic s
      | .fuelOut => .fuelOut
    | .err x => .err x
    | .panic s => .panic s
    | .fuelOut => .fuelOut

/-- all records of a statement -/
def parseEntries (primary : String) (lines : List RawLine) : Outcome ImportErr (List Entry) :=
  parseEntriesFuel primary (lines.length + 1) ⟨lines, 0⟩

/-! ## `viseca.rs::import` -/

/-- the regex crate for the *configured* rewrite patterns (`extract::regex_matcher`): a parameter, never implemented -/
structure VisecaEnv where
  cap : Captures
  /-- `RegexBuilder::new(p).case_insensitive(true).build().is_ok()` -/
  validPattern : String → Bool

/-- how `VisecaMatcher::captures` reads an entry: `payee` on the fragment's payee falling back to the entry's,
`category` on the entry's category, both keeping the capture groups. -/
def visecaRecord (e : Entry) : Record := fun f =>
  match f with
  | .payee => .payee (some e.payee)
  | .category => .text (some e.category) true
  | _ => .text none false

/-- `extractor.extract(&entry)`: what the rewrite rules say about the record -/
def entryFragment (env : VisecaEnv) (cfg : ConfigEntry) (entry : Entry) : Fragment :=
  extract env.cap cfg.rewrite (visecaRecord entry)

/-- the loop body from `Txn::new` to the clear state: date, payee (the rules' or the statement's), **the negated amount**
in the card's commodity, effective date, counter-account, `!` unless a rule with an account cleared it. -/
def baseTxn (env : VisecaEnv) (cfg : ConfigEntry) (entry : Entry) : Txn :=
  let fragment := entryFragment env cfg entry
  let payee := fragment.payee.getD entry.payee
  let txn := Txn.new entry.date payee ⟨entry.amount.negate, cfg.commodity.primary⟩
  let txn := (txn.setEffectiveDate entry.effectiveDate).destAccountOption fragment.account
  if !fragment.cleared then txn.setClearState .pending else txn

/-- the `if let Some(exchange) = entry.exchange { … } else if let Some(spent) = entry.spent { … }` block: the rate of the
spent commodity in the equivalent's commodity, and the negated spent amount as the transferred amount. -/
def withSpent (txn : Txn) (entry : Entry) : Outcome ImportErr Txn :=
  match entry.exchange with
  | some exchange =>
    match entry.spent with
    | none => .err (.viseca "internal error: exchange should set aside with spent")
    | some spent =>
      match txn.addRate ⟨exchange.equivalent.commodity, spent.commodity⟩ exchange.rate with
      | .ok txn => .ok (txn.setTransferredAmount spent.negate)
      | .err e => .err e
      | .panic s => .panic s
      | .fuelOut => .fuelOut
  | none =>
    match entry.spent with
    | some spent => .ok (txn.setTransferredAmount spent.negate)
    | none => .ok txn

/-- the `if let Some(fee) = entry.fee { … }` block: one charge, paid to the configured operator -/
def withFee (cfg : ConfigEntry) (txn : Txn) (entry : Entry) : Outcome ImportErr Txn :=
  match entry.fee with
  | some fee =>
    match cfg.operator with
    | none => .err (.invalidConfig "config should have operator to have charge")
    | some payee => .ok (txn.addCharge payee fee.amount)
  | none => .ok txn

/-- the loop body of `import` after `parse_entry`: entry → `single_entry::Txn`. -/
def entryToTxn (env : VisecaEnv) (cfg : ConfigEntry) (entry : Entry) : Outcome ImportErr Txn :=
  match withSpent (baseTxn env cfg entry) entry with
  | .ok txn => withFee cfg txn entry
  | .err e => .err e
  | .panic s => .panic s
  | .fuelOut => .fuelOut

/-- the `while let` loop of `import`: parse one record, convert it, push it; the first error of either kind ends
the import.  `fuel` as in `parseEntriesFuel`. -/
def importLoop (env : VisecaEnv) (cfg : ConfigEntry) : Nat → Reader → Outcome ImportErr (List Txn)
  | 0, _ => .fuelOut
  | fuel + 1, r =>
    match parseEntry cfg.commodity.primary r with
    | .ok (none, _) => .ok []
    | .ok (some e, r') =>
      match entryToTxn env cfg e with
      | .ok t =>
        match importLoop env cfg fuel r' with
        | .ok ts => .ok (t :: ts)
        | .err x => .err x
        | .panic s => .panic s
        | .fuelOut => .fuelOut
      | .err x => .err x
      | .panic s => .panic s
      | .fuelOut => .fuelOut
    | .err x => .err x
    | .panic s => .panic s
    | .fuelOut => .fuelOut

/-- `viseca::import(r, config)`: compile the rewrite rules (`Extractor::try_from`, before anything is read), then
the loop. -/
def visecaImport (env : VisecaEnv) (cfg : ConfigEntry) (lines : List RawLine) : Outcome ImportErr (List Txn) :=
  match checkRules .viseca env.validPattern (fun _ _ => true) cfg.rewrite with
  | .ok () => importLoop env cfg (lines.length + 1) ⟨lines, 0⟩
  | .err e => .err e
  | .panic s => .panic s
  | .fuelOut => .fuelOut

/-! ## Canonical text of an entry (specification side; not in okane) -/

/-- two digits -/
def twoDigits (n : Nat) : List Char := [Literal.digitChar (n / 10 % 10), Literal.digitChar (n % 10)]

/-- `dd.mm.yy` -/
def printEuroDate (d : Date) : List Char :=
  twoDigits d.d ++ ['.'] ++ twoDigits d.m ++ ['.'] ++ twoDigits (d.y.toNat % 100)

/-- Swiss grouping of an integer's digits (most significant first): `'` before every group of three counted from
the right. -/
def groupQuotes : List Char → List Char
  | [] => []
  | c :: rest => if rest.length % 3 = 0 ∧ rest ≠ [] then c :: '\'' :: groupQuotes rest else c :: groupQuotes rest

/-- the magnitude of a decimal as rust_decimal's `Display` prints it (no sign) -/
def printMagnitude (d : Dec) : List Char := Literal.printPlain ⟨false, d.mant, d.scale, none⟩

/-- the magnitude with `'` grouping in the integer part, as Viseca statements print amounts -/
def printGrouped (d : Dec) : List Char :=
  let s := printMagnitude d
  groupQuotes (s.takeWhile (· != '.')) ++ s.dropWhile (· != '.')

/-- the ` -` marker of the head line: a credit -/
def negMark (e : Entry) : Bool :=
  e.amount.neg || (match e.spent with | some s => s.value.neg | none => false)

/-- the head line (without line end) -/
def printHead (e : Entry) : List Char :=
  printEuroDate e.date ++ [' '] ++ printEuroDate e.effectiveDate ++ [' '] ++ e.payee.toList ++
  (match e.spent with
   | some s => [' '] ++ s.commodity.toList ++ [' '] ++ printGrouped s.value
   | none => []) ++
  [' '] ++ printGrouped e.amount ++ (if negMark e then [' ', '-'] else [])

def printExchange (x : Exchange) : List Char :=
  "Exchange rate ".toList ++ printMagnitude x.rate ++ " of ".toList ++ printEuroDate x.rateDate ++ [' '] ++
  x.equivalent.commodity.toList ++ [' '] ++ printGrouped x.equivalent.value

def printFee (f : Fee) : List Char :=
  (if f.amount.value.neg then "Credit of processing fee ".toList else "Processing fee ".toList) ++
  printMagnitude f.percent ++ "% ".toList ++ f.amount.commodity.toList ++ [' '] ++ printGrouped f.amount.value

/-- a record has detail lines when it has a category, an exchange line or a fee line -/
def hasDetail (e : Entry) : Bool := e.category != "" || e.exchange.isSome || e.fee.isSome

/-- the lines of one record, each ended by `\n` -/
def printEntry (e : Entry) : List (List Char) :=
  [printHead e ++ ['\n']] ++
  (if hasDetail e then
    [e.category.toList ++ ['\n']] ++
    (match e.exchange with | some x => [printExchange x ++ ['\n']] | none => []) ++
    (match e.fee with | some f => [printFee f ++ ['\n']] | none => [])
   else [])

/-- a whole statement -/
def printStatement (es : List Entry) : List RawLine := (es.flatMap printEntry).map RawLine.text

/-! ## Canonical entries (specification side: the decidable hypotheses of the round-trip theorem) -/

/-- fits `Decimal`: 96-bit mantissa, scale ≤ 28 -/
def canonMag (d : Dec) : Bool := decide (d.mant < 2 ^ 96) && decide (d.scale ≤ 28)
/-- a number the parser stores as read (rate, percentage, equivalent amount): never signed -/
def canonUnsigned (d : Dec) : Bool := !d.neg && canonMag d
/-- a number the parser multiplies by ±1 (amount, spent amount, fee amount): a zero comes out as `Decimal::ZERO` -/
def canonSigned (d : Dec) : Bool := canonMag d && (d.mant != 0 || (!d.neg && d.scale == 0))
/-- a date `%d.%m.%y` can carry: it exists and its year is in the window of two-digit years (1970 … 2069) -/
def canonDate (d : Date) : Bool := d.valid && decide (1970 ≤ d.y) && decide (d.y ≤ 2069)
/-- `[A-Z]{3}` -/
def canonCcy (s : String) : Bool :=
  match s.toList with
  | [a, b, c] => isUpperAZ a && isUpperAZ b && isUpperAZ c
  | _ => false

/-- the text is ` [A-Z]{3} [0-9.']+` -/
def spentSuffix (s : List Char) : Bool :=
  match s with
  | ' ' :: r =>
    match ccyShape r with
    | some (_, ' ' :: r2) => !r2.isEmpty && r2.all isNumChar
    | _ => false
  | _ => false

/-- the payee ends like a currency group: `FIRST_LINE` would read that end as `currency` / `examount`
(the format is ambiguous there: `XYZ ABC 100 12.00` is payee `XYZ`, 100 ABC, not payee `XYZ ABC 100`). -/
def hasSpentSuffix : List Char → Bool
  | [] => false
  | c :: rest => spentSuffix (c :: rest) || hasSpentSuffix rest

def canonExchange (x : Exchange) : Bool :=
  canonUnsigned x.rate && canonDate x.rateDate && canonCcy x.equivalent.commodity && canonUnsigned x.equivalent.value

def canonFee (f : Fee) : Bool :=
  canonUnsigned f.percent && canonCcy f.amount.commodity && canonSigned f.amount.value

/-- an entry `printEntry` writes so that `parse_entry` reads it back (every clause is needed; see the lemma file). -/
def canonEntry (primary : String) (e : Entry) : Bool :=
  canonDate e.date && canonDate e.effectiveDate &&
  e.payee.toList.all isDot &&
  canonSigned e.amount &&
  (match e.spent with
   | some s => canonCcy s.commodity && canonSigned s.value &&
               (s.value.mant == 0 || e.amount.mant == 0 || s.value.neg == e.amount.neg)
   | none => !hasSpentSuffix e.payee.toList) &&
  -- the category line: one line, nothing for `trim` to remove, not starting like a head line
  e.category.toList.all isDot && Parse.trim e.category.toList == e.category.toList &&
  (match e.category.toList.head? with | some c => !c.isDigit | none => true) &&
  -- detail lines exactly as `parse_entry` asks for them
  (!hasDetail e ||
    (e.exchange.isSome == (match e.spent with | some s => s.commodity != primary | none => false)) &&
    (!e.fee.isSome || e.spent.isSome)) &&
  (match e.exchange with | some x => canonExchange x | none => true) &&
  (match e.fee with | some f => canonFee f | none => true)

def canonStatement (primary : String) (es : List Entry) : Bool := es.all (canonEntry primary)

/-- the line numbers `parse_entry` assigns when the records are read in sequence starting after line `n` -/
def renumber : Nat → List Entry → List Entry
  | _, [] => []
  | n, e :: es => { e with lineCount := n + 1 } :: renumber (n + (printEntry e).length) es

end Okane.Import.Viseca
