import Okane.Model.Parse
import Okane.Model.Unparse
import Okane.Model.Store
import Okane.Model.Price
/-!
# The price-database file: parser and loader
# (mirror of `core/src/parse/price.rs` and of `PriceRepositoryBuilder::load_price_db` in `core/src/report/price_db.rs`)

* `priceDbEntry` — `price::price_db_entry`:
  `seq!{ _: ("P", space1), datetime: primitive::date, _: space1, target: primitive::commodity, _: space1,
         rate: expr::amount, _: line_ending }`.
  The pieces are the ones the ledger grammar uses (`Parse.date`, `Parse.amount`, `Comb.space1`, `Comb.lineEnding`);
  `seq!` runs them in order and a failing piece leaves the stream where it stopped (no reset).  The entry must
  end in `line_ending` (**not** `line_ending_or_eof`): a last line without a new-line is a parse error.
  There is no comment syntax and no blank-only line: anything that is not `P…` after the separator is an error.
* `newlines` — `character::newlines` = `take_while(0.., b"\r\n")`: the separator of `parse_repeated`; it eats any
  run of `\r` and `\n` characters (so empty lines and stray `\r` between entries are accepted), never fails.
* `parsePriceDbRun` / `parsePriceDb` — `parse::price::parse_price_db(&ParseOptions::default(), text)` driven to its
  first error: `ParseOptions::parse_repeated` = the `ParsedIter` of `adaptor.rs`, which is `Parse.parsedIter`
  (shared with `parse_ledger`), including the three observable fields of `ParseError`.
* `loadRecs` / `loadPriceDb` — the `for entry in parse_price_db(..)` loop of `load_price_db`:
  `ensure(target)`, `ensure(rate.commodity)`, then
  `insert_price(PriceSource::PriceDB, PriceEvent{ price_x: 1 target, price_y: rate, date })` (`Price.insertPrice`,
  which ignores zero amounts since fix 4244ce7 and inserts both directions otherwise).  The iterator is lazy: the
  entries in front of a malformed one are inserted before the error is returned (`entry?`), so a panic of an
  insertion would win over a later parse error; the model keeps that order.
  `std::fs::read_to_string` (`LoadError::IO`: missing file, invalid UTF-8) is outside the model: the text is given.
* `printRec` / `printDb` — the canonical text of a record list, one `P <date> <commodity> <number> <commodity>\n`
  line per record (the format of okane's own test data); the round-trip theorems are stated against it.
-/
namespace Okane.PriceDbFile
open Okane Okane.Comb Okane.Parse

/-- `syntax::PriceDBEntry { datetime, target, rate: Amount { value, commodity } }` (the time of day is always
00:00:00: the parser reads a date only, and the loader takes `.date()`). -/
structure PriceRec where
  date : Date
  target : String
  rate : PDec
  commodity : String
  deriving Repr, DecidableEq, Inhabited

/-! ## parser -/

/-- the byte set `b"\r\n"` -/
def isNl (c : Char) : Bool := c == '\r' || c == '\n'

/-- `character::newlines` = `take_while(0.., b"\r\n")` -/
def newlines : Parser Unit := void (takeWhile0 isNl)

/-- `primitive::commodity` = `take_till(0.., NON_COMMODITY_CHARS)` as a parser of the combinator model -/
def commodity : Parser (List Char) := takeWhile0 ExprSyntax.isCommodityChar

/-- `price::price_db_entry` -/
def priceDbEntry : Parser PriceRec :=
  pair (literal ['P']) space1 >>- fun _ =>
  date >>- fun d =>
  space1 >>- fun _ =>
  commodity >>- fun t =>
  space1 >>- fun _ =>
  amount >>- fun vc =>
  lineEnding >>- fun _ =>
  pure ⟨d, String.ofList t, vc.1, vc.2⟩

/-- `parse_price_db(..)` iterated until it is exhausted or yields its first `Err`: the entries so far (with their
spans) and how the iteration ended.  Fuel `length + 1`: every entry consumes at least its `P`. -/
def parsePriceDbRun (text : List Char) : List (Nat × Nat × PriceRec) × Ending :=
  parsedIter priceDbEntry newlines text (text.length + 1) text []

/-- `parse_price_db(..).collect::<Result<Vec<_>, _>>()`, entries only -/
def parsePriceDb (text : List Char) : Outcome ParseErr (List PriceRec) :=
  match parsePriceDbRun text with
  | (es, .done) => .ok (es.map fun x => x.2.2)
  | (_, .error e) => .err e
  | (_, .panic s) => .panic s
  | (_, .fuelOut) => .fuelOut

/-! ## loader -/

/-- the event `load_price_db` builds from one entry, given the two interned commodities -/
def eventOf (r : PriceRec) (target commodity : String) : PriceEvent String :=
  ⟨r.date, ⟨1, target⟩, ⟨r.rate.toRat, commodity⟩⟩

/-- the body of the `for` loop of `load_price_db`, for the entries the iterator yields before it stops -/
def loadRecs : Store → Price.Builder String → List PriceRec → Outcome Unit (Store × Price.Builder String)
  | s, b, [] => .ok (s, b)
  | s, b, r :: rs =>
    let (t, s1) := s.ensure r.target
    let (c, s2) := s1.ensure r.commodity
    match Price.insertPrice b .priceDB (eventOf r t c) with
    | .ok b' => loadRecs s2 b' rs
    | .err _ => .panic "unreachable"
    | .panic p => .panic p
    | .fuelOut => .fuelOut

/-- `PriceRepositoryBuilder::load_price_db(ctx, path)` on the content of the file -/
def loadPriceDb (text : List Char) (s : Store) (b : Price.Builder String) :
    Outcome ParseErr (Store × Price.Builder String) :=
  let (es, ending) := parsePriceDbRun text
  match loadRecs s b (es.map fun x => x.2.2) with
  | .ok sb =>
    match ending with
    | .done => .ok sb
    | .error e => .err e
    | .panic p => .panic p
    | .fuelOut => .fuelOut
  | .err _ => .panic "unreachable"
  | .panic p => .panic p
  | .fuelOut => .fuelOut

/-- what `report::process` does with `ProcessOptions.price_db_path = Some(path)`: the ledger's price events are
already in the builder (`accum.price_repos`), then the file is loaded (`?`), then `build()` sorts. -/
def processPriceDb (ledgerEvents : List (PriceEvent String)) (text : List Char) (s : Store) :
    Outcome ParseErr (Store × Price.Builder String) :=
  match Price.insertAll .ledger [] ledgerEvents with
  | .ok b =>
    match loadPriceDb text s b with
    | .ok (s', b') => .ok (s', Price.build b')
    | o => o
  | .err _ => .panic "unreachable"
  | .panic p => .panic p
  | .fuelOut => .fuelOut

/-! ## printer -/

/-- one line `P <date> <commodity> <number> <commodity>\n` (`<number> <commodity>` as `Display for Amount`
prints it: no blank when the commodity is empty) -/
def printRec (r : PriceRec) : List Char :=
  'P' :: ' ' :: (Unparse.printDate r.date ++ ' ' :: (r.target.toList ++ ' ' :: (Unparse.printAmount r.rate r.commodity ++ ['\n'])))

/-- the file: one line per record -/
def printDb (rs : List PriceRec) : List Char := rs.flatMap printRec

/-- a record the printer prints unambiguously: an existing date of the years 0…9999, a non-empty target made of
commodity characters, a number that `PrettyDecimal`'s `Display` / `FromStr` round-trip, a (possibly empty)
commodity made of commodity characters -/
def wfRec (r : PriceRec) : Bool :=
  Unparse.wfDate r.date && !r.target.toList.isEmpty && Unparse.isCommodityText r.target.toList &&
  Unparse.wfNumber r.rate && Unparse.isCommodityText r.commodity.toList

end Okane.PriceDbFile
