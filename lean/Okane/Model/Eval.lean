import Okane.Model.Syntax
import Okane.Model.Amount
import Okane.Model.Store
/-!
# Expression evaluation (mirror of `core/src/report/eval.rs`)

`evalMut` registers unknown commodities (threading the commodity store, lhs before rhs);
`evalRo` only looks them up and fails with `unknownCommodity`.
-/
namespace Okane

def leafMut (s : Store) (value : PDec) (commodity : String) : Outcome EvalErr (Evaluated String × Store) :=
  if commodity.isEmpty then .ok (.number value.toRat, s)
  else
    let (c, s') := s.ensure commodity
    .ok (.commodities [(c, value.toRat)], s')

def leafRo (s : Store) (value : PDec) (commodity : String) : Outcome EvalErr (Evaluated String × Store) :=
  if commodity.isEmpty then .ok (.number value.toRat, s)
  else
    match s.resolve commodity with
    | some c => .ok (.commodities [(c, value.toRat)], s)
    | none => .err .unknownCommodity

def applyBin (op : BinOp) (l r : Evaluated String) : Outcome EvalErr (Evaluated String) :=
  match op with
  | .add => l.checkAdd r
  | .sub => l.checkSub r
  | .mul => l.checkMul r
  | .div => l.checkDiv r

mutual
def evalExprWith (leaf : Store → PDec → String → Outcome EvalErr (Evaluated String × Store)) (s : Store) :
    Expr → Outcome EvalErr (Evaluated String × Store)
  | .neg e =>
    match evalExprWith leaf s e with
    | .ok (v, s') => .ok (v.negate, s')
    | .err x => .err x
    | .panic p => .panic p
    | .fuelOut => .fuelOut
  | .bin op l r =>
    match evalExprWith leaf s l with
    | .ok (lv, s1) =>
      match evalExprWith leaf s1 r with
      | .ok (rv, s2) =>
        match applyBin op lv rv with
        | .ok v => .ok (v, s2)
        | .err x => .err x
        | .panic p => .panic p
        | .fuelOut => .fuelOut
      | .err x => .err x
      | .panic p => .panic p
      | .fuelOut => .fuelOut
    | .err x => .err x
    | .panic p => .panic p
    | .fuelOut => .fuelOut
  | .val v => evalVExprWith leaf s v
def evalVExprWith (leaf : Store → PDec → String → Outcome EvalErr (Evaluated String × Store)) (s : Store) :
    VExpr → Outcome EvalErr (Evaluated String × Store)
  | .paren e => evalExprWith leaf s e
  | .amt value commodity => leaf s value commodity
end

def evalMut (s : Store) (v : VExpr) : Outcome EvalErr (Evaluated String × Store) := evalVExprWith leafMut s v
def evalRo (s : Store) (v : VExpr) : Outcome EvalErr (Evaluated String) :=
  (evalVExprWith leafRo s v).map' Prod.fst

end Okane
