import Okane.Model.ImportCsv
/-!
# The CSV importer from the FILE TEXT (mirror of the `csv` / `csv-core` crates as configured by `cli/src/import/csv.rs:33-61`)

`csv::import` builds `csv::ReaderBuilder::new().flexible(true)` (+ `.delimiter(format.delimiter.as_bytes()[0])` when the
configured delimiter is not empty) over a `BufReader` from which `format.skip.head` lines were taken with `read_line`.
Everything else is the default of the builder: quote `"`, `double_quote = true`, no escape byte, no comment byte,
`Terminator::CRLF` (any of `\r`, `\n`, `\r\n`), `has_headers = true`, `Trim::None`, DFA mode.

The reader works on **bytes**.  This file mirrors, in the order of the crates:

* `csv-core-0.1.12/src/reader.rs`: `NfaState`, `NfaInputAction`, `transition_nfa` (`transitionNfa`, the reader options above
  plugged in), the epsilon closure of `build_dfa` (`dfaStep`: "consume NFA states until we hit a non-epsilon transition"),
  `transition_final_nfa` / `transition_final_dfa` (`Rd.finish`), `strip_utf8_bom` (`stripBom`) and the loop of
  `read_record_dfa` (one field end per entry into `EndFieldDelim` / `EndRecord` / `CRLF`, a record per entry into the two
  record-final states, `line += (byte == b'\n')` for every byte consumed);
* `csv-1.3.1/src/reader.rs`: `read_byte_record_impl` (the record's `Position` is the reader's position **when the read of
  that record starts**: `Rd.recLine`), `headers()` (the first record; an empty record at end of input),
  `records()` + `StringRecord::read` + `ByteRecord::validate` (every field must be UTF-8, else `ErrorKind::Utf8`);
* `std::io::BufRead::read_line` (`readLine`: up to and including the first `\n`; the line must be UTF-8, else
  `io::ErrorKind::InvalidData`).

`csvImportText` is `csv::import` from the bytes of the file: skip, header, `FieldMap::try_new`, then record after record
(the reader is lazy: an undecodable record only matters if no earlier record failed).  When every record decodes it is
*by definition* `csvImportFlagged` / `csvImport` of `Model/ImportCsv.lean` on the decoded header and records.

Not modelled: buffer boundaries.  `strip_utf8_bom` only looks at the first chunk handed to `csv-core` ("will fail to strip
off the BOM if only part of the BOM is buffered"): the model is the reader on an input that arrives in one piece (files up
to the 8 KiB buffer, or whose first chunk holds the three bytes).  I/O errors of the underlying reader do not exist for a
byte slice.
-/
namespace Okane.Import.CsvText
open Okane Okane.Import

abbrev Bytes := List UInt8

abbrev QUOTE : UInt8 := 34
abbrev CR : UInt8 := 13
abbrev LF : UInt8 := 10
abbrev COMMA : UInt8 := 44

/-- `Terminator::CRLF.equals(c)`: `c == b'\r' || c == b'\n'`. -/
def isTerm (c : UInt8) : Bool := c == CR || c == LF

/-- `csv_core::reader::NfaState`. -/
inductive Nfa where
  | endFieldTerm | inRecordTerm | end_
  | startRecord | startField | inField | inQuotedField | inEscapedQuote | inDoubleEscapedQuote | inComment
  | endFieldDelim
  | endRecord | crlf
  deriving Repr, DecidableEq, Inhabited

/-- `csv_core::reader::NfaInputAction`. -/
inductive Act where
  | epsilon | copyToOutput | discard
  deriving Repr, DecidableEq, Inhabited

/-- `Reader::transition_nfa` with okane's reader options: `quoting`, `quote = b'"'`, `escape = None`,
`double_quote`, `comment = None`, `term = Terminator::CRLF`, `delimiter = d`.  Branch order as in the crate (it matters when
the configured delimiter is the quote, `\r` or `\n`). -/
def transitionNfa (d : UInt8) (state : Nfa) (c : UInt8) : Nfa × Act :=
  match state with
  | .end_ => (.end_, .epsilon)
  | .startRecord =>
    if isTerm c then (.startRecord, .discard)
    else (.startField, .epsilon)
  | .endRecord => (.startRecord, .epsilon)
  | .startField =>
    if QUOTE == c then (.inQuotedField, .discard)
    else if d == c then (.endFieldDelim, .discard)
    else if isTerm c then (.endFieldTerm, .epsilon)
    else (.inField, .copyToOutput)
  | .endFieldDelim => (.startField, .epsilon)
  | .endFieldTerm => (.inRecordTerm, .epsilon)
  | .inField =>
    if d == c then (.endFieldDelim, .discard)
    else if isTerm c then (.endFieldTerm, .epsilon)
    else (.inField, .copyToOutput)
  | .inQuotedField =>
    if QUOTE == c then (.inDoubleEscapedQuote, .discard)
    else (.inQuotedField, .copyToOutput)
  | .inEscapedQuote => (.inQuotedField, .copyToOutput)
  | .inDoubleEscapedQuote =>
    if QUOTE == c then (.inQuotedField, .copyToOutput)
    else if d == c then (.endFieldDelim, .discard)
    else if isTerm c then (.endFieldTerm, .epsilon)
    else (.inField, .copyToOutput)
  | .inComment =>
    if LF == c then (.startRecord, .discard)
    else (.inComment, .discard)
  | .inRecordTerm =>
    if CR == c then (.crlf, .discard)
    else (.endRecord, .discard)
  | .crlf =>
    if LF == c then (.startRecord, .discard)
    else (.startRecord, .epsilon)

/-- the loop of `Reader::build_dfa`: `while nfa_result.0 != End && nfa_result.1 == Epsilon { nfa_result =
transition_nfa(nfa_result.0, c) }`, one iteration per unit of fuel. -/
def closure (d : UInt8) : Nat → Nfa × Act → UInt8 → Nfa × Act
  | 0, r, _ => r
  | fuel + 1, r, c =>
    if r.1 != .end_ && r.2 == .epsilon then closure d fuel (transitionNfa d r.1 c) c else r

/-- one DFA transition (`Dfa::get_output`): the table entry `build_dfa` computes for `(state, c)`.  The longest chain of
epsilon moves is `EndRecord → StartRecord → StartField → EndFieldTerm → InRecordTerm → (consume)`: fuel 6 is never used up
(`Lemmas/CsvText.lean`, `dfaStep_consumes`). -/
def dfaStep (d : UInt8) (state : Nfa) (c : UInt8) : Nfa × Act := closure d 6 (state, .epsilon) c

/-- the reader between two bytes: `csv_core::Reader` (`dfa_state`, `line`), the record under construction
(`ByteRecord` fields / ends of `read_byte_record_impl`), the records already handed out, and the `Position::line` the
record under construction was given when its read started. -/
structure Rd where
  st : Nfa
  /-- bytes copied to the output since the last field end -/
  cur : Bytes
  /-- the fields of the current record that are complete -/
  fields : List Bytes
  /-- the records handed out so far with their `position().line()` -/
  recs : List (Nat × List Bytes)
  /-- `csv_core::Reader::line`: 1 + number of `\n` consumed -/
  line : Nat
  /-- `record.set_position(Some(self.state.cur_pos.clone()))` at the start of `read_byte_record_impl` -/
  recLine : Nat
  deriving Repr, DecidableEq, Inhabited

def Rd.init : Rd := ⟨.startRecord, [], [], [], 1, 1⟩

/-- one byte through `read_record_dfa` (and, on a record-final state, the return to `read_byte_record_impl`, whose next
call stamps the next record with the position reached). -/
def Rd.step (d : UInt8) (s : Rd) (c : UInt8) : Rd :=
  let r := dfaStep d s.st c
  let line' := if c == LF then s.line + 1 else s.line
  let cur' := if r.2 == .copyToOutput then s.cur ++ [c] else s.cur
  match r.1 with
  | .endFieldDelim => ⟨r.1, [], s.fields ++ [cur'], s.recs, line', s.recLine⟩
  | .endRecord => ⟨r.1, [], [], s.recs ++ [(s.recLine, s.fields ++ [cur'])], line', line'⟩
  | .crlf => ⟨r.1, [], [], s.recs ++ [(s.recLine, s.fields ++ [cur'])], line', line'⟩
  | st' => ⟨st', cur', s.fields, s.recs, line', s.recLine⟩

/-- end of input (`read_record` with an empty buffer): `transition_final_dfa` — from `StartRecord` or a record-final state
to `End`; from anywhere else one last record is delivered (a final line without line end, a quote never closed, a trailing
delimiter) and the next call ends. -/
def Rd.finish (s : Rd) : List (Nat × List Bytes) :=
  match s.st with
  | .end_ | .startRecord | .endRecord | .inComment | .crlf => s.recs
  | _ => s.recs ++ [(s.recLine, s.fields ++ [s.cur])]

/-- `Reader::strip_utf8_bom` on the first input. -/
def stripBom : Bytes → Bytes
  | 0xEF :: 0xBB :: 0xBF :: rest => rest
  | bs => bs

def Rd.run (d : UInt8) (s : Rd) (bs : Bytes) : Rd := bs.foldl (Rd.step d) s

/-- all records of the input, each with the line its `Position` names: repeated `read_byte_record_impl` until it returns
`false`. -/
def readRecordsPos (d : UInt8) (bs : Bytes) : List (Nat × List Bytes) := (Rd.run d Rd.init (stripBom bs)).finish

def readRecords (d : UInt8) (bs : Bytes) : List (List Bytes) := (readRecordsPos d bs).map Prod.snd

/-! ## UTF-8 -/

/-- `std::str::from_utf8` (Lean's validating decoder: shortest form only, no surrogates, at most U+10FFFF). -/
def decodeUtf8 (bs : Bytes) : Option String := String.fromUTF8? ⟨bs.toArray⟩

/-- the bytes of a text -/
def utf8 (s : String) : Bytes := s.toUTF8.data.toList

/-- `StringRecord::from_byte_record` / `ByteRecord::validate`: every field on its own. -/
def decodeRecord (r : List Bytes) : Option (List String) := r.mapM decodeUtf8

/-! ## `csv::import` from the bytes -/

/-- `BufRead::read_line`: everything up to and including the first `\n` (or what is left) and the rest. -/
def readLine : Bytes → Bytes × Bytes
  | [] => ([], [])
  | c :: r => if c == LF then ([c], r) else ((readLine r).1.cons c, (readLine r).2)

/-- `for i in 0..config.format.skip.head { br.read_line(&mut skipped)?; }`: a line that is not UTF-8 is
`io::ErrorKind::InvalidData` (`ImportError::IO`); reading at the end of the input reads nothing and is fine. -/
def skipHead : Nat → Bytes → Outcome ImportErr Bytes
  | 0, bs => .ok bs
  | n + 1, bs =>
    match decodeUtf8 (readLine bs).1 with
    | some _ => skipHead n (readLine bs).2
    | none => .err .io

/-- the part of `config::FormatSpec` the reader is built from -/
structure TextCfg where
  /-- `format.delimiter` -/
  delimiter : String
  /-- `format.skip.head` (an `i32`: a negative count skips nothing) -/
  skipHead : Int
  deriving Repr, DecidableEq, Inhabited

/-- `rb.delimiter(config.format.delimiter.as_bytes()[0])` when the text is not empty, else the builder's `b','`. -/
def TextCfg.delimByte (t : TextCfg) : UInt8 := (utf8 t.delimiter).headD COMMA

/-- the header: `rdr.headers()` = the first record, or an empty record when there is none -/
def headerOf (recs : List (Nat × List Bytes)) : List Bytes := (recs.head?.map Prod.snd).getD []

/-- the records with a position: everything after the header -/
def bodyOf (recs : List (Nat × List Bytes)) : List (Nat × List Bytes) := recs.drop 1

/-- the longest prefix of records that are UTF-8, decoded, and whether a record that is not follows -/
def decodePrefix : List (List Bytes) → List (List String) × Bool
  | [] => ([], false)
  | r :: rest =>
    match decodeRecord r with
    | some sr => ((decodePrefix rest).1.cons sr, (decodePrefix rest).2)
    | none => ([], true)

/-- `csv::import` after the head lines were skipped: `rdr.headers()?`, `FieldMap::try_new`, then the loop
`for may_record in rdr.records() { let r = may_record?; … }`: the records in front of the first undecodable one are imported; if
they all pass, the undecodable one is `ImportError::CSV`. -/
def csvImportBytesFlagged (env : CsvEnv) (cfg : CsvCfg) (d : UInt8) (bs : Bytes) : Outcome ImportErr (List (Txn × Bool)) :=
  let recs := readRecordsPos d bs
  match decodeRecord (headerOf recs) with
  | none => .err .csv
  | some header =>
    match decodePrefix ((bodyOf recs).map Prod.snd) with
    | (records, false) => csvImportFlagged env cfg header records
    | (good, true) =>
      match FieldMap.tryNew cfg.fields header with
      | .ok fm =>
        match csvRows env cfg fm good with
        | .ok _ => .err .csv
        | .err e => .err e
        | .panic s => .panic s
        | .fuelOut => .fuelOut
      | .err e => .err e
      | .panic s => .panic s
      | .fuelOut => .fuelOut

/-- **`csv::import(r, config)` from the bytes of the file.** -/
def csvImportTextFlagged (env : CsvEnv) (cfg : CsvCfg) (t : TextCfg) (file : Bytes) :
    Outcome ImportErr (List (Txn × Bool)) :=
  match skipHead t.skipHead.toNat file with
  | .ok rest => csvImportBytesFlagged env cfg t.delimByte rest
  | .err e => .err e
  | .panic s => .panic s
  | .fuelOut => .fuelOut

def csvImportText (env : CsvEnv) (cfg : CsvCfg) (t : TextCfg) (file : Bytes) : Outcome ImportErr (List Txn) :=
  (csvImportTextFlagged env cfg t file).map' (List.map Prod.fst)

/-! ## what the error message of a short record names -/

/-- `"csv record length too short at line {pos.line()}: want {size}, got {r.len()}"`: the line, `fm.max()` and the length of
the first record (after the header) that has at most `size` fields, provided every record in front of it is UTF-8. -/
def shortRecord (size : Nat) : List (Nat × List Bytes) → Option (Nat × Nat × Nat)
  | [] => none
  | (line, r) :: rest =>
    match decodeRecord r with
    | none => none
    | some _ => if r.length ≤ size then some (line, size, r.length) else shortRecord size rest

/-! ## the canonical writer (`csv::Writer` with `QuoteStyle::Necessary`, terminator `\n`, without its special case for a
record that is a single empty field) -/

/-- a field is quoted iff it contains the delimiter, a quote, `\r` or `\n` -/
def needsQuote (d : UInt8) (f : Bytes) : Bool := f.any fun c => c == d || c == QUOTE || c == CR || c == LF

/-- every quote doubled -/
def escapeQuotes : Bytes → Bytes
  | [] => []
  | c :: r => if c == QUOTE then QUOTE :: QUOTE :: escapeQuotes r else c :: escapeQuotes r

def writeField (d : UInt8) (f : Bytes) : Bytes :=
  if needsQuote d f then QUOTE :: escapeQuotes f ++ [QUOTE] else f

def writeFields (d : UInt8) : List Bytes → Bytes
  | [] => []
  | [f] => writeField d f
  | f :: g :: rest => writeField d f ++ d :: writeFields d (g :: rest)

def writeRow (d : UInt8) (r : List Bytes) : Bytes := writeFields d r ++ [LF]

def writeCsvBytes (d : UInt8) (rows : List (List Bytes)) : Bytes := rows.flatMap (writeRow d)

def writeCsv (d : UInt8) (rows : List (List String)) : Bytes := writeCsvBytes d (rows.map (List.map utf8))

end Okane.Import.CsvText
