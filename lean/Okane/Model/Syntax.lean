import Okane.Base.Date
/-!
# The ledger syntax tree (mirror of `core/src/syntax.rs`, `syntax/expr.rs`, `syntax/pretty_decimal.rs`)

Undecorated (`plain`) trees.  Names are strings exactly as in the Rust; an amount without commodity has
commodity `""`.
-/
namespace Okane

/-- `pretty_decimal::Format`. -/
inductive Fmt where
  | plain
  | comma3dot
  deriving Repr, DecidableEq, Inhabited

/-- `PrettyDecimal`: sign, mantissa, scale (what `rust_decimal::Decimal` carries) and the format tag.
`neg` is the sign bit (a zero may be negative, as in rust_decimal). -/
structure PDec where
  neg : Bool
  mant : Nat
  scale : Nat
  fmt : Option Fmt
  deriving Repr, DecidableEq, Inhabited

namespace PDec
/-- the value as a rational -/
def toRat (d : PDec) : Rat :=
  let v : Rat := (d.mant : Rat) / (10 : Rat) ^ d.scale
  if d.neg then -v else v
def isZero (d : PDec) : Bool := d.mant == 0
end PDec

inductive BinOp where
  | add | sub | mul | div
  deriving Repr, DecidableEq, Inhabited

mutual
/-- `expr::Expr` (the only unary operator is negation). -/
inductive Expr where
  | neg (e : Expr)
  | bin (op : BinOp) (l r : Expr)
  | val (v : VExpr)
/-- `expr::ValueExpr`. -/
inductive VExpr where
  | paren (e : Expr)
  | amt (value : PDec) (commodity : String)
end

deriving instance Repr for Expr
deriving instance Repr for VExpr
instance : Inhabited VExpr := ⟨.amt default ""⟩
instance : Inhabited Expr := ⟨.val default⟩

mutual
def Expr.beq : Expr → Expr → Bool
  | .neg a, .neg b => Expr.beq a b
  | .bin o1 l1 r1, .bin o2 l2 r2 => o1 == o2 && Expr.beq l1 l2 && Expr.beq r1 r2
  | .val a, .val b => VExpr.beq a b
  | _, _ => false
def VExpr.beq : VExpr → VExpr → Bool
  | .paren a, .paren b => Expr.beq a b
  | .amt v1 c1, .amt v2 c2 => v1 == v2 && c1 == c2
  | _, _ => false
end
instance : BEq Expr := ⟨Expr.beq⟩
instance : BEq VExpr := ⟨VExpr.beq⟩

/-- `syntax::Exchange`. -/
inductive Exchange where
  | total (e : VExpr)
  | rate (e : VExpr)
  deriving Repr, Inhabited, BEq

inductive ClearState where
  | uncleared | cleared | pending
  deriving Repr, DecidableEq, Inhabited

structure Lot where
  price : Option Exchange := none
  date : Option Date := none
  note : Option String := none
  deriving Repr, Inhabited, BEq

structure PostingAmount where
  amount : VExpr
  cost : Option Exchange := none
  lot : Lot := {}
  deriving Repr, Inhabited, BEq

inductive MetaValue where
  | text (s : String)
  | expr (s : String)
  deriving Repr, DecidableEq, Inhabited

inductive Metadata where
  | comment (s : String)
  | wordTags (tags : List String)
  | keyValue (key : String) (value : MetaValue)
  deriving Repr, DecidableEq, Inhabited

structure Posting where
  account : String
  clear : ClearState := .uncleared
  amount : Option PostingAmount := none
  balance : Option VExpr := none
  metadata : List Metadata := []
  deriving Repr, Inhabited, BEq

structure Transaction where
  date : Date
  effectiveDate : Option Date := none
  clear : ClearState := .uncleared
  code : Option String := none
  payee : String := ""
  posts : List Posting := []
  metadata : List Metadata := []
  deriving Repr, Inhabited, BEq

inductive AccountDetail where
  | comment (s : String)
  | note (s : String)
  | alias (s : String)
  deriving Repr, DecidableEq, Inhabited

inductive CommodityDetail where
  | comment (s : String)
  | note (s : String)
  | alias (s : String)
  | format (value : PDec) (commodity : String)
  deriving Repr, DecidableEq, Inhabited

/-- `syntax::LedgerEntry`. -/
inductive Entry where
  | txn (t : Transaction)
  | comment (s : String)
  | applyTag (key : String) (value : Option MetaValue)
  | endApplyTag
  | «include» (path : String)
  | account (name : String) (details : List AccountDetail)
  | commodity (name : String) (details : List CommodityDetail)
  deriving Repr, Inhabited, BEq

end Okane
