import Okane.Base.Outcome
import Okane.Model.Syntax
/-!
# The loader (mirror of `core/src/load.rs`)

* `Path` — `std::path::PathBuf` as its list of `Component`s; `parsePath` = `Path::new(s).components()`;
  `compLt` / `pathLe` = the derived `Ord` of `Component` / the component-wise `Ord` of `PathBuf`
  (what `paths.sort_unstable()` uses).
* `FSI` — the `FileSystem` trait: `canonicalize_path`, `file_content_utf8` (followed by the parser: the model
  starts from the parsed entries of each file, see DESIGN 5.2), `glob`.
* `loadFile` — `Loader::load_impl`: canonicalize, include-stack check, read, parse, then entry by entry:
  an `include` joins the pattern to the parent directory, globs, fails with `IO(NotFound)` on an empty result,
  sorts, recurses; every other entry is handed to the callback together with the canonical path.
  The recursion depth is the fuel.  The result records the callback sequence *and* the status, because the
  Rust parser is lazy: entries before a parse error (or before a failing include) are delivered.
* `fakeFS` — `FakeFileSystem` (lexical `canonicalize_path`, whole-string glob over the keys);
  `prodFS` — `ProdFileSystem` over a directory tree given as data (no symbolic links; `std::fs::canonicalize`
  is then lexical resolution of a path every prefix of which exists; the `glob` crate's directory walk).
* glob matching — `Pattern::new` / `Pattern::matches_from` for `Char`, `?`, `*`, `[..]`, `[!..]` with `MatchOptions`
  (`require_literal_separator`, `require_literal_leading_dot`, `case_sensitive`); `[..]` and `**` are outside the
  modelled fragment (`tokenize` answers `unsupported`) and are answered from a harness-supplied table `ext`.
-/
namespace Okane.Load

/-! ## paths -/

/-- `std::path::Component` (no `Prefix` on unix); constructor order = the derived `Ord`. -/
inductive Comp where
  | root
  | cur
  | parent
  | normal (s : String)
  deriving Repr, DecidableEq, Inhabited

abbrev Path := List Comp

def Comp.rank : Comp → Nat
  | .root => 0 | .cur => 1 | .parent => 2 | .normal _ => 3

/-- derived `Ord for Component`: variant order, `Normal` by bytes (= by code points for UTF-8). -/
def compLt : Comp → Comp → Bool
  | .normal a, .normal b => decide (a < b)
  | a, b => decide (a.rank < b.rank)

/-- `Ord for Path` (`compare_components`): lexicographic over components, a proper prefix first. -/
def pathLe : Path → Path → Bool
  | [], _ => true
  | _ :: _, [] => false
  | a :: as, b :: bs => if compLt a b then true else if compLt b a then false else pathLe as bs

/-- insertion of one path into a sorted list. -/
def insertPath (p : Path) : List Path → List Path
  | [] => [p]
  | q :: qs => if pathLe p q then p :: q :: qs else q :: insertPath p qs

/-- `paths.sort_unstable()` (the paths are distinct, so stability is not observable). -/
def sortPaths : List Path → List Path
  | [] => []
  | p :: ps => insertPath p (sortPaths ps)

def compOfString (s : String) : Comp :=
  if s = ".." then .parent else .normal s

/-- `Path::new(s).components()`: repeated separators and interior / trailing `.` are dropped, a leading `.`
is kept (`CurDir`) unless the path has a root. -/
def parsePath (s : String) : Path :=
  let hasRoot := s.startsWith "/"
  let parts := (s.splitOn "/").filter (· ≠ "")
  let body := (parts.filter (· ≠ ".")).map compOfString
  if hasRoot then .root :: body
  else if parts.head? = some "." then .cur :: body
  else body

def Comp.str : Comp → String
  | .root => "/" | .cur => "." | .parent => ".." | .normal s => s

/-- the text of a path (`PathBuf::display` of a path built by `push`). -/
def pathStr : Path → String
  | .root :: rest => "/" ++ "/".intercalate (rest.map Comp.str)
  | p => "/".intercalate (p.map Comp.str)

/-- `Path::parent`: `None` for the empty path and for the root. -/
def parent (p : Path) : Option Path :=
  match p.getLast? with
  | none => none
  | some .root => none
  | some _ => some p.dropLast

/-- `PathBuf::pop`: truncate to the parent; nothing happens when there is none. -/
def pop (p : Path) : Path := (parent p).getD p

/-- `PathBuf::push` of one component: an absolute component replaces the path. -/
def push (p : Path) : Comp → Path
  | .root => [.root]
  | c => p ++ [c]

def canonStep (ret : Path) : Comp → Path
  | .cur => ret
  | .parent => pop ret
  | c => push ret c

/-- `FakeFileSystem::canonicalize_path`. -/
def canonFake (p : Path) : Path := p.foldl canonStep []

/-- The string handed to `glob`: `parent.join(include_path).into_string()`; the include text is appended
verbatim (an absolute include replaces the directory). -/
def joinStr (dir : Path) (g : String) : String :=
  if g.startsWith "/" then g
  else if dir = [] then g
  else if dir = [.root] then "/" ++ g
  else pathStr dir ++ "/" ++ g

/-! ## glob patterns -/

/-- `glob::MatchOptions`. -/
structure GlobOpts where
  caseSensitive : Bool := true
  literalSeparator : Bool := true
  literalLeadingDot : Bool := true
  deriving Repr, DecidableEq, Inhabited

/-- `CharSpecifier` -/
inductive CharSpec where
  | single (c : Char)
  | range (a b : Char)
  deriving Repr, DecidableEq, Inhabited

/-- `PatternToken` (modelled fragment: everything but `**`). -/
inductive Tok where
  | lit (c : Char)
  | any        -- `?`
  | star       -- `*`
  | within (negated : Bool) (cs : List CharSpec)   -- `[..]` (`AnyWithin`) / `[!..]` (`AnyExcept`)
  | recStar    -- `**` as a whole path component (`AnyRecursiveSequence`)
  deriving Repr, DecidableEq, Inhabited

inductive TokRes where
  | ok (ts : List Tok)
  | invalid                 -- `Pattern::new` fails (`***`, an unclosed or empty `[`)
  | unsupported             -- (no longer produced: `**` is a token; the directory walk of the real file system defers on it)
  deriving Repr, DecidableEq, Inhabited

/-- `parse_char_specifiers`: `a-b` (three characters) is a range, anything else a single character. -/
def parseSpecs : List Char → List CharSpec
  | a :: '-' :: b :: rest => .range a b :: parseSpecs rest
  | a :: rest => .single a :: parseSpecs rest
  | [] => []

/-- position of the first `]` -/
def closePos : List Char → Option Nat
  | [] => none
  | c :: cs => if c = ']' then some 0 else (closePos cs).map (· + 1)

/-- the `'['` arm of `Pattern::new`; `rest` is what follows the `[`.  Returns the token and what remains, or `none` (invalid range
pattern).  `[!x..]`: the first character after `!` is never the closing bracket; `[x..]`: nor is the first character. -/
def classTok (rest : List Char) : Option (Tok × List Char) :=
  match rest with
  | '!' :: r2 =>
    if r2.length ≥ 2 then
      match closePos (r2.drop 1) with
      | some j => some (.within true (parseSpecs (r2.take (j + 1))), r2.drop (j + 2))
      | none => none
    else none
  | _ =>
    if rest.length ≥ 2 then
      match closePos (rest.drop 1) with
      | some j => some (.within false (parseSpecs (rest.take (j + 1))), rest.drop (j + 2))
      | none => none
    else none

/-- "collapse consecutive AnyRecursiveSequence to a single one" - as written: only when MORE than one token precedes -/
def pushRec (acc : List Tok) : List Tok :=
  if acc.length > 1 && acc.head? == some Tok.recStar then acc else Tok.recStar :: acc

/-- `Pattern::new` (`fuel` ≥ length of the text; `prev`: the character in front of the current position; `acc`: the tokens so
far, last first).  `**` must be a whole path component (`a/**/b`, `**/b`, `a/**`), three or more stars are refused. -/
def tokenizeAux : Nat → Option Char → List Tok → List Char → TokRes
  | _, _, acc, [] => .ok acc.reverse
  | 0, _, _, _ => .invalid
  | fuel + 1, prev, acc, '*' :: rest =>
    let more := (rest.takeWhile (· == '*')).length
    let after := rest.dropWhile (· == '*')
    if more ≥ 2 then .invalid
    else if more = 1 then
      if prev.isNone || prev == some '/' then
        match after with
        | '/' :: after' => tokenizeAux fuel (some '/') (pushRec acc) after'
        | [] => .ok (pushRec acc).reverse
        | _ => .invalid
      else .invalid
    else tokenizeAux fuel (some '*') (Tok.star :: acc) rest
  | fuel + 1, _, acc, '[' :: rest =>
    match classTok rest with
    | none => .invalid
    | some (t, rem) => tokenizeAux fuel (some ']') (t :: acc) rem
  | fuel + 1, _, acc, c :: rest =>
    tokenizeAux fuel (some c) ((if c = '?' then Tok.any else Tok.lit c) :: acc) rest

def tokenize (cs : List Char) : TokRes := tokenizeAux (cs.length + 1) none [] cs

def hasRec (ts : List Tok) : Bool := ts.any (· == Tok.recStar)

def asciiLower (c : Char) : Char := if 'A' ≤ c ∧ c ≤ 'Z' then Char.ofNat (c.toNat + 32) else c

/-- `chars_eq`. -/
def charsEq (o : GlobOpts) (a b : Char) : Bool :=
  if o.caseSensitive then a == b else asciiLower a == asciiLower b

def isAsciiAlphaLower (c : Char) : Bool := 'a' ≤ c && c ≤ 'z'

/-- `in_char_specifiers` -/
def inSpecs (o : GlobOpts) (c : Char) : List CharSpec → Bool
  | [] => false
  | .single sc :: rest => charsEq o c sc || inSpecs o c rest
  | .range a b :: rest =>
    (!o.caseSensitive && c.toNat < 128 && a.toNat < 128 && b.toNat < 128 &&
        isAsciiAlphaLower (asciiLower a) && isAsciiAlphaLower (asciiLower b) &&
        decide (asciiLower a ≤ asciiLower c) && decide (asciiLower c ≤ asciiLower b)) ||
      (decide (a ≤ c) && decide (c ≤ b)) || inSpecs o c rest

/-- the `while let Some(c) = file.next()` loop of an `AnySequence` token: `k` matches the remaining tokens. -/
def starLoop (o : GlobOpts) (k : List Char → Bool → Bool) : List Char → Bool → Bool
  | [], sep => k [] sep
  | x :: xs, sep =>
    k (x :: xs) sep ||
      (!(sep && o.literalLeadingDot && x == '.') && !(o.literalSeparator && x == '/') &&
        starLoop o k xs (x == '/'))

/-- the same loop for `**`: the rest of the pattern is tried only right after a separator; a component that begins with a dot
ends the search -/
def recLoop (o : GlobOpts) (k : List Char → Bool → Bool) : List Char → Bool → Bool
  | [], sep => k [] sep
  | x :: xs, sep =>
    !(sep && o.literalLeadingDot && x == '.') &&
      (if x == '/' then (k xs true || recLoop o k xs true) else recLoop o k xs false)

/-- `Pattern::matches_from`: `sep` = `follows_separator`. -/
def matchToks (o : GlobOpts) : List Tok → List Char → Bool → Bool
  | [], xs, _ => xs.isEmpty
  | .lit c :: ts, x :: xs, _ => charsEq o x c && matchToks o ts xs (x == '/')
  | .lit _ :: _, [], _ => false
  | .any :: ts, x :: xs, sep =>
    !((o.literalSeparator && x == '/') || (sep && o.literalLeadingDot && x == '.')) && matchToks o ts xs (x == '/')
  | .any :: _, [], _ => false
  | .within neg cs :: ts, x :: xs, sep =>
    !((o.literalSeparator && x == '/') || (sep && o.literalLeadingDot && x == '.')) && (inSpecs o x cs != neg) &&
      matchToks o ts xs (x == '/')
  | .within _ _ :: _, [], _ => false
  | .star :: ts, xs, sep => starLoop o (matchToks o ts) xs sep
  | .recStar :: ts, xs, sep => matchToks o ts xs sep || recLoop o (matchToks o ts) xs sep

/-- `Pattern::matches_with(str, options)`. -/
def globMatches (o : GlobOpts) (ts : List Tok) (s : String) : Bool := matchToks o ts s.toList true

/-! ## the `FileSystem` trait -/

inductive IoKind where
  | notFound
  | invalidData
  | other
  deriving Repr, DecidableEq, Inhabited

inductive LoadErr where
  | io (k : IoKind) (path : Path)
  | parse (path : Path)
  | rootLoadingPath (path : Path)
  | recursiveInclude (path : Path)
  | invalidIncludeGlob
  | globFailure
  deriving Repr, DecidableEq, Inhabited

/-- what the parser yields for a file's text: the entries up to the first parse error, and whether there is one. -/
structure Parsed where
  entries : List Entry
  parseErr : Bool := false
  deriving Repr, Inhabited

/-- `trait FileSystem` (+ the parser applied to `file_content_utf8`). -/
structure FSI where
  canon : Path → Path
  read : Path → Outcome IoKind Parsed
  glob : String → Outcome LoadErr (List Path)

/-- callback sequence so far and how the load ended. -/
structure LoadRes where
  delivered : List (Path × Entry)
  status : Outcome LoadErr Unit
  deriving Inhabited

def LoadRes.done : LoadRes := ⟨[], .ok ()⟩
def LoadRes.fail (e : LoadErr) : LoadRes := ⟨[], .err e⟩

/-- run `a`, then `b` if `a` ended well. -/
def LoadRes.andThen (a : LoadRes) (b : Unit → LoadRes) : LoadRes :=
  match a.status with
  | .ok () => let r := b (); ⟨a.delivered ++ r.delivered, r.status⟩
  | _ => a

/-- `for path in &paths { self.load_impl(…)? }` -/
def loadListWith (rec : Path → LoadRes) : List Path → LoadRes
  | [] => .done
  | q :: qs => (rec q).andThen fun _ => loadListWith rec qs

/-- the `Include` arm of `load_impl`'s loop. -/
def loadInclude (fs : FSI) (rec : Path → LoadRes) (cp : Path) (g : String) : LoadRes :=
  match parent cp with
  | none => .fail (.rootLoadingPath cp)
  | some dir =>
    let target := joinStr dir g
    match fs.glob target with
    | .ok paths =>
      if paths.isEmpty then .fail (.io .notFound (parsePath target))
      else loadListWith rec (sortPaths paths)
    | .err e => .fail e
    | .panic s => ⟨[], .panic s⟩
    | .fuelOut => ⟨[], .fuelOut⟩

/-- the loop over one file's entries (`rec` = the recursive `load_impl` with this file pushed on the stack). -/
def loadEntriesWith (fs : FSI) (rec : Path → LoadRes) (cp : Path) : List Entry → LoadRes
  | [] => .done
  | .include g :: rest => (loadInclude fs rec cp g).andThen fun _ => loadEntriesWith fs rec cp rest
  | e :: rest => let r := loadEntriesWith fs rec cp rest; ⟨(cp, e) :: r.delivered, r.status⟩

/-- `Loader::load_impl`; `stack` = `include_stack` (most recent first), fuel = remaining recursion depth. -/
def loadFile (fs : FSI) : Nat → List Path → Path → LoadRes
  | 0, _, _ => ⟨[], .fuelOut⟩
  | n + 1, stack, p =>
    let cp := fs.canon p
    if cp ∈ stack then .fail (.recursiveInclude cp)
    else
      match fs.read cp with
      | .ok content =>
        (loadEntriesWith fs (fun q => loadFile fs n (cp :: stack) q) cp content.entries).andThen fun _ =>
          if content.parseErr then .fail (.parse cp) else .done
      | .err k => .fail (.io k cp)
      | .panic s => ⟨[], .panic s⟩
      | .fuelOut => ⟨[], .fuelOut⟩

/-- `Loader::load`. -/
def load (fs : FSI) (fuel : Nat) (root : Path) : LoadRes := loadFile fs fuel [] root

/-! ## `FakeFileSystem` -/

inductive Raw where
  | notUtf8
  | text (p : Parsed)
  deriving Repr, Inhabited

/-- a file system as data: files keyed by their path text, directories that exist without files (real FS only),
and harness-supplied glob answers for patterns outside the modelled fragment (`none` = the pattern is invalid). -/
structure Tree where
  files : List (String × Raw) := []
  dirs : List String := []
  ext : List (String × Option (List String)) := []
  deriving Repr, Inhabited

def Tree.lookup (t : Tree) (p : Path) : Option Raw :=
  (t.files.find? fun kv => parsePath kv.1 = p).map (·.2)

def readRaw : Option Raw → Outcome IoKind Parsed
  | none => .err .notFound
  | some .notUtf8 => .err .invalidData
  | some (.text c) => .ok c

def Tree.extGlob (t : Tree) (pat : String) : Outcome LoadErr (List Path) :=
  -- recorded patterns are compared as paths: the real loader may hand over `dir/./x` where the model says `dir/x`
  match t.ext.find? fun kv => parsePath kv.1 = parsePath pat with
  | some (_, some ps) => .ok (ps.map parsePath)
  | some (_, none) => .err .invalidIncludeGlob
  | none => .err .globFailure

def firstChar (s : String) : Option Char := s.toList.head?

/-- `FakeFileSystem::has_wildcard_matched_dot_file`: some component of the key begins with `.` while the
component of the pattern at the same position begins with a wildcard. -/
def wildcardMatchedDotFile (pat key : Path) : Bool :=
  (pat.zip key).any fun pk =>
    firstChar pk.2.str = some '.' &&
      (firstChar pk.1.str = some '*' || firstChar pk.1.str = some '?' || firstChar pk.1.str = some '[')

/-- `FakeFileSystem::glob`: the pattern is canonicalized as a path, compiled, and matched against every key;
keys in which a wildcard would have matched a dot-file are dropped. -/
def fakeGlob (o : GlobOpts) (t : Tree) (pat : String) : Outcome LoadErr (List Path) :=
  let cpat := canonFake (parsePath pat)
  match tokenize (pathStr cpat).toList with
  | .ok ts => .ok ((t.files.filter fun kv =>
        globMatches o ts kv.1 && !wildcardMatchedDotFile (parsePath (pathStr cpat)) (parsePath kv.1)).map
      fun kv => parsePath kv.1)
  | .invalid => .err .invalidIncludeGlob
  | .unsupported => t.extGlob pat

def fakeFS (o : GlobOpts) (t : Tree) : FSI where
  canon := canonFake
  read p := readRaw (t.lookup p)
  glob := fakeGlob o t

/-! ## `ProdFileSystem` over a tree without symbolic links -/

def isPrefixOf : Path → Path → Bool
  | [], _ => true
  | _ :: _, [] => false
  | a :: as, b :: bs => a = b && isPrefixOf as bs

def Tree.isFile (t : Tree) (p : Path) : Bool := t.files.any fun kv => parsePath kv.1 = p

/-- a directory: listed, or a proper ancestor of a file or of a listed directory; the root always. -/
def Tree.isDir (t : Tree) (p : Path) : Bool :=
  p = [.root] ||
  t.dirs.any (fun d => isPrefixOf p (parsePath d)) ||
  t.files.any (fun kv => let q := parsePath kv.1; isPrefixOf p q && p.length < q.length)

def Tree.pathExists (t : Tree) (p : Path) : Bool := t.isFile p || t.isDir p

/-- names directly under directory `p`. -/
def Tree.children (t : Tree) (p : Path) : List String :=
  let all := (t.files.map fun kv => parsePath kv.1) ++ (t.dirs.map parsePath)
  (all.filterMap fun q =>
    if isPrefixOf p q && p.length < q.length then
      match q[p.length]? with
      | some (.normal s) => some s
      | _ => none
    else none).eraseDups

/-- OS path resolution, component by component (every prefix must exist; `x/..` needs `x` to be a directory). -/
def resolveStep (t : Tree) (acc : Option Path) (c : Comp) : Option Path :=
  match acc with
  | none => none
  | some cur =>
    match c with
    | .root => some [.root]
    | .cur => if t.isDir cur then some cur else none
    | .parent => if t.isDir cur then some (pop cur) else none
    | .normal s => if t.isDir cur && t.pathExists (cur ++ [.normal s]) then some (cur ++ [.normal s]) else none

/-- `std::fs::canonicalize` for an absolute path (relative paths depend on the working directory: not modelled). -/
def resolveReal (t : Tree) (p : Path) : Option Path :=
  match p with
  | .root :: rest => rest.foldl (resolveStep t) (some [.root])
  | _ => none

/-- `ProdFileSystem::canonicalize_path`: falls back to the path itself when it cannot be resolved. -/
def prodCanon (t : Tree) (p : Path) : Path := (resolveReal t p).getD p

def prodRead (t : Tree) (p : Path) : Outcome IoKind Parsed :=
  match resolveReal t p with
  | none => .err .notFound
  | some q => if t.isFile q then readRaw (t.lookup q) else .err .other

def isLiteral : List Tok → Option String
  | [] => some ""
  | .lit c :: ts => (isLiteral ts).map fun s => String.singleton c ++ s
  | _ => none

/-- the `glob` crate's walk (`fill_todo` + `Paths::next`) below `cur`, one pattern component at a time.
Result paths keep `..` components, as in the crate. -/
def prodWalk (o : GlobOpts) (t : Tree) : List (List Tok) → Path → List Path
  | [], cur => [cur]
  | ts :: rest, cur =>
    match isLiteral ts with
    | some s =>
      if s = "." || s = "" then (if t.isDir (canonFake cur) then prodWalk o t rest cur else [])
      else if s = ".." then (if t.isDir (canonFake cur) then prodWalk o t rest (cur ++ [.parent]) else [])
      else if t.isDir (canonFake cur) && t.pathExists (canonFake (cur ++ [.normal s])) then
        prodWalk o t rest (cur ++ [.normal s])
      else []
    | none =>
      if t.isDir (canonFake cur) then
        ((t.children (canonFake cur)).filter fun name =>
            !(o.literalLeadingDot && name.startsWith ".") && globMatches o ts name).flatMap fun name =>
          if rest.isEmpty then [cur ++ [.normal name]]
          else if t.isDir (canonFake (cur ++ [.normal name])) then prodWalk o t rest (cur ++ [.normal name])
          else []
      else []

def tokenizeAll : List String → Option (List (List Tok))
  | [] => some []
  | s :: rest =>
    match tokenize s.toList, tokenizeAll rest with
    | .ok ts, some r => some (ts :: r)
    | _, _ => none

def dropTrailingEmpty (xs : List String) : List String :=
  match xs.getLast? with
  | some "" => xs.dropLast
  | _ => xs

/-- `ProdFileSystem::glob` = `glob::glob_with(pattern, glob_match_options())` for an absolute pattern. -/
def prodGlob (o : GlobOpts) (t : Tree) (pat : String) : Outcome LoadErr (List Path) :=
  match tokenize pat.toList with
  | .invalid => .err .invalidIncludeGlob
  | .unsupported => t.extGlob pat
  | .ok ts =>
    if hasRec ts then t.extGlob pat      -- the crate's recursive directory walk is not modelled: recorded answer
    else if pat.startsWith "/" then
      -- `pattern[root_len..].split_terminator(is_separator)`: interior empty components are kept
      let comps := dropTrailingEmpty ((pat.drop 1).toString.splitOn "/")
      match tokenizeAll comps with
      | some pats => .ok (prodWalk o t pats [.root])
      -- `glob_with` compiles the pattern component by component: a class holding a separator (`p[/]x`) falls apart into
      -- `p[` and `]x`, which `Pattern::new` refuses
      | none => .err .invalidIncludeGlob
    else t.extGlob pat

def prodFS (o : GlobOpts) (t : Tree) : FSI where
  canon := prodCanon t
  read := prodRead t
  glob := prodGlob o t

/-! ## `report::accounts` -/

/-- the account names `report::accounts` interns, in callback order (posting accounts of transactions). -/
def accountsSeen (xs : List (Path × Entry)) : List String :=
  xs.flatMap fun pe => match pe.2 with
    | .txn t => t.posts.map (·.account)
    | _ => []

end Okane.Load
