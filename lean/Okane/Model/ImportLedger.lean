import Okane.Model.Import
/-!
# The ledger `okane import` prints (mirror of the loop in `cli/src/cmd.rs::ImportCmd::run`), and the funding
transaction the acceptance properties (C16, C18) put in front of it.
-/
namespace Okane.Import
open Okane

/-- `for xact in xacts { xact.to_double_entry(&config_entry.account)? … }`: the first failure aborts. -/
def ledgerOf (account : String) : List Txn → Outcome ImportErr (List Transaction)
  | [] => .ok []
  | t :: rest =>
    match t.toDoubleEntry account with
    | .ok x =>
      match ledgerOf account rest with
      | .ok xs => .ok (x :: xs)
      | .err e => .err e
      | .panic s => .panic s
      | .fuelOut => .fuelOut
    | .err e => .err e
    | .panic s => .panic s
    | .fuelOut => .fuelOut

/-- "the account held `b` beforehand": `account  b c` against `Equity:Opening  -b c`. -/
def fundTxn (account : String) (date : Date) (b : Dec) (commodity : String) : Transaction :=
  { date := date, clear := .cleared, payee := "fund",
    posts := [ { account := account, amount := some { amount := .amt b.toPDec commodity } },
               { account := "Equity:Opening", amount := some { amount := .amt b.negate.toPDec commodity } } ] }

end Okane.Import
