/-!
# A total reader for the XML that quick-xml 0.37.4's serde `Deserializer` accepts (mirror of the layers below
`quick_xml::de::from_reader`)

What is mirrored, bottom up (all of quick-xml 0.37.4, feature `serialize` only — no `encoding`, no
`overlapped-lists`, no `escape-html`):

* `reader/{mod,state,buffered_reader}.rs`, `parser/{element,pi}.rs` — `Reader::read_event_impl` under the
  configuration `Deserializer::from_reader` sets (`expand_empty_elements = true`, everything else default:
  `check_end_names = true`, `trim_markup_names_in_closing_tags = true`, `check_comments = false`, no text trimming in
  the reader itself): `tokenize` (a character-by-character state machine, structurally recursive: **no fuel**).
  Text up to the next `<`; after `<` the next byte decides: `!` (then `[` CDATA, `-` comment, `D`/`d` DOCTYPE, anything
  else `InvalidBangMarkup`), `?` (processing instruction / XML declaration, up to the first `?>`), otherwise a tag read
  up to the first `>` outside single or double quotes.  A tag that starts with `/` is an end tag (name = the rest,
  trailing white space removed, compared literally with the open element); a tag that ends with `/` is an empty
  element (expanded to start + end); the element name is the tag up to the first white space; **names are not
  validated** (`<>` is an element with the empty name).
* `de/mod.rs` `StartTrimmer`, `XmlReader::{next, drain_text}` — how character data becomes the `DeEvent::Text` the
  deserializer sees (`mkText`): comments, processing instructions and declarations vanish *without* cutting the text;
  a run of text / CDATA pieces between two tags is one text; leading pieces that are white space only are dropped;
  the first surviving piece loses its leading white space (if it is not CDATA); the last piece loses its trailing white
  space (if it is not CDATA); **trimming happens before unescaping** (`&#32;` survives); CDATA is taken literally.
* `escape.rs` `unescape_with` with the predefined entities (`unescape`).
* `events/attributes.rs` `IterState::next` (non-HTML, duplicate check on) — `parseAttrs`; attributes are parsed
  **lazily**: only the deserializer of a struct-like value iterates them, so the tree keeps the raw text of the tag.
* The deserializer reads up to the end tag of the root element and never looks further (`buildTree` stops there):
  whatever follows the root — text, a second root, ill-formed markup — is not read.

Outside the model (the reader answers `unsupported`, the importer model `UnknownFormat`; see `scanTag`):
* a tag containing `:nil` (`xsi:nil`: resolved against the *reader's* namespace scope, which is two events ahead of the
  deserializer and is not popped for skipped subtrees), `xmlns:xml` or one of the two reserved namespace URIs
  (`NsReader` rejects some of those bindings, but only in tags it sees itself, not in skipped subtrees);
* an element whose local name starts with `@` or `$` (would be taken for an attribute / `$text` / `$value` key);
* a DOCTYPE inside the root element (quick-xml then hands two text events in a row to code that asserts this cannot
  happen: `unreachable!()`, a panic).
Input is a `String` (valid UTF-8); a leading U+FEFF is the UTF-8 BOM the reader removes.
-/
namespace Okane.Xml

/-- `utils::is_whitespace` -/
def isWs (c : Char) : Bool := c == ' ' || c == '\r' || c == '\n' || c == '\t'

def trimStart (s : List Char) : List Char := s.dropWhile isWs
def trimEnd (s : List Char) : List Char := (s.reverse.dropWhile isWs).reverse

/-! ## `escape::unescape_with(_, resolve_predefined_entity)` -/

def hexVal (c : Char) : Option Nat :=
  if c.isDigit then some (c.toNat - 48)
  else if 'a'.toNat ≤ c.toNat ∧ c.toNat ≤ 'f'.toNat then some (c.toNat - 87)
  else if 'A'.toNat ≤ c.toNat ∧ c.toNat ≤ 'F'.toNat then some (c.toNat - 55)
  else none

/-- `u32::from_str_radix(src, radix)` without a sign, capped: any value above `0x10FFFF` is answered `none`
(overflow of `u32`, or no `char`) -/
def numRadix (radix : Nat) (acc : Nat) : List Char → Option Nat
  | [] => some acc
  | c :: rest =>
    match hexVal c with
    | some v => if v < radix then
        let acc' := acc * radix + v
        if acc' > 0x10FFFF then none else numRadix radix acc' rest
      else none
    | none => none

/-- `parse_number`: `#x…` hexadecimal, `#…` decimal; no sign, at least one digit, not `0`, a Unicode scalar value -/
def charRef (body : List Char) : Option Char :=
  let (radix, digits) := match body with
    | 'x' :: d => (16, d)
    | d => (10, d)
  match digits with
  | [] => none
  | _ =>
    match numRadix radix 0 digits with
    | some n => if n == 0 || (0xD800 ≤ n && n ≤ 0xDFFF) then none else some (Char.ofNat n)
    | none => none

/-- what stands between `&` and `;` -/
def resolveEntity (pat : List Char) : Option Char :=
  match pat with
  | '#' :: body => charRef body
  | _ =>
    if pat == ['l', 't'] then some '<'
    else if pat == ['g', 't'] then some '>'
    else if pat == ['a', 'm', 'p'] then some '&'
    else if pat == ['a', 'p', 'o', 's'] then some '\''
    else if pat == ['q', 'u', 'o', 't'] then some '"'
    else none

/-- state of the scan: text copied so far (reversed) and, inside an entity, its name so far (reversed) -/
structure UnescSt where
  out : List Char := []
  ent : Option (List Char) := none
  bad : Bool := false

/-- `memchr2_iter('&', ';')`: after a `&` the next of the two characters must be `;` -/
def unescStep (st : UnescSt) (c : Char) : UnescSt :=
  if st.bad then st
  else
    match st.ent with
    | none => if c == '&' then { st with ent := some [] } else { st with out := c :: st.out }
    | some pat =>
      if c == ';' then
        match resolveEntity pat.reverse with
        | some r => { st with out := r :: st.out, ent := none }
        | none => { st with bad := true }
      else if c == '&' then { st with bad := true }
      else { st with ent := some (c :: pat) }

/-- `unescape`: `none` = `EscapeError` (unterminated / unknown entity, bad character reference) -/
def unescape (s : List Char) : Option (List Char) :=
  let st := s.foldl unescStep {}
  if st.bad || st.ent.isSome then none else some st.out.reverse

/-- the canonical escaping used by `render`: the five characters with predefined entities by name, XML white space
by character reference (so that trimming — which precedes unescaping — cannot touch it) -/
def escapeChar (c : Char) : List Char :=
  if c == '<' then ['&', 'l', 't', ';']
  else if c == '>' then ['&', 'g', 't', ';']
  else if c == '&' then ['&', 'a', 'm', 'p', ';']
  else if c == '\'' then ['&', 'a', 'p', 'o', 's', ';']
  else if c == '"' then ['&', 'q', 'u', 'o', 't', ';']
  else if c == ' ' then ['&', '#', '3', '2', ';']
  else if c == '\t' then ['&', '#', '9', ';']
  else if c == '\n' then ['&', '#', '1', '0', ';']
  else if c == '\r' then ['&', '#', '1', '3', ';']
  else [c]

def escape (s : List Char) : List Char := s.flatMap escapeChar

/-! ## tokens (`Reader::read_event_impl`) -/

/-- the events the deserializer's `StartTrimmer` lets through or looks at; comments, processing instructions and
XML declarations are dropped here already (they never influence anything) -/
inductive Token where
  /-- `Event::Text`, raw (escaped), never empty -/
  | text (s : List Char)
  /-- `Event::CData`, literal -/
  | cdata (s : List Char)
  | doctype
  /-- start tag: everything between `<` and `>` (for an empty element without the final `/`), and whether it was
  an empty element -/
  | start (content : List Char) (empty : Bool)
  /-- end tag: the name, trailing white space removed -/
  | stop (name : List Char)
  deriving Repr, DecidableEq, Inhabited

inductive Quote where
  | outside | single | double
  deriving Repr, DecidableEq, Inhabited

/-- where the reader is -/
inductive Mode where
  /-- `ParseState::InsideText`, the text read so far reversed -/
  | text (acc : List Char)
  /-- just after `<` -/
  | lt
  /-- `read_with(ElementParser)`: tag content so far reversed -/
  | tag (q : Quote) (acc : List Char)
  /-- just after `<!` -/
  | bang
  /-- inside `<!-…`: everything after the `!` so far, reversed -/
  | comment (acc : List Char)
  /-- inside `<![…` -/
  | cdata (acc : List Char)
  /-- inside `<!D…`, with the `<`/`>` balance -/
  | doctype (balance : Nat) (acc : List Char)
  /-- inside `<?…`: everything after the `<` so far, reversed (starts with `?`) -/
  | pi (acc : List Char)
  /-- `Error::Syntax` / `Error::IllFormed`: the reader is `Done` -/
  | failed
  deriving Repr, DecidableEq, Inhabited

structure LexSt where
  mode : Mode := .text []
  /-- tokens so far, reversed -/
  out : List Token := []
  deriving Repr, Inhabited

def emitText (acc : List Char) (out : List Token) : List Token :=
  if acc.isEmpty then out else .text acc.reverse :: out

/-- `emit_start` / `emit_end` on the bytes between `<` and `>` -/
def emitTag (content : List Char) : Token :=
  match content with
  | '/' :: name => .stop (trimEnd name)
  | _ =>
    match content.reverse with
    | '/' :: rest => .start rest.reverse true
    | _ => .start content false

def startsWithCI (s : List Char) (p : List Char) : Bool :=
  (s.take p.length).map Char.toUpper == p

/-- one byte of input -/
def lexStep (st : LexSt) (c : Char) : LexSt :=
  match st.mode with
  | .failed => st
  | .text acc =>
    if c == '<' then { mode := .lt, out := emitText acc st.out } else { st with mode := .text (c :: acc) }
  | .lt =>
    if c == '!' then { st with mode := .bang }
    else if c == '?' then { st with mode := .pi [c] }
    else if c == '>' then { mode := .text [], out := emitTag [] :: st.out }
    else if c == '\'' then { st with mode := .tag .single [c] }
    else if c == '"' then { st with mode := .tag .double [c] }
    else { st with mode := .tag .outside [c] }
  | .tag q acc =>
    match q with
    | .outside =>
      if c == '>' then { mode := .text [], out := emitTag acc.reverse :: st.out }
      else if c == '\'' then { st with mode := .tag .single (c :: acc) }
      else if c == '"' then { st with mode := .tag .double (c :: acc) }
      else { st with mode := .tag .outside (c :: acc) }
    | .single => { st with mode := .tag (if c == '\'' then .outside else .single) (c :: acc) }
    | .double => { st with mode := .tag (if c == '"' then .outside else .double) (c :: acc) }
  | .bang =>
    -- `BangType::new(peek_one)`; the peeked byte is the first byte of the element's body
    if c == '[' then { st with mode := .cdata [c] }
    else if c == '-' then { st with mode := .comment [c] }
    else if c == 'D' || c == 'd' then { st with mode := .doctype 0 [c] }
    else { st with mode := .failed }
  | .comment acc =>
    -- the first `>` that has at least four bytes between `<!` and itself, the last two being `--`;
    -- then `emit_bang` wants the body to start with `--` as well
    if c == '>' && acc.length ≥ 4 && acc.take 2 == ['-', '-'] then
      if acc.reverse.take 2 == ['-', '-'] then { st with mode := .text [] } else { st with mode := .failed }
    else { st with mode := .comment (c :: acc) }
  | .cdata acc =>
    if c == '>' && acc.take 2 == [']', ']'] then
      let body := acc.reverse
      if body.take 7 == "[CDATA[".toList then
        { mode := .text [], out := .cdata ((body.drop 7).take (body.length - 9)) :: st.out }
      else { st with mode := .failed }
    else { st with mode := .cdata (c :: acc) }
  | .doctype balance acc =>
    if c == '<' then { st with mode := .doctype (balance + 1) (c :: acc) }
    else if c == '>' then
      if balance == 0 then
        let body := acc.reverse
        -- `uncased_starts_with(buf, "!DOCTYPE")`, then a name must follow (`MissingDoctypeName`)
        if startsWithCI body "DOCTYPE".toList && ((body.drop 7).any fun x => !isWs x) then
          { mode := .text [], out := .doctype :: st.out }
        else { st with mode := .failed }
      else { st with mode := .doctype (balance - 1) (c :: acc) }
    else { st with mode := .doctype balance (c :: acc) }
  | .pi acc =>
    -- `PiParser`: the first `>` preceded by `?`; `emit_question_mark` wants at least `<??>`
    if c == '>' && acc.head? == some '?' then
      if acc.length > 1 then { st with mode := .text [] } else { st with mode := .failed }
    else { st with mode := .pi (c :: acc) }

/-- the events up to the end of input or the first error, and whether the reader ended in an error (`true`) or at
the end of input (`false`; a last piece of text is delivered first) -/
def tokenize (s : List Char) : List Token × Bool :=
  let s := match s with
    | c :: rest => if c.toNat == 0xFEFF then rest else s      -- `remove_utf8_bom`
    | [] => s
  let st := s.foldl lexStep {}
  match st.mode with
  | .text acc => ((emitText acc st.out).reverse, false)
  | _ => (st.out.reverse, true)

/-! ## attributes (`IterState::next`, XML mode) -/

inductive AttrMode where
  /-- looking for the first byte of a key -/
  | skip
  /-- inside a key (its first byte is taken whatever it is) -/
  | key (acc : List Char)
  /-- white space after a key: `=` must follow -/
  | afterKey (key : List Char)
  /-- after `=`: a quote must follow -/
  | afterEq (key : List Char)
  | value (key : List Char) (quote : Char) (acc : List Char)
  | failed
  deriving Repr, DecidableEq, Inhabited

structure AttrSt where
  mode : AttrMode := .skip
  /-- attributes so far (key, raw value), reversed -/
  out : List (List Char × List Char) := []
  deriving Repr, Inhabited

/-- `check_for_duplicates` happens when the key is complete -/
def attrKeyDone (st : AttrSt) (key : List Char) (next : List Char → AttrMode) : AttrSt :=
  if st.out.any (fun kv => kv.1 == key) then { st with mode := .failed } else { st with mode := next key }

def attrStep (st : AttrSt) (c : Char) : AttrSt :=
  match st.mode with
  | .failed => st
  | .skip => if isWs c then st else { st with mode := .key [c] }
  | .key acc =>
    if c == '=' then attrKeyDone st acc.reverse .afterEq
    else if isWs c then attrKeyDone st acc.reverse .afterKey
    else { st with mode := .key (c :: acc) }
  | .afterKey key =>
    if isWs c then st
    else if c == '=' then { st with mode := .afterEq key }
    else { st with mode := .failed }          -- `ExpectedEq`
  | .afterEq key =>
    if isWs c then st
    else if c == '"' || c == '\'' then { st with mode := .value key c [] }
    else { st with mode := .failed }          -- `UnquotedValue`
  | .value key q acc =>
    if c == q then { mode := .skip, out := (key, acc.reverse) :: st.out }
    else { st with mode := .value key q (c :: acc) }

/-- all attributes of a tag (`s` = the tag after the element name), or `none` = `AttrError`.
Keys as written (with prefix), values raw (escaped). -/
def parseAttrs (s : List Char) : Option (List (List Char × List Char)) :=
  let st := s.foldl attrStep {}
  match st.mode with
  | .skip => some st.out.reverse
  | _ => none

/-- `QName::local_name`: what follows the first `:` -/
def localName (q : List Char) : List Char :=
  match q.dropWhile (· != ':') with
  | [] => q
  | _ :: l => l

/-- `QNameDeserializer::from_attr` without the `@`: `xmlns` and `xmlns:p` keep their full name, every other attribute
is known by its local name -/
def attrKey (k : List Char) : List Char :=
  if k == "xmlns".toList || k.take 6 == "xmlns:".toList then k else localName k

/-! ## the element tree -/

/-- a child of an element as the deserializer meets it -/
inductive Node where
  /-- `name`: the qualified name as written; `attrs`: the rest of the tag, raw -/
  | elem (name : String) (attrs : String) (children : List Node)
  /-- `DeEvent::Text` (after trimming, merging and unescaping; empty only when it came from empty CDATA) -/
  | text (s : String)
  /-- a text whose unescaping fails: an error as soon as the deserializer gets to it (it does not get to the texts
  inside a subtree it skips, except the very first event of the subtree) -/
  | badText
  deriving Repr, Inhabited

/-- a piece of character data between two tags -/
inductive Piece where
  | esc (s : List Char)      -- `Event::Text`
  | lit (s : List Char)      -- `Event::CData`
  deriving Repr, DecidableEq, Inhabited

/-- `StartTrimmer::trim`: leading text pieces that are white space only disappear; the first piece that stays is
trimmed at the start when it is text -/
def dropBlankPieces : List Piece → List Piece
  | [] => []
  | .esc s :: rest => if (trimStart s).isEmpty then dropBlankPieces rest else .esc (trimStart s) :: rest
  | .lit s :: rest => .lit s :: rest

/-- `XmlReader::{next, drain_text}`: the last piece is trimmed at the end when it is text -/
def trimLastPiece : List Piece → List Piece
  | [] => []
  | [.esc s] => [.esc (trimEnd s)]
  | [p] => [p]
  | p :: rest => p :: trimLastPiece rest

def pieceValue : Piece → Option (List Char)
  | .esc s => unescape s
  | .lit s => some s

def concatPieces : List Piece → Option (List Char)
  | [] => some []
  | p :: rest =>
    match pieceValue p, concatPieces rest with
    | some a, some b => some (a ++ b)
    | _, _ => none

/-- the text node a run of pieces (in document order) becomes; `none`: nothing reaches the deserializer -/
def mkText (pieces : List Piece) : Option Node :=
  match dropBlankPieces pieces with
  | [] => none
  | ps =>
    match concatPieces (trimLastPiece ps) with
    | some s => some (.text (String.ofList s))
    | none => some .badText

/-- `BytesStart::wrap(content, name_len(content))`: the name ends at the first white space -/
def tagName (content : List Char) : List Char := content.takeWhile fun c => !isWs c
def tagAttrs (content : List Char) : List Char := content.dropWhile fun c => !isWs c

def isInfix (p : List Char) : List Char → Bool
  | [] => p.isEmpty
  | c :: s => (c :: s).take p.length == p || isInfix p s

inductive XmlErr where
  /-- `DeError` (ill-formed, unexpected end, custom …) -/
  | xml
  /-- outside the model, see the file header -/
  | unsupported (why : String)
  deriving Repr, DecidableEq, Inhabited

/-- the constructs the model declines (see the file header) -/
def scanTag (content : List Char) : Option String :=
  let lname := localName (tagName content)
  if isInfix ":nil".toList content then some "xsi:nil"
  else if isInfix "xmlns:xml".toList content || isInfix "http://www.w3.org/XML/1998/namespace".toList content
       || isInfix "http://www.w3.org/2000/xmlns/".toList content then some "reserved namespace binding"
  else if lname.head? == some '@' || lname.head? == some '$' then some "element named like a serde key"
  else none

/-- an element being read: its tag and what has been collected of its content (children and pending pieces reversed) -/
structure Frame where
  name : List Char
  attrs : List Char
  kids : List Node := []
  run : List Piece := []
  deriving Repr, Inhabited

def Frame.flush (f : Frame) : Frame :=
  match mkText f.run.reverse with
  | some n => { f with kids := n :: f.kids, run := [] }
  | none => { f with run := [] }

def Frame.close (f : Frame) : Node :=
  let f := f.flush
  .elem (String.ofList f.name) (String.ofList f.attrs) f.kids.reverse

/-- result of reading up to the end of the root element -/
inductive Built where
  | root (n : Node)
  | err (e : XmlErr)
  deriving Repr, Inhabited

/-- the reader's stack of open elements (innermost first) and, before the root, the pending character data -/
structure BuildSt where
  stack : List Frame := []
  /-- character data before the root element (must be blank) -/
  prolog : List Piece := []
  done : Option Built := none
  deriving Repr, Inhabited

def closeTop (st : BuildSt) : BuildSt :=
  match st.stack with
  | [] => st
  | f :: rest =>
    let n := f.close
    match rest with
    | [] => { st with stack := [], done := some (.root n) }
    | p :: up => { st with stack := { p with kids := n :: p.kids } :: up }

def buildStep (st : BuildSt) (t : Token) : BuildSt :=
  if st.done.isSome then st
  else
    match st.stack, t with
    | [], .text s => { st with prolog := .esc s :: st.prolog }
    | [], .cdata s => { st with prolog := .lit s :: st.prolog }
    | [], .doctype =>
      -- `StartTrimmer` passes a DOCTYPE on; character data before it must have been blank
      if (mkText st.prolog.reverse).isSome then { st with done := some (.err .xml) } else { st with prolog := [] }
    | [], .stop _ => { st with done := some (.err .xml) }           -- `UnmatchedEndTag`
    | [], .start content empty =>
      if (mkText st.prolog.reverse).isSome then { st with done := some (.err .xml) }   -- a text where a map is wanted
      else
        match scanTag content with
        | some why => { st with done := some (.err (.unsupported why)) }
        | none =>
          let st := { st with stack := [{ name := tagName content, attrs := tagAttrs content }], prolog := [] }
          if empty then closeTop st else st
    | f :: up, .text s => { st with stack := { f with run := .esc s :: f.run } :: up }
    | f :: up, .cdata s => { st with stack := { f with run := .lit s :: f.run } :: up }
    | _ :: _, .doctype => { st with done := some (.err (.unsupported "DOCTYPE inside the root element")) }
    | f :: up, .start content empty =>
      match scanTag content with
      | some why => { st with done := some (.err (.unsupported why)) }
      | none =>
        let st := { st with stack := { name := tagName content, attrs := tagAttrs content } :: f.flush :: up }
        if empty then closeTop st else st
    | f :: _, .stop name =>
      if name == f.name then closeTop st else { st with done := some (.err .xml) }   -- `MismatchedEndTag`

/-- the element tree of the root element, as far as `quick_xml::de::from_reader` reads -/
def readRoot (s : List Char) : Except XmlErr Node :=
  let (toks, _) := tokenize s
  match (toks.foldl buildStep {}).done with
  | some (.root n) => .ok n
  | some (.err e) => .error e
  | none => .error .xml      -- end of input or a syntax error before the root element was closed

def readDocument (s : String) : Except XmlErr Node := readRoot s.toList

end Okane.Xml
