import Okane.Base.Outcome
/-!
# Diagnostics: where an error is reported (mirror of `core/src/parse/error.rs`, the span arithmetic of
`core/src/parse/adaptor.rs` and `core/src/report/error.rs`)

Text is a list of **bytes** (`List UInt8`): every position the Rust code computes with here (`offset_from`,
`current_token_start`, `with_span`, `compute_line_number`, `is_char_boundary`, `str::get(range)`) is a byte
offset into the UTF-8 text.  `encode` gives the bytes of a `List Char` (Lean's own `String.utf8EncodeChar`),
which is what ties byte positions back to characters.

Panic sites (named after the Rust expression that panics on data):
* `compute_line_number`: `assert!(pos <= s.len())`
* `offset_from`: winnow's `debug_assert!(fst <= snd)` (debug build)
* `clip`: `usize` subtraction `min(parent.end, child.end) - parent.start` (debug build: overflow check)
* `ParsedContext::as_str`: `.expect("ParsedContext::span must be a valid UTF-8 boundary")`
Unbounded search: the char-boundary search of `ParseError::new` takes fuel.
-/
namespace Okane.Diag

abbrev Bytes := List UInt8

/-- `b'\n'` -/
abbrev LF : UInt8 := 10

/-- UTF-8 bytes of a text. -/
def encode (cs : List Char) : Bytes := cs.flatMap String.utf8EncodeChar

/-- `s.iter().filter(|x| **x == b'\n').count()` -/
def countLF (bs : Bytes) : Nat := bs.count LF

/-- `compute_line_number(s, pos)` (`parse/error.rs`). -/
def computeLineNumber (s : Bytes) (pos : Nat) : Outcome Unit Nat :=
  if pos ≤ s.length then .ok (1 + countLF (s.take pos))
  else .panic "compute_line_number: assert pos <= s.len()"

/-- `std::ops::Range<usize>` (`start..end`; nothing forces `start ≤ end`). -/
structure Range where
  start : Nat
  stop : Nat
  deriving Repr, DecidableEq, Inhabited

/-- UTF-8 continuation byte `10xxxxxx`; Rust tests `(b as i8) >= -0x40` for "not a continuation byte". -/
def isCont (b : UInt8) : Bool := 128 ≤ b.toNat && b.toNat < 192

/-- `str::is_char_boundary`. -/
def isCharBoundary (s : Bytes) (i : Nat) : Bool :=
  if i = 0 then true
  else
    match s[i]? with
    | none => i == s.length
    | some b => !isCont b

/-- `(e ..= s.len()).find(|e| s.is_char_boundary(*e))`, one step per unit of fuel. -/
def findBoundary (s : Bytes) : Nat → Nat → Outcome Unit (Option Nat)
  | 0, _ => .fuelOut
  | fuel + 1, e =>
    if s.length < e then .ok none
    else if isCharBoundary s e then .ok (some e)
    else findBoundary s fuel (e + 1)

/-- what `ParseErrorImpl` keeps (besides the renderer and the winnow error). -/
structure ParseErr where
  lineStart : Nat
  errorSpan : Range
  input : Bytes
  deriving Repr, DecidableEq

/-- `ParseError::new(renderer, initial, input, start, error)`.
`startPos` = byte position of the checkpoint `start` in `initial` (taken by `ParsedIter::next` *before* the
separator, or position 0 for `parse_single`), `errPos` = byte position where the failing parser left the
stream.  After `input.reset(&start)` the stream holds `initial[startPos..]` and `current_token_start()` is
`startPos`. -/
def parseErrorNew (fuel : Nat) (initial : Bytes) (startPos errPos : Nat) : Outcome Unit ParseErr :=
  if errPos < startPos then .panic "offset_from: debug_assert fst <= snd"
  else
    let offset := errPos - startPos
    let input := initial.drop startPos
    match computeLineNumber initial startPos with
    | .ok lineStart =>
      match findBoundary input fuel (offset + 1) with
      | .ok e => .ok ⟨lineStart, ⟨offset, e.getD offset⟩, input⟩
      | .err x => .err x
      | .panic p => .panic p
      | .fuelOut => .fuelOut
    | .err x => .err x
    | .panic p => .panic p
    | .fuelOut => .fuelOut

/-- the fuel `ParseError::new` is run with: the search visits at most `|input| + 1` candidates. -/
def parseErrorFuel (initial : Bytes) : Nat := initial.length + 1

/-- `ParsedContext { initial, span }` -/
structure PCtx where
  initial : Bytes
  span : Range
  deriving Repr, DecidableEq

namespace PCtx
/-- `compute_line_start` -/
def computeLineStart (c : PCtx) : Outcome Unit Nat := computeLineNumber c.initial c.span.start

/-- `initial.get(span)`: `None` unless `start ≤ end ≤ len` and both ends are char boundaries. -/
def validSlice (c : PCtx) : Bool :=
  c.span.start ≤ c.span.stop && c.span.stop ≤ c.initial.length &&
    isCharBoundary c.initial c.span.start && isCharBoundary c.initial c.span.stop

/-- `as_str` -/
def asStr (c : PCtx) : Outcome Unit Bytes :=
  if c.validSlice then .ok ((c.initial.take c.span.stop).drop c.span.start)
  else .panic "ParsedContext::span must be a valid UTF-8 boundary"
end PCtx

/-- `clip(parent, child)` (`adaptor.rs`): the child range relative to the parent's start, cut to the parent. -/
def clip (parent child : Range) : Outcome Unit Range :=
  -- `max(parent.start, child.start) - parent.start` cannot underflow
  let start := max parent.start child.start - parent.start
  if min parent.stop child.stop < parent.start then .panic "clip: attempt to subtract with overflow"
  else .ok ⟨start, min parent.stop child.stop - parent.start⟩

/-- `ParsedSpan::resolve(&TrackedSpan)` -/
def resolve (parsedSpan tracked : Range) : Outcome Unit Range := clip parsedSpan tracked

/-- The spans a `BookKeepError` carries (`report/book_keeping.rs`), by the cases `ErrorContext::print` distinguishes.
Tracked spans are byte ranges in the *file* (`with_span` on the `LocatingSlice` of the whole file). -/
inductive BkSpans where
  | undeducible (first second : Range)
  | assertion (balanceSpan accountSpan : Range)
  | zeroAmountWithExchange (exchange : Range)
  | zeroExchangeRate (exchange : Range)
  | exchangeWithAmountCommodity (postingAmount exchange : Range)
  | other
  deriving Repr, DecidableEq, Inhabited

namespace BkSpans
/-- tracked spans in the order `print` annotates them -/
def tracked : BkSpans → List Range
  | undeducible a b => [a, b]
  | assertion a b => [a, b]
  | zeroAmountWithExchange a => [a]
  | zeroExchangeRate a => [a]
  | exchangeWithAmountCommodity a b => [a, b]
  | other => []
end BkSpans

/-- `report::error::ErrorContext` (`π` = path type). -/
structure ErrorContext (π : Type) where
  path : π
  lineStart : Nat
  text : Bytes
  parsedSpan : Range
  deriving Repr

/-- `ErrorContext::new(renderer, path, pctx)` -/
def ErrorContext.new {π : Type} (path : π) (pctx : PCtx) : Outcome Unit (ErrorContext π) :=
  match pctx.computeLineStart with
  | .ok ls =>
    match pctx.asStr with
    | .ok text => .ok ⟨path, ls, text, pctx.span⟩
    | .err x => .err x
    | .panic p => .panic p
    | .fuelOut => .fuelOut
  | .err x => .err x
  | .panic p => .panic p
  | .fuelOut => .fuelOut

def resolveAll (parsedSpan : Range) : List Range → Outcome Unit (List Range)
  | [] => .ok []
  | r :: rs =>
    match resolve parsedSpan r with
    | .ok x =>
      match resolveAll parsedSpan rs with
      | .ok xs => .ok (x :: xs)
      | .err e => .err e
      | .panic p => .panic p
      | .fuelOut => .fuelOut
    | .err e => .err e
    | .panic p => .panic p
    | .fuelOut => .fuelOut

/-- the annotation ranges (relative to `text`) that `ErrorContext::print` hands to the renderer. -/
def ErrorContext.annotations {π : Type} (ctx : ErrorContext π) : BkSpans → Outcome Unit (List Range)
  | .other => .ok [⟨0, ctx.text.length⟩]
  | e => resolveAll ctx.parsedSpan e.tracked

/-- line (in the file) of the position `q` of the snippet `text` whose first line is numbered `lineStart`:
what the renderer's gutter shows for an annotation at `q`. -/
def snippetLine (lineStart : Nat) (text : Bytes) (q : Nat) : Nat := lineStart + countLF (text.take q)

/-- One element of what the loader delivers to the callback: the path of the file being read, the entry's
context in that file, and the entry. -/
structure Delivered (π ε : Type) where
  path : π
  pctx : PCtx
  entry : ε

/-- `report::process`'s callback wrapper: when book-keeping fails on the `i`-th delivered entry the error
context is built from the path and context *delivered with that entry*. -/
def reportAt {π ε : Type} (xs : List (Delivered π ε)) (i : Nat) : Outcome Unit (Option (ErrorContext π)) :=
  match xs[i]? with
  | none => .ok none
  | some d =>
    match ErrorContext.new d.path d.pctx with
    | .ok c => .ok (some c)
    | .err x => .err x
    | .panic p => .panic p
    | .fuelOut => .fuelOut

end Okane.Diag
