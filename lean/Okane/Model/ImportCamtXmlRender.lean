import Okane.Model.ImportCamtXml
/-!
# The canonical rendering of Camt053 statements as XML (the `render` of the round-trip theorem)

Not a mirror of Rust code: okane never writes Camt053.  `render` is the reference writer against which the decoder model
is proved (`Lemmas/ImportCamtXmlRender.lean`: `decodeCamt (render d) = ok d`) and against which the **real** decoder is run
(`drv c18 render` prints the rendering of a generated statement; `gen/c18.py` imports it with the real code and compares).

* `CTree`: element trees without mixed content; `CTree.print` writes them with `Xml.escape`d text.
* `rDoc`, `render`: the statement structures of `Model/ImportCamt.lean` as such a tree / text, in the element order of
  the ISO schema; optional parts are left out when absent (`Chrgs`, `NtryDtls` for empty lists).
* `Renderable`: what makes the rendering decodable (see `Lemmas/ImportCamtXmlRender.lean`).
-/
namespace Okane.Xml

/-- ASCII letter or digit -/
def plainChar (c : Char) : Bool := c.isAlphanum

/-- a non-empty name of ASCII letters and digits -/
def plainName (s : String) : Bool := !s.toList.isEmpty && s.toList.all plainChar

/-- canonical element trees: no mixed content -/
inductive CTree where
  /-- an element holding character data (`text` may be empty) -/
  | leaf (name : String) (attr : Option (String × String)) (text : String)
  /-- an element holding elements -/
  | node (name : String) (attr : Option (String × String)) (kids : List CTree)
  deriving Inhabited

/-- ` key="value"` -/
def attrText : Option (String × String) → List Char
  | none => []
  | some (k, v) => ' ' :: k.toList ++ '=' :: '"' :: v.toList ++ ['"']

def attrOk : Option (String × String) → Bool
  | none => true
  | some (k, v) => plainName k && v.toList.all plainChar

mutual
def CTree.print : CTree → List Char
  | .leaf n a t => '<' :: n.toList ++ attrText a ++ '>' :: escape t.toList ++ '<' :: '/' :: n.toList ++ ['>']
  | .node n a ks => '<' :: n.toList ++ attrText a ++ '>' :: printAll ks ++ '<' :: '/' :: n.toList ++ ['>']
def printAll : List CTree → List Char
  | [] => []
  | t :: ts => t.print ++ printAll ts
end

mutual
def CTree.toNode : CTree → Node
  | .leaf n a t => .elem n (String.ofList (attrText a)) (if t.toList.isEmpty then [] else [.text t])
  | .node n a ks => .elem n (String.ofList (attrText a)) (toNodes ks)
def toNodes : List CTree → List Node
  | [] => []
  | t :: ts => t.toNode :: toNodes ts
end

mutual
def CTree.wf : CTree → Bool
  | .leaf n a _ => plainName n && attrOk a
  | .node n a ks => plainName n && attrOk a && wfAll ks
def wfAll : List CTree → Bool
  | [] => true
  | t :: ts => t.wf && wfAll ts
end

end Okane.Xml

namespace Okane.Import.CamtXml
open Okane Okane.Xml Okane.Import

/-- digits of a natural number, most significant first -/
def natDigits (n : Nat) : List Char := (Nat.toDigits 10 n)

/-- plain decimal print of a `Dec`: sign, integer part, and `scale` fraction digits -/
def printDec (d : Dec) : String :=
  let ds := natDigits d.mant
  let ds := if ds.length ≤ d.scale then List.replicate (d.scale + 1 - ds.length) '0' ++ ds else ds
  let ip := ds.take (ds.length - d.scale)
  let fp := ds.drop (ds.length - d.scale)
  String.ofList ((if d.neg then ['-'] else []) ++ ip ++ (if d.scale == 0 then [] else '.' :: fp))

/-- the number is read back from its print -/
def decRT (d : Dec) : Bool :=
  match decimalOfText (printDec d).toList with
  | .ok d' => d' == d
  | .error _ => false

/-- the date is read back from its `YYYY-MM-DD` print -/
def dateRT (d : Date) : Bool := decide (naiveDateOfText d.fmtHyphen.toList = some d)

/-! ## the rendering -/

def leafT (n t : String) : CTree := .leaf n none t
def nodeT (n : String) (ks : List CTree) : CTree := .node n none ks

def optList {α β : Type} (f : α → β) : Option α → List β
  | some a => [f a]
  | none => []

def cdText : CdtDbt → String
  | .credit => "CRDT" | .debit => "DBIT"
def codeText : BalanceCode → String
  | .opening => "OPBD" | .closing => "CLBD" | .other => "ITBD"
def boolText (b : Bool) : String := if b then "true" else "false"

def rAmount (tag : String) (a : CamtAmount) : CTree := .leaf tag (some ("Ccy", a.currency)) (printDec a.value)
def rCd (cd : CdtDbt) : CTree := leafT "CdtDbtInd" (cdText cd)
def cDate (d : Date) : List CTree := [leafT "Dt" d.fmtHyphen]
def cCharge (c : ChargeRecord) : List CTree := [rAmount "Amt" c.amount, rCd c.cd, leafT "ChrgInclInd" (boolText c.included)]
def cCharges (cs : List ChargeRecord) : List CTree := cs.map fun c => nodeT "Rcrd" (cCharge c)
def rCharges (cs : List ChargeRecord) : List CTree := if cs.isEmpty then [] else [nodeT "Chrgs" (cCharges cs)]
def cBalance (b : CamtBalance) : List CTree :=
  [nodeT "Tp" [nodeT "CdOrPrtry" [leafT "Cd" (codeText b.code)]], rAmount "Amt" b.amount, rCd b.cd]
def cDomain (d : Option (String × String × String)) : List CTree :=
  optList (fun d => nodeT "Domn" [leafT "Cd" d.1, nodeT "Fmly" [leafT "Cd" d.2.1, leafT "SubFmlyCd" d.2.2]]) d
def cXchg (x : CurrencyExchange) : List CTree :=
  [leafT "SrcCcy" x.source, leafT "TrgtCcy" x.target, leafT "XchgRate" (printDec x.rate)]
def cAmtXchg (t : TxAmount) : List CTree := rAmount "Amt" t.amount :: optList (fun x => nodeT "CcyXchg" (cXchg x)) t.exchange
def cInstd (t : TxAmount) : List CTree := [rAmount "Amt" t.amount]
def cTxAmount (t : TxAmount) : List CTree := [nodeT "InstdAmt" (cInstd t), nodeT "TxAmt" (cAmtXchg t)]
def rParty (tag : String) : Option String → List CTree := optList fun n => nodeT tag [leafT "Nm" n]
def rAcct (tag : String) : Option String → List CTree := optList fun i => nodeT tag [nodeT "Id" [leafT "IBAN" i]]
def cRltd (i : PartyInfo) : List CTree :=
  rParty "Dbtr" i.debtorName ++ rParty "Cdtr" i.creditorName ++ rAcct "CdtrAcct" i.creditorAccountId ++
  rAcct "DbtrAcct" i.debtorAccountId ++ rParty "UltmtDbtr" i.ultimateDebtorName ++ rParty "UltmtCdtr" i.ultimateCreditorName
def cDetail (d : TxDetails) : List CTree :=
  [nodeT "Refs" (optList (leafT "AcctSvcrRef") d.ref), rAmount "Amt" d.amount, rCd d.cd] ++
  optList (fun t => nodeT "AmtDtls" (cTxAmount t)) d.txAmount ++ rCharges d.charges ++
  [nodeT "RltdPties" (cRltd d.info), nodeT "RmtInf" (optList (leafT "Ustrd") d.info.remittanceUnstructured)] ++
  optList (leafT "AddtlTxInf") d.info.additionalTransactionInfo
def cDetails (ds : List TxDetails) : List CTree := ds.map fun d => nodeT "TxDtls" (cDetail d)
def cEntry (e : CamtEntry) : List CTree :=
  [rAmount "Amt" e.amount, rCd e.cd, nodeT "BookgDt" (cDate e.bookingDate)] ++
  optList (fun d => nodeT "ValDt" (cDate d)) e.valueDate ++ [nodeT "BkTxCd" (cDomain e.domain)] ++ rCharges e.charges ++
  (if e.details.isEmpty then [] else [nodeT "NtryDtls" (cDetails e.details)]) ++ [leafT "AddtlNtryInf" e.additionalInfo]
def cBals (bs : List CamtBalance) : List CTree := bs.map fun b => nodeT "Bal" (cBalance b)
def cNtries (es : List CamtEntry) : List CTree := es.map fun e => nodeT "Ntry" (cEntry e)
def cStmt (s : Statement) : List CTree := cBals s.balances ++ cNtries s.entries
def cStmts (ss : List Statement) : List CTree := ss.map fun s => nodeT "Stmt" (cStmt s)
def rDoc (ss : List Statement) : CTree := nodeT "Document" [nodeT "BkToCstmrStmt" (cStmts ss)]

/-- **the canonical rendering** of a list of statements as a Camt053 document -/
def render (ss : List Statement) : String := String.ofList (rDoc ss).print

/-! ## what must hold of a statement for its rendering to be decodable -/

def amountOk (a : CamtAmount) : Bool := a.currency.toList.all plainChar && decRT a.value
def chargeOk (c : ChargeRecord) : Bool := amountOk c.amount
def domainOk : Option (String × String × String) → Bool
  | none => true
  | some d => d.1 == "PMNT" && ["ICDT", "RCDT", "RDDT"].contains d.2.1 &&
      ["AUTT", "DAJT", "PMDD", "SALA", "STDO", "OTHR"].contains d.2.2
def txAmountOk (t : TxAmount) : Bool :=
  amountOk t.amount && (match t.exchange with | none => true | some x => decRT x.rate)
def detailOk (d : TxDetails) : Bool :=
  amountOk d.amount && (match d.txAmount with | none => true | some t => txAmountOk t) && d.charges.all chargeOk
def entryOk (e : CamtEntry) : Bool :=
  amountOk e.amount && dateRT e.bookingDate && (match e.valueDate with | none => true | some d => dateRT d) &&
  domainOk e.domain && e.charges.all chargeOk && e.details.all detailOk
def balanceOk (b : CamtBalance) : Bool := amountOk b.amount
def stmtOk (s : Statement) : Bool := !s.balances.isEmpty && s.balances.all balanceOk && s.entries.all entryOk
/-- the statements can be rendered and decoded back -/
def Renderable (ss : List Statement) : Bool := !ss.isEmpty && ss.all stmtOk

end Okane.Import.CamtXml
