import Okane.Model.Literal
/-!
# Value expressions: parser and printer (mirror of `core/src/parse/expr.rs`, `parse/primitive.rs`,
# `syntax/display.rs` — `fmt_with_alignment` for `ValueExpr` / `Expr` / `Amount`, `rescale`)

Every parser in `parse/expr.rs` uses the non-modal `winnow::Result`, so every failure is a backtrack.
`PRes.fail at` records the input position at which the failing sub-parser left the stream (winnow leaves the
stream where the failing parser stopped; `opt`, `peek`, `verify`/`one_of`, `try_map` and `separated_foldl1`
reset it) — callers that compute error offsets need it, the value-level theorems do not.

Fuel: every call passes `fuel - 1` down (mutual structural recursion on fuel); the depth needed is bounded by
`5 * input length + 10` (each parenthesis level costs 5 and consumes `(`, each fold iteration costs 1 and consumes
an operator character).  `parseFuel` is that bound.
-/
namespace Okane.ExprSyntax
open Okane Okane.Literal

/-- result of a backtracking parser over `List Char` -/
inductive PRes (α : Type) where
  | ok (a : α) (rest : List Char)
  | fail (pos : List Char)
  | fuelOut
  deriving Repr, Inhabited

/-- `winnow::ascii::space0` / the set of `space0`: blank and tab -/
def isSpace (c : Char) : Bool := c == ' ' || c == '\t'
def skipSpaces (inp : List Char) : List Char := inp.dropWhile isSpace

/-- `NON_COMMODITY_CHARS` of `parse/primitive.rs` -/
def nonCommodityChars : List Char := " \t\r\n0123456789.,;:?!-+*/^&|=<>[](){}@".toList
def isCommodityChar (c : Char) : Bool := !nonCommodityChars.contains c

/-- `primitive::pretty_decimal`: token by `tokenSplit`, then `.try_map(str::parse)` (which resets the stream to
the start of the token when `from_str` fails). -/
def prettyDecimal (inp : List Char) : PRes PDec :=
  match tokenSplit inp with
  | .error pos => .fail pos
  | .ok (tok, rest) =>
    match scan tok with
    | .ok d => .ok d rest
    | _ => .fail inp

/-- `primitive::commodity`: `take_till(0.., NON_COMMODITY_CHARS)` — never fails, may be empty -/
def commodity (inp : List Char) : List Char × List Char := (inp.takeWhile isCommodityChar, inp.dropWhile isCommodityChar)

/-- `expr::amount`: `(terminated(pretty_decimal, space0), commodity)` -/
def amount (inp : List Char) : PRes VExpr :=
  match prettyDecimal inp with
  | .ok d rest =>
    let (c, rest') := commodity (skipSpaces rest)
    .ok (.amt d (String.ofList c)) rest'
  | .fail pos => .fail pos
  | .fuelOut => .fuelOut

/-- `add_op` -/
def addOp : Char → Option BinOp
  | '+' => some .add
  | '-' => some .sub
  | _ => none
/-- `mul_op` -/
def mulOp : Char → Option BinOp
  | '*' => some .mul
  | '/' => some .div
  | _ => none

/-- `delimited(space0, operator, space0)`: the operator and the rest, or `none` (the caller resets) -/
def sepOp (op : Char → Option BinOp) (inp : List Char) : Option (BinOp × List Char) :=
  match skipSpaces inp with
  | c :: r => (op c).map fun o => (o, skipSpaces r)
  | [] => none

mutual
/-- `value_expr`: `dispatch!{peek(any); '(' => paren_expr, _ => amount}`;
`paren_expr` = `delimited('(' , delimited(space0, add_expr, space0), ')')` -/
def valueExpr : Nat → List Char → PRes VExpr
  | 0, _ => .fuelOut
  | f + 1, inp =>
    match inp with
    | [] => .fail inp
    | '(' :: r =>
      match addExpr f (skipSpaces r) with
      | .ok e rest =>
        match skipSpaces rest with
        | ')' :: rest' => .ok (.paren e) rest'
        | other => .fail other
      | .fail pos => .fail pos
      | .fuelOut => .fuelOut
    | _ => amount inp
/-- `unary_expr`: `dispatch!{peek(any); '-' => negate_expr, _ => value_expr}`;
`negate_expr` = `preceded('-', value_expr)` wrapped as `Unary(Negate, Value(ve))` -/
def unaryExpr : Nat → List Char → PRes Expr
  | 0, _ => .fuelOut
  | f + 1, inp =>
    match inp with
    | [] => .fail inp
    | '-' :: r =>
      match valueExpr f r with
      | .ok v rest => .ok (.neg (.val v)) rest
      | .fail pos => .fail pos
      | .fuelOut => .fuelOut
    | _ =>
      match valueExpr f inp with
      | .ok v rest => .ok (.val v) rest
      | .fail pos => .fail pos
      | .fuelOut => .fuelOut
/-- `mul_expr` = `infixl(mul_op, unary_expr)` = `separated_foldl1(unary_expr, delimited(space0, mul_op, space0), Binary)` -/
def mulExpr : Nat → List Char → PRes Expr
  | 0, _ => .fuelOut
  | f + 1, inp =>
    match unaryExpr f inp with
    | .ok l rest => mulLoop f l rest
    | .fail pos => .fail pos
    | .fuelOut => .fuelOut
/-- the `loop` of `separated_foldl1` for `mul_expr`: a separator that fails, or an operand that fails after a
separator, resets the stream to before the separator and ends the fold successfully. -/
def mulLoop : Nat → Expr → List Char → PRes Expr
  | 0, _, _ => .fuelOut
  | f + 1, l, inp =>
    match sepOp mulOp inp with
    | none => .ok l inp
    | some (op, r) =>
      match unaryExpr f r with
      | .ok e rest => mulLoop f (.bin op l e) rest
      | .fail _ => .ok l inp
      | .fuelOut => .fuelOut
/-- `add_expr` = `infixl(add_op, mul_expr)` -/
def addExpr : Nat → List Char → PRes Expr
  | 0, _ => .fuelOut
  | f + 1, inp =>
    match mulExpr f inp with
    | .ok l rest => addLoop f l rest
    | .fail pos => .fail pos
    | .fuelOut => .fuelOut
def addLoop : Nat → Expr → List Char → PRes Expr
  | 0, _, _ => .fuelOut
  | f + 1, l, inp =>
    match sepOp addOp inp with
    | none => .ok l inp
    | some (op, r) =>
      match mulExpr f r with
      | .ok e rest => addLoop f (.bin op l e) rest
      | .fail _ => .ok l inp
      | .fuelOut => .fuelOut
end

/-- a fuel that always suffices (see the module comment) -/
def parseFuel (inp : List Char) : Nat := 5 * inp.length + 10

/-- `value_expr` with sufficient fuel -/
def parseValueExpr (inp : List Char) : PRes VExpr := valueExpr (parseFuel inp) inp

/-! ## Printing (`syntax/display.rs`) -/

/-- `display.rs::Alignment` -/
inductive Align where
  | part (n : Nat)
  | full (n : Nat)
  deriving Repr, DecidableEq, Inhabited

namespace Align
def absolute : Align → Nat
  | part x => x
  | full x => x
def plus (a : Align) (pre suf : Nat) : Align :=
  match a with
  | part x => part (pre + x + suf)
  | full x => full (pre + x)
end Align

def opChar : BinOp → Char
  | .add => '+'
  | .sub => '-'
  | .mul => '*'
  | .div => '/'

mutual
/-- `fmt_with_alignment` for `Expr`: text written and the alignment returned -/
def printExprA (prec : String → Nat) : Expr → List Char × Align
  | .neg e =>
    let (s, a) := printExprA prec e
    ('-' :: s, a.plus 1 0)
  | .bin op l r =>
    let (s1, a1) := printExprA prec l
    let (s2, a2) := printExprA prec r
    (s1 ++ [' ', opChar op, ' '] ++ s2,
      match a1.plus 0 3 with
      | .full x => .full x
      | .part x => a2.plus x 0)
  | .val v => printVExprA prec v
/-- `fmt_with_alignment` for `ValueExpr` and `Amount` (`rescale` to the commodity's declared precision; the
alignment is the length of the number text) -/
def printVExprA (prec : String → Nat) : VExpr → List Char × Align
  | .paren e =>
    let (s, a) := printExprA prec e
    ('(' :: s ++ [')'], a.plus 1 1)
  | .amt v c =>
    let str := printPDec (displayRescale prec v c)
    if c.isEmpty then (str, .part str.length)
    else (str ++ ' ' :: c.toList, .full str.length)
end

def printExpr (prec : String → Nat) (e : Expr) : List Char := (printExprA prec e).1
def printVExpr (prec : String → Nat) (v : VExpr) : List Char := (printVExprA prec v).1
/-- `.absolute()` of the alignment, as used by the posting printer -/
def alignVExpr (prec : String → Nat) (v : VExpr) : Nat := (printVExprA prec v).2.absolute

end Okane.ExprSyntax
