import Okane.Base.Outcome
/-!
# Model of `golden/src/lib.rs` (`okane_golden::Golden`)

The outside world the helper touches is one file and one environment variable.
Decoding bytes to UTF-8 happens outside the model: a file is either `text cs` or `binary` (not UTF-8), or the path
names a directory.  Whether `std::fs::write` can succeed is a fact about the world (`writable`: the parent directory
exists, the path is not a directory, permissions allow it); when it cannot, `expect("Update golden failed")` panics.
-/
namespace Okane.Golden

/-- Content of the golden file as the helper can see it. -/
inductive FileContent where
  | text (cs : List Char)
  | binary
  | directory
  deriving Repr, DecidableEq

/-- Value of `UPDATE_GOLDEN`: unset, set to something that is not valid Unicode, or set to a string. -/
inductive EnvVal where
  | unset
  | invalid
  | str (cs : List Char)
  deriving Repr, DecidableEq

structure World where
  file : Option FileContent
  env : EnvVal
  /-- can `std::fs::write(path, _)` succeed? -/
  writable : Bool := true
  deriving Repr, DecidableEq

inductive IoErr where
  | notFound
  | invalidData
  | other
  deriving Repr, DecidableEq

/-- `s.replace("\r\n", "\n")`. -/
def crlfToLf : List Char → List Char
  | '\r' :: '\n' :: rest => '\n' :: crlfToLf rest
  | c :: rest => c :: crlfToLf rest
  | [] => []

/-- `read_as_utf8`. -/
def readAsUtf8 (w : World) : Outcome IoErr (List Char) :=
  match w.file with
  | none => .err .notFound
  | some .binary => .err .invalidData
  | some .directory => .err .other
  | some (.text cs) => .ok (crlfToLf cs)

/-- `is_update_golden`: `!std::env::var("UPDATE_GOLDEN").unwrap_or_default().is_empty()`. -/
def isUpdate : EnvVal → Bool
  | .str (_ :: _) => true
  | _ => false

structure Golden where
  content : List Char
  deriving Repr, DecidableEq

/-- `Golden::new` (reads the world, never changes it). -/
def new (w : World) : Outcome IoErr Golden :=
  match readAsUtf8 w with
  | .ok c => .ok ⟨c⟩
  | .err .notFound => if isUpdate w.env then .ok ⟨[]⟩ else .err .notFound
  | .err e => .err e
  | .panic s => .panic s
  | .fuelOut => .fuelOut

inductive Verdict where
  | pass
  | panic
  deriving Repr, DecidableEq

/-- `Golden::assert`: returns the verdict, the world afterwards, and whether a write happened. -/
def assert (g : Golden) (got : List Char) (w : World) : Verdict × World × Bool :=
  if isUpdate w.env then
    -- want = got; the file is overwritten with `got`; assert_str_eq!(got, got) passes.
    -- `std::fs::write(..).expect("Update golden failed")`: a write that cannot happen panics, nothing changes
    if w.writable then (.pass, { w with file := some (.text got) }, true)
    else (.panic, w, false)
  else
    (if g.content = got then .pass else .panic, w, false)

end Okane.Golden
