import Okane.Model.Syntax
import Okane.Model.Literal
import Okane.Generated.Params
/-!
# The ledger printer (mirror of `core/src/syntax/display.rs` and of `core/src/format.rs`)

Character-exact model of every `fmt::Display` implementation of `display.rs`.  Text is `List Char`.

Two things are parameters (`Ctx`):

* `w : Char → Nat` — the display width of one character (`unicode_width::UnicodeWidthChar::width_cjk`); the width of a
  text is the sum over its characters (`strWidth`).  unicode-width's string width differs from that sum only on
  ligature-like sequences (CR LF, emoji ZWJ / modifier / presentation sequences, `<=>` + U+0338, a few script specific
  pairs); the correspondence check measures the real library on every generated text.
  `display.rs` measures the clear mark with `width` (non-CJK) and the account with `width_cjk`; the two functions agree
  on the characters of the clear marks (`*`, `!`, blank), which the correspondence check asserts, so one `w` is used.
* `num : PDec → String → List Char` — the text of a number printed next to a commodity:
  `rescale(amount, ctx).to_string()`.  The layout arithmetic only needs its length.  `Ctx.std` instantiates it with
  `Okane.Literal.printPDec ∘ Okane.Literal.displayRescale`.

The layout constants come from `Okane.Params` (extracted from the Rust source on every run).

Every entry kind is printed as a list of *line bodies* (`entryLines`), each of which the Rust ends with `writeln!`;
the printed text is `unlines`.  (A text field holding a line break makes a "line body" span several real lines —
the printed characters are the same; the C19 theorems state the no-line-break hypothesis where they need it.)
-/
namespace Okane.Print
open Okane

/-! ## Text helpers -/

/-- display width of a text: sum of the widths of its characters -/
def strWidth (w : Char → Nat) : List Char → Nat
  | [] => 0
  | c :: cs => w c + strWidth w cs

/-- `str::len()`: length in UTF-8 bytes -/
def byteLen : List Char → Nat
  | [] => 0
  | c :: cs => c.utf8Size + byteLen cs

/-- `n` blanks -/
abbrev spaces (n : Nat) : List Char := List.replicate n ' '

/-- `format!("{:>width$}", s)`: right-align in `width` characters (counted as `chars().count()`), never truncates -/
def padLeft (width : Nat) (s : List Char) : List Char := spaces (width - s.length) ++ s

/-- every line body followed by a line feed (`writeln!`) -/
def unlines (ls : List (List Char)) : List Char := ls.flatMap (· ++ ['\n'])

/-- a piece that ended in a line feed, without one trailing carriage return; `cur` is the piece, reversed -/
def stripCrRev : List Char → List Char
  | '\r' :: cur' => cur'.reverse
  | cur => cur.reverse

/-- worker of `rustLines`: `cur` is the current piece, reversed -/
def rustLinesAux : List Char → List Char → List (List Char)
  | [], [] => []
  | [], c :: cur => [(c :: cur).reverse]
  | c :: cs, cur =>
    if c = '\n' then stripCrRev cur :: rustLinesAux cs []
    else rustLinesAux cs (c :: cur)

/-- `str::lines()`: `split_inclusive('\n')`, then one trailing `\n` and (only then) one trailing `\r` are stripped
from each piece; no piece after a final `\n`; no piece at all for the empty string. -/
def rustLines (s : List Char) : List (List Char) := rustLinesAux s []

/-- `LineWrapStr { prefix, content }`: every line of the content after the prefix -/
def lineWrap (pre : List Char) (content : List Char) : List (List Char) :=
  (rustLines content).map (pre ++ ·)

/-! ## Dates (`chrono` `%Y/%m/%d`) -/

/-- decimal digits, zero padded to at least `width` -/
def padNat (n width : Nat) : List Char :=
  let ds := Literal.digits n
  List.replicate (width - ds.length) '0' ++ ds

/-- chrono's `%Y`: four digits zero padded for years 0…9999, otherwise an explicit sign and at least four digits
(`{:+05}`). -/
def fmtYear (y : Int) : List Char :=
  if 0 ≤ y ∧ y ≤ 9999 then padNat y.toNat 4
  else (if y < 0 then '-' else '+') :: padNat y.natAbs 4

/-- `date.format("%Y/%m/%d")` -/
def fmtDate (d : Date) : List Char := fmtYear d.y ++ '/' :: padNat d.m 2 ++ '/' :: padNat d.d 2

/-! ## Layout arithmetic -/

/-- `get_column(colsize, left, padding)`: shift so that the text lands on `colsize`, at least `padding`. -/
def getColumn (colsize left padding : Nat) : Nat :=
  if left + padding < colsize then colsize - left else padding

/-- `enum Alignment` -/
inductive Alignment where
  /-- no commodity-bearing number seen yet: the whole length so far -/
  | part (n : Nat)
  /-- length up to the end of the first commodity-bearing number -/
  | complete (n : Nat)
  deriving Repr, DecidableEq, Inhabited

namespace Alignment
/-- `Alignment::absolute` -/
def absolute : Alignment → Nat
  | .part x => x
  | .complete x => x
/-- `Alignment::plus(prefix_length, suffix_length)` -/
def plus (a : Alignment) (pre suf : Nat) : Alignment :=
  match a with
  | .part x => .part (pre + x + suf)
  | .complete x => .complete (pre + x)
end Alignment

/-- printer parameters (see the module comment) -/
structure Ctx where
  w : Char → Nat
  num : PDec → String → List Char

/-- `impl Display for BinaryOp` -/
def opChar : BinOp → Char
  | .add => '+' | .sub => '-' | .mul => '*' | .div => '/'

mutual
/-- `DisplayWithAlignment for WithContext<Expr>`: the text and the alignment -/
def fmtExpr (cx : Ctx) : Expr → List Char × Alignment
  | .neg e =>
    -- write!(f, "{}", e.op)?; fmt_with_alignment(e.expr).map(|x| x.plus(1, 0))
    let r := fmtExpr cx e
    ('-' :: r.1, r.2.plus 1 0)
  | .bin op l r =>
    let a := fmtExpr cx l
    let b := fmtExpr cx r
    (a.1 ++ ' ' :: opChar op :: ' ' :: b.1,
      match a.2.plus 0 3 with
      | .complete x => .complete x
      | .part x => b.2.plus x 0)
  | .val v => fmtVExpr cx v
/-- `DisplayWithAlignment for WithContext<ValueExpr>` and `… for WithContext<Amount>` -/
def fmtVExpr (cx : Ctx) : VExpr → List Char × Alignment
  | .paren e =>
    let r := fmtExpr cx e
    ('(' :: r.1 ++ [')'], r.2.plus 1 1)
  | .amt v c =>
    let n := cx.num v c
    if c.isEmpty then (n, .part (byteLen n))
    else (n ++ ' ' :: c.toList, .complete (byteLen n))
end

/-- `Display for WithContext<ValueExpr>` (the alignment is dropped) -/
def printVExpr (cx : Ctx) (v : VExpr) : List Char := (fmtVExpr cx v).1

/-- `print_clear_state` -/
def clearMark : ClearState → List Char
  | .uncleared => []
  | .cleared => ['*', ' ']
  | .pending => ['!', ' ']

/-- `Display for WithContext<Lot>`: price, date, note — in this order -/
def printLot (cx : Ctx) (l : Lot) : List Char :=
  (match l.price with
    | some (.total e) => " {{".toList ++ printVExpr cx e ++ "}}".toList
    | some (.rate e) => " {".toList ++ printVExpr cx e ++ "}".toList
    | none => []) ++
  (match l.date with
    | some d => " [".toList ++ fmtDate d ++ "]".toList
    | none => []) ++
  (match l.note with
    | some n => " (".toList ++ n.toList ++ ")".toList
    | none => [])

/-- the cost part of a posting amount -/
def printCost (cx : Ctx) : Option Exchange → List Char
  | some (.rate v) => " @ ".toList ++ printVExpr cx v
  | some (.total v) => " @@ ".toList ++ printVExpr cx v
  | none => []

/-- `account_width`: `width_cjk(account) + width(clear mark)` -/
def accountWidth (cx : Ctx) (p : Posting) : Nat :=
  strWidth cx.w p.account.toList + strWidth cx.w (clearMark p.clear)

/-- the amount part of a posting line: blanks up to the column, the expression, lot, cost -/
def amountPart (cx : Ctx) (p : Posting) : List Char :=
  match p.amount with
  | none => []
  | some a =>
    let r := fmtVExpr cx a.amount
    spaces (getColumn Params.amountColumn (accountWidth cx p + r.2.absolute) Params.amountPadding)
      ++ r.1 ++ printLot cx a.lot ++ printCost cx a.cost

/-- `trailing`: display width of what follows the aligned number inside the balance expression.
(Rust: `width_cjk(balance_str) - alignment` on `usize`; the subtraction cannot underflow when the characters a
number is printed with have width 1 — `Okane.Print.trailing_no_underflow` in `Props/C19.lean`.) -/
def trailing (cx : Ctx) (b : VExpr) : Nat :=
  strWidth cx.w (fmtVExpr cx b).1 - (fmtVExpr cx b).2.absolute

/-- `balance_padding` -/
def balancePadding (cx : Ctx) (p : Posting) (b : VExpr) : Nat :=
  if p.amount.isSome then 0
  else getColumn (Params.balanceColumn + trailing cx b) (accountWidth cx p) Params.balancePadding

/-- the balance part: `write!(f, "{:>width$} {}", " =", balance, width = balance_padding)` -/
def balancePart (cx : Ctx) (p : Posting) : List Char :=
  match p.balance with
  | none => []
  | some b => padLeft (balancePadding cx p b) [' ', '='] ++ ' ' :: printVExpr cx b

/-- `Display for MetadataValue` -/
def printMetaValue : MetaValue → List Char
  | .expr e => ":: ".toList ++ e.toList
  | .text t => ": ".toList ++ t.toList

/-- `Display for Metadata` -/
def printMetadata : Metadata → List Char
  | .wordTags tags => ':' :: tags.flatMap (fun t => t.toList ++ [':'])
  | .keyValue k v => k.toList ++ printMetaValue v
  | .comment s => s.toList

/-- `writeln!(f, "    ; {}", m)` without the line feed -/
def metaLine (indent : Nat) (m : Metadata) : List Char := spaces indent ++ ';' :: ' ' :: printMetadata m

/-- the first line of a posting (without the line feed) -/
def postingHead (cx : Ctx) (p : Posting) : List Char :=
  spaces Params.postingIndent ++ clearMark p.clear ++ p.account.toList ++ amountPart cx p ++ balancePart cx p

/-- `Display for WithContext<Posting>` as line bodies -/
def postingLines (cx : Ctx) (p : Posting) : List (List Char) :=
  postingHead cx p :: p.metadata.map (metaLine Params.postMetaIndent)

/-- the first line of a transaction -/
def txnHeader (t : Transaction) : List Char :=
  fmtDate t.date ++
  (match t.effectiveDate with
    | some e => '=' :: fmtDate e
    | none => []) ++
  ' ' :: clearMark t.clear ++
  (match t.code with
    | some c => '(' :: c.toList ++ [')', ' ']
    | none => []) ++
  t.payee.toList

/-- `Display for WithContext<Transaction>` as line bodies -/
def txnLines (cx : Ctx) (t : Transaction) : List (List Char) :=
  txnHeader t :: t.metadata.map (metaLine Params.txnMetaIndent) ++ t.posts.flatMap (postingLines cx)

/-- `Display for AccountDetail` -/
def accountDetailLines : AccountDetail → List (List Char)
  | .comment s => lineWrap Params.detailCommentPrefix.toList s.toList
  | .note s => lineWrap Params.detailNotePrefix.toList s.toList
  | .alias s => [Params.detailAliasPrefix.toList ++ s.toList]

/-- `Display for WithContext<CommodityDetail>` -/
def commodityDetailLines (cx : Ctx) : CommodityDetail → List (List Char)
  | .comment s => lineWrap Params.cdetailCommentPrefix.toList s.toList
  | .note s => lineWrap Params.cdetailNotePrefix.toList s.toList
  | .alias s => [Params.cdetailAliasPrefix.toList ++ s.toList]
  | .format v c => [Params.cdetailFormatPrefix.toList ++ printVExpr cx (.amt v c)]

/-- `Display for WithContext<LedgerEntry>` as line bodies -/
def entryLines (cx : Ctx) : Entry → List (List Char)
  | .txn t => txnLines cx t
  | .comment s => lineWrap [';'] s.toList
  | .applyTag k v =>
    ["apply tag ".toList ++ k.toList ++
      (match v with
        | none => []
        | some v => printMetaValue v)]
  | .endApplyTag => ["end apply tag".toList]
  | .include p => ["include ".toList ++ p.toList]
  | .account n ds => ("account ".toList ++ n.toList) :: ds.flatMap accountDetailLines
  | .commodity n ds => ("commodity ".toList ++ n.toList) :: ds.flatMap (commodityDetailLines cx)

/-- the printed text of one entry, for any width function and number printer -/
def printEntryG (cx : Ctx) (e : Entry) : List Char := unlines (entryLines cx e)

/-- `FormatOptions::format` after parsing: `writeln!(w, "{}", ctx.as_display(&entry))` for every entry -/
def formatEntriesG (cx : Ctx) (es : List Entry) : List Char := es.flatMap (fun e => printEntryG cx e ++ ['\n'])

/-- `format::FormatError` (`IO` is not modelled: reading and writing are assumed to succeed) -/
inductive FormatErr (ε : Type) where
  | parse (e : ε)
  | unsupportedRecursive
  deriving Repr, DecidableEq

/-- the loop of `FormatOptions::format` over what `parse_ledger` yields: every entry is written as soon as it is parsed;
the first parse error ends the loop (`parsed?`), and what has been written stays written. -/
def formatResults {ε : Type} (cx : Ctx) : List (Except ε Entry) → List Char × Option ε
  | [] => ([], none)
  | .error e :: _ => ([], some e)
  | .ok en :: rest =>
    let r := formatResults cx rest
    (printEntryG cx en ++ '\n' :: r.1, r.2)

/-- `FormatOptions::format` (and `cli/src/format.rs::format`, which calls it with `recursive(false)`): the text written
and the error returned, if any -/
def formatOptionsFormat {ε : Type} (cx : Ctx) (recursive : Bool) (parsed : List (Except ε Entry)) :
    List Char × Option (FormatErr ε) :=
  if recursive then ([], some .unsupportedRecursive)
  else
    let r := formatResults cx parsed
    (r.1, r.2.map .parse)

/-! ## The width table (`unicode-width 0.2.0`, `width_cjk`) for the characters the generators use

`widthCjk` is exact on `inWidthTable`; the correspondence stream `c19 width` compares every code point of the
table's domain with the real library on every run. -/

/-- code-point ranges (inclusive) of width 0 inside the table's domain
(soft hyphen, Cyrillic combining marks, ideographic tone marks, kana voicing marks, halfwidth voicing marks and filler) -/
def zeroRanges : List (Nat × Nat) :=
  [(0xAD, 0xAD), (0x483, 0x489), (0x302A, 0x302F), (0x3099, 0x309A), (0xFF9E, 0xFFA0)]

/-- code-point ranges (inclusive) of width 2 in an East Asian context inside the table's domain:
East-Asian-ambiguous characters that are neither letters nor modifier symbols, and the wide / fullwidth blocks -/
def wideRanges : List (Nat × Nat) :=
  [ -- Latin-1 supplement
    (0xA1, 0xA1), (0xA4, 0xA4), (0xA7, 0xA7), (0xAE, 0xAE), (0xB0, 0xB3), (0xB6, 0xB7), (0xB9, 0xB9),
    (0xBC, 0xBF), (0xD7, 0xD7), (0xF7, 0xF7),
    -- Greek ano teleia
    (0x387, 0x387),
    -- general punctuation
    (0x2010, 0x2010), (0x2013, 0x2016), (0x2018, 0x2019), (0x201C, 0x201D), (0x2020, 0x2022), (0x2024, 0x2027),
    (0x2030, 0x2030), (0x2032, 0x2033), (0x2035, 0x2035), (0x203B, 0x203B), (0x203E, 0x203E),
    -- euro sign; letterlike symbols
    (0x20AC, 0x20AC), (0x2103, 0x2103), (0x2105, 0x2105), (0x2109, 0x2109), (0x2116, 0x2116), (0x2121, 0x2122),
    -- arrows
    (0x2190, 0x219B), (0x21AE, 0x21AE), (0x21B8, 0x21B9), (0x21CE, 0x21CF), (0x21D2, 0x21D2), (0x21D4, 0x21D4),
    (0x21E7, 0x21E7),
    -- mathematical operators
    (0x2200, 0x2200), (0x2202, 0x2204), (0x2207, 0x2209), (0x220B, 0x220C), (0x220F, 0x220F), (0x2211, 0x2211),
    (0x2215, 0x2215), (0x221A, 0x221A), (0x221D, 0x2220), (0x2223, 0x222C), (0x222E, 0x222E), (0x2234, 0x2237),
    (0x223C, 0x223D), (0x2241, 0x2241), (0x2248, 0x2249), (0x224C, 0x224C), (0x2252, 0x2252), (0x2260, 0x2262),
    (0x2264, 0x2267), (0x226A, 0x226B), (0x226E, 0x2271), (0x2282, 0x2289), (0x2295, 0x2295), (0x2299, 0x2299),
    (0x22A5, 0x22A5), (0x22BF, 0x22BF),
    -- enclosed alphanumerics, box drawing, block elements, geometric shapes
    (0x2460, 0x24E9), (0x24EB, 0x254B), (0x2550, 0x2573), (0x2580, 0x258F), (0x2592, 0x2595), (0x25A0, 0x25A1),
    (0x25A3, 0x25A9), (0x25B2, 0x25B3), (0x25B6, 0x25B7), (0x25BC, 0x25BD), (0x25C0, 0x25C1), (0x25C6, 0x25C8),
    (0x25CB, 0x25CB), (0x25CE, 0x25D1), (0x25E2, 0x25E5), (0x25EF, 0x25EF), (0x25FD, 0x25FE),
    -- miscellaneous symbols
    (0x2605, 0x2606), (0x2609, 0x2609), (0x260E, 0x260F), (0x2614, 0x2615), (0x261C, 0x261C), (0x261E, 0x261E),
    (0x2640, 0x2640), (0x2642, 0x2642), (0x2648, 0x2653), (0x2660, 0x2661), (0x2663, 0x2665), (0x2667, 0x266A),
    (0x266C, 0x266D), (0x266F, 0x266F),
    -- CJK symbols and punctuation, Hiragana, Katakana
    (0x3000, 0x3029), (0x3030, 0x303E), (0x3041, 0x3096), (0x309B, 0x30FF),
    -- CJK unified ideographs
    (0x4E00, 0x9FFF),
    -- Hangul syllables
    (0xAC00, 0xD7A3),
    -- fullwidth forms
    (0xFF01, 0xFF60), (0xFFE0, 0xFFE6),
    -- emoticons
    (0x1F600, 0x1F64F) ]

/-- the domain on which `widthCjk` is claimed (and checked on every run) to equal `width_cjk` -/
def tableRanges : List (Nat × Nat) :=
  [(0x20, 0x7E), (0xA0, 0x17F), (0x370, 0x3FF), (0x400, 0x4FF), (0x2010, 0x2027), (0x2030, 0x205E),
   (0x20A0, 0x20C0), (0x2100, 0x214F), (0x2190, 0x21FF), (0x2200, 0x22FF), (0x2460, 0x24FF), (0x2500, 0x25FF),
   (0x2600, 0x266F), (0x3000, 0x30FF), (0x4E00, 0x9FFF), (0xAC00, 0xD7A3), (0xFF00, 0xFFEF), (0x1F600, 0x1F64F)]

def inRanges (rs : List (Nat × Nat)) (n : Nat) : Bool := rs.any fun r => decide (r.1 ≤ n) && decide (n ≤ r.2)

def inWidthTable (c : Char) : Bool := inRanges tableRanges c.toNat

/-- `UnicodeWidthChar::width_cjk` on `inWidthTable` (1 outside) -/
def widthCjk (c : Char) : Nat :=
  if inRanges zeroRanges c.toNat then 0
  else if inRanges wideRanges c.toNat then 2
  else 1

/-! ## The standard instance -/

/-- the printer as `okane` runs it: unicode-width's table, `rescale(amount, ctx).to_string()` -/
def Ctx.std (prec : String → Nat) : Ctx where
  w := widthCjk
  num := fun v c => Literal.printPDec (Literal.displayRescale prec v c)

/-- `ctx.as_display(&entry).to_string()` with `ctx.precisions = prec` (0 for an undeclared commodity) -/
def printEntry (prec : String → Nat) (e : Entry) : List Char := printEntryG (Ctx.std prec) e

/-- `FormatOptions::format` on the parsed entries (the real one uses `DisplayContext::default()`: `prec = fun _ => 0`) -/
def formatEntries (prec : String → Nat) (es : List Entry) : List Char := formatEntriesG (Ctx.std prec) es

end Okane.Print
