import Okane.Model.Import
/-!
# CSV importer, the logic after decoding (mirror of `cli/src/import/csv.rs`)

Decoding is outside the model and enters as data or parameters:
* the header and the records are lists of cells (what the `csv` crate yields under the importer's
  reader configuration: flexible, configured delimiter, skipped head lines),
* templates arrive parsed (`template.rs` `FromStr` is decoding; `Template::render` is modelled),
* `parseAmt`  — `syntax::expr::Amount::try_from(&str)` followed by `.value.value` (the number parser),
* `parseDate` — `NaiveDate::parse_from_str(_, format.date)`,
* `cap`       — the regex engine (`Import.Captures`).
Every theorem about this file holds for all such functions.

Branch order follows `csv::import`, so that the first error the Rust code meets is the one the model reports.
-/
namespace Okane.Import
open Okane

/-! ## Decimal arithmetic used by the conversion block -/
namespace Dec

/-- `Decimal * Decimal` inside the exact range: a zero operand gives `Decimal::ZERO`; otherwise sign = xor,
mantissa product, scale sum (rust_decimal rescales only beyond 96 bits / scale 28, which is not modelled). -/
def mul (a b : Dec) : Dec :=
  if a.mant = 0 ∨ b.mant = 0 then ⟨false, 0, 0⟩
  else ⟨a.neg != b.neg, a.mant * b.mant, a.scale + b.scale⟩

/-- smallest scale `s ≤ fuel + s₀` at which `num / den` is a whole number of `10^-s` units -/
def exactAt (num den : Nat) : Nat → Nat → Option (Nat × Nat)
  | 0, s => if (num * 10 ^ s) % den = 0 then some ((num * 10 ^ s) / den, s) else none
  | fuel + 1, s => if (num * 10 ^ s) % den = 0 then some ((num * 10 ^ s) / den, s) else exactAt num den fuel (s + 1)

/-- `Decimal / Decimal`.  A zero divisor is a **panic** in rust_decimal (`Division by zero`); a zero dividend
gives `Decimal::ZERO`.  The quotient is represented with the smallest scale ≤ 28 at which it is exact (the
value is what rust_decimal computes; the scale it picks may carry trailing zeros, which no consumer here
looks at).  When the quotient has no exact representation with ≤ 28 places it is rounded half-up at 28
places and the result is flagged `inexact` (rust_decimal rounds to as many places as fit 96 bits). -/
def div (a b : Dec) : Outcome ImportErr (Dec × Bool) :=
  if b.mant = 0 then .panic "csv: amount / rate: Decimal division by zero"
  else if a.mant = 0 then .ok (⟨false, 0, 0⟩, false)
  else
    let num := a.mant * 10 ^ b.scale
    let den := b.mant * 10 ^ a.scale
    match exactAt num den 28 0 with
    | some (m, s) => .ok (⟨a.neg != b.neg, m, s⟩, false)
    | none => .ok (⟨a.neg != b.neg, (2 * num * 10 ^ 28 + den) / (2 * den), 28⟩, true)

end Dec

/-! ## Field map -/

/-- one segment of a parsed `template::Template` -/
inductive Seg where
  | lit (s : String)
  /-- `{field_key}` -/
  | named (k : FieldKey)
  /-- `{n}`: a column, kept zero based (`OneBasedIndex::as_zero_based`) -/
  | indexed (zeroBased : Nat)
  deriving Repr, DecidableEq, Inhabited

/-- `config::FieldPos` with the template already parsed (`bad`: a template `FromStr` rejects). -/
inductive CsvPos where
  | index (oneBased : Nat)
  | label (s : String)
  | template (segs : List Seg)
  | badTemplate
  deriving Repr, DecidableEq, Inhabited

/-- `csv.rs::Field`. -/
inductive CsvField where
  | column (i : Nat)
  | template (segs : List Seg)
  deriving Repr, DecidableEq, Inhabited

/-- `csv.rs::TxnValueField`. -/
inductive ValueField where
  | creditDebit (credit debit : CsvField)
  | amount (a : CsvField)
  deriving Repr, DecidableEq, Inhabited

/-- `csv.rs::FieldMap`. -/
structure FieldMap where
  date : CsvField
  payee : CsvField
  value : ValueField
  all : AMap FieldKey CsvField
  maxColumn : Nat
  deriving Repr, DecidableEq, Inhabited

/-- `header.iter().enumerate().map(|(k, v)| (v, k)).collect::<HashMap<_,_>>()` then `get(label)`:
the **last** column carrying the label. -/
def labelIndex (header : List String) (label : String) : Option Nat :=
  let idxs := (List.range header.length).filter fun i => header[i]? == some label
  idxs.getLast?

/-- what the importer needs of `config::ConfigEntry` (templates parsed). -/
structure CsvCfg where
  account : String
  accountType : AccountType
  operator : Option String
  primary : String
  conversion : Conversion
  rowOrder : RowOrder
  fields : AMap FieldKey CsvPos
  rewrite : List Rule
  deriving Repr, Inhabited

def resolvePos (header : List String) : CsvPos → Outcome ImportErr CsvField
  | .index i => .ok (.column (i - 1))
  | .label l =>
    match labelIndex header l with
    | some i => .ok (.column i)
    | none => .err (.other "failed to find the field")
  | .template segs => .ok (.template segs)
  | .badTemplate => .err .templateParseFailed

def resolveAll (header : List String) : List (FieldKey × CsvPos) → Outcome ImportErr (AMap FieldKey CsvField)
  | [] => .ok []
  | (k, p) :: rest =>
    match resolvePos header p with
    | .ok f =>
      match resolveAll header rest with
      | .ok m => .ok ((k, f) :: m)
      | .err e => .err e
      | .panic s => .panic s
      | .fuelOut => .fuelOut
    | .err e => .err e
    | .panic s => .panic s
    | .fuelOut => .fuelOut

/-- `FieldMap::try_new`. -/
def FieldMap.tryNew (fields : AMap FieldKey CsvPos) (header : List String) : Outcome ImportErr FieldMap :=
  let notFound := fields.filter fun kv => match kv.2 with
    | .label l => (labelIndex header l).isNone
    | _ => false
  if !notFound.isEmpty then .err (.other "specified labels not found")
  else
    match resolveAll header fields with
    | .ok ki =>
      let cols := ki.filterMap fun kv => match kv.2 with
        | .column i => some i
        | .template _ => none
      let maxColumn := cols.foldl max 0
      match AMap.get? ki .date with
      | none => .err (.invalidConfig "no Date field specified")
      | some date =>
        match AMap.get? ki .payee with
        | none => .err (.invalidConfig "no Payee field specified")
        | some payee =>
          match AMap.get? ki .amount with
          | some a => .ok ⟨date, payee, .amount a, ki, maxColumn⟩
          | none =>
            match AMap.get? ki .credit, AMap.get? ki .debit with
            | some c, some d => .ok ⟨date, payee, .creditDebit c d, ki, maxColumn⟩
            | _, _ => .err (.invalidConfig "either amount or credit/debit pair should be set")
    | .err e => .err e
    | .panic s => .panic s
    | .fuelOut => .fuelOut

/-- `MappedRecord::query`: only plain column references are followed. -/
def queryKey (fm : FieldMap) (rec : List String) : Seg → Option String
  | .lit s => some s
  | .named fk =>
    match AMap.get? fm.all fk with
    | some (.column c) => rec[c]?
    | _ => none
  | .indexed i => rec[i]?

/-- `Template::render` (+ `format!`): the concatenation of the parts; a reference to the field being rendered
or to anything that is not a plain column of the record is an error. -/
def renderTemplate (fm : FieldMap) (key : FieldKey) (rec : List String) : List Seg → Outcome ImportErr String
  | [] => .ok ""
  | seg :: rest =>
    if seg = .named key then .err .templateRenderFailed
    else
      match queryKey fm rec seg with
      | none => .err .templateRenderFailed
      | some part =>
        match renderTemplate fm key rec rest with
        | .ok s => .ok (part ++ s)
        | .err e => .err e
        | .panic s => .panic s
        | .fuelOut => .fuelOut

/-- `FieldMap::resolve`. -/
def FieldMap.resolve (fm : FieldMap) (key : FieldKey) (field : CsvField) (rec : List String) :
    Outcome ImportErr (Option String) :=
  match field with
  | .column i => .ok rec[i]?
  | .template segs =>
    match renderTemplate fm key rec segs with
    | .ok s => .ok (some s)
    | .err e => .err e
    | .panic s => .panic s
    | .fuelOut => .fuelOut

/-- `FieldMap::extract`. -/
def FieldMap.extract (fm : FieldMap) (key : FieldKey) (rec : List String) : Outcome ImportErr (Option String) :=
  match AMap.get? fm.all key with
  | none => .ok none
  | some f => fm.resolve key f rec

/-- the decoders the model is parametric in -/
structure CsvEnv where
  parseAmt : String → Option Dec
  parseDate : String → Option Date
  cap : Captures

/-- `str_to_comma_decimal`. -/
def strToCommaDecimal (env : CsvEnv) (s : String) : Outcome ImportErr (Option Dec) :=
  if s.isEmpty then .ok none
  else match env.parseAmt s with
    | some d => .ok (some d)
    | none => .err (.other "failed to parse comma decimal")

def optDecimal (env : CsvEnv) : Option String → Outcome ImportErr (Option Dec)
  | none => .ok none
  | some s => strToCommaDecimal env s

/-- `FieldMap::amount`. -/
def FieldMap.amount (env : CsvEnv) (fm : FieldMap) (at_ : AccountType) (rec : List String) :
    Outcome ImportErr Dec :=
  match fm.value with
  | .creditDebit credit debit =>
    match fm.resolve .credit credit rec with
    | .ok none => .err (.other "Field credit must exist")
    | .ok (some c) =>
      match fm.resolve .debit debit rec with
      | .ok none => .err (.other "Field debit must exist")
      | .ok (some d) =>
        if !c.isEmpty then
          match strToCommaDecimal env c with
          | .ok v =>
            -- (fix F41) a statement that fills both cells prints a zero in the credit cell of a debit row
            if (v.getD {}).isZero && !d.isEmpty then
              match strToCommaDecimal env d with
              | .ok w => .ok (w.getD {}).negate
              | .err e => .err e
              | .panic s => .panic s
              | .fuelOut => .fuelOut
            else .ok (v.getD {})
          | .err e => .err e
          | .panic s => .panic s
          | .fuelOut => .fuelOut
        else if !d.isEmpty then
          match strToCommaDecimal env d with
          | .ok v => .ok (v.getD {}).negate
          | .err e => .err e
          | .panic s => .panic s
          | .fuelOut => .fuelOut
        else .err (.other "either credit or debit must be non-empty")
      | .err e => .err e
      | .panic s => .panic s
      | .fuelOut => .fuelOut
    | .err e => .err e
    | .panic s => .panic s
    | .fuelOut => .fuelOut
  | .amount a =>
    match fm.resolve .amount a rec with
    | .ok none => .err (.other "Field amount must exist")
    | .ok (some s) =>
      match strToCommaDecimal env s with
      | .ok v =>
        let amount := v.getD {}
        .ok (match at_ with
          | .asset => amount
          | .liability => amount.negate)
      | .err e => .err e
      | .panic s => .panic s
      | .fuelOut => .fuelOut
    | .err e => .err e
    | .panic s => .panic s
    | .fuelOut => .fuelOut

/-- the record as the CSV matchers see it (`CsvMatcher::captures`). -/
def csvRecord (payee : String) (category secondaryCommodity : Option String) : Record := fun f =>
  match f with
  | .payee => .payee (some payee)
  | .category => .text category false
  | .secondaryCommodity => .text secondaryCommodity false
  | _ => .text none false

/-- `str::trim().is_empty()` for the characters the generators use (Unicode `White_Space`). -/
def isBlank (s : String) : Bool := s.toList.all fun c => c.isWhitespace || c == ' ' || c == '　'

/-- the conversion block of `csv::import` (rate key direction, computed vs extracted transferred amount).
Returns the transaction and whether a division was inexact. -/
def applyConversion (txn : Txn) (conv : Conversion) (amount : Dec) (commodity : String) (rate : Option Dec)
    (secondaryAmount : Option Dec) (secondaryCommodity : Option String) : Outcome ImportErr (Txn × Bool) :=
  match rate with
  | none => .err (.other "no rate specified for transaction with conversion")
  | some rate =>
    match conv.commodity.or secondaryCommodity with
    | none => .err (.other "either rewrite.conversion.commodity or secondary_commodity field must be set")
    | some sc =>
      let keyAndComputed : Outcome ImportErr (CommodityPair × Dec × Bool) :=
        match conv.rate with
        | .priceOfPrimary => .ok (⟨sc, commodity⟩, Dec.mul amount rate, false)
        | .priceOfSecondary =>
          match Dec.div amount rate with
          | .ok (q, inexact) => .ok (⟨commodity, sc⟩, q, inexact)
          | .err e => .err e
          | .panic s => .panic s
          | .fuelOut => .fuelOut
      match keyAndComputed with
      | .ok (key, computed, inexact) =>
        match txn.addRate key rate with
        | .ok txn1 =>
          match conv.amount with
          | .extract =>
            match secondaryAmount with
            | none => .err (.other "secondary_amount should be specified when conversion.amount is set to extract")
            | some tr => .ok (txn1.setTransferredAmount ⟨tr, sc⟩, false)
          | .compute => .ok (txn1.setTransferredAmount ⟨computed, sc⟩, inexact)
        | .err e => .err e
        | .panic s => .panic s
        | .fuelOut => .fuelOut
      | .err e => .err e
      | .panic s => .panic s
      | .fuelOut => .fuelOut

/-- everything `csv::import` reads from one record before it builds the transaction -/
structure RowValues where
  date : Date
  payee : String
  amount : Dec
  balance : Option Dec
  secondaryAmount : Option Dec
  secondaryCommodity : Option String
  category : Option String
  commodity : String
  rate : Option Dec
  deriving Repr, Inhabited

/-- the rewrite rules' verdict on the record (`extractor.extract(Record {..})`) -/
def rowFragment (env : CsvEnv) (cfg : CsvCfg) (v : RowValues) : Fragment :=
  extract env.cap cfg.rewrite (csvRecord v.payee v.category v.secondaryCommodity)

/-- the conversion in force for the record: the rule's, else the configured default when rate, secondary
amount and secondary commodity are all present; none when it is `disabled`. -/
def selectedConversion (env : CsvEnv) (cfg : CsvCfg) (v : RowValues) : Option Conversion :=
  let defaultConversion :=
    if v.rate.isSome && v.secondaryAmount.isSome && v.secondaryCommodity.isSome then some cfg.conversion else none
  ((rowFragment env cfg v).conversion.or defaultConversion).filter fun x => !x.disabled

/-- the loop body from `Txn::new` up to the charge (everything before the conversion block). -/
def baseTxn (env : CsvEnv) (cfg : CsvCfg) (fm : FieldMap) (rec : List String) (v : RowValues) :
    Outcome ImportErr Txn :=
  let fragment := rowFragment env cfg v
  let payee := fragment.payee.getD v.payee
  let txn := Txn.new v.date payee ⟨v.amount, v.commodity⟩
  let txn := (txn.codeOption fragment.code).destAccountOption fragment.account
  let txn := if !fragment.cleared then txn.setClearState .pending else txn
  match fm.extract .note rec with
  | .ok note =>
    let txn := match note with
      | some n => if !isBlank n then txn.addComment n else txn
      | none => txn
    let txn := match v.balance with
      | some b => txn.setBalance ⟨b, v.commodity⟩
      | none => txn
    match fm.extract .charge rec with
    | .ok none => .ok txn
    | .ok (some ch) =>
      match cfg.operator with
      | none => .err (.invalidConfig "config should have operator to have charge")
      | some op =>
        match strToCommaDecimal env ch with
        | .ok (some value) => if !value.isZero then .ok (txn.addCharge op ⟨value, v.commodity⟩) else .ok txn
        | .ok none => .ok txn
        | .err e => .err e
        | .panic s => .panic s
        | .fuelOut => .fuelOut
    | .err e => .err e
    | .panic s => .panic s
    | .fuelOut => .fuelOut
  | .err e => .err e
  | .panic s => .panic s
  | .fuelOut => .fuelOut

/-- the part of the loop body after the fields were read: builds the `Txn` (`Txn::new` … `res.push(txn)`). -/
def buildTxn (env : CsvEnv) (cfg : CsvCfg) (fm : FieldMap) (rec : List String) (v : RowValues) :
    Outcome ImportErr (Txn × Bool) :=
  match baseTxn env cfg fm rec v with
  | .ok txn =>
    match selectedConversion env cfg v with
    | some conv => applyConversion txn conv v.amount v.commodity v.rate v.secondaryAmount v.secondaryCommodity
    | none => .ok (txn, false)
  | .err e => .err e
  | .panic s => .panic s
  | .fuelOut => .fuelOut

/-- reading the fields of one record, in the order of the loop body (`none`: row skipped, empty date). -/
def readRow (env : CsvEnv) (cfg : CsvCfg) (fm : FieldMap) (rec : List String) :
    Outcome ImportErr (Option RowValues) := do
  if rec.length ≤ fm.maxColumn then .err (.other "csv record length too short") else
  let datestr ← fm.extract .date rec
  match datestr with
  | none => .err (.other "Field date must be present")
  | some datestr =>
    if datestr.isEmpty then .ok none else
    match env.parseDate datestr with
    | none => .err .invalidDatetime
    | some date =>
      let payee ← fm.extract .payee rec
      match payee with
      | none => .err (.other "Field payee must be present")
      | some payee =>
        let amount ← fm.amount env cfg.accountType rec
        let balance ← (fm.extract .balance rec) >>= optDecimal env
        let secondaryAmount ← (fm.extract .secondaryAmount rec) >>= optDecimal env
        let secondaryCommodity ← fm.extract .secondaryCommodity rec
        let category ← fm.extract .category rec
        let commodity ← fm.extract .commodity rec
        let rate ← (fm.extract .rate rec) >>= optDecimal env
        .ok (some ⟨date, payee, amount, balance, secondaryAmount, secondaryCommodity, category,
                   commodity.getD cfg.primary, rate⟩)

/-- one record of `csv::import`'s loop: `none` = skipped (empty date). -/
def csvRow (env : CsvEnv) (cfg : CsvCfg) (fm : FieldMap) (rec : List String) :
    Outcome ImportErr (Option (Txn × Bool)) :=
  match readRow env cfg fm rec with
  | .ok none => .ok none
  | .ok (some v) =>
    match buildTxn env cfg fm rec v with
    | .ok r => .ok (some r)
    | .err e => .err e
    | .panic s => .panic s
    | .fuelOut => .fuelOut
  | .err e => .err e
  | .panic s => .panic s
  | .fuelOut => .fuelOut

/-- the record loop: the first failing record aborts the import. -/
def csvRows (env : CsvEnv) (cfg : CsvCfg) (fm : FieldMap) : List (List String) → Outcome ImportErr (List (Txn × Bool))
  | [] => .ok []
  | rec :: rest =>
    match csvRow env cfg fm rec with
    | .ok r =>
      match csvRows env cfg fm rest with
      | .ok ts => .ok (r.toList ++ ts)
      | .err e => .err e
      | .panic s => .panic s
      | .fuelOut => .fuelOut
    | .err e => .err e
    | .panic s => .panic s
    | .fuelOut => .fuelOut

/-- `row_order`: the result is handed over oldest first. -/
def applyRowOrder {α} (o : RowOrder) (l : List α) : List α :=
  match o with
  | .oldToNew => l
  | .newToOld => l.reverse

/-- `csv::import` after decoding: field map from the header, then the records. -/
def csvImportFlagged (env : CsvEnv) (cfg : CsvCfg) (header : List String) (records : List (List String)) :
    Outcome ImportErr (List (Txn × Bool)) :=
  match FieldMap.tryNew cfg.fields header with
  | .ok fm =>
    match csvRows env cfg fm records with
    | .ok ts => .ok (applyRowOrder cfg.rowOrder ts)
    | .err e => .err e
    | .panic s => .panic s
    | .fuelOut => .fuelOut
  | .err e => .err e
  | .panic s => .panic s
  | .fuelOut => .fuelOut

def csvImport (env : CsvEnv) (cfg : CsvCfg) (header : List String) (records : List (List String)) :
    Outcome ImportErr (List Txn) :=
  (csvImportFlagged env cfg header records).map' (List.map Prod.fst)

/-- which cell decides the amount of a row with a credit and a debit column (`parse`: how a non-empty cell is read): the
credit cell when it is filled with something other than zero (or the debit cell is empty), else minus the debit cell -/
def CreditDebitRule (parse : String → Option Dec) (credit debit : String) (a : Dec) : Prop :=
  (credit.isEmpty = false ∧ parse credit = some a ∧ (a.isZero = false ∨ debit.isEmpty = true)) ∨
  (debit.isEmpty = false ∧ (credit.isEmpty = true ∨ (credit.isEmpty = false ∧ ∃ c0, parse credit = some c0 ∧ c0.isZero = true)) ∧
    ∃ d, parse debit = some d ∧ a = d.negate)

end Okane.Import
