import Okane.Base.Outcome
import Okane.Model.Syntax
/-!
# Numeric literals (mirror of `core/src/syntax/pretty_decimal.rs`, token extent of `parse/primitive.rs`)

* `scan`      — `impl FromStr for PrettyDecimal`: the byte state machine, transliterated branch by branch
                (`comma_pos`, `format`, `mantissa`, `scale`, `prefix_len`, `sign`, `has_digit`), the end-of-input
                validation and `Decimal::try_from_i128_with_scale`.
* `printPDec` — `impl Display for PrettyDecimal`: rust_decimal's `Display` for `Plain`/`None`, the hand-written
                `Comma3Dot` branch digit for digit.
* `rescale`   — `PrettyDecimal::rescale` = `Decimal::rescale` (rust_decimal 1.37.1 `ops/array.rs::rescale::<true>`).
* `tokenSplit`— the extent of the token `primitive::pretty_decimal` hands to `from_str`.

Text is `List Char`.  The Rust iterates over *bytes*; every branch that continues the loop requires an ASCII
byte, so the byte index equals the character index for as long as the loop runs, and a non-ASCII character
fails at its first byte exactly like an unexpected ASCII character does.
-/
namespace Okane.Literal
open Okane

/-- `pretty_decimal::Error` (positions kept; `InvalidDecimal` covers the three rust_decimal causes). -/
inductive LitErr where
  | unexpectedChar (i : Nat)
  | commaRequired (i : Nat)
  | unexpectedEnd (n : Nat)
  | invalidDecimal
  deriving Repr, DecidableEq, Inhabited

/-- `i128::MAX` -/
def i128Max : Nat := 2 ^ 127 - 1
/-- rust_decimal `MAX_I128_REPR` = 2^96 − 1 -/
def maxMant : Nat := 2 ^ 96 - 1
/-- rust_decimal `Decimal::MAX_SCALE` -/
def maxScale : Nat := 28

/-- the local variables of `from_str` -/
structure St where
  commaPos : Option Nat := none
  fmt : Option Fmt := none
  mant : Nat := 0
  scale : Option Nat := none
  prefixLen : Nat := 0
  neg : Bool := false
  hasDigit : Bool := false
  deriving Repr, DecidableEq, Inhabited

/-- the closure `aligned_comma(offset, cp, pos)` -/
def alignedComma (offset : Nat) (cp : Option Nat) (pos : Nat) : Bool :=
  match cp with
  | none => decide (pos > offset) && decide (pos ≤ 3 + offset)
  | some p => p == pos

/-- value of an ASCII digit -/
def digitVal (c : Char) : Nat := c.toNat - 48

/-- one iteration of `for (i, c) in s.bytes().enumerate()`; the `match` arms in source order. -/
def step (st : St) (i : Nat) (c : Char) : Outcome LitErr St :=
  -- (_, 0, b'-')
  if i = 0 ∧ c = '-' then .ok { st with prefixLen := 1, neg := true }
  -- (_, _, b',') if scale.is_none() && aligned_comma(prefix_len, comma_pos, i)
  else if c = ',' ∧ st.scale.isNone = true ∧ alignedComma st.prefixLen st.commaPos i = true then
    .ok { st with fmt := some .comma3dot, commaPos := some (i + 4) }
  -- (_, _, b'.') if scale.is_none() && (comma_pos.is_none() || comma_pos == Some(i))
  else if c = '.' ∧ st.scale.isNone = true ∧ (st.commaPos = none ∨ st.commaPos = some i) then
    .ok { st with scale := some 0, commaPos := none }
  -- (Some(cp), _, _) if cp == i
  else if st.commaPos = some i then .err (.commaRequired i)
  -- _ if c.is_ascii_digit()
  else if c.isDigit = true then
    let fmt := if st.scale.isNone = true ∧ st.fmt.isNone = true ∧ i ≥ 3 + st.prefixLen then some Fmt.plain else st.fmt
    -- mantissa.checked_mul(10).and_then(|m| m.checked_add(digit)).ok_or(ExceedsMaximumPossibleValue)?
    let m := st.mant * 10 + digitVal c
    if m > i128Max then .err .invalidDecimal
    else .ok { st with fmt := fmt, mant := m, scale := st.scale.map (· + 1), hasDigit := true }
  else .err (.unexpectedChar i)

/-- the `for` loop, from byte index `i` -/
def loop (st : St) (i : Nat) : List Char → Outcome LitErr St
  | [] => .ok st
  | c :: cs =>
    match step st i c with
    | .ok st' => loop st' (i + 1) cs
    | .err e => .err e
    | .panic p => .panic p
    | .fuelOut => .fuelOut

/-- the code after the loop: end-of-input validation and `Decimal::try_from_i128_with_scale(sign * mantissa, scale)`.
A zero mantissa yields a positive zero whatever the sign (`num < 0` is the sign flag). -/
def finish (st : St) (len : Nat) : Outcome LitErr PDec :=
  if st.hasDigit = false ∨ (∃ cp, st.commaPos = some cp ∧ cp ≠ len) then .err (.unexpectedEnd len)
  else
    let scale := st.scale.getD 0
    if scale > maxScale then .err .invalidDecimal
    else if st.mant > maxMant then .err .invalidDecimal
    else .ok { neg := st.neg && st.mant != 0, mant := st.mant, scale := scale, fmt := st.fmt }

/-- `<PrettyDecimal as FromStr>::from_str` -/
def scan (s : List Char) : Outcome LitErr PDec :=
  match loop {} 0 s with
  | .ok st => finish st s.length
  | .err e => .err e
  | .panic p => .panic p
  | .fuelOut => .fuelOut

/-! ## Printing -/

def digitChar (d : Nat) : Char := Char.ofNat (48 + d)

/-- decimal digits of `n`, most significant first; `"0"` for zero (Rust `{}` of an integer) -/
def digits (n : Nat) : List Char :=
  if _h : n < 10 then [digitChar n] else digits (n / 10) ++ [digitChar (n % 10)]
termination_by n
decreasing_by omega

/-- the digit vector rust_decimal's `to_str_internal` builds: no digit at all for a zero mantissa -/
def digits0 (n : Nat) : List Char := if n = 0 then [] else digits n

/-- left-pad with `'0'` to at least `w` characters -/
def padZeros (w : Nat) (ds : List Char) : List Char := List.replicate (w - ds.length) '0' ++ ds

/-- `impl Display for Decimal` (no precision, no width): sign, integer digits (at least `0`), and exactly
`scale` fractional digits. -/
def printPlain (d : PDec) : List Char :=
  let chars := padZeros d.scale (digits0 d.mant)
  let wholeLen := chars.length - d.scale
  let whole := chars.take wholeLen
  let frac := chars.drop wholeLen
  (if d.neg then ['-'] else []) ++ (if whole.isEmpty then ['0'] else whole) ++ (if d.scale = 0 then [] else '.' :: frac)

/-- the `while remainder.len() > scale` loop of the `Comma3Dot` branch: returns what it wrote, the remainder,
and `initial_integer`.  `fuel` bounds the number of iterations (each removes `comma_pos ≥ 1` characters). -/
def groupLoop : Nat → List Char → Nat → Nat → Bool → List Char × List Char × Bool
  | 0, rem, _, _, initial => ([], rem, initial)
  | fuel + 1, rem, scale, commaPos, initial =>
    if rem.length > scale then
      let sep := if initial then [] else [',']
      let (out, rem', ini') := groupLoop fuel (rem.drop commaPos) scale 3 false
      (sep ++ rem.take commaPos ++ out, rem', ini')
    else ([], rem, initial)

/-- the `Some(Format::Comma3Dot)` branch of `Display for PrettyDecimal` -/
def printComma (d : PDec) : List Char :=
  let mantissa := padZeros d.scale (digits d.mant)
  let cp0 := (mantissa.length - d.scale) % 3
  let commaPos := if cp0 = 0 then 3 else cp0
  let (out, rem, initial) := groupLoop mantissa.length mantissa d.scale commaPos true
  (if d.neg then ['-'] else []) ++ out ++ (if initial then ['0'] else []) ++ (if rem.isEmpty then [] else '.' :: rem)

/-- `impl Display for PrettyDecimal` -/
def printPDec (d : PDec) : List Char :=
  match d.fmt with
  | some .comma3dot => printComma d
  | _ => printPlain d

/-! ## Rescaling -/

/-- up-scaling loop: multiply by ten while the mantissa stays below 2^96; returns the mantissa and the
number of steps *not* taken. -/
def mulLoop (mant : Nat) : Nat → Nat × Nat
  | 0 => (mant, 0)
  | diff + 1 => if mant * 10 > maxMant then (mant, diff + 1) else mulLoop (mant * 10) diff

/-- down-scaling loop: `(value, last remainder, stopped early on zero)` -/
def divLoop (v rem : Nat) : Nat → Nat × Nat × Bool
  | 0 => (v, rem, false)
  | diff + 1 => if v = 0 then (0, 0, true) else divLoop (v / 10) (v % 10) diff

/-- `PrettyDecimal::rescale` (`Decimal::rescale`, rounding variant). -/
def rescale (d : PDec) (newScale : Nat) : PDec :=
  if d.scale = newScale then d
  else if d.mant = 0 then { d with scale := min newScale maxScale }
  else if d.scale > newScale then
    let (v, rem, early) := divLoop d.mant 0 (d.scale - newScale)
    { d with mant := if !early && rem ≥ 5 then (v + 1) % 2 ^ 96 else v, scale := newScale }
  else
    let (m, left) := mulLoop d.mant (newScale - d.scale)
    { d with mant := m, scale := newScale - left }

/-- `display.rs::rescale`: at least the amount's own scale, at least the commodity's declared precision. -/
def displayRescale (prec : String → Nat) (v : PDec) (commodity : String) : PDec :=
  rescale v (max v.scale (prec commodity))

/-! ## Token extent -/

/-- characters `take_while` accepts in `primitive::pretty_decimal` -/
def isNumChar (c : Char) : Bool := c.isDigit || c == ',' || c == '.'

/-- `(opt(one_of('-')), take_while(1.., [0-9,.])).take()`: the token and the rest, or the input position at
which the sub-parser failed (after the minus sign, if one was consumed). -/
def tokenSplit (inp : List Char) : Except (List Char) (List Char × List Char) :=
  let (sign, body) := match inp with
    | '-' :: r => (['-'], r)
    | _ => ([], inp)
  let run := body.takeWhile isNumChar
  if run.isEmpty then .error body else .ok (sign ++ run, body.dropWhile isNumChar)

end Okane.Literal
