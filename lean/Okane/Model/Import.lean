import Okane.Base.Outcome
import Okane.Base.AMap
import Okane.Model.Syntax
/-!
# Importer record logic (mirror of `cli/src/import/{single_entry,extract,config}.rs`)

Everything here starts *after* decoding: CSV / XML / YAML / regex are external libraries and enter as
data (decoded records, decoded configuration documents) or as parameters (`Captures`, the regex engine).

* `Dec`, `OwnedAmount`, `Txn`, the `Txn` builder methods, `toDoubleEntry`   — `single_entry.rs`
* `Matched`, `Fragment`, `Rule`, `andExtract`, `orExtract`, `ruleExtract`, `extract` — `extract.rs`
* `ConfigFragment`, `ConfigEntry`, `merge`, `select`                         — `config.rs`

Hash maps: `FieldMatcher.fields` is a `HashMap<RewriteField, String>`; the list order of
`FieldMatcher.fields` *is* the iteration order of that map (the only place the importer iterates a hash map
on data that reaches the output).  `Txn.rates` is only ever looked up (`AMap.get?`).
-/
namespace Okane.Import
open Okane

/-! ## Numbers and amounts -/

/-- `rust_decimal::Decimal` as carried by the importer: sign *flag* (a zero can be negative),
absolute mantissa, scale. -/
structure Dec where
  neg : Bool := false
  mant : Nat := 0
  scale : Nat := 0
  deriving Repr, DecidableEq, Inhabited

namespace Dec
/-- `Decimal::is_sign_positive`: the flag only (true for `0`, false for `-0`). -/
def isSignPositive (d : Dec) : Bool := !d.neg
/-- `Decimal::is_sign_negative`. -/
def isSignNegative (d : Dec) : Bool := d.neg
/-- `Decimal::is_zero`. -/
def isZero (d : Dec) : Bool := d.mant == 0
/-- `impl Neg for Decimal`: `copy.set_sign_negative(self.is_sign_positive())` — flips the flag, also on zero. -/
def negate (d : Dec) : Dec := { d with neg := d.isSignPositive }
/-- `Decimal::set_sign_positive`. -/
def setSignPositive (d : Dec) (positive : Bool) : Dec := { d with neg := !positive }
/-- the value as a rational -/
def toRat (d : Dec) : Rat :=
  let v : Rat := (d.mant : Rat) / (10 : Rat) ^ d.scale
  if d.neg then -v else v
/-- signed mantissa -/
def smant (d : Dec) : Int := if d.neg then -(d.mant : Int) else (d.mant : Int)
/-- `PrettyDecimal::unformatted(value)`: same sign flag, mantissa and scale, no format tag. -/
def toPDec (d : Dec) : PDec := ⟨d.neg, d.mant, d.scale, none⟩
/-- `Decimal + Decimal` (`ops::add::add_sub_internal`) inside the exact range (96-bit mantissa, scale ≤ 28):
a zero operand returns the *other operand unchanged* (its own scale and sign flag); otherwise the operands are
brought to the larger scale; equal signs add, different signs subtract the smaller magnitude from the larger,
the sign being the left operand's unless the right one is larger in magnitude (so `x + (-x)` is a zero with
the left operand's sign).  (rust_decimal's behaviour outside that range is not modelled.) -/
def add (a b : Dec) : Dec :=
  if a.isZero then b
  else if b.isZero then a
  else
    let s := max a.scale b.scale
    let ma := a.mant * 10 ^ (s - a.scale)
    let mb := b.mant * 10 ^ (s - b.scale)
    if a.neg = b.neg then ⟨a.neg, ma + mb, s⟩
    else if ma ≥ mb then ⟨a.neg, ma - mb, s⟩
    else ⟨b.neg, mb - ma, s⟩
end Dec

/-- `import::amount::OwnedAmount`. -/
structure OwnedAmount where
  value : Dec
  commodity : String
  deriving Repr, DecidableEq, Inhabited

namespace OwnedAmount
/-- `impl Neg for OwnedAmount / BorrowedAmount`. -/
def negate (a : OwnedAmount) : OwnedAmount := { a with value := a.value.negate }
end OwnedAmount

/-- `ImportError`, by variant.  The `String` payloads of `other` / `unimplemented` / `invalidConfig` /
`viseca` are short site tags chosen by the model (the Rust messages are free text and are not compared). -/
inductive ImportErr where
  | io | csv | xml | yaml
  | viseca (site : String)
  | invalidFlag (site : String)
  | invalidConfig (site : String)
  | invalidDatetime
  | invalidDecimal
  | invalidRegex
  | templateParseFailed
  | templateRenderFailed
  | other (site : String)
  | unimplemented (site : String)
  | unknownFormat
  deriving Repr, DecidableEq, Inhabited

/-- variant name as printed by the harness (`kind` of the error) -/
def ImportErr.kind : ImportErr → String
  | .io => "IO" | .csv => "CSV" | .xml => "XML" | .yaml => "YAML" | .viseca _ => "Viseca"
  | .invalidFlag _ => "InvalidFlag" | .invalidConfig _ => "InvalidConfig"
  | .invalidDatetime => "InvalidDatetime" | .invalidDecimal => "InvalidDecimal"
  | .invalidRegex => "InvalidRegex" | .templateParseFailed => "TemplateParseFailed"
  | .templateRenderFailed => "TemplateRenderFailed" | .other _ => "Other"
  | .unimplemented _ => "Unimplemented" | .unknownFormat => "UnknownFormat"

/-! ## `single_entry::Txn` -/

/-- `single_entry::Charge`. -/
structure Charge where
  payee : String
  amount : OwnedAmount
  deriving Repr, DecidableEq, Inhabited

/-- `single_entry::CommodityPair`. -/
structure CommodityPair where
  source : String
  target : String
  deriving Repr, DecidableEq, Inhabited

/-- `single_entry::Txn` (field for field). -/
structure Txn where
  date : Date
  effectiveDate : Option Date := none
  code : Option String := none
  payee : String
  comments : List String := []
  destAccount : Option String := none
  clearState : Option ClearState := none
  transferredAmount : Option OwnedAmount := none
  amount : OwnedAmount
  /-- `HashMap<String, OwnedAmount>` keyed by the *target* commodity; only looked up, never iterated. -/
  rates : AMap String OwnedAmount := []
  balance : Option OwnedAmount := none
  charges : List Charge := []
  deriving Repr, Inhabited

namespace Txn

/-- `Txn::new`. -/
def new (date : Date) (payee : String) (amount : OwnedAmount) : Txn :=
  { date := date, payee := payee, amount := amount }

/-- `Txn::effective_date`: set only when it differs from `date`. -/
def setEffectiveDate (t : Txn) (d : Date) : Txn :=
  if t.date ≠ d then { t with effectiveDate := some d } else t

/-- `Txn::code_option`. -/
def codeOption (t : Txn) (c : Option String) : Txn := { t with code := c }
/-- `Txn::code`. -/
def setCode (t : Txn) (c : String) : Txn := { t with code := some c }
/-- `Txn::add_comment`. -/
def addComment (t : Txn) (c : String) : Txn := { t with comments := t.comments ++ [c] }
/-- `Txn::dest_account_option`. -/
def destAccountOption (t : Txn) (a : Option String) : Txn := { t with destAccount := a }
/-- `Txn::dest_account`. -/
def setDestAccount (t : Txn) (a : String) : Txn := { t with destAccount := some a }
/-- `Txn::clear_state`. -/
def setClearState (t : Txn) (c : ClearState) : Txn := { t with clearState := some c }
/-- `Txn::transferred_amount`. -/
def setTransferredAmount (t : Txn) (a : OwnedAmount) : Txn := { t with transferredAmount := some a }
/-- `Txn::balance`. -/
def setBalance (t : Txn) (b : OwnedAmount) : Txn := { t with balance := some b }
/-- `Txn::add_charge`. -/
def addCharge (t : Txn) (payee : String) (amount : OwnedAmount) : Txn :=
  { t with charges := t.charges ++ [⟨payee, amount⟩] }

/-- `Txn::add_rate`: the map is updated *before* the conflict check, exactly as in the Rust
(the error leaves the new rate in place, but the `Txn` is dropped by every caller on error). -/
def addRate (t : Txn) (key : CommodityPair) (rate : Dec) : Outcome ImportErr Txn :=
  if key.source = key.target then .err (.other "rate-same-commodity")
  else
    let existing := AMap.get? t.rates key.target
    let t' := { t with rates := AMap.insert t.rates key.target ⟨rate, key.source⟩ }
    match existing with
    | some ex => if ex.commodity ≠ key.source ∨ ex.value ≠ rate then .err (.other "two-distinct-rates") else .ok t'
    | none => .ok t'

/-- `Txn::try_add_charge_not_included`. -/
def tryAddChargeNotIncluded (t : Txn) (payee : String) (amount : OwnedAmount) : Outcome ImportErr Txn :=
  if amount.commodity ≠ t.amount.commodity then .err (.unimplemented "different-commodity-charge")
  else if t.transferredAmount.isSome then .err (.unimplemented "already-set-transferred-amount")
  else
    let t1 := t.setTransferredAmount ⟨Dec.add t.amount.value amount.value, amount.commodity⟩
    .ok { t1 with charges := t1.charges ++ [⟨payee, amount⟩] }

/-- `as_syntax_amount(..).into()`: an unformatted `PrettyDecimal` with the commodity, as a value expression. -/
def asSyntaxAmount (a : OwnedAmount) : VExpr := .amt a.value.toPDec a.commodity

/-- `Txn::rate`: `@ rate` for the commodity, when a rate is known for it. -/
def rate (t : Txn) (target : String) : Option Exchange :=
  (AMap.get? t.rates target).map fun x => Exchange.rate (asSyntaxAmount x)

/-- `Txn::to_posting_amount`. -/
def toPostingAmount (t : Txn) (a : OwnedAmount) : PostingAmount :=
  { amount := asSyntaxAmount a, cost := t.rate a.commodity, lot := {} }

/-- `amount_with_sign(amount, sign)`: `ret.value.set_sign_positive(sign.is_sign_positive())`. -/
def amountWithSign (a : OwnedAmount) (sign : Dec) : OwnedAmount :=
  { a with value := a.value.setSignPositive sign.isSignPositive }

/-- `Txn::amount`. -/
def srcAmount (t : Txn) : PostingAmount := t.toPostingAmount t.amount

/-- `Txn::dest_amount`: the transferred amount with the sign opposite to `amount`, else `-amount`. -/
def destAmount (t : Txn) : PostingAmount :=
  match t.transferredAmount with
  | some tr => t.toPostingAmount (amountWithSign tr t.amount.value.negate)
  | none => t.toPostingAmount t.amount.negate

/-- the counter-posting's state: `self.clear_state.unwrap_or(dest_account ? Uncleared : Pending)`. -/
def postClear (t : Txn) : ClearState :=
  match t.clearState with
  | some c => c
  | none => match t.destAccount with
    | some _ => .uncleared
    | none => .pending

/-- the `add_charges` closure of `to_double_entry`. -/
def chargePostings (t : Txn) : List Posting :=
  t.charges.map fun c =>
    { account := "Expenses:Commissions", clear := .uncleared,
      amount := some (t.toPostingAmount c.amount), balance := none,
      metadata := [.keyValue "Payee" (.text c.payee)] }

/-- the posting on the imported account -/
def srcPosting (t : Txn) (srcAccount : String) : Posting :=
  { account := srcAccount, clear := .uncleared, amount := some t.srcAmount,
    balance := t.balance.map asSyntaxAmount, metadata := [] }

/-- the counter-posting -/
def destPosting (t : Txn) (fallback : String) : Posting :=
  { account := t.destAccount.getD fallback, clear := t.postClear, amount := some t.destAmount,
    balance := none, metadata := [] }

/-- the posting list of `to_double_entry` (`none`: the "credit and debit both zero" branch).
`is_sign_positive` / `is_sign_negative` test the sign *flag*, so the third branch cannot be reached. -/
def postings (t : Txn) (srcAccount : String) : Option (List Posting) :=
  if t.amount.value.isSignPositive then
    some ([t.srcPosting srcAccount] ++ t.chargePostings ++ [t.destPosting "Income:Unknown"])
  else if t.amount.value.isSignNegative then
    some ([t.destPosting "Expenses:Unknown"] ++ t.chargePostings ++ [t.srcPosting srcAccount])
  else none

/-- `Txn::to_double_entry`. -/
def toDoubleEntry (t : Txn) (srcAccount : String) : Outcome ImportErr Transaction :=
  match t.postings srcAccount with
  | none => .err (.other "credit-and-debit-both-zero")
  | some posts =>
    .ok { date := t.date, effectiveDate := t.effectiveDate, clear := .cleared, code := t.code,
          payee := t.payee, posts := posts, metadata := t.comments.map Metadata.comment }

end Txn

/-! ## Rewrite rules (`extract.rs`, `config::RewriteRule`) -/

/-- `config::ConversionAmountMode`. -/
inductive ConvAmountMode where
  | extract | compute
  deriving Repr, DecidableEq, Inhabited

/-- `config::ConversionRateMode`. -/
inductive ConvRateMode where
  | priceOfSecondary | priceOfPrimary
  deriving Repr, DecidableEq, Inhabited

/-- `config::CommodityConversionSpec`. -/
structure Conversion where
  amount : ConvAmountMode := .extract
  commodity : Option String := none
  rate : ConvRateMode := .priceOfSecondary
  disabled : Bool := false
  deriving Repr, DecidableEq, Inhabited

/-- `config::RewriteField` (declaration order). -/
inductive Field where
  | domainCode | domainFamily | domainSubFamily
  | creditorName | creditorAccountId | ultimateCreditorName
  | debtorName | debtorAccountId | ultimateDebtorName
  | remittanceUnstructuredInfo | additionalEntryInfo | additionalTransactionInfo
  | secondaryCommodity | category | payee
  deriving Repr, DecidableEq, Inhabited

/-- snake_case name used in the YAML and on the line protocol -/
def Field.name : Field → String
  | .domainCode => "domain_code" | .domainFamily => "domain_family" | .domainSubFamily => "domain_sub_family"
  | .creditorName => "creditor_name" | .creditorAccountId => "creditor_account_id"
  | .ultimateCreditorName => "ultimate_creditor_name" | .debtorName => "debtor_name"
  | .debtorAccountId => "debtor_account_id" | .ultimateDebtorName => "ultimate_debtor_name"
  | .remittanceUnstructuredInfo => "remittance_unstructured_info"
  | .additionalEntryInfo => "additional_entry_info"
  | .additionalTransactionInfo => "additional_transaction_info"
  | .secondaryCommodity => "secondary_commodity" | .category => "category" | .payee => "payee"

def Field.all : List Field :=
  [.domainCode, .domainFamily, .domainSubFamily, .creditorName, .creditorAccountId, .ultimateCreditorName,
   .debtorName, .debtorAccountId, .ultimateDebtorName, .remittanceUnstructuredInfo, .additionalEntryInfo,
   .additionalTransactionInfo, .secondaryCommodity, .category, .payee]

def Field.ofName? (s : String) : Option Field := Field.all.find? (fun f => f.name == s)

/-- `extract::Matched`: the named groups `payee` and `code` of a successful regex match. -/
structure Matched where
  payee : Option String := none
  code : Option String := none
  deriving Repr, DecidableEq, Inhabited

/-- The regex engine as a parameter: `captures pattern haystack` is `None` when the (case-insensitive)
pattern does not match, else the named groups `payee` / `code`.  Never implemented in the model. -/
abbrev Captures := String → String → Option Matched

/-- `extract::Fragment`. -/
structure Fragment where
  cleared : Bool := false
  payee : Option String := none
  account : Option String := none
  code : Option String := none
  conversion : Option Conversion := none
  deriving Repr, DecidableEq, Inhabited

namespace Fragment
/-- `impl AddAssign for Fragment` (`fragment += updated`). -/
def addAssign (self other : Fragment) : Fragment :=
  { cleared := other.cleared || self.cleared
    payee := other.payee.or self.payee
    account := other.account.or self.account
    code := other.code.or self.code
    conversion := match other.conversion with
      | some c => some c
      | none => self.conversion }

/-- `impl Add<Matched> for Fragment`. -/
def addMatched (self : Fragment) (rhs : Matched) : Fragment :=
  { self with payee := rhs.payee.or self.payee, code := rhs.code.or self.code }
end Fragment

/-- `config::FieldMatcher`: `HashMap<RewriteField, String>`; the list order is the map's iteration order. -/
structure FieldMatcher where
  fields : List (Field × String)
  deriving Repr, DecidableEq, Inhabited

/-- `config::RewriteMatcher`. -/
inductive Matcher where
  | or (ms : List FieldMatcher)
  | field (m : FieldMatcher)
  deriving Repr, DecidableEq, Inhabited

/-- `MatchOrExpr` made from a `RewriteMatcher`: a single field matcher is a one-element OR-list. -/
def Matcher.elements : Matcher → List FieldMatcher
  | .or ms => ms
  | .field m => [m]

/-- `config::RewriteRule`. -/
structure Rule where
  matcher : Matcher
  pending : Bool := false
  payee : Option String := none
  account : Option String := none
  conversion : Option Conversion := none
  deriving Repr, DecidableEq, Inhabited

/-- How one importer's `EntityMatcher::captures` reads a field of a statement record. -/
inductive FieldKind where
  /-- the `payee` field: matches on `fragment.payee`, falling back to the record's original payee
  (CSV, Viseca) or to nothing (Camt053: `fragment.payee` only). -/
  | payee (original : Option String)
  /-- a text field matched by regex; `keep = false` drops the capture groups (CSV category /
  secondary_commodity return `Matched::default()`).  `none`: the record has no such field → no match. -/
  | text (value : Option String) (keep : Bool)
  /-- a coded field compared for equality with the configured value (Camt053 domain codes),
  never capturing. -/
  | code (value : Option String)
  deriving Repr, DecidableEq, Inhabited

/-- A statement record as the matchers see it. -/
abbrev Record := Field → FieldKind

/-- `EntityMatcher::captures` by the way the field is read. -/
def kindCaptures (cap : Captures) (k : FieldKind) (pat : String) (frag : Fragment) : Option Matched :=
  match k with
  | .payee original => (frag.payee.or original).bind (cap pat)
  | .text value keep => (value.bind (cap pat)).map fun m => if keep then m else {}
  | .code value => value.bind fun v => if v = pat then some {} else none

/-- `EntityMatcher::captures` for one (field, pattern) of a field matcher. -/
def fieldCaptures (cap : Captures) (r : Record) (f : Field) (pat : String) (frag : Fragment) : Option Matched :=
  kindCaptures cap (r f) pat frag

/-- `MatchAndExpr::extract`: `try_fold` over the matchers *in the map's iteration order*; each
matcher sees the payee/code captured by the ones before it. -/
def andExtract (cap : Captures) (r : Record) : List (Field × String) → Fragment → Option Fragment
  | [], cur => some cur
  | (f, pat) :: rest, cur =>
    match fieldCaptures cap r f pat cur with
    | none => none
    | some m => andExtract cap r rest (cur.addMatched m)

/-- `MatchOrExpr::extract`: `find_map` — the first element that matches decides. -/
def orExtract (cap : Captures) (r : Record) : List FieldMatcher → Fragment → Option Fragment
  | [], _ => none
  | m :: rest, cur =>
    match andExtract cap r m.fields cur with
    | some f => some f
    | none => orExtract cap r rest cur

/-- the closure of `ExtractRule::extract` applied to the fragment the matcher returned:
explicit `payee` wins over a captured one, `account` is *replaced* by the rule's (also by `None`),
and with an account the record counts as cleared unless the rule says `pending`. -/
def ruleFinish (rule : Rule) (c : Fragment) : Fragment :=
  let c := { c with payee := rule.payee.or c.payee }
  let c := { c with account := rule.account }
  let c := { c with conversion := rule.conversion.or c.conversion }
  if c.account.isSome then { c with cleared := c.cleared || !rule.pending } else c

/-- `ExtractRule::extract`. -/
def ruleExtract (cap : Captures) (r : Record) (rule : Rule) (cur : Fragment) : Option Fragment :=
  (orExtract cap r rule.matcher.elements cur).map (ruleFinish rule)

/-- one step of `Extractor::extract`'s loop -/
def applyRule (cap : Captures) (r : Record) (frag : Fragment) (rule : Rule) : Fragment :=
  match ruleExtract cap r rule frag with
  | some updated => frag.addAssign updated
  | none => frag

/-- `Extractor::extract`. -/
def extract (cap : Captures) (rules : List Rule) (r : Record) : Fragment :=
  rules.foldl (applyRule cap r) {}

/-- Which importer a rule set is compiled for (`TryFrom<(RewriteField, &str)>` of the three matchers). -/
inductive ImporterKind where
  | csv | camt | viseca
  deriving Repr, DecidableEq, Inhabited

/-- fields each importer's matcher accepts -/
def ImporterKind.supports : ImporterKind → Field → Bool
  | .csv, f => f == .payee || f == .category || f == .secondaryCommodity
  | .viseca, f => f == .payee || f == .category
  | .camt, f => !(f == .secondaryCommodity || f == .category)

/-- `TryFrom<&Vec<RewriteRule>> for Extractor`: every pattern must compile (`validPattern`, the regex
library's verdict, a parameter), every field must be supported by the importer, and no field matcher may
be empty.  Camt domain-code fields are parsed as YAML enum values (`validCode`). -/
def checkRules (kind : ImporterKind) (validPattern : String → Bool) (validCode : Field → String → Bool)
    (rules : List Rule) : Outcome ImportErr Unit :=
  let checkField (fp : Field × String) : Outcome ImportErr Unit :=
    let (f, pat) := fp
    match kind with
    | .camt =>
      if f == .domainCode || f == .domainFamily || f == .domainSubFamily then
        (if validCode f pat then .ok () else .err .yaml)
      else if !validPattern pat then .err .invalidRegex
      else if !kind.supports f then .err (.other "unknown-match-field")
      else .ok ()
    | _ =>
      if !kind.supports f then .err (.invalidConfig "unsupported-rewrite-field")
      else if !validPattern pat then .err .invalidRegex
      else .ok ()
  let checkAnd (m : FieldMatcher) : Outcome ImportErr Unit := do
    m.fields.forM checkField
    if m.fields.isEmpty then .err (.invalidConfig "empty-field-matcher") else .ok ()
  rules.forM fun rule => rule.matcher.elements.forM checkAnd

/-! ## Layered configuration (`config.rs`) -/

/-- `config::AccountType`. -/
inductive AccountType where
  | asset | liability
  deriving Repr, DecidableEq, Inhabited

/-- `config::AccountCommoditySpec`. -/
structure CommoditySpec where
  primary : String := ""
  conversion : Conversion := {}
  deriving Repr, DecidableEq, Inhabited

/-- `config::AccountCommodityConfig`. -/
inductive CommodityConfig where
  | primaryCommodity (c : String)
  | spec (s : CommoditySpec)
  deriving Repr, DecidableEq, Inhabited

/-- `From<AccountCommodityConfig> for AccountCommoditySpec`. -/
def CommodityConfig.toSpec : CommodityConfig → CommoditySpec
  | .primaryCommodity c => { primary := c }
  | .spec s => s

/-- `config::FieldKey`. -/
inductive FieldKey where
  | date | payee | category | note | amount | credit | debit | balance | commodity | rate
  | secondaryAmount | secondaryCommodity | charge
  deriving Repr, DecidableEq, Inhabited

def FieldKey.name : FieldKey → String
  | .date => "date" | .payee => "payee" | .category => "category" | .note => "note" | .amount => "amount"
  | .credit => "credit" | .debit => "debit" | .balance => "balance" | .commodity => "commodity"
  | .rate => "rate" | .secondaryAmount => "secondary_amount" | .secondaryCommodity => "secondary_commodity"
  | .charge => "charge"

def FieldKey.all : List FieldKey :=
  [.date, .payee, .category, .note, .amount, .credit, .debit, .balance, .commodity, .rate,
   .secondaryAmount, .secondaryCommodity, .charge]

def FieldKey.ofName? (s : String) : Option FieldKey := FieldKey.all.find? (fun f => f.name == s)

/-- `config::FieldPos` (`index` is the one-based column number as written in the configuration). -/
inductive FieldPos where
  | index (oneBased : Nat)
  | label (s : String)
  | template (s : String)
  deriving Repr, DecidableEq, Inhabited

/-- `config::RowOrder`. -/
inductive RowOrder where
  | oldToNew | newToOld
  deriving Repr, DecidableEq, Inhabited

/-- `config::FormatSpec` (hash maps as association lists; they are only looked up by the importers,
except `commodity`, which is copied into the display context, itself a map that is only looked up). -/
structure FormatSpec where
  date : String := ""
  commodity : AMap String Nat := []
  fields : AMap FieldKey FieldPos := []
  delimiter : String := ""
  skipHead : Int := 0
  rowOrder : RowOrder := .oldToNew
  deriving Repr, DecidableEq, Inhabited

/-- `config::ConfigFragment`: one YAML document. -/
structure ConfigFragment where
  path : String
  encoding : Option String := none
  account : Option String := none
  accountType : Option AccountType := none
  operator : Option String := none
  commodity : Option CommodityConfig := none
  format : Option FormatSpec := none
  rewrite : List Rule := []
  deriving Repr, DecidableEq, Inhabited

/-- `config::ConfigEntry`. -/
structure ConfigEntry where
  path : String
  encoding : String
  account : String
  accountType : AccountType
  operator : Option String
  commodity : CommoditySpec
  format : FormatSpec
  rewrite : List Rule
  deriving Repr, DecidableEq, Inhabited

/-- `ConfigFragment::merge`: `other` (the later document) overrides scalars, rules are appended. -/
def ConfigFragment.merge (self other : ConfigFragment) : ConfigFragment :=
  { path := other.path
    encoding := other.encoding.or self.encoding
    account := other.account.or self.account
    accountType := other.accountType.or self.accountType
    operator := other.operator.or self.operator
    commodity := other.commodity.or self.commodity
    format := other.format.or self.format
    rewrite := self.rewrite ++ other.rewrite }

/-- `TryFrom<ConfigFragment> for ConfigEntry`. -/
def ConfigFragment.toEntry (v : ConfigFragment) : Outcome ImportErr ConfigEntry :=
  match v.encoding with
  | none => .err (.invalidConfig "no encoding specified")
  | some encoding =>
  match v.account with
  | none => .err (.invalidConfig "no account specified")
  | some account =>
  match v.accountType with
  | none => .err (.invalidConfig "no account_type specified")
  | some accountType =>
  match v.commodity with
  | none => .err (.invalidConfig "no commodity specified")
  | some commodity =>
    .ok { path := v.path, encoding := encoding, account := account, accountType := accountType,
          operator := v.operator, commodity := commodity.toSpec, format := v.format.getD {},
          rewrite := v.rewrite }

/-- `str::contains(&str)` on the characters: `pat` occurs in `s` as a contiguous substring. -/
def containsSub (s pat : List Char) : Bool :=
  match s with
  | [] => pat.isEmpty
  | c :: rest => pat.isPrefixOf (c :: rest) || containsSub rest pat

/-- `has_matches`: the document's `path` (after `from_slash`, the identity on Unix) occurs in the file path. -/
def pathMatches (doc : ConfigFragment) (filePath : String) : Bool :=
  containsSub filePath.toList doc.path.toList

/-- sort key of `select_impl`: `entry.path.len()`, the length in **bytes**. -/
def pathLen (doc : ConfigFragment) : Nat := doc.path.utf8ByteSize

/-- the documents in force for a file, in merge order: filter, then **stable** sort by path length. -/
def matchedDocs (docs : List ConfigFragment) (filePath : String) : List ConfigFragment :=
  (docs.filter (pathMatches · filePath)).mergeSort (fun a b => decide (pathLen a ≤ pathLen b))

/-- the `fold(None, …)` of `select_impl`. -/
def mergeAll : List ConfigFragment → Option ConfigFragment
  | [] => none
  | d :: rest => some (rest.foldl ConfigFragment.merge d)

/-- `ConfigSet::select`. -/
def select (docs : List ConfigFragment) (filePath : String) : Outcome ImportErr (Option ConfigEntry) :=
  match mergeAll (matchedDocs docs filePath) with
  | none => .ok none
  | some frag => (frag.toEntry).map' some

end Okane.Import
