import Okane.Model.Eval
import Okane.Model.Book
/-!
# Name resolution + `process` (mirror of `ProcessAccumulator::process`, `add_transaction`'s evaluation
steps, `ComputedPosting::compute_from_syntax`, `Exchange::try_from_syntax`)

`resolvePosting` performs, in the Rust's order, every fallible *evaluation* step of one posting
(amount, cost, lot price, balance expression) and yields the resolved posting the book-keeping core
(`Model/Book.lean`) works on.  The Rust interleaves evaluation and balance updates posting by posting;
since errors abort the run, resolving a posting completely before applying it is observationally the same
*within one posting*, and `resolveApply` keeps the posting-by-posting interleaving.
-/
namespace Okane

abbrev BkErrS := BkErr String

def liftEval {β} : Outcome EvalErr β → Outcome BkErrS β
  | .ok b => .ok b
  | .err e => .err (.evalFailure e)
  | .panic s => .panic s
  | .fuelOut => .fuelOut

/-- `Exchange::try_from_syntax`. -/
def resolveExchange (s : Store) (amount : PostingAmt String) (x : Exchange) :
    Outcome BkErrS (RExchange String × Store) :=
  let (isTotal, e) := match x with
    | .total e => (true, e)
    | .rate e => (false, e)
  match evalMut s e with
  | .ok (v, s') =>
    match v.toSingle with
    | .ok rate =>
      if rate.value = 0 then .err .zeroExchangeRate
      else match amount with
        | .zero => .err .zeroAmountWithExchange
        | .single a =>
          if a.commodity = rate.commodity then .err .exchangeWithAmountCommodity
          else .ok (if isTotal then .total rate else .rate rate, s')
    | .err e => .err (.evalFailure e)
    | .panic p => .panic p
    | .fuelOut => .fuelOut
  | .err e => .err (.evalFailure e)
  | .panic p => .panic p
  | .fuelOut => .fuelOut

def resolveOptExchange (s : Store) (amount : PostingAmt String) :
    Option Exchange → Outcome BkErrS (Option (RExchange String) × Store)
  | none => .ok (none, s)
  | some x =>
    match resolveExchange s amount x with
    | .ok (r, s') => .ok (some r, s')
    | .err e => .err e
    | .panic p => .panic p
    | .fuelOut => .fuelOut

/-- evaluate an expression to a `PostingAmount` (`eval_mut(ctx)?.try_into()?`). -/
def evalPostingAmt (s : Store) (e : VExpr) : Outcome BkErrS (PostingAmt String × Store) :=
  match evalMut s e with
  | .ok (v, s') =>
    match v.toPosting with
    | .ok p => .ok (p, s')
    | .err e => .err (.evalFailure e)
    | .panic p => .panic p
    | .fuelOut => .fuelOut
  | .err e => .err (.evalFailure e)
  | .panic p => .panic p
  | .fuelOut => .fuelOut

/-- `ComputedPosting::compute_from_syntax`. -/
def resolveAmount (s : Store) (pa : PostingAmount) : Outcome BkErrS (RAmount String × Store) :=
  match evalPostingAmt s pa.amount with
  | .ok (amount, s1) =>
    match resolveOptExchange s1 amount pa.cost with
    | .ok (cost, s2) =>
      match resolveOptExchange s2 amount pa.lot.price with
      | .ok (lot, s3) =>
        match amount, cost, lot with
        | a, none, none => .ok (.plain a, s3)
        | .single sa, c, l => .ok (.priced sa c l, s3)
        | .zero, _, _ => .panic "unreachable: zero amount with exchange passed try_from_syntax"
      | .err e => .err e
      | .panic p => .panic p
      | .fuelOut => .fuelOut
    | .err e => .err e
    | .panic p => .panic p
    | .fuelOut => .fuelOut
  | .err e => .err e
  | .panic p => .panic p
  | .fuelOut => .fuelOut

def resolveOptBalance (s : Store) : Option VExpr → Outcome BkErrS (Option (PostingAmt String) × Store)
  | none => .ok (none, s)
  | some e =>
    match evalPostingAmt s e with
    | .ok (p, s') => .ok (some p, s')
    | .err e => .err e
    | .panic p => .panic p
    | .fuelOut => .fuelOut

/-- one posting: `accounts.ensure`, then the evaluation steps of `process_posting`. -/
def resolvePosting (c : Ctx) (p : Posting) : Outcome BkErrS (RPosting String String × Ctx) :=
  let (acct, accounts') := c.accounts.ensure p.account
  let c1 := { c with accounts := accounts' }
  match p.amount with
  | none =>
    match resolveOptBalance c1.commodities p.balance with
    | .ok (b, cs) => .ok (⟨acct, none, b⟩, { c1 with commodities := cs })
    | .err e => .err e
    | .panic s => .panic s
    | .fuelOut => .fuelOut
  | some pa =>
    match resolveAmount c1.commodities pa with
    | .ok (ra, cs1) =>
      -- note: in the Rust the balance expression is evaluated after the account balance was updated;
      -- an evaluation error there aborts the run all the same.
      match resolveOptBalance cs1 p.balance with
      | .ok (b, cs2) => .ok (⟨acct, some ra, b⟩, { c1 with commodities := cs2 })
      | .err e => .err e
      | .panic s => .panic s
      | .fuelOut => .fuelOut
    | .err e => .err e
    | .panic s => .panic s
    | .fuelOut => .fuelOut

/-- `add_transaction` on a syntax transaction: resolve and apply posting by posting. -/
def loopSyntax (date : Date) : Ctx → TxnState String String → Nat → List Posting →
    Outcome BkErrS (Ctx × TxnState String String)
  | c, st, _, [] => .ok (c, st)
  | c, st, idx, p :: ps =>
    match resolvePosting c p with
    | .ok (rp, c') =>
      match stepPosting date st idx rp with
      | .ok st' => loopSyntax date c' st' (idx + 1) ps
      | .err e => .err e
      | .panic s => .panic s
      | .fuelOut => .fuelOut
    | .err e => .err e
    | .panic s => .panic s
    | .fuelOut => .fuelOut

/-- the tail of `add_transaction` after the posting loop. -/
def finishTxn (prec : String → Option Nat) (date : Date) (st : TxnState String String) :
    Outcome BkErrS (TxnResult String String) :=
  match st.unfilled with
  | some u =>
    let deduced := st.balance.neg
    let postings := st.postings.modify u (fun p => { p with amount := deduced })
    match (st.postings[u]?).map (·.account) with
    | some acct =>
      let (bal', _) := Balance.addAmount st.bal acct deduced
      .ok ⟨⟨date, postings⟩, bal', st.events⟩
    | none => .panic "unfilled index out of range"
  | none =>
    match checkBalance prec date st.postings st.balance with
    | .ok (postings, pe) => .ok ⟨⟨date, postings⟩, st.bal, st.events ++ pe.toList⟩
    | .err e => .err e
    | .panic s => .panic s
    | .fuelOut => .fuelOut

def addTransactionSyntax (c : Ctx) (bal : Balance String String) (t : Transaction) :
    Outcome BkErrS (Ctx × TxnResult String String) :=
  match loopSyntax t.date c ⟨[], none, [], bal, [], []⟩ 0 t.posts with
  | .ok (c', st) =>
    match finishTxn c'.prec t.date st with
    | .ok r => .ok (c', r)
    | .err e => .err e
    | .panic s => .panic s
    | .fuelOut => .fuelOut
  | .err e => .err e
  | .panic s => .panic s
  | .fuelOut => .fuelOut

/-- accumulator of `process`. -/
structure ProcState where
  ctx : Ctx := {}
  bal : Balance String String := []
  txns : List (OutTxn String String) := []
  events : List (PriceEvent String) := []
  deriving Inhabited

def insertAliases (store : Store) (canonical : String) : List String → Outcome InternErr Store
  | [] => .ok store
  | a :: rest =>
    match store.insertAlias a canonical with
    | .ok s' => insertAliases s' canonical rest
    | .err e => .err e
    | .panic p => .panic p
    | .fuelOut => .fuelOut

/-- commodity declaration details, in order: aliases and formats. -/
def applyCommodityDetails (c : Ctx) (canonical : String) : List CommodityDetail → Outcome BkErrS Ctx
  | [] => .ok c
  | .alias a :: rest =>
    match c.commodities.insertAlias a canonical with
    | .ok s' => applyCommodityDetails { c with commodities := s' } canonical rest
    | .err _ => .err .invalidCommodity
    | .panic p => .panic p
    | .fuelOut => .fuelOut
  | .format value _ :: rest =>
    applyCommodityDetails { c with formatting := AMap.insert c.formatting canonical value.scale } canonical rest
  | _ :: rest => applyCommodityDetails c canonical rest

/-- `ProcessAccumulator::process`: one entry. -/
def stepEntry (st : ProcState) : Entry → Outcome BkErrS ProcState
  | .txn t =>
    match addTransactionSyntax st.ctx st.bal t with
    | .ok (c', r) => .ok { ctx := c', bal := r.bal, txns := st.txns ++ [r.txn], events := st.events ++ r.events }
    | .err e => .err e
    | .panic s => .panic s
    | .fuelOut => .fuelOut
  | .account name details =>
    match st.ctx.accounts.insertCanonical name with
    | .ok (canonical, s1) =>
      let aliases := details.filterMap fun | .alias a => some a | _ => none
      match insertAliases s1 canonical aliases with
      | .ok s2 => .ok { st with ctx := { st.ctx with accounts := s2 } }
      | .err _ => .err .invalidAccount
      | .panic p => .panic p
      | .fuelOut => .fuelOut
    | .err _ => .err .invalidAccount
    | .panic p => .panic p
    | .fuelOut => .fuelOut
  | .commodity name details =>
    match st.ctx.commodities.insertCanonical name with
    | .ok (canonical, s1) =>
      match applyCommodityDetails { st.ctx with commodities := s1 } canonical details with
      | .ok c' => .ok { st with ctx := c' }
      | .err e => .err e
      | .panic p => .panic p
      | .fuelOut => .fuelOut
    | .err _ => .err .invalidCommodity
    | .panic p => .panic p
    | .fuelOut => .fuelOut
  | _ => .ok st

/-- `process` over the loaded entry list; an error carries the index of the offending entry. -/
def processFrom : ProcState → Nat → List Entry → Outcome (Nat × BkErrS) ProcState
  | st, _, [] => .ok st
  | st, i, e :: es =>
    match stepEntry st e with
    | .ok st' => processFrom st' (i + 1) es
    | .err x => .err (i, x)
    | .panic s => .panic s
    | .fuelOut => .fuelOut

def process (es : List Entry) : Outcome (Nat × BkErrS) ProcState := processFrom {} 0 es

end Okane
