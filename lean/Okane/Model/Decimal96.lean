/-!
# `rust_decimal::Decimal` (1.37.1, the version /repo's Cargo.lock pins) as a model over mathematical integers

A `Decimal` is a sign FLAG, a 96-bit mantissa and a scale 0..28.  `D96` keeps the three fields unbounded and the
range as a separate predicate `D96.wf`; every function below transcribes the ALGORITHM of the crate
(`src/ops/{add,mul,div,cmp,common,array}.rs`, `src/decimal.rs`, `src/str.rs`; feature `legacy-ops` off, as okane builds it)
at the level of integers: which branch is taken, when a result is rescaled, how it is rounded, when `Overflow` is reported,
the sign flag of a zero result, the scale of every result.  The 32-bit limb arithmetic is not mirrored, with two exceptions
where the limbs are observable: the borrow propagation of `unaligned_add` (words 3..5 of the 192-bit buffer; it is wrong in
the crate, see `bufSub`) and the low-word test of `unscale` (`num.data[0] == 0`, see `unscale`).

The tie to the real crate is `hx dec96` / `drv dec96` (bit-for-bit: sign flag, mantissa, scale, or the error class).
-/
namespace Okane.Dec96

/-- raw fields of a `Decimal`: `neg` is bit 31 of `flags` (set also on a "negative zero"), `mant` = `hi:mid:lo`, `scale` =
bits 16..23 of `flags`. -/
structure D96 where
  neg : Bool
  mant : Nat
  scale : Nat
  deriving DecidableEq, Repr, Inhabited

/-- what the crate's representation can hold. -/
def D96.wf (d : D96) : Prop := d.mant < 2 ^ 96 ∧ d.scale ≤ 28

instance (d : D96) : Decidable d.wf := by unfold D96.wf; exact inferInstance

/-- `CalculationResult` -/
inductive Calc where
  | ok (d : D96)
  | overflow
  | divByZero
  deriving DecidableEq, Repr, Inhabited

def two32 : Nat := 2 ^ 32
def two96 : Nat := 2 ^ 96

/-- `Decimal::from_parts` (and `from_parts_raw`): a zero mantissa never carries the sign flag. -/
def fromParts (neg : Bool) (mant scale : Nat) : D96 := ⟨mant != 0 && neg, mant, scale⟩

/-- `Decimal::ZERO` -/
def zero : D96 := ⟨false, 0, 0⟩

/-- quotient rounded half to even, as every `remainder >= power/2 && (remainder > power/2 || odd)` test of the crate
(`power` is a positive power of ten, hence even). -/
def divHalfEven (x power : Nat) : Nat :=
  let q := x / power
  let r := x % power
  let half := power / 2
  if half ≤ r ∧ (half < r ∨ q % 2 = 1) then q + 1 else q

/-- index of the highest non-zero 32-bit word (`Buf24::upper_word`), 0 for 0. -/
def upperWord (x : Nat) : Nat := if x = 0 then 0 else x.log2 / 32

/-- `u32::leading_zeros` -/
def lz32 (w : Nat) : Nat := if w = 0 then 32 else 31 - w.log2

/-! ## `Buf24::rescale` (common.rs): bring a 192-bit value into 96 bits, lowering the scale, rounding half to even -/

/-- the loop of `Buf24::rescale`.  `x` is the buffer restricted to words `0..=upper`; `target` the number of decimal digits
still to drop (`rescale_target`); `sticky` whether a non-zero remainder was dropped in an earlier chunk. Returns the new
(mantissa, scale) or `none` = overflow. Each pass divides by `10^min(target, 9)`. (The fuel `bufRescale` passes,
`10·scale + 16`, exceeds `target + 10·sc + 2`, which every pass lowers: `Decimal96Overflow.lean`.) -/
def rescaleLoop : Nat → Nat → Nat → Nat → Nat → Bool → Nat → Option (Nat × Nat)
  | 0, _, _, _, _, _, _ => none
  | fuel + 1, x, upper, scale, target, sticky, rem =>
    let sticky := sticky || rem != 0
    let power := if target > 8 then 10 ^ 9 else 10 ^ target
    let q := x / power
    let rem := x % power
    let upper := if q / 2 ^ (32 * upper) = 0 ∧ upper > 0 then upper - 1 else upper
    if target > 9 then rescaleLoop fuel q upper scale (target - 9) sticky rem
    else if upper > 2 then
      if scale = 0 then none else rescaleLoop fuel q upper (scale - 1) 1 sticky rem
    else
      let half := power / 2
      let up := half ≤ rem ∧ (half < rem ∨ q % 2 = 1 ∨ sticky)
      if up then
        if q + 1 < two96 then some (q + 1, scale)
        else if scale = 0 then none
        else rescaleLoop fuel (q + 1) 3 (scale - 1) 1 false 0
      else some (q, scale)

/-- `Buf24::rescale(upper, scale)`; `x` is the buffer restricted to words `0..=upper` (word `upper` may be zero: the caller's
`upper` can be stale).  -/
def bufRescale (x upper scale : Nat) : Option (Nat × Nat) :=
  let top := x / 2 ^ (32 * upper)
  let t0 : Int :=
    if upper > 2 then (((upper : Int) * 32 - 64 - 1 - (lz32 top : Int)) * 77) / 256 + 1 else 0
  if t0 > (scale : Int) then none
  else
    let t : Int := if t0 < (scale : Int) - 28 then (scale : Int) - 28 else t0
    if t > 0 then rescaleLoop (10 * scale + 16) x upper (scale - t.toNat) t.toNat false 0
    else some (x % two96, scale)

/-! ## addition and subtraction (add.rs) -/

/-- `rescale32` -/
def rescale32 (num rf : Nat) : Option Nat :=
  if rf > 9 then none else if num * 10 ^ rf < two32 then some (num * 10 ^ rf) else none

/-- `fast_add`: both mantissas fit 32 bits. -/
def fastAdd (lo1 lo2 : Nat) (neg : Bool) (scale : Nat) (sub : Bool) : Calc :=
  if sub then
    if lo1 < lo2 then .ok (fromParts (!neg) (lo2 - lo1) scale) else .ok (fromParts neg (lo1 - lo2) scale)
  else .ok (fromParts neg (lo1 + lo2) scale)

/-- `aligned_add` (with `flip_sign` and `reduce_scale`): same scale, 96-bit mantissas. A sum that needs 97 bits loses one
decimal place (half-even) or overflows at scale 0. -/
def alignedAdd (l r : Nat) (neg : Bool) (scale : Nat) (sub : Bool) : Calc :=
  if sub then
    if r ≤ l then .ok (fromParts neg (l - r) scale) else .ok (fromParts (!neg) (r - l) scale)
  else
    let s := l + r
    if s < two96 then .ok (fromParts neg s scale)
    else if scale = 0 then .overflow
    else .ok (fromParts neg (divHalfEven s 10) (scale - 1))

/-- the borrow loop of `unaligned_add` over words 3..5 of the buffer, AS WRITTEN in the crate
(`*part = part.wrapping_sub(1); if *part > 0 { break; }`): it stops after a word that wrapped to `0xFFFF_FFFF` and goes on
after a word that became 0 — the reverse of a borrow. -/
def borrowWords (w3 w4 w5 : Nat) : Nat × Nat × Nat :=
  let a := (w3 + two32 - 1) % two32
  if a > 0 then (a, w4, w5)
  else
    let b := (w4 + two32 - 1) % two32
    if b > 0 then (a, b, w5) else (a, b, (w5 + two32 - 1) % two32)

/-- the subtraction inside the 192-bit buffer: `v ≥ 2^96` is the rescaled left operand, `r < 2^96`. Returns the buffer
restricted to words `0..=upperWord v` (what `Buf24::rescale` will look at). -/
def bufSub (v r : Nat) : Nat :=
  let low := v % two96
  let w3 := v / two96 % two32
  let w4 := v / 2 ^ 128 % two32
  let w5 := v / 2 ^ 160 % two32
  let low' := (low + two96 - r) % two96
  let ws := if low < r then borrowWords w3 w4 w5 else (w3, w4, w5)
  (low' + ws.1 * two96 + ws.2.1 * 2 ^ 128 + ws.2.2 * 2 ^ 160) % 2 ^ (32 * (upperWord v + 1))

/-- `unaligned_add`: `l` (the operand with the smaller scale) is multiplied by `10^rf`; if that still fits 96 bits this is
`aligned_add`, otherwise the operation is carried out in a 192-bit buffer and the result is brought back by `Buf24::rescale`. -/
def unalignedAdd (l r : Nat) (neg : Bool) (scale rf : Nat) (sub : Bool) : Calc :=
  let v := l * 10 ^ rf
  if v < two96 then alignedAdd v r neg scale sub
  else
    let (x, upper) := if sub then (bufSub v r, upperWord v) else (v + r, upperWord (v + r))
    match bufRescale x upper scale with
    | some (m, s) => .ok (fromParts neg m s)
    | none => .overflow

/-- `add_sub_internal` -/
def addSub (d1 d2 : D96) (subtract : Bool) : Calc :=
  if d1.mant = 0 then
    .ok (if subtract && d2.mant != 0 then { d2 with neg := !d2.neg } else d2)
  else if d2.mant = 0 then .ok d1
  else
    let sub := subtract != (d1.neg != d2.neg)
    let fast : Option Calc :=
      if d1.mant < two32 ∧ d2.mant < two32 then
        if d1.scale = d2.scale then some (fastAdd d1.mant d2.mant d1.neg d1.scale sub)
        else if d2.scale < d1.scale then
          (rescale32 d2.mant (d1.scale - d2.scale)).map fun m2 => fastAdd d1.mant m2 d1.neg d1.scale sub
        else
          (rescale32 d1.mant (d2.scale - d1.scale)).map fun m1 => fastAdd m1 d2.mant d1.neg d2.scale sub
      else none
    match fast with
    | some c => c
    | none =>
      if d1.scale = d2.scale then alignedAdd d1.mant d2.mant d1.neg d1.scale sub
      else if d2.scale < d1.scale then
        unalignedAdd d2.mant d1.mant (sub != d1.neg) d1.scale (d1.scale - d2.scale) sub
      else
        unalignedAdd d1.mant d2.mant d1.neg d2.scale (d2.scale - d1.scale) sub

def addImpl (a b : D96) : Calc := addSub a b false
def subImpl (a b : D96) : Calc := addSub a b true

/-! ## multiplication (mul.rs) -/

def mulImpl (d1 d2 : D96) : Calc :=
  if d1.mant = 0 ∨ d2.mant = 0 then .ok zero
  else
    let scale := d1.scale + d2.scale
    let neg := d1.neg != d2.neg
    let p := d1.mant * d2.mant
    if d1.mant < two32 ∧ d2.mant < two32 then
      if scale > 28 then
        if scale > 28 + 19 then .ok zero
        else .ok (fromParts neg (divHalfEven p (10 ^ (scale - 28))) 28)
      else .ok (fromParts neg p scale)
    else
      let upper := upperWord p
      if upper > 2 ∨ scale > 28 then
        match bufRescale p upper scale with
        | some (m, s) => .ok (fromParts neg m s)
        | none => .overflow
      else .ok (fromParts neg p scale)

/-! ## division (div.rs) -/

/-- largest `x ≤ 9` with `q * 10^x < 2^96` (the tables `OVERFLOW_MAX_*` / `POWER_OVERFLOW_VALUES`). -/
def maxFit : Nat → Nat → Nat
  | 0, _ => 0
  | x + 1, q => if q * 10 ^ (x + 1) < two96 then x + 1 else maxFit x q

/-- `Buf12::find_scale` -/
def findScale (q : Nat) (scale : Int) : Option Nat :=
  let fit := maxFit 9 q
  let x : Nat := if scale > 19 then min (28 - scale).toNat fit else fit
  if x = 9 then some 9
  else if (x : Int) + scale < 0 then none else some x

/-- `unscale_from_overflow`: `v ≥ 2^96` is the true quotient that no longer fits; one decimal place is given up. -/
def unscaleFromOverflow (v : Nat) (scale : Int) (sticky : Bool) : Option (Nat × Int) :=
  if scale - 1 < 0 then none
  else
    let q := v / 10
    let rem := v % 10
    some (if rem > 5 ∨ (rem = 5 ∧ (sticky ∨ q % 2 = 1)) then q + 1 else q, scale - 1)

/-- one pass of the main loop of `div_impl` either ends the division (`none` = overflow) or goes on with a longer quotient. -/
inductive DivStep where
  | done (res : Option (Nat × Int))
  | next (q r : Nat) (scale : Int)
  deriving Repr, Inhabited

/-- "no more scaling can be done": round on the remainder (half to even; a carry out of 96 bits gives up one place). -/
def divFinish (q r b : Nat) (scale : Int) : Option (Nat × Int) :=
  if 2 * r > b ∨ (2 * r = b ∧ q % 2 = 1) then
    if q + 1 < two96 then some (q + 1, scale) else unscaleFromOverflow (q + 1) scale true
  else some (q, scale)

/-- "do some scaling": `p` more decimal places. -/
def divGrow (q r b p : Nat) (scale : Int) : DivStep :=
  let scale := scale + p
  let q1 := q * 10 ^ p
  if q1 ≥ two96 then .done none
  else
    let r10 := r * 10 ^ p
    let q2 := q1 + r10 / b
    let r2 := r10 % b
    if q2 ≥ two96 then .done (unscaleFromOverflow q2 scale (r2 != 0)) else .next q2 r2 scale

/-- one pass of the loop (identical for the 32-, 64- and 96-bit divisor branches at this level): `q` quotient so far, `r`
remainder (`r < b`), `scale` its scale. The Boolean is `require_unscale = true` being executed in this pass. -/
def divStep (q r b : Nat) (scale : Int) : DivStep × Bool :=
  if r = 0 then
    if scale ≥ 0 then (.done (some (q, scale)), false) else (divGrow q r b (min 9 (-scale).toNat) scale, false)
  else if scale = 28 then (.done (divFinish q r b scale), true)
  else
    match findScale q scale with
    | none => (.done none, true)
    | some s => if s = 0 then (.done (divFinish q r b scale), true) else (divGrow q r b s scale, true)

/-- the main loop of `div_impl`. Returns (quotient, scale, require_unscale) or `none` = overflow. -/
def divLoop : Nat → Nat → Nat → Nat → Int → Bool → Option (Nat × Int × Bool)
  | 0, _, _, _, _, _ => none
  | fuel + 1, q, r, b, scale, flag =>
    match divStep q r b scale with
    | (.done res, f) => res.map fun (m, s) => (m, s, flag || f)
    | (.next q' r' s', f) => divLoop fuel q' r' b s' (flag || f)

/-- `unscale`: strip trailing zeros of the quotient. The tests on the low bits are the crate's: the `10^8` step requires the
whole low 32-bit word to be zero (`num.data[0] == 0`), so at most 7 zeros are stripped from most quotients. -/
def unscale8 : Nat → Nat → Int → Nat × Int
  | 0, q, scale => (q, scale)
  | fuel + 1, q, scale =>
    if q % two32 = 0 ∧ scale ≥ 8 ∧ q % 10 ^ 8 = 0 then unscale8 fuel (q / 10 ^ 8) (scale - 8) else (q, scale)

def unscale (q : Nat) (scale : Int) : Nat × Int :=
  let (q, scale) := unscale8 4 q scale
  let (q, scale) := if q % 16 = 0 ∧ scale ≥ 4 ∧ q % 10 ^ 4 = 0 then (q / 10 ^ 4, scale - 4) else (q, scale)
  let (q, scale) := if q % 4 = 0 ∧ scale ≥ 2 ∧ q % 10 ^ 2 = 0 then (q / 10 ^ 2, scale - 2) else (q, scale)
  if q % 2 = 0 ∧ scale ≥ 1 ∧ q % 10 = 0 then (q / 10, scale - 1) else (q, scale)

def divImpl (a b : D96) : Calc :=
  if b.mant = 0 then .divByZero
  else if a.mant = 0 then .ok zero
  else
    match divLoop 64 (a.mant / b.mant) (a.mant % b.mant) b.mant ((a.scale : Int) - b.scale) false with
    | none => .overflow
    | some (q, scale, flag) =>
      let (q, scale) := if flag then unscale q scale else (q, scale)
      .ok (fromParts (a.neg != b.neg) q scale.toNat)

/-! ## the forms okane calls -/

def Calc.toOption : Calc → Option D96
  | .ok d => some d
  | _ => none

def checkedAdd (a b : D96) : Option D96 := (addImpl a b).toOption
def checkedSub (a b : D96) : Option D96 := (subImpl a b).toOption
def checkedMul (a b : D96) : Option D96 := (mulImpl a b).toOption
def checkedDiv (a b : D96) : Option D96 := (divImpl a b).toOption

/-- result of an operator form (`a + b`, `a += b`, ...): a value or the panic message of `arithmetic_impls.rs`. -/
inductive OpResult where
  | val (d : D96)
  | panic (msg : String)
  deriving DecidableEq, Repr, Inhabited

def opAdd (a b : D96) : OpResult :=
  match addImpl a b with | .ok d => .val d | _ => .panic "Addition overflowed"
def opSub (a b : D96) : OpResult :=
  match subImpl a b with | .ok d => .val d | _ => .panic "Subtraction overflowed"
def opMul (a b : D96) : OpResult :=
  match mulImpl a b with | .ok d => .val d | _ => .panic "Multiplication overflowed"
def opDiv (a b : D96) : OpResult :=
  match divImpl a b with
  | .ok d => .val d
  | .overflow => .panic "Division overflowed"
  | .divByZero => .panic "Division by zero"

/-- unary `-` (`Neg for Decimal` and `Neg for &Decimal`): flips the flag, also on zero. -/
def negate (d : D96) : D96 := { d with neg := !d.neg }
/-- `set_sign_positive` -/
def setSignPositive (d : D96) (positive : Bool) : D96 := { d with neg := !positive }
def abs (d : D96) : D96 := setSignPositive d true
def isZero (d : D96) : Bool := d.mant == 0
def isSignNegative (d : D96) : Bool := d.neg
def isSignPositive (d : D96) : Bool := !d.neg
/-- `mantissa() : i128` -/
def mantissa (d : D96) : Int := if d.neg then -(d.mant : Int) else d.mant

/-! ## comparison (cmp.rs): `Ord`, `PartialEq` -/

def cmpInternal (m1 s1 m2 s2 : Nat) : Ordering :=
  if s1 = s2 then compare m1 m2
  else if s2 < s1 then
    let m2' := m2 * 10 ^ (s1 - s2)
    if m2' ≥ two96 then .lt else compare m1 m2'
  else
    let m1' := m1 * 10 ^ (s2 - s1)
    if m1' ≥ two96 then .gt else compare m1' m2

def cmpImpl (d1 d2 : D96) : Ordering :=
  if d2.mant = 0 then
    if d1.mant = 0 then .eq else if d1.neg then .lt else .gt
  else if d1.mant = 0 then
    if d2.neg then .gt else .lt
  else if d1.neg != d2.neg then
    if d1.neg then .lt else .gt
  else if d1.neg then cmpInternal d2.mant d2.scale d1.mant d1.scale
  else cmpInternal d1.mant d1.scale d2.mant d2.scale

def decEq (a b : D96) : Bool := cmpImpl a b == .eq

/-! ## rounding and rescaling (decimal.rs, array.rs) -/

inductive Strategy where
  | midpointNearestEven | midpointAwayFromZero | midpointTowardZero | toZero | awayFromZero
  | toPositiveInfinity | toNegativeInfinity
  deriving DecidableEq, Repr, Inhabited

/-- `round_dp_with_strategy` -/
def roundDp (d : D96) (dp : Nat) (st : Strategy) : D96 :=
  if d.scale ≤ dp then d
  else if d.mant = 0 then ⟨d.neg, 0, dp⟩
  else
    let power := 10 ^ (d.scale - dp)
    let value := d.mant / power
    let frac := d.mant - value * power
    let cap := 5 * 10 ^ (d.scale - dp - 1)
    let up : Bool :=
      match st with
      | .midpointNearestEven => decide (frac > cap) || (frac == cap && value % 2 == 1)
      | .midpointTowardZero => decide (frac > cap)
      | .midpointAwayFromZero => decide (frac ≥ cap)
      | .awayFromZero => frac != 0
      | .toPositiveInfinity => !d.neg && frac != 0
      | .toNegativeInfinity => d.neg && frac != 0
      | .toZero => false
    fromParts d.neg (if up then value + 1 else value) dp

/-- the scale-up loop of `array::rescale`: multiply by 10 while the product fits and places remain. Returns the mantissa
and the number of places NOT gained. -/
def scaleUp : Nat → Nat → Nat × Nat
  | 0, m => (m, 0)
  | diff + 1, m => if m * 10 < two96 then scaleUp diff (m * 10) else (m, diff + 1)

/-- `Decimal::rescale(new_scale)`: up — as far as the mantissa allows; down — half away from zero on the first dropped
digit; the sign flag is kept (so `-0.04` rescaled to 1 place is the negative zero `-0.0`). -/
def rescale (d : D96) (newScale : Nat) : D96 :=
  if d.scale = newScale then d
  else if d.mant = 0 then ⟨d.neg, 0, min newScale 28⟩
  else if newScale < d.scale then
    let k := d.scale - newScale
    let q := d.mant / 10 ^ k
    let last := d.mant / 10 ^ (k - 1) % 10
    ⟨d.neg, if last ≥ 5 then q + 1 else q, newScale⟩
  else
    let (m, left) := scaleUp (newScale - d.scale) d.mant
    ⟨d.neg, m, newScale - left⟩

/-! ## construction -/

inductive FromI128Err where
  | scale | max | min
  deriving DecidableEq, Repr

/-- `try_from_i128_with_scale` (the argument is any integer here; the `i128` range is the caller's). -/
def tryFromI128WithScale (num : Int) (scale : Nat) : Except FromI128Err D96 :=
  if scale > 28 then .error .scale
  else if num > (two96 : Int) - 1 then .error .max
  else if num < -((two96 : Int) - 1) then .error .min
  else .ok ⟨decide (num < 0), num.natAbs, scale⟩

/-! ## text: `Display` and `FromStr` (str.rs) -/

/-- decimal digits of a natural number, most significant first; `[]` for 0 (the `while !is_all_zero` loop). -/
def digitsRev : Nat → Nat → List Char
  | 0, _ => []
  | fuel + 1, n => if n = 0 then [] else Char.ofNat (48 + n % 10) :: digitsRev fuel (n / 10)

def digits (n : Nat) : List Char := (digitsRev (n.log2 + 2) n).reverse

/-- `Display for Decimal` without a precision: `to_str_internal(self, false, None)` + `pad_integral(is_sign_positive, ..)`. -/
def display (d : D96) : List Char :=
  let ds := digits d.mant
  let ds := List.replicate (d.scale - ds.length) '0' ++ ds
  let whole := ds.take (ds.length - d.scale)
  let frac := ds.drop (ds.length - d.scale)
  let body :=
    if d.scale = 0 then (if whole.isEmpty then ['0'] else whole)
    else (if whole.isEmpty then ['0'] else whole) ++ '.' :: frac
  if d.neg then '-' :: body else body

def isDigit (c : Char) : Bool := '0' ≤ c && c ≤ '9'
def digitVal (c : Char) : Nat := c.toNat - 48

/-- result of `from_str`: a value, `Err(_)`, or the panic of `from_parts`' `assert!(scale <= MAX_SCALE)`. -/
inductive StrRes where
  | ok (d : D96)
  | err
  | panic
  deriving DecidableEq, Repr, Inhabited

/-- `handle_data::<NEG, true>` -/
def handleData (neg : Bool) (data scale : Nat) : StrRes :=
  if scale > 28 then .panic else .ok (fromParts neg data scale)

/-- `maybe_round`: the mantissa is full (or 28 places are reached); the NEXT character decides the rounding (half up) and
nothing after it is looked at — not even for validity. -/
def maybeRound (data : Nat) (next : Char) (scale : Nat) (point neg : Bool) : StrRes :=
  let digit : Option Nat :=
    if isDigit next then some (digitVal next)
    else if next = '_' then some 0
    else if next = '.' ∧ !point then some 0
    else none
  match digit with
  | none => .err
  | some dg =>
    if dg ≥ 5 then
      if data + 1 ≥ two96 then
        if scale = 0 then .err else handleData neg ((data + 1 + 4) / 10) (scale - 1)
      else handleData neg (data + 1) scale
    else handleData neg data scale

/-- `handle_full_128`: the 128-bit accumulator phase of `parse_str_radix_10` (after the 64-bit accumulator came close to
overflowing); `next` is the byte being dispatched, `rest` what follows it. -/
def full128 : Nat → Nat → List Char → Nat → Char → Bool → Bool → StrRes
  | 0, _, _, _, _, _, _ => .err
  | fuel + 1, data, rest, scale, next, point, neg =>
    if isDigit next then
      let nx := data * 10 + digitVal next
      if nx ≥ two96 then
        if !point then .err else maybeRound data next scale point neg
      else
        let scale := if point then scale + 1 else scale
        match rest with
        | [] => handleData neg nx scale
        | c :: cs =>
          if point ∧ scale ≥ 28 then
            if c = '_' then
              match cs with
              | [] => handleData neg nx scale
              | c2 :: cs2 => full128 fuel nx cs2 scale c2 point neg
            else maybeRound nx c scale point neg
          else full128 fuel nx cs scale c point neg
    else if next = '.' ∧ !point then
      match rest with
      | [] => handleData neg data scale
      | c :: cs => full128 fuel data cs scale c true neg
    else if next = '_' then
      match rest with
      | [] => handleData neg data scale
      | c :: cs => full128 fuel data cs scale c point neg
    else .err

/-- `WILL_OVERFLOW_U64` -/
def willOverflowU64 : Nat := (2 ^ 64 - 1) / 10 - 255

/-- `byte_dispatch_u64` and the handlers it tail-calls: the 64-bit accumulator phase. `b` is the byte being dispatched,
`rest` what follows; `has`: a digit has been seen; `first`: `b` is the first byte of the string; `big`: the string has 18
bytes or more. -/
def dispatch64 : Nat → List Char → Nat → Nat → Char → Bool → Bool → Bool → Bool → Bool → StrRes
  | 0, _, _, _, _, _, _, _, _, _ => .err
  | fuel + 1, rest, data, scale, b, point, neg, has, big, first =>
    let next (point neg has : Bool) (data scale : Nat) : StrRes :=
      match rest with
      | [] => if has then handleData neg data scale else .err
      | c :: cs => dispatch64 fuel cs data scale c point neg has big false
    if isDigit b then
      let data := data * 10 + digitVal b
      let scale := if point then scale + 1 else 0
      match rest with
      | [] => handleData neg data scale
      | c :: cs =>
        if point ∧ big ∧ scale ≥ 28 then maybeRound data c scale point neg
        else if big ∧ data ≥ willOverflowU64 then full128 (cs.length + 2) data cs scale c point neg
        else dispatch64 fuel cs data scale c point neg true big false
    else if b = '.' ∧ !point then next true neg has data scale
    else if b = '-' ∧ first ∧ !has then next false true false data scale
    else if b = '+' ∧ first ∧ !has then next false false false data scale
    else if b = '_' ∧ has then next point neg true data scale
    else .err

/-- `Decimal::from_str` = `parse_str_radix_10` (rounding variant), on the BYTES of the string (`cs`: the characters; every
accepted byte is ASCII, and a non-ASCII character is rejected like its first byte; `byteLen`: the length in bytes, which
selects the `BIG` variant from 18 on). -/
def fromStrBytes (cs : List Char) (byteLen : Nat) : StrRes :=
  match cs with
  | [] => .err
  | b :: rest => dispatch64 (cs.length + 1) rest 0 0 b false false false (decide (byteLen ≥ 18)) true

def fromStr (s : String) : StrRes := fromStrBytes s.toList s.utf8ByteSize

end Okane.Dec96
