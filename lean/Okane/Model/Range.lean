import Okane.Model.Book
/-!
# Date ranges, the recomputed (unconverted) balance and the register (mirror of `core/src/report/query.rs`
`DateRange`, the `require_recompute` path of `Ledger::balance` without conversion, and `cli/src/cmd.rs`
`RegisterCmd`'s running total)
-/
namespace Okane
variable {α κ : Type} [DecidableEq α] [DecidableEq κ]

/-- `DateRange`: half-open `[start, end)`, `none` = unbounded. -/
structure DateRange where
  start : Option Date := none
  stop : Option Date := none
  deriving Repr, Inhabited

namespace DateRange
def isBypass (r : DateRange) : Bool := r.start.isNone && r.stop.isNone
/-- `contains`. -/
def contains (r : DateRange) (d : Date) : Bool :=
  (match r.start with | some s => decide (s ≤ d) | none => true) &&
  (match r.stop with | some e => decide (d < e) | none => true)
end DateRange

/-- all (date, posting) pairs of a ledger, in file order (`transactions.flat_map(postings)`). -/
def allPostings (txns : List (OutTxn α κ)) : List (Date × OutPosting α κ) :=
  txns.flatMap fun t => t.postings.map fun p => (t.date, p)

/-- the loop of the recompute path of `Ledger::balance` without conversion: `bal.add_amount` per posting of
every transaction dated in the range. -/
def rangeBalanceRaw (txns : List (OutTxn α κ)) (r : DateRange) : Balance α κ :=
  (allPostings txns).foldl (fun b dp => if r.contains dp.1 then (Balance.addAmount b dp.2.account dp.2.amount).1 else b) []

/-- `Ledger::balance` with no conversion: raw balance when the range is unbounded, else recomputed and rounded. -/
def balanceNoConv (prec : κ → Option Nat) (txns : List (OutTxn α κ)) (raw : Balance α κ) (r : DateRange) : Balance α κ :=
  if r.isBypass then raw else Balance.round prec (rangeBalanceRaw txns r)

/-- `Ledger::postings` with an optional account filter (exact canonical name). -/
def postingsOf (txns : List (OutTxn α κ)) (acct : Option α) : List (OutPosting α κ) :=
  (allPostings txns).filterMap fun dp =>
    match acct with
    | none => some dp.2
    | some a => if dp.2.account = a then some dp.2 else none

/-- `RegisterCmd`: each listed posting with the running total (`Amount +=`, zero entries retained). -/
def register (ps : List (OutPosting α κ)) : List (OutPosting α κ × Amount κ) :=
  (ps.foldl (fun (acc : List (OutPosting α κ × Amount κ) × Amount κ) p =>
      let tot := acc.2.add p.amount
      (acc.1 ++ [(p, tot)], tot)) ([], [])).1

end Okane
