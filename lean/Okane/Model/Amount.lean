import Okane.Base.Outcome
import Okane.Base.AMap
import Okane.Base.Num
/-!
# Amounts (mirror of `core/src/report/eval/{amount,single_amount,posting_amount,evaluated,error}.rs`)

`Decimal` values are exact rationals here (rust_decimal is exact for + − × neg cmp within 96 bits / 28
places; the correspondence generators stay inside that range and tag what leaves it).
`Amount κ` is the model of `HashMap<Commodity, Decimal>`: an association list with unique keys whose
order stands for the hash-iteration order.  Zero entries are retained, as in the Rust.
-/
namespace Okane
variable {κ : Type} [DecidableEq κ]

inductive EvalErr where
  | unmatchingOperation
  | unmatchingCommodities
  | unknownCommodity
  | divideByZero
  | numberOverflow
  | amountRequired
  | postingAmountRequired
  | singleAmountRequired
  deriving Repr, DecidableEq, Inhabited

abbrev Amount (κ : Type) := AMap κ Rat

structure SingleAmount (κ : Type) where
  value : Rat
  commodity : κ
  deriving Repr, DecidableEq

inductive PostingAmt (κ : Type) where
  | zero
  | single (s : SingleAmount κ)
  deriving Repr, DecidableEq

namespace SingleAmount
def neg (s : SingleAmount κ) : SingleAmount κ := ⟨-s.value, s.commodity⟩
def mul (s : SingleAmount κ) (r : Rat) : SingleAmount κ := ⟨s.value * r, s.commodity⟩
def abs (s : SingleAmount κ) : SingleAmount κ := ⟨ratAbs s.value, s.commodity⟩
/-- `check_add`: same commodity required. -/
def checkAdd (a b : SingleAmount κ) : Outcome EvalErr (SingleAmount κ) :=
  if a.commodity = b.commodity then .ok ⟨a.value + b.value, a.commodity⟩ else .err .unmatchingCommodities
def checkSub (a b : SingleAmount κ) : Outcome EvalErr (SingleAmount κ) := checkAdd a (neg b)
def checkDiv (a : SingleAmount κ) (r : Rat) : Outcome EvalErr (SingleAmount κ) :=
  if r = 0 then .err .divideByZero else .ok ⟨a.value / r, a.commodity⟩
/-- `with_sign_of`: magnitude of `self`, sign bit of `sign` (a zero `sign` counts as positive unless its
sign bit is set; the model treats zero as positive — see DESIGN, negative zero). -/
def withSignOf (s sign : SingleAmount κ) : SingleAmount κ :=
  ⟨if sign.value < 0 then -(ratAbs s.value) else ratAbs s.value, s.commodity⟩
def round (prec : κ → Option Nat) (s : SingleAmount κ) : SingleAmount κ :=
  match prec s.commodity with
  | none => s
  | some dp => ⟨roundHalfEven s.value dp, s.commodity⟩
end SingleAmount

namespace PostingAmt
def neg : PostingAmt κ → PostingAmt κ
  | zero => zero
  | single s => single s.neg
def checkAdd : PostingAmt κ → PostingAmt κ → Outcome EvalErr (PostingAmt κ)
  | zero, r => .ok r
  | l, zero => .ok l
  | single l, single r => (l.checkAdd r).map' single
def checkSub (l r : PostingAmt κ) : Outcome EvalErr (PostingAmt κ) := checkAdd l (neg r)
/-- `TryFrom<PostingAmount> for SingleAmount`. -/
def toSingle : PostingAmt κ → Outcome EvalErr (SingleAmount κ)
  | zero => .err .singleAmountRequired
  | single s => .ok s
/-- `From<PostingAmount> for Amount`. -/
def toAmount : PostingAmt κ → Amount κ
  | zero => []
  | single s => [(s.commodity, s.value)]
end PostingAmt

namespace Amount

/-- value at a commodity, `0` when absent (`get_part`). -/
def getPart (a : Amount κ) (c : κ) : Rat := (AMap.get? a c).getD 0

/-- `*self.values.entry(c).or_default() += v` -/
def addSingle (a : Amount κ) (c : κ) (v : Rat) : Amount κ := AMap.insert a c (getPart a c + v)

/-- `self += rhs` (iterates `rhs`). -/
def add (a b : Amount κ) : Amount κ := b.foldl (fun acc kv => addSingle acc kv.1 kv.2) a

/-- `self -= rhs`. -/
def sub (a b : Amount κ) : Amount κ := b.foldl (fun acc kv => addSingle acc kv.1 (-kv.2)) a

def addPosting (a : Amount κ) : PostingAmt κ → Amount κ
  | .zero => a
  | .single s => addSingle a s.commodity s.value

def neg (a : Amount κ) : Amount κ := AMap.mapVals (fun v => -v) a

def mulScalar (a : Amount κ) (r : Rat) : Amount κ := AMap.mapVals (fun v => v * r) a

def checkDiv (a : Amount κ) (r : Rat) : Outcome EvalErr (Amount κ) :=
  if r = 0 then .err .divideByZero else .ok (AMap.mapVals (fun v => v / r) a)

/-- `is_zero`: every entry is zero (also true of the empty amount). -/
def isZero (a : Amount κ) : Bool := a.all (fun kv => kv.2 == 0)

/-- `is_absolute_zero`: no entry at all. -/
def isAbsoluteZero (a : Amount κ) : Bool := a.isEmpty

def removeZero (a : Amount κ) : Amount κ := AMap.filterVals (fun v => v != 0) a

/-- `Amount::set_partial`: new amount and the previous value of that commodity. -/
def setPartial (a : Amount κ) (s : SingleAmount κ) : Amount κ × SingleAmount κ :=
  let prev := getPart a s.commodity
  (if s.value = 0 then AMap.erase a s.commodity else AMap.insert a s.commodity s.value, ⟨prev, s.commodity⟩)

/-- `maybe_pair`: the two entries *in iteration order*, if there are exactly two. -/
def maybePair : Amount κ → Option (SingleAmount κ × SingleAmount κ)
  | [(c1, v1), (c2, v2)] => some (⟨v1, c1⟩, ⟨v2, c2⟩)
  | _ => none

def round (prec : κ → Option Nat) (a : Amount κ) : Amount κ :=
  AMap.mapValsK (fun k v => match prec k with | none => v | some dp => roundHalfEven v dp) a

/-- `TryFrom<&Amount> for SingleAmount` (after fix F5: exactly one entry required). -/
def toSingle : Amount κ → Outcome EvalErr (SingleAmount κ)
  | [(c, v)] => .ok ⟨v, c⟩
  | _ => .err .singleAmountRequired

/-- `TryFrom<&Amount> for PostingAmount`. -/
def toPosting : Amount κ → Outcome EvalErr (PostingAmt κ)
  | [] => .ok .zero
  | [(c, v)] => .ok (.single ⟨v, c⟩)
  | _ => .err .postingAmountRequired

/-- `assert_balance`: the diff (expected − actual) in the asserted commodity, empty when consistent. -/
def assertBalance (a : Amount κ) : PostingAmt κ → Amount κ
  | .zero => if isZero a then [] else neg a
  | .single s =>
    let diff := s.value - getPart a s.commodity
    if diff = 0 then [] else [(s.commodity, diff)]

end Amount

/-- `Evaluated`. -/
inductive Evaluated (κ : Type) where
  | number (r : Rat)
  | commodities (a : Amount κ)
  deriving Repr

namespace Evaluated
def isZero : Evaluated κ → Bool
  | number r => r == 0
  | commodities a => a.isZero
def negate : Evaluated κ → Evaluated κ
  | number r => number (-r)
  | commodities a => commodities a.neg
def checkAdd : Evaluated κ → Evaluated κ → Outcome EvalErr (Evaluated κ)
  | number l, number r => .ok (number (l + r))
  | commodities l, commodities r => .ok (commodities (l.add r))
  | _, _ => .err .unmatchingOperation
def checkSub : Evaluated κ → Evaluated κ → Outcome EvalErr (Evaluated κ)
  | number l, number r => .ok (number (l - r))
  | commodities l, commodities r => .ok (commodities (l.sub r))
  | _, _ => .err .unmatchingOperation
def checkMul : Evaluated κ → Evaluated κ → Outcome EvalErr (Evaluated κ)
  | number x, number y => .ok (number (x * y))
  | commodities x, number y => .ok (commodities (x.mulScalar y))
  | number x, commodities y => .ok (commodities (y.mulScalar x))
  | _, _ => .err .unmatchingOperation
def checkDiv (l r : Evaluated κ) : Outcome EvalErr (Evaluated κ) :=
  if r.isZero then .err .divideByZero else
  match l, r with
  | number x, number y => .ok (number (x / y))
  | commodities x, number y => (x.checkDiv y).map' commodities
  | number x, commodities y =>
    match y.toSingle with
    | .ok s => ((SingleAmount.mk x s.commodity).checkDiv s.value).map' (fun r => commodities [(r.commodity, r.value)])
    | .err e => .err e
    | .panic p => .panic p
    | .fuelOut => .fuelOut
  | _, _ => .err .unmatchingOperation
/-- `TryFrom<Evaluated> for Amount`. -/
def toAmount : Evaluated κ → Outcome EvalErr (Amount κ)
  | commodities a => .ok a
  | number r => if r = 0 then .ok [] else .err .amountRequired
def toPosting (e : Evaluated κ) : Outcome EvalErr (PostingAmt κ) :=
  match e.toAmount with
  | .ok a => a.toPosting
  | .err x => .err x
  | .panic p => .panic p
  | .fuelOut => .fuelOut
def toSingle (e : Evaluated κ) : Outcome EvalErr (SingleAmount κ) :=
  match e.toAmount with
  | .ok a => a.toSingle
  | .err x => .err x
  | .panic p => .panic p
  | .fuelOut => .fuelOut
end Evaluated

end Okane
