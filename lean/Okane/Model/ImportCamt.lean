import Okane.Model.Import
/-!
# ISO Camt053 importer, the logic after decoding (mirror of `cli/src/import/iso_camt053.rs`)

The statement arrives decoded (`xmlnode::Document` as quick-xml/serde build it): only the fields the importer
reads are kept.  Dates are the naive local dates (`DateHolder::as_naive_date`).  The regex engine is the
parameter `cap`.
-/
namespace Okane.Import
open Okane

/-- `xmlnode::CreditOrDebit`. -/
inductive CdtDbt where
  | credit | debit
  deriving Repr, DecidableEq, Inhabited

/-- `xmlnode::Amount`. -/
structure CamtAmount where
  value : Dec
  currency : String
  deriving Repr, DecidableEq, Inhabited

/-- `Decimal == Decimal` compares values (`1.0 == 1.00`, `-0 == 0`). -/
def Dec.valEq (a b : Dec) : Bool := a.smant * (10 : Int) ^ b.scale == b.smant * (10 : Int) ^ a.scale

/-- derived `PartialEq` of `xmlnode::Amount`. -/
def CamtAmount.eq (a b : CamtAmount) : Bool := a.currency == b.currency && a.value.valEq b.value

/-- `xmlnode::Amount::to_data`: credit keeps the value, debit negates it. -/
def CamtAmount.toData (a : CamtAmount) (cd : CdtDbt) : OwnedAmount :=
  ⟨match cd with
    | .credit => a.value
    | .debit => a.value.negate, a.currency⟩

/-- `xmlnode::BalanceCode` (`other`: CLAV, ITBD, … — decoded since fix F31, never looked at). -/
inductive BalanceCode where
  | opening | closing | other
  deriving Repr, DecidableEq, Inhabited

/-- `xmlnode::Balance`. -/
structure CamtBalance where
  code : BalanceCode
  amount : CamtAmount
  cd : CdtDbt
  deriving Repr, DecidableEq, Inhabited

/-- `xmlnode::ChargeRecord`. -/
structure ChargeRecord where
  amount : CamtAmount
  cd : CdtDbt
  included : Bool
  deriving Repr, DecidableEq, Inhabited

/-- `xmlnode::CurrencyExchange`. -/
structure CurrencyExchange where
  source : String
  target : String
  rate : Dec
  deriving Repr, DecidableEq, Inhabited

/-- `AmountDetails.transaction` (`TxAmt`), the only part of `AmtDtls` the importer reads. -/
structure TxAmount where
  amount : CamtAmount
  exchange : Option CurrencyExchange
  deriving Repr, DecidableEq, Inhabited

/-- the text fields the rewrite rules can look at -/
structure PartyInfo where
  creditorName : Option String := none
  creditorAccountId : Option String := none
  ultimateCreditorName : Option String := none
  debtorName : Option String := none
  debtorAccountId : Option String := none
  ultimateDebtorName : Option String := none
  remittanceUnstructured : Option String := none
  additionalTransactionInfo : Option String := none
  deriving Repr, DecidableEq, Inhabited

/-- `xmlnode::TransactionDetails`. -/
structure TxDetails where
  ref : Option String
  amount : CamtAmount
  cd : CdtDbt
  txAmount : Option TxAmount
  charges : List ChargeRecord
  info : PartyInfo := {}
  deriving Repr, DecidableEq, Inhabited

/-- `xmlnode::Entry`. -/
structure CamtEntry where
  amount : CamtAmount
  cd : CdtDbt
  bookingDate : Date
  valueDate : Option Date
  /-- `BkTxCd/Domn`: domain, family and sub-family codes as written -/
  domain : Option (String × String × String)
  charges : List ChargeRecord
  details : List TxDetails
  additionalInfo : String
  deriving Repr, DecidableEq, Inhabited

/-- `xmlnode::Statement`. -/
structure Statement where
  balances : List CamtBalance
  entries : List CamtEntry
  deriving Repr, DecidableEq, Inhabited

/-- what the importer needs of `config::ConfigEntry` -/
structure CamtCfg where
  account : String
  operator : Option String
  rowOrder : RowOrder
  rewrite : List Rule
  deriving Repr, Inhabited

/-- `Entry::guess_value_date`. -/
def CamtEntry.guessValueDate (e : CamtEntry) : Date := e.valueDate.getD e.bookingDate

/-- `find_balance`: the first balance carrying the code. -/
def findBalance (st : Statement) (code : BalanceCode) : Option OwnedAmount :=
  (st.balances.find? fun b => b.code == code).map fun b => b.amount.toData b.cd

/-- `add_charges`. -/
def addCharges (operator : Option String) : Txn → List ChargeRecord → Outcome ImportErr Txn
  | txn, [] => .ok txn
  | txn, cr :: rest =>
    if cr.amount.value.isZero then addCharges operator txn rest
    else
      match operator with
      | none => .err (.invalidConfig "config should have operator to have charge")
      | some payee =>
        -- charge_amount must be negated, as charge is by default debit.
        let chargeAmount := (cr.amount.toData cr.cd).negate
        if !cr.included then
          match txn.tryAddChargeNotIncluded payee chargeAmount with
          | .ok t => addCharges operator t rest
          | .err e => .err e
          | .panic s => .panic s
          | .fuelOut => .fuelOut
        else addCharges operator (txn.addCharge payee chargeAmount) rest

/-- the record as `FieldMatch::captures` sees it -/
def camtRecord (e : CamtEntry) (d : Option TxDetails) : Record := fun f =>
  let info : PartyInfo := (d.map (·.info)).getD {}
  match f with
  | .domainCode => .code (e.domain.map (·.1))
  | .domainFamily => .code (e.domain.map (·.2.1))
  | .domainSubFamily => .code (e.domain.map (·.2.2))
  | .creditorName => .text info.creditorName true
  | .creditorAccountId => .text info.creditorAccountId true
  | .ultimateCreditorName => .text info.ultimateCreditorName true
  | .debtorName => .text info.debtorName true
  | .debtorAccountId => .text info.debtorAccountId true
  | .ultimateDebtorName => .text info.ultimateDebtorName true
  | .remittanceUnstructuredInfo => .text info.remittanceUnstructured true
  | .additionalEntryInfo => .text (some e.additionalInfo) true
  | .additionalTransactionInfo => .text info.additionalTransactionInfo true
  | .payee => .payee none
  | _ => .text none false

/-- an entry without `TxDtls`, before its charges are added -/
def entryBase (cap : Captures) (cfg : CamtCfg) (e : CamtEntry) : Txn :=
  let amount := e.amount.toData e.cd
  let fragment := extract cap cfg.rewrite (camtRecord e none)
  let txn := Txn.new e.guessValueDate (fragment.payee.getD "unknown payee") amount
  let txn := (txn.setEffectiveDate e.bookingDate).destAccountOption fragment.account
  if !fragment.cleared then txn.setClearState .pending else txn

/-- the transaction of an entry without `TxDtls`. -/
def entryTxn (cap : Captures) (cfg : CamtCfg) (e : CamtEntry) : Outcome ImportErr Txn :=
  addCharges cfg.operator (entryBase cap cfg e) e.charges

/-- one `TxDtls`, before amount details and charges -/
def detailBase (cap : Captures) (cfg : CamtCfg) (e : CamtEntry) (d : TxDetails) : Txn :=
  let amount := d.amount.toData d.cd
  let fragment := extract cap cfg.rewrite (camtRecord e (some d))
  let txn := Txn.new e.guessValueDate (fragment.payee.getD "unknown payee") amount
  let txn := ((txn.setEffectiveDate e.bookingDate).codeOption d.ref).destAccountOption fragment.account
  if !fragment.cleared then txn.setClearState .pending else txn

/-- `if let Some(amount_details) …`: when the transaction amount of the amount details differs from the detail's
amount it becomes the transferred amount (with the currency exchange, if any, as rate). -/
def withAmountDetails (txn : Txn) (d : TxDetails) : Outcome ImportErr Txn :=
  match d.txAmount with
  | none => .ok txn
  | some ta =>
    if !(d.amount.eq ta.amount) then
      match ta.exchange with
      | some x =>
        match txn.addRate ⟨x.source, x.target⟩ x.rate with
        | .ok t => .ok (t.setTransferredAmount (ta.amount.toData d.cd))
        | .err e => .err e
        | .panic s => .panic s
        | .fuelOut => .fuelOut
      | none => .ok (txn.setTransferredAmount (ta.amount.toData d.cd))
    else .ok txn

/-- the transaction of one `TxDtls` of an entry. -/
def detailTxn (cap : Captures) (cfg : CamtCfg) (e : CamtEntry) (d : TxDetails) : Outcome ImportErr Txn :=
  match withAmountDetails (detailBase cap cfg e d) d with
  | .ok t =>
    match addCharges cfg.operator t e.charges with
    | .ok t2 => addCharges cfg.operator t2 d.charges
    | .err e => .err e
    | .panic s => .panic s
    | .fuelOut => .fuelOut
  | .err e => .err e
  | .panic s => .panic s
  | .fuelOut => .fuelOut

def detailTxns (cap : Captures) (cfg : CamtCfg) (e : CamtEntry) : List TxDetails → Outcome ImportErr (List Txn)
  | [] => .ok []
  | d :: rest =>
    match detailTxn cap cfg e d with
    | .ok t =>
      match detailTxns cap cfg e rest with
      | .ok ts => .ok (t :: ts)
      | .err x => .err x
      | .panic s => .panic s
      | .fuelOut => .fuelOut
    | .err x => .err x
    | .panic s => .panic s
    | .fuelOut => .fuelOut

/-- the transactions of one entry: the entry itself when it has no details, else one per detail. -/
def entryTxns (cap : Captures) (cfg : CamtCfg) (e : CamtEntry) : Outcome ImportErr (List Txn) :=
  if e.details.isEmpty then (entryTxn cap cfg e).map' fun t => [t]
  else detailTxns cap cfg e e.details

def entriesTxns (cap : Captures) (cfg : CamtCfg) : List CamtEntry → Outcome ImportErr (List Txn)
  | [] => .ok []
  | e :: rest =>
    match entryTxns cap cfg e with
    | .ok ts =>
      match entriesTxns cap cfg rest with
      | .ok ts' => .ok (ts ++ ts')
      | .err x => .err x
      | .panic s => .panic s
      | .fuelOut => .fuelOut
    | .err x => .err x
    | .panic s => .panic s
    | .fuelOut => .fuelOut

/-- the opening-balance transaction: dated like the **first entry of the file**, amount `0` in the
balance's commodity, asserted balance = opening balance, counter account `Equity:Adjustments`. -/
def openingTxn (st : Statement) : List Txn :=
  match findBalance st .opening, st.entries.head? with
  | some ob, some first =>
    [((Txn.new first.guessValueDate "Initial Balance" ⟨{}, ob.commodity⟩).setDestAccount "Equity:Adjustments").setBalance ob]
  | _, _ => []

/-- `res.last_mut().balance(closing)` -/
def setLastBalance (res : List Txn) (closing : Option OwnedAmount) : List Txn :=
  match closing, res.getLast? with
  | some b, some last => res.dropLast ++ [last.setBalance b]
  | _, _ => res

def orderedEntries (cfg : CamtCfg) (st : Statement) : List CamtEntry :=
  match cfg.rowOrder with
  | .oldToNew => st.entries
  | .newToOld => st.entries.reverse

/-- one `Stmt` of the loop in `iso_camt053::import`; `res` is what earlier statements produced
(the closing balance goes to the last transaction of `res`, whichever statement it came from). -/
def camtStatementOnto (cap : Captures) (cfg : CamtCfg) (res : List Txn) (st : Statement) :
    Outcome ImportErr (List Txn) :=
  match entriesTxns cap cfg (orderedEntries cfg st) with
  | .ok ts => .ok (setLastBalance (res ++ openingTxn st ++ ts) (findBalance st .closing))
  | .err x => .err x
  | .panic s => .panic s
  | .fuelOut => .fuelOut

/-- a document with one statement -/
def camtStatement (cap : Captures) (cfg : CamtCfg) (st : Statement) : Outcome ImportErr (List Txn) :=
  camtStatementOnto cap cfg [] st

/-- `iso_camt053::import` after decoding. -/
def camtImport (cap : Captures) (cfg : CamtCfg) : List Txn → List Statement → Outcome ImportErr (List Txn)
  | res, [] => .ok res
  | res, st :: rest =>
    match camtStatementOnto cap cfg res st with
    | .ok res' => camtImport cap cfg res' rest
    | .err x => .err x
    | .panic s => .panic s
    | .fuelOut => .fuelOut

end Okane.Import
