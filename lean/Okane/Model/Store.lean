import Okane.Base.Outcome
import Okane.Base.AMap
/-!
# Intern store with aliases (mirror of `core/src/report/intern.rs`, `context.rs`, `commodity.rs`)

Interned strings (pointer equality) are modelled by the canonical name itself.
`recs name = none`  : canonical;  `recs name = some c` : alias of canonical `c`.
-/
namespace Okane

inductive InternErr where
  | alreadyCanonical
  | alreadyAlias
  | aliasConflict
  deriving Repr, DecidableEq, Inhabited

structure Store where
  recs : AMap String (Option String) := []
  deriving Repr, Inhabited

namespace Store

/-- `resolve`: canonical name for a registered name. -/
def resolve (s : Store) (name : String) : Option String :=
  match AMap.get? s.recs name with
  | none => none
  | some none => some name
  | some (some c) => some c

/-- `ensure`: resolve, registering `name` as canonical when unknown. -/
def ensure (s : Store) (name : String) : String × Store :=
  match s.resolve name with
  | some c => (c, s)
  | none => (name, ⟨AMap.insert s.recs name none⟩)

def insertCanonical (s : Store) (name : String) : Outcome InternErr (String × Store) :=
  match AMap.get? s.recs name with
  | none => .ok (name, ⟨AMap.insert s.recs name none⟩)
  | some none => .ok (name, s)
  | some (some _) => .err .alreadyAlias

def insertAlias (s : Store) (name canonical : String) : Outcome InternErr Store :=
  match AMap.get? s.recs name with
  | some none => .err .alreadyCanonical
  | some (some found) => if found = canonical then .ok s else .err .aliasConflict
  | none => .ok ⟨AMap.insert s.recs name (some canonical)⟩

/-- all canonical names (unsorted, in map order). -/
def canonicals (s : Store) : List String := s.recs.filterMap fun kv => if kv.2.isNone then some kv.1 else none

end Store

/-- `ReportContext`: account store, commodity store, declared formats (only the scale is ever used). -/
structure Ctx where
  accounts : Store := {}
  commodities : Store := {}
  formatting : AMap String Nat := []
  deriving Repr, Inhabited

namespace Ctx
/-- `get_decimal_point` -/
def prec (c : Ctx) (commodity : String) : Option Nat := AMap.get? c.formatting commodity
end Ctx

end Okane
