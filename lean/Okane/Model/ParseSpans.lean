import Okane.Model.Parse
/-!
# The ledger parser with the `Tracking` decoration (mirror of `syntax/tracked.rs` and of the
# `Deco::decorate_parser(..)` sites of `parse/{posting,transaction}.rs`)

`Okane.Parse` (`Model/Parse.lean`) models the parser with the *plain* decoration: `Deco::decorate_parser(p) = p`.
`report::process` runs the parser with `Deco = Tracking`, for which

    decorate_parser(p) = p.with_span().map(|(value, span)| Tracked::new(value, TrackedSpan(span)))

i.e. six places of the grammar remember the byte range they consumed (offsets into the whole file, because the
stream is a `LocatingSlice` over the whole file):

| Rust site | tracked item |
|---|---|
| `transaction`: `cut_err(Deco::decorate_parser(posting::posting))` | every posting |
| `posting_account`: `Deco::decorate_parser(repeat_till(..).take().map(trim_start))` | the account name (before the trailing `space0`) |
| `posting`: `opt(Deco::decorate_parser(delimited(('=', space0), value_expr, space0)))` | the balance assertion, **with** its `=` and the blanks after it |
| `posting_amount`: `terminated(Deco::decorate_parser(value_expr), space0)` | the amount expression |
| `posting_amount`: `Deco::decorate_parser(cond_else(is_double_at, total_cost, rate_cost))` | the cost, with its `@` / `@@` |
| `lot`: `Deco::decorate_parser(lot_amount)` | the lot price, with its braces |

This file is the same grammar with these six `decorate` calls (`decorate`, below, is `with_span` + `Tracked::new`);
everything that carries no decoration is *the very definition* of `Model/Parse.lean`.  A span is kept the way
`LocatingSlice` knows it — by the number of bytes that remain —; `RSpan.toRange total` turns it into the
`Range<usize>` of `TrackedSpan` for a file of `total` bytes (`offset = total - remaining`, the same conversion
`Parse.parsedIter` uses for the entry span of `ParsedContext`).

`Lemmas/C14TextSpans.lean` proves: the tracked parser returns the same tree as the plain one (`erase`), fails at the
same positions, and every tracked span of an entry lies inside that entry's `ParsedContext::span`, on character
boundaries.
-/
namespace Okane.ParseSpans
open Okane Okane.Comb Okane.Parse

variable {α β : Type}

/-- what `with_span` sees on a `LocatingSlice`: the bytes remaining before and after the tracked parser ran -/
structure RSpan where
  before : Nat
  after : Nat
  deriving Repr, DecidableEq, Inhabited

/-- `TrackedSpan(start..end)` of a span in a file of `total` bytes: `(start, end)` -/
def RSpan.toRange (total : Nat) (s : RSpan) : Nat × Nat := (total - s.before, total - s.after)

/-- `syntax::tracked::Tracked<T>` -/
structure Tracked (α : Type) where
  value : α
  span : RSpan
  deriving Repr, Inhabited

/-- `Tracking::decorate_parser(p)` = `p.with_span().map(|(value, span)| Tracked::new(value, TrackedSpan(span)))`:
`with_span` takes `current_token_start()` before and `previous_token_end()` after a success; failures pass through. -/
def decorate (p : Parser α) : Parser (Tracked α) := fun i =>
  match p i with
  | .ok a r => .ok ⟨a, ⟨utf8Len i, utf8Len r⟩⟩ r
  | .bt q => .bt q
  | .cut q => .cut q
  | .panic s => .panic s
  | .fuel => .fuel

/-! ## `syntax::tracked::{Lot, PostingAmount, Posting, Transaction, LedgerEntry}` -/

structure TLot where
  price : Option (Tracked Exchange) := none
  date : Option Date := none
  note : Option String := none
  deriving Repr, Inhabited

structure TPostingAmount where
  amount : Tracked VExpr
  cost : Option (Tracked Exchange) := none
  lot : TLot := {}
  deriving Repr, Inhabited

structure TPosting where
  account : Tracked String
  clear : ClearState := .uncleared
  amount : Option TPostingAmount := none
  balance : Option (Tracked VExpr) := none
  metadata : List Metadata := []
  deriving Repr, Inhabited

structure TTransaction where
  date : Date
  effectiveDate : Option Date := none
  clear : ClearState := .uncleared
  code : Option String := none
  payee : String := ""
  posts : List (Tracked TPosting) := []
  metadata : List Metadata := []
  deriving Repr, Inhabited

/-- `syntax::tracked::LedgerEntry`: only transactions contain decorated items -/
inductive TEntry where
  | txn (t : TTransaction)
  | other (e : Entry)
  deriving Repr, Inhabited

/-! ## forgetting the decoration (`AsUndecorated`) -/

def TLot.erase (l : TLot) : Lot := { price := l.price.map (·.value), date := l.date, note := l.note }

def TPostingAmount.erase (a : TPostingAmount) : PostingAmount :=
  { amount := a.amount.value, cost := a.cost.map (·.value), lot := a.lot.erase }

def TPosting.erase (p : TPosting) : Posting :=
  { account := p.account.value, clear := p.clear, amount := p.amount.map (·.erase),
    balance := p.balance.map (·.value), metadata := p.metadata }

def TTransaction.erase (t : TTransaction) : Transaction :=
  { date := t.date, effectiveDate := t.effectiveDate, clear := t.clear, code := t.code, payee := t.payee,
    posts := t.posts.map (·.value.erase), metadata := t.metadata }

def TEntry.erase : TEntry → Entry
  | .txn t => .txn t.erase
  | .other e => e

/-! ## all tracked spans of a tree, in the order in which `{:?}` prints them (`Tracked { value, span }`: the value's
own spans come before the span of the item) -/

def TLot.spans (l : TLot) : List RSpan := (l.price.map (·.span)).toList

def TPostingAmount.spans (a : TPostingAmount) : List RSpan :=
  a.amount.span :: ((a.cost.map (·.span)).toList ++ a.lot.spans)

def TPosting.spans (p : TPosting) : List RSpan :=
  p.account.span :: (((p.amount.map (·.spans)).getD []) ++ (p.balance.map (·.span)).toList)

/-- a decorated posting: the spans inside the posting, then the posting's own span -/
def postSpans (p : Tracked TPosting) : List RSpan := p.value.spans ++ [p.span]

def TTransaction.spans (t : TTransaction) : List RSpan := t.posts.flatMap postSpans

def TEntry.spans : TEntry → List RSpan
  | .txn t => t.spans
  | .other _ => []

/-! ## `posting.rs` with `Deco = Tracking` -/

/-- `posting::posting_account` -/
def postingAccountT : Parser (Tracked String) :=
  terminated
    (decorate (map (fun x => String.ofList (trimStart x)) (take (repeatTill1 accountWord accountEnd))))
    space0

/-- the `loop` of `posting::lot`; the price is `Deco::decorate_parser(lot_amount)` -/
def lotLoopT : Nat → TLot → Parser TLot
  | 0, _ => fun _ => .fuel
  | n + 1, lot => fun i =>
    match i with
    | '{' :: _ =>
      if lot.price.isNone then
        (decorate lotAmount >>- fun a => space0 >>- fun _ => lotLoopT n { lot with price := some a }) i
      else .bt i
    | '[' :: _ =>
      if lot.date.isNone then
        (delimited (pair (char '[') space0) date (pair space0 (char ']')) >>- fun d => space0 >>- fun _ =>
          lotLoopT n { lot with date := some d }) i
      else .bt i
    | '(' :: _ =>
      if lot.note.isNone then
        (paren (takeTill0 fun c => c == '(' || c == ')' || c == '@') >>- fun s => space0 >>- fun _ =>
          lotLoopT n { lot with note := some (String.ofList s) }) i
      else .bt i
    | _ => .ok lot i

/-- `posting::lot` -/
def lotT : Parser TLot := space0 >>- fun _ => fun i => lotLoopT (i.length + 1) {} i

/-- `posting::posting_amount` -/
def postingAmountT : Parser TPostingAmount :=
  terminated (decorate valueExpr) space0 >>- fun amount =>
  lotT >>- fun l =>
  hasPeek (char '@') >>- fun isAt =>
  hasPeek (literal ['@', '@']) >>- fun isDoubleAt =>
  cond isAt (decorate (condElse isDoubleAt totalCost rateCost)) >>- fun cost =>
  pure { amount := amount, cost := cost, lot := l }

/-- `posting::posting` -/
def postingT : Parser TPosting :=
  preceded space0 clearState >>- fun cs =>
  postingAccountT >>- fun account =>
  hasPeek lineEndingOrSemi >>- fun shortcut =>
  if shortcut then
    blockMetadata >>- fun md => pure { account := account, clear := cs, metadata := md }
  else
    opt (terminated postingAmountT space0) >>- fun amount =>
    opt (decorate (delimited (pair (char '=') space0) valueExpr space0)) >>- fun balance =>
    blockMetadata >>- fun md =>
    pure { account := account, clear := cs, amount := amount, balance := balance, metadata := md }

/-! ## `transaction.rs` with `Deco = Tracking` -/

/-- `transaction::transaction` -/
def transactionT : Parser TTransaction :=
  date >>- fun d =>
  opt (preceded (char '=') date) >>- fun ed =>
  hasPeek (lineEndingOrEof <|| void (char ';')) >>- fun isShortest =>
  cond (!isShortest) space1 >>- fun _ =>
  clearState >>- fun cs =>
  opt (terminated parenStr space0) >>- fun code =>
  opt (map trimEnd tillLineEndingOrSemi) >>- fun payee =>
  blockMetadata >>- fun md =>
  repeat0 (preceded (pair (takeWhile1 isSpace) (not lineEndingOrEof)) (cutErr (decorate postingT))) >>- fun posts =>
  pure { date := d, effectiveDate := ed, clear := cs, code := code.map String.ofList,
         payee := String.ofList (payee.getD []), posts := posts, metadata := md }

/-! ## `parse.rs` with `Deco = Tracking` -/

/-- `parse_ledger_entry::<_, Tracking>`: the directives carry no decoration -/
def parseLedgerEntryT : Parser TEntry :=
  dispatch fun c =>
    if c == 'a' then
      map TEntry.other
        (preceded (peek (literal kwAccount)) (cutErr accountDeclaration)
         <|| preceded (peek (literal kwApply)) (cutErr applyTag))
    else if c == 'c' then map TEntry.other commodityDeclaration
    else if c == 'e' then map TEntry.other endApplyTag
    else if c == 'i' then map TEntry.other includeDirective
    else if isCommentPrefix c then map TEntry.other topComment
    else if c.isDigit then map TEntry.txn transactionT
    else fail

/-- one parsed entry with the `span` of its `ParsedContext` -/
structure ParsedT where
  start : Nat
  stop : Nat
  entry : TEntry
  deriving Repr, Inhabited

/-- the tracked spans of a delivered entry as `TrackedSpan` ranges of a file of `total` bytes -/
def ParsedT.trackedRanges (total : Nat) (x : ParsedT) : List (Nat × Nat) := x.entry.spans.map (RSpan.toRange total)

/-- `parse_ledger::<Tracking>(&ParseOptions::default(), text)` run to its first error: the same `ParsedIter`
(`Parse.parsedIter`) around the decorated entry parser -/
def parseLedgerRunT (text : List Char) : List ParsedT × Ending :=
  let (es, e) := parsedIter parseLedgerEntryT verticalSpaces text (text.length + 1) text []
  (es.map fun (s, t, x) => ⟨s, t, x⟩, e)

/-- `parse_ledger::<Tracking>(..).collect::<Result<Vec<_>, _>>()` -/
def parseLedgerT (text : List Char) : Outcome ParseErr (List ParsedT) :=
  match parseLedgerRunT text with
  | (es, .done) => .ok es
  | (_, .error e) => .err e
  | (_, .panic s) => .panic s
  | (_, .fuelOut) => .fuelOut

end Okane.ParseSpans
