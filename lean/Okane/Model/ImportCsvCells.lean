import Okane.Model.Comb
import Okane.Model.ExprSyntax
import Okane.Model.ImportCsv
/-!
# CSV importer: okane's own cell decoders (the two pieces `Model/ImportCsv.lean` takes as parameters)

* `cellDecimal`   — `str_to_comma_decimal` (`cli/src/import/csv.rs:23`) for a non-empty cell:
  `TryFrom<&str> for expr::Amount` = `ParseOptions::parse_single(unary_amount, cell)` (`core/src/parse/expr.rs:127-166`,
  `core/src/parse/adaptor.rs`), of which only `.value.value` (the `Decimal`) is kept.
  `unary_amount` = `(opt(one_of('-')), permutation((terminated(pretty_decimal, space0), terminated(commodity, space0))))`
  then `Parser::parse` demands end of input.  The sign written in front toggles the sign flag of the decimal
  (`set_sign_positive(!is_sign_positive())` — also on a zero, so `-0` is a negative zero).
* `permutation2`  — winnow 0.7.6 `combinator::permutation` for a pair (`combinator/branch.rs`, `permutation_trait_impl!`):
  a `loop` that tries, from the current position, every parser that has not succeeded yet, in tuple order; the first
  one that succeeds is recorded and the loop restarts behind it; when none of the remaining ones succeeds the stream
  is reset to the start of that round and the permutation fails.  It is greedy: an order once taken is never undone.
* `parseTemplate` — `impl FromStr for Template` (`cli/src/import/template.rs:98`):
  `repeat(0.., alt((delimited('{', take_till(1.., "{}").try_map(template_key_from_str), '}'), take_till(1.., "{}"))))`
  then end of input.  Every failure is a backtrack (the error type is the non-modal `ContextError`), so the typed
  errors of `template_key_from_str` (`UnknownTemplateKey`, `InvalidIndexTemplateKey`) never surface: a bad key makes the
  reference alternative fail, the literal alternative fails on `{`, the repetition stops and `parse` reports
  `InvalidTemplate` because input is left.
* `printTemplate` — `impl Display for Template`.

Text is `List Char`; `String`-level wrappers at the end.  Core only.
-/
namespace Okane.Import.Cells
open Okane Okane.Comb

/-! ## winnow pieces -/

/-- winnow 0.7.6 `permutation((p, q))`.
Round 1 (nothing applied yet): `p` at `i`; if it backtracks, `q` at `i`.
Round 2 (one applied): the other one, behind the first; if it backtracks the stream is reset to the start of round 2.
A `Cut` (never produced by the parsers used here) is returned at once. -/
def permutation2 {α β : Type} (p : Parser α) (q : Parser β) : Parser (α × β) := fun i =>
  match p i with
  | .ok a r =>
    match q r with
    | .ok b r' => .ok (a, b) r'
    | .bt _ => .bt r
    | .cut x => .cut x
    | .panic s => .panic s
    | .fuel => .fuel
  | .bt _ =>
    match q i with
    | .ok b r =>
      match p r with
      | .ok a r' => .ok (a, b) r'
      | .bt _ => .bt r
      | .cut x => .cut x
      | .panic s => .panic s
      | .fuel => .fuel
    | .bt _ => .bt i
    | .cut x => .cut x
    | .panic s => .panic s
    | .fuel => .fuel
  | .cut x => .cut x
  | .panic s => .panic s
  | .fuel => .fuel

/-- `Parser::parse`: `parse_next` followed by `eof` (the whole input must be consumed) -/
def parseAll {α : Type} (p : Parser α) : Parser α := terminated p eof

/-! ## Number cells -/

/-- `primitive::pretty_decimal` as a `Comb` parser (the token extent and the scanner are `ExprSyntax.prettyDecimal`,
i.e. `Literal.tokenSplit` + `Literal.scan`). -/
def number : Parser PDec := fun i =>
  match ExprSyntax.prettyDecimal i with
  | .ok d r => .ok d r
  | .fail p => .bt p
  | .fuelOut => .fuel

/-- `primitive::commodity` = `take_till(0.., NON_COMMODITY_CHARS)` -/
def commodity : Parser (List Char) := takeWhile0 ExprSyntax.isCommodityChar

/-- `terminated(primitive::pretty_decimal, space0)` -/
def numberSp : Parser PDec := terminated number space0
/-- `terminated(primitive::commodity, space0)` -/
def commoditySp : Parser (List Char) := terminated commodity space0

/-- `value.value.set_sign_positive(!value.value.is_sign_positive())` -/
def flipSign (d : PDec) : PDec := { d with neg := !d.neg }

/-- `expr::unary_amount`: the decimal (format tag included) and the commodity text -/
def unaryAmount : Parser (PDec × List Char) :=
  bind (opt (char '-')) fun negate =>
    Comb.map (fun vc => (if negate.isSome then flipSign vc.1 else vc.1, vc.2)) (permutation2 numberSp commoditySp)

/-- `ParseOptions::parse_single(unary_amount, cell)` -/
def cellParse : Parser (PDec × List Char) := parseAll unaryAmount

/-- `expr::Amount::try_from(cell).ok()` as (value, commodity) -/
def cellAmount (s : List Char) : Option (PDec × List Char) :=
  match cellParse s with
  | .ok vc _ => some vc
  | _ => none

/-- `PrettyDecimal::value` : the `Decimal` inside -/
def ofPDec (d : PDec) : Dec := ⟨d.neg, d.mant, d.scale⟩

/-- what `str_to_comma_decimal` keeps of a non-empty cell: `a.value.value`; `none` = "failed to parse comma decimal" -/
def cellDecimalL (s : List Char) : Option Dec := (cellAmount s).map fun vc => ofPDec vc.1

def cellDecimal (s : String) : Option Dec := cellDecimalL s.toList

/-! ## Templates -/

/-- the set `b"{}"` of both `take_till`s -/
def isBrace (c : Char) : Bool := c == '{' || c == '}'

/-- `usize::MAX` on the 64-bit targets okane is built for -/
def usizeMax : Nat := 2 ^ 64 - 1

/-- `str::parse::<usize>()` on a non-empty all-ASCII-digit text: the number, unless it exceeds `usize::MAX` -/
def parseUsize (s : List Char) : Option Nat :=
  let v := s.foldl (fun m c => m * 10 + Literal.digitVal c) 0
  if v ≤ usizeMax then some v else none

/-- the field keys a template can name (`template_key_from_str`) -/
def namedKey (s : List Char) : Option FieldKey :=
  if s = "date".toList then some .date
  else if s = "payee".toList then some .payee
  else if s = "category".toList then some .category
  else if s = "note".toList then some .note
  else if s = "commodity".toList then some .commodity
  else if s = "secondary_commodity".toList then some .secondaryCommodity
  else none

/-- `template_key_from_str` (as a segment): all ASCII digits → `OneBasedIndex::from_str` (`usize` parse, then zero is
rejected; kept zero based); otherwise one of six names; anything else is an error (→ backtrack under `try_map`). -/
def templateKeyFromStr (s : List Char) : Option Seg :=
  if s.all Char.isDigit then
    match parseUsize s with
    | some v => if v = 0 then none else some (.indexed (v - 1))
    | none => none
  else (namedKey s).map Seg.named

/-- `delimited(one_of('{'), take_till(1.., b"{}").try_map(template_key_from_str), one_of('}')).map(Segment::Reference)` -/
def refSeg : Parser Seg := delimited (char '{') (tryMap (takeTill1 isBrace) templateKeyFromStr) (char '}')
/-- `take_till(1.., b"{}").map(str::to_owned).map(Segment::Literal)` -/
def litSeg : Parser Seg := Comb.map (fun t => Seg.lit (String.ofList t)) (takeTill1 isBrace)
/-- one element of the `repeat` -/
def segment : Parser Seg := refSeg <|| litSeg
/-- `repeat(0.., alt((…, …)))` -/
def segments : Parser (List Seg) := repeat0 segment

/-- `repeat(0.., …).parse(s)` -/
def templateParse : Parser (List Seg) := parseAll segments

/-- `Template::from_str(s).ok()` (`none`: `ParseError::InvalidTemplate`, the only error that can surface) -/
def parseTemplateL (s : List Char) : Option (List Seg) :=
  match templateParse s with
  | .ok segs _ => some segs
  | _ => none

def parseTemplate (s : String) : Option (List Seg) := parseTemplateL s.toList

/-- decimal digits, most significant first (`Display for usize`) -/
def natDigits (n : Nat) : List Char := Literal.digits n

/-- `FieldKey::as_str` of `template.rs` (`"unknown"` for the keys a template cannot name) -/
def keyStr : FieldKey → List Char
  | .date => "date".toList
  | .payee => "payee".toList
  | .category => "category".toList
  | .note => "note".toList
  | .commodity => "commodity".toList
  | .secondaryCommodity => "secondary_commodity".toList
  | _ => "unknown".toList

/-- `Display for Segment` (`Indexed` prints the 1-based number) -/
def printSeg : Seg → List Char
  | .lit s => s.toList
  | .named k => '{' :: keyStr k ++ ['}']
  | .indexed i => '{' :: natDigits (i + 1) ++ ['}']

/-- `Display for Template` -/
def printTemplateL (segs : List Seg) : List Char := segs.flatMap printSeg

def printTemplate (segs : List Seg) : String := String.ofList (printTemplateL segs)

/-! ## The importer with its own decoders plugged in -/

/-- `FieldMap::try_new`'s view of a configured position: the template text is parsed (`template.parse()?`) -/
def decodePos : FieldPos → CsvPos
  | .index i => .index i
  | .label l => .label l
  | .template t =>
    match parseTemplate t with
    | some segs => .template segs
    | none => .badTemplate

/-- the decoder environment with okane's own number-cell decoder; chrono and the regex engine stay parameters -/
def cellEnv (parseDate : String → Option Date) (cap : Captures) : CsvEnv := ⟨cellDecimal, parseDate, cap⟩

end Okane.Import.Cells
