import Okane.Model.Range
import Okane.Model.Price
import Okane.Model.Eval
/-!
# Queries with commodity conversion (mirror of `core/src/report/query.rs` `Ledger::balance`, `Ledger::eval`,
`BalanceQuery::require_recompute`, and of `cli/src/cmd.rs` `EvalOptions::{to_conversion, to_date_range}`)

The unconverted parts (`DateRange`, `allPostings`, `rangeBalanceRaw`, `balanceNoConv`, `postingsOf`, `register`)
live in `Model/Range.lean`; this file adds the conversion paths on top of the price model.
-/
namespace Okane
namespace Query
open Price
variable {α κ : Type} [DecidableEq α] [DecidableEq κ]

/-- `ConversionStrategy`. -/
inductive Strategy where
  | historical
  | upToDate (now : Date)
  deriving Repr

/-- `Conversion`. -/
structure Conversion (κ : Type) where
  strategy : Strategy
  target : κ
  deriving Repr

/-- `BalanceQuery`. -/
structure BalanceQuery (κ : Type) where
  conversion : Option (Conversion κ) := none
  range : DateRange := {}
  deriving Repr

def isHistorical : Option (Conversion κ) → Bool
  | some ⟨.historical, _⟩ => true
  | _ => false

def isUpToDate : Option (Conversion κ) → Bool
  | some ⟨.upToDate _, _⟩ => true
  | _ => false

/-- `BalanceQuery::require_recompute`. -/
def requireRecompute (q : BalanceQuery κ) : Bool :=
  if !q.range.isBypass then true
  else if isHistorical q.conversion then true
  else false

/-- `QueryError` (the variants these functions produce). -/
inductive QueryErr (κ : Type) where
  | commodityNotFound (name : String)
  | evalFailed (e : EvalErr)
  | conversionFailure (e : ConvErr κ)
  deriving Repr, DecidableEq

def liftConv {β} : Outcome (ConvErr κ) β → Outcome (QueryErr κ) β
  | .ok b => .ok b
  | .err e => .err (.conversionFailure e)
  | .panic s => .panic s
  | .fuelOut => .fuelOut

/-- what a run needs besides the ledger: the price repository, the heap/hash parameters, and the orders used by
the two `sort_unstable_by_key(as_str)` calls. -/
structure Env (α κ : Type) where
  cfg : Cfg κ
  repo : Builder κ
  leK : κ → κ → Bool
  leA : α → α → Bool

/-- the recompute loop of `Ledger::balance`: every posting of every transaction dated in the range, converted at
the transaction date for `Historical`, as is otherwise. -/
def recomputeLoop (env : Env α κ) (q : BalanceQuery κ) :
    List (Date × OutPosting α κ) → Balance α κ → Outcome (QueryErr κ) (Balance α κ)
  | [], bal => .ok bal
  | (date, p) :: rest, bal =>
    if !q.range.contains date then recomputeLoop env q rest bal
    else
      match q.conversion with
      | some ⟨.historical, target⟩ =>
        match liftConv (convertAmount env.cfg env.repo env.leK p.amount target date) with
        | .ok delta => recomputeLoop env q rest (Balance.addAmount bal p.account delta).1
        | .err e => .err e
        | .panic s => .panic s
        | .fuelOut => .fuelOut
      | _ => recomputeLoop env q rest (Balance.addAmount bal p.account p.amount).1

/-- the first half of `Ledger::balance`: the raw balance, or the recomputed one — rounded here unless an
up-to-date conversion follows (fix F20). -/
def baseBalance (prec : κ → Option Nat) (env : Env α κ) (txns : List (OutTxn α κ)) (raw : Balance α κ)
    (q : BalanceQuery κ) : Outcome (QueryErr κ) (Balance α κ) :=
  if !requireRecompute q then .ok raw
  else
    match recomputeLoop env q (allPostings txns) [] with
    | .ok bal => .ok (if isUpToDate q.conversion then bal else Balance.round prec bal)
    | o => o

/-- the `UpToDate` loop: accounts sorted by name, each amount converted at `now`. -/
def upToDateLoop (env : Env α κ) (target : κ) (now : Date) :
    List (α × Amount κ) → Balance α κ → Outcome (QueryErr κ) (Balance α κ)
  | [], acc => .ok acc
  | (account, original) :: rest, acc =>
    match liftConv (convertAmount env.cfg env.repo env.leK original target now) with
    | .ok x => upToDateLoop env target now rest (Balance.addAmount acc account x).1
    | .err e => .err e
    | .panic s => .panic s
    | .fuelOut => .fuelOut

/-- `Ledger::balance`. -/
def balance (prec : κ → Option Nat) (env : Env α κ) (txns : List (OutTxn α κ)) (raw : Balance α κ)
    (q : BalanceQuery κ) : Outcome (QueryErr κ) (Balance α κ) :=
  match baseBalance prec env txns raw q with
  | .ok base =>
    match q.conversion with
    | some ⟨.upToDate now, target⟩ =>
      match upToDateLoop env target now (isortBy (fun a b => env.leA a.1 b.1) base) [] with
      | .ok converted => .ok (Balance.round prec converted)
      | o => o
    | _ => .ok base
  | o => o

/-- `EvalOptions::to_conversion` (`ctx.commodity(ex)` is `commodities.resolve`). -/
def toConversion (store : Store) (exchange : Option String) (historical : Bool) (now : Date) :
    Outcome (QueryErr String) (Option (Conversion String)) :=
  match exchange with
  | none => .ok none
  | some ex =>
    match store.resolve ex with
    | none => .err (.commodityNotFound ex)
    | some target => .ok (some ⟨if historical then .historical else .upToDate now, target⟩)

/-- `Ledger::eval` on an already parsed expression (the string is parsed by the real parser; see C08). -/
def eval (env : Env String String) (store : Store) (expr : VExpr) (date : Date) (exchange : Option String) :
    Outcome (QueryErr String) (Amount String) :=
  let ex : Outcome (QueryErr String) (Option String) :=
    match exchange with
    | none => .ok none
    | some x =>
      match store.resolve x with
      | none => .err (.commodityNotFound x)
      | some c => .ok (some c)
  match ex with
  | .ok exchange =>
    match evalRo store expr with
    | .ok v =>
      match v.toAmount with
      | .ok evaled =>
        match exchange with
        | none => .ok evaled
        | some priceWith => liftConv (convertAmount env.cfg env.repo env.leK evaled priceWith date)
      | .err e => .err (.evalFailed e)
      | .panic s => .panic s
      | .fuelOut => .fuelOut
    | .err e => .err (.evalFailed e)
    | .panic s => .panic s
    | .fuelOut => .fuelOut
  | .err e => .err e
  | .panic s => .panic s
  | .fuelOut => .fuelOut

end Query
end Okane
