import Okane.Model.Parse
/-!
# The printer used by `format` (mirror of `core/src/syntax/display.rs`, `core/src/format.rs`) and the
# well-formedness predicate `wfEntry` ("a tree the printer prints unambiguously", DESIGN Appendix C)

This is the printer the C05 round-trip theorems are stated against.  (`Okane.Model.Print`, the printer of the
column-layout property C19, is a separate module; this one lives in C05's own namespace.)
Display width is a parameter `w : List Char → Nat` (`UnicodeWidthStr::width_cjk`); the round trip holds for
every `w` because the layout only ever decides *how many* (≥ 2) blanks separate account and amount.
`DisplayContext::default()` has no precisions, so amounts are printed at their own scale.
-/
namespace Okane.Unparse
open Okane Okane.Comb Okane.Parse

/-- `DisplayContext::default().precisions` is empty -/
def noPrec : String → Nat := fun _ => 0

def printVExpr (v : VExpr) : List Char := ExprSyntax.printVExpr noPrec v
def alignVExpr (v : VExpr) : Nat := ExprSyntax.alignVExpr noPrec v

/-- `display.rs::get_column` -/
def getColumn (colsize left padding : Nat) : Nat :=
  if left + padding < colsize then colsize - left else padding

def spaces (n : Nat) : List Char := List.replicate n ' '
def indent4 : List Char := [' ', ' ', ' ', ' ']

/-- `str::lines()`: split at `\n`, a final empty piece is dropped, one `\r` before a `\n` is stripped -/
def stripCr : List Char → List Char
  | '\r' :: c => c
  | c => c
def linesAux : List Char → List Char → List (List Char)
  | [], cur => if cur.isEmpty then [] else [cur.reverse]
  | '\n' :: r, cur => (stripCr cur).reverse :: linesAux r []
  | c :: r, cur => linesAux r (c :: cur)
def lines (s : List Char) : List (List Char) := linesAux s []

/-- `LineWrapStr::wrap(prefix, content)` -/
def lineWrap (pfx : List Char) (content : String) : List Char :=
  (lines content.toList).flatMap fun l => pfx ++ (l ++ ['\n'])

/-- `print_clear_state` -/
def printClear : ClearState → List Char
  | .uncleared => []
  | .cleared => ['*', ' ']
  | .pending => ['!', ' ']

/-- chrono `%Y/%m/%d` -/
def printDate (d : Date) : List Char := d.fmtSlash.toList

/-- `Display for MetadataValue` -/
def printMetaValue : MetaValue → List Char
  | .expr e => [':', ':'] ++ ' ' :: e.toList
  | .text t => ':' :: ' ' :: t.toList

/-- `Display for Metadata` -/
def printMetadata : Metadata → List Char
  | .wordTags ts => ':' :: ts.flatMap fun t => t.toList ++ [':']
  | .keyValue k v => k.toList ++ printMetaValue v
  | .comment s => s.toList

/-- `writeln!(f, "    ; {}", m)` -/
def printMetaLine (m : Metadata) : List Char := indent4 ++ ';' :: ' ' :: (printMetadata m ++ ['\n'])

/-- `Display for Lot` -/
def printLot (l : Lot) : List Char :=
  (match l.price with
    | some (.total e) => [' ', '{', '{'] ++ printVExpr e ++ ['}', '}']
    | some (.rate e) => [' ', '{'] ++ printVExpr e ++ ['}']
    | none => []) ++
  (match l.date with
    | some d => [' ', '['] ++ printDate d ++ [']']
    | none => []) ++
  (match l.note with
    | some n => [' ', '('] ++ n.toList ++ [')']
    | none => [])

def printCost : Option Exchange → List Char
  | some (.rate v) => [' ', '@', ' '] ++ printVExpr v
  | some (.total v) => [' ', '@', '@', ' '] ++ printVExpr v
  | none => []

/-- the part of a posting line after the account: amount, lot, cost, balance -/
def printPostingTail (w : List Char → Nat) (accountWidth : Nat) (p : Posting) : List Char :=
  (match p.amount with
    | some a =>
      spaces (getColumn 48 (accountWidth + alignVExpr a.amount) 2) ++ printVExpr a.amount ++ printLot a.lot ++ printCost a.cost
    | none => []) ++
  (match p.balance with
    | some b =>
      let trailing := w (printVExpr b) - alignVExpr b
      let padding := if p.amount.isSome then 0 else getColumn (50 + trailing) accountWidth 3
      -- `{:>width$}` of " =" followed by " {}"
      spaces (padding - 2) ++ [' ', '='] ++ ' ' :: printVExpr b
    | none => [])

/-- `Display for WithContext<Posting>` -/
def printPosting (w : List Char → Nat) (p : Posting) : List Char :=
  let clear := printClear p.clear
  let accountWidth := w p.account.toList + clear.length
  indent4 ++ (clear ++ (p.account.toList ++ (printPostingTail w accountWidth p ++ '\n' :: p.metadata.flatMap printMetaLine)))

/-- the first line of a transaction -/
def printTxnHeader (t : Transaction) : List Char :=
  printDate t.date ++
  (match t.effectiveDate with
    | some e => '=' :: printDate e
    | none => []) ++
  ' ' :: printClear t.clear ++
  (match t.code with
    | some c => '(' :: c.toList ++ [')', ' ']
    | none => []) ++
  t.payee.toList ++ ['\n']

/-- `Display for WithContext<Transaction>` -/
def printTransaction (w : List Char → Nat) (t : Transaction) : List Char :=
  printTxnHeader t ++ t.metadata.flatMap printMetaLine ++ t.posts.flatMap (printPosting w)

/-- `Display for Amount` (no precision context) -/
def printAmount (d : PDec) (c : String) : List Char := printVExpr (.amt d c)

def printAccountDetail : AccountDetail → List Char
  | .comment s => lineWrap (indent4 ++ [';']) s
  | .note s => lineWrap (indent4 ++ (kwNote ++ [' '])) s
  | .alias s => indent4 ++ (kwAlias ++ ' ' :: (s.toList ++ ['\n']))

def printCommodityDetail : CommodityDetail → List Char
  | .comment s => lineWrap (indent4 ++ [';']) s
  | .note s => lineWrap (indent4 ++ (kwNote ++ [' '])) s
  | .alias s => indent4 ++ (kwAlias ++ ' ' :: (s.toList ++ ['\n']))
  | .format d c => indent4 ++ (kwFormat ++ ' ' :: (printAmount d c ++ ['\n']))

/-- `Display for WithContext<LedgerEntry>` -/
def printEntry (w : List Char → Nat) : Entry → List Char
  | .txn t => printTransaction w t
  | .comment s => lineWrap [';'] s
  | .applyTag k v =>
    kwApply ++ ' ' :: (kwTag ++ ' ' :: (k.toList ++ ((match v with | some v => printMetaValue v | none => []) ++ ['\n'])))
  | .endApplyTag => kwEnd ++ ' ' :: (kwApply ++ ' ' :: (kwTag ++ ['\n']))
  | .include p => kwInclude ++ ' ' :: (p.toList ++ ['\n'])
  | .account n ds => kwAccount ++ ' ' :: (n.toList ++ '\n' :: ds.flatMap printAccountDetail)
  | .commodity n ds => kwCommodity ++ ' ' :: (n.toList ++ '\n' :: ds.flatMap printCommodityDetail)

/-- `FormatOptions::format`: every entry followed by an empty line -/
def formatEntries (w : List Char → Nat) (es : List Entry) : List Char :=
  es.flatMap fun e => printEntry w e ++ ['\n']

def format (w : List Char → Nat) (text : List Char) : Outcome ParseErr (List Char) :=
  (parseEntries text).map' (formatEntries w)

/-! ## display width for the driver (`unicode-width 0.2`, `width_cjk`), on the alphabet the generators use -/

/-- East Asian Wide / Fullwidth blocks (the ranges the generators draw from) -/
def isWide (n : Nat) : Bool :=
  (0x1100 ≤ n && n ≤ 0x115F) || (0x2E80 ≤ n && n ≤ 0x303E) || (0x3041 ≤ n && n ≤ 0x33FF) ||
  (0x3400 ≤ n && n ≤ 0x4DBF) || (0x4E00 ≤ n && n ≤ 0x9FFF) || (0xAC00 ≤ n && n ≤ 0xD7A3) ||
  (0xF900 ≤ n && n ≤ 0xFAFF) || (0xFE30 ≤ n && n ≤ 0xFE6F) || (0xFF00 ≤ n && n ≤ 0xFF60) ||
  (0xFFE0 ≤ n && n ≤ 0xFFE6) || (0x1F300 ≤ n && n ≤ 0x1F64F) || (0x20000 ≤ n && n ≤ 0x3FFFD)

/-- East Asian Ambiguous characters the generators use (wide under `width_cjk`; unicode-width 0.2 keeps
Latin / Greek / Cyrillic letters narrow) -/
def isAmbiguous (n : Nat) : Bool :=
  n == 0xA1 || n == 0xA7 || n == 0xB0 || n == 0xB1 || n == 0xB7 || n == 0xBC || n == 0xBD || n == 0xBE ||
  n == 0xBF || n == 0xD7 || n == 0xF7 || n == 0x2014 || n == 0x2018 || n == 0x2019 || n == 0x201C ||
  n == 0x201D || n == 0x2026 || n == 0x20AC

def charWidthCjk (c : Char) : Nat :=
  let n := c.toNat
  if n == 0 then 0
  else if n < 0xA0 then 1
  else if isWide n || isAmbiguous n then 2 else 1

def widthCjk (s : List Char) : Nat := s.foldl (fun n c => n + charWidthCjk c) 0
def widthStd (s : List Char) : Nat := s.length

/-! ## `wfEntry`: the trees `printEntry` prints unambiguously -/

def noEol (s : List Char) : Bool := s.all fun c => !isEol c
def notBlankStart (s : List Char) : Bool := match s with
  | c :: _ => !isSpace c
  | [] => true
def endTrimmed (s : List Char) : Bool := match s.getLast? with
  | some c => !isRustWhitespace c
  | none => true
def startTrimmed (s : List Char) : Bool := match s with
  | c :: _ => !isRustWhitespace c
  | [] => true

def isTagChar (c : Char) : Bool := !(isAsciiWhitespace c || c == ':')
/-- `tag_key` accepts exactly this text -/
def wfTag (s : List Char) : Bool := !s.isEmpty && s.all isTagChar

/-- a rest-of-line field that is `trim_end`ed: `include` path, account / commodity name, alias -/
def wfRestOfLine (s : List Char) : Bool := noEol s && notBlankStart s && endTrimmed s

/-- a metadata value: `trim`med rest of line -/
def wfMetaText (s : List Char) : Bool := noEol s && startTrimmed s && endTrimmed s

def wfMetaValue : MetaValue → Bool
  | .text s => wfMetaText s.toList
  | .expr s => wfMetaText s.toList

/-- `metadata_kv` would accept the line -/
def kvLike (s : List Char) : Bool :=
  !(s.takeWhile isTagChar).isEmpty && ((s.dropWhile isTagChar).dropWhile isSpace).head? == some ':'
/-- the line is exactly tag words `:t1:t2:…:` (`metadata_tags` followed by the end of the line) -/
def isTagWordsAux : List Char → Bool → Bool
  | [], _ => false
  | ':' :: r, inTag => inTag && (r.isEmpty || isTagWordsAux r false)
  | c :: r, _ => isTagChar c && isTagWordsAux r true
def tagsLike : List Char → Bool
  | ':' :: r => isTagWordsAux r false
  | _ => false

def wfMetadata : Metadata → Bool
  | .wordTags ts => !ts.isEmpty && ts.all fun t => wfTag t.toList
  | .keyValue k v => wfTag k.toList && wfMetaValue v
  | .comment s => noEol s.toList && notBlankStart s.toList && endTrimmed s.toList &&
      !kvLike s.toList && !tagsLike s.toList

def wfDate (d : Date) : Bool := d.valid && decide (0 ≤ d.y) && decide (d.y ≤ 9999)

/-- the lines of a multi-line text field: `some lines` iff the text is a sequence of LF-terminated lines -/
def splitLines : List Char → List Char → Option (List (List Char))
  | [], cur => if cur.isEmpty then some [] else none
  | '\n' :: r, cur => (splitLines r []).map (cur.reverse :: ·)
  | c :: r, cur => splitLines r (c :: cur)

/-- text of a top-level comment / a comment or note detail: ≥ 1 LF-terminated lines without CR, none of which
starts with a character `startBad` (a comment prefix for comments — the prefix is read greedily —, a blank for notes) -/
def wfMultiline (startBad : Char → Bool) (s : List Char) : Bool :=
  match splitLines s [] with
  | some ls => !ls.isEmpty && ls.all fun l => l.all (· != '\r') && (match l with | c :: _ => !startBad c | [] => true)
  | none => false

def wfAccountName (s : List Char) : Bool := wfRestOfLine s

def wfAccountDetail : AccountDetail → Bool
  | .comment s => wfMultiline isCommentPrefix s.toList
  | .note s => wfMultiline isSpace s.toList
  | .alias s => wfRestOfLine s.toList

/-- consecutive comment (or note) lines are read back as one detail -/
def noAdjacentA : List AccountDetail → Bool
  | .comment _ :: .comment _ :: _ => false
  | .note _ :: .note _ :: _ => false
  | _ :: r => noAdjacentA r
  | [] => true

def isCommodityText (s : List Char) : Bool := s.all ExprSyntax.isCommodityChar

/-- a number whose printed form is read back as the same number (value, scale, format): checked by running the
literal scanner on the printed text (`C05_lit` / C07 prove it for every `scan`-produced number) -/
def wfNumber (d : PDec) : Bool := Literal.scan (Literal.printPDec d) == .ok d

def wfCommodityDetail : CommodityDetail → Bool
  | .comment s => wfMultiline isCommentPrefix s.toList
  | .note s => wfMultiline isSpace s.toList
  | .alias s => wfRestOfLine s.toList
  | .format d c => wfNumber d && isCommodityText c.toList

def noAdjacentC : List CommodityDetail → Bool
  | .comment _ :: .comment _ :: _ => false
  | .note _ :: .note _ :: _ => false
  | _ :: r => noAdjacentC r
  | [] => true

def noDoubleBlank : List Char → Bool
  | ' ' :: ' ' :: _ => false
  | _ :: r => noDoubleBlank r
  | [] => true

/-- posting account: non-empty words without blank, tab, `;`, CR, LF, joined by single blanks; not starting
with white space -/
def wfAccount (s : List Char) : Bool :=
  !s.isEmpty && s.all (fun c => !(c == '\n' || c == '\r' || c == ';' || c == '\t')) &&
  startTrimmed s && s.getLast? != some ' ' && noDoubleBlank s

def notClearMarkStart (s : List Char) : Bool := match s with
  | c :: _ => !(c == '*' || c == '!')
  | [] => true

mutual
/-- stratified like the grammar (add over mul over unary over value), numbers printable, commodities lexable -/
def wfVExpr : VExpr → Bool
  | .amt d c => wfNumber d && isCommodityText c.toList
  | .paren e => wfAdd e
def wfAdd : Expr → Bool
  | .bin .add l r => wfAdd l && wfMul r
  | .bin .sub l r => wfAdd l && wfMul r
  | e => wfMul e
def wfMul : Expr → Bool
  | .bin .mul l r => wfMul l && wfUnary r
  | .bin .div l r => wfMul l && wfUnary r
  | .bin _ _ _ => false
  | e => wfUnary e
def wfUnary : Expr → Bool
  | .neg (.val v) => wfVExpr v
  | .val v => wfVExpr v
  | _ => false
end

def wfExchange : Exchange → Bool
  | .total v => wfVExpr v
  | .rate v => wfVExpr v

def wfLot (l : Lot) : Bool :=
  (match l.price with | some x => wfExchange x | none => true) &&
  (match l.date with | some d => wfDate d | none => true) &&
  (match l.note with
    | some n => n.toList.all fun c => !(c == '(' || c == ')' || c == '@')
    | none => true)

def wfPostingAmount (a : PostingAmount) : Bool :=
  wfVExpr a.amount && wfLot a.lot && (match a.cost with | some x => wfExchange x | none => true)

def wfPosting (p : Posting) : Bool :=
  wfAccount p.account.toList &&
  (p.clear != .uncleared || notClearMarkStart p.account.toList) &&
  (match p.amount with | some a => wfPostingAmount a | none => true) &&
  (match p.balance with | some b => wfVExpr b | none => true) &&
  p.metadata.all wfMetadata

/-- the payee: one line without `;`, nothing for `space0` / `trim_end` to remove; when the header carries no `(code)`, it
does not begin with a clear mark (unless one is printed before it) and — if it begins with `(` — holds no `)`: the
transaction code must be closed on its line (`paren_str`), so `(abc` is read back as the payee `(abc`, whereas `(a)bc`
would be read back as the code `a` and the payee `bc` -/
def wfPayee (t : Transaction) : Bool :=
  let s := t.payee.toList
  s.all (fun c => !(c == ';' || c == '\r' || c == '\n')) && notBlankStart s && endTrimmed s &&
  (t.code.isSome || ((t.clear != .uncleared || notClearMarkStart s) && (s.head? != some '(' || !s.contains ')')))

/-- the text of a transaction code: no `)`, CR or LF (`paren_str` stops there; at a line end it fails) -/
def wfCode (c : List Char) : Bool := c.all fun x => !isParenStrStop x

def wfTransaction (t : Transaction) : Bool :=
  wfDate t.date && (match t.effectiveDate with | some d => wfDate d | none => true) &&
  (match t.code with | some c => wfCode c.toList | none => true) &&
  wfPayee t && t.metadata.all wfMetadata && t.posts.all wfPosting

/-! ## `canonEntry`: the meaning of a tree — the grouping style of a number is part of the meaning only where
there are thousands to group (C05's statement); everything else is kept -/

def canonPDec (d : PDec) : PDec := if d.mant / 10 ^ d.scale < 1000 then { d with fmt := none } else d

mutual
def canonExpr : Expr → Expr
  | .neg e => .neg (canonExpr e)
  | .bin op l r => .bin op (canonExpr l) (canonExpr r)
  | .val v => .val (canonVExpr v)
def canonVExpr : VExpr → VExpr
  | .paren e => .paren (canonExpr e)
  | .amt d c => .amt (canonPDec d) c
end

def canonExchange : Exchange → Exchange
  | .total v => .total (canonVExpr v)
  | .rate v => .rate (canonVExpr v)

def canonPostingAmount (a : PostingAmount) : PostingAmount :=
  { amount := canonVExpr a.amount, cost := a.cost.map canonExchange,
    lot := { a.lot with price := a.lot.price.map canonExchange } }

def canonPosting (p : Posting) : Posting :=
  { p with amount := p.amount.map canonPostingAmount, balance := p.balance.map canonVExpr }

def canonEntry : Entry → Entry
  | .txn t => .txn { t with posts := t.posts.map canonPosting }
  | .commodity n ds => .commodity n (ds.map fun
      | .format d c => .format (canonPDec d) c
      | x => x)
  | e => e

/-- `WFEntry` -/
def wfEntry : Entry → Bool
  | .txn t => wfTransaction t
  | .comment s => wfMultiline isCommentPrefix s.toList
  | .applyTag k v => wfTag k.toList && (match v with | some v => wfMetaValue v | none => true)
  | .endApplyTag => true
  | .include p => wfRestOfLine p.toList
  | .account n ds => wfAccountName n.toList && ds.all wfAccountDetail && noAdjacentA ds
  | .commodity n ds => wfAccountName n.toList && ds.all wfCommodityDetail && noAdjacentC ds

end Okane.Unparse
