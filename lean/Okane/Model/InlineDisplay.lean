import Okane.Model.Book
/-!
# Text of the reports (mirror of `InlinePrintAmount` in `core/src/report/eval/amount.rs`, `Balance::into_vec`,
`ReportContext::all_accounts`, and the `writeln!` loops of `cli/src/cmd.rs`)

Everything here is what the Rust does *after* the hash maps have been built: the only places where the
iteration order of a map could reach standard output.  After the `fix:` commits 9572056 / c67e9f9 every one of
them sorts first.  `le` is the order of the sort key (`c.as_str()` / `a.as_str()`: byte-wise = code-point
order of the names); `sort_unstable_by_key` on pairwise distinct keys is modelled by `List.mergeSort`
(any correct sort returns the same list — that is theorem `Okane.C13.sortByKey_perm`).

`showEntry c v` stands for `write!(f, "{} {}", v, c.as_str())` (rust_decimal's `Display`, modelled elsewhere).
-/
namespace Okane
variable {α κ ν : Type}

/-- sort an association list by key. -/
def sortByKey (le : κ → κ → Bool) (m : List (κ × ν)) : List (κ × ν) :=
  m.mergeSort (fun x y => le x.1 y.1)

namespace Amount

/-- `impl Display for InlinePrintAmount`: `0`, `v c`, or `(v1 c1 + v2 c2 + …)` in commodity order.
Generic in the value type so that the driver can run it on the decimal *text* okane printed. -/
def inlineDisplay (le : κ → κ → Bool) (showEntry : κ → ν → String) : List (κ × ν) → String
  | [] => "0"
  | [(c, v)] => showEntry c v
  | a => "(" ++ " + ".intercalate ((sortByKey le a).map fun kv => showEntry kv.1 kv.2) ++ ")"

/-- `InlinePrintAmount` **before** fix 9572056 (kept to state what the fix repaired): entries in map order. -/
def inlineDisplayUnsorted (showEntry : κ → ν → String) : List (κ × ν) → String
  | [] => "0"
  | [(c, v)] => showEntry c v
  | a => "(" ++ " + ".intercalate (a.map fun kv => showEntry kv.1 kv.2) ++ ")"

end Amount

/-- `okane balance` without conversion: `for (account, amount) in balance.into_vec() { writeln!("{}: {}") }`. -/
def balanceReport (leA : α → α → Bool) (leK : κ → κ → Bool) (showAcct : α → String)
    (showEntry : κ → Rat → String) (b : Balance α κ) : List String :=
  (sortByKey leA b).map fun kv => showAcct kv.1 ++ ": " ++ Amount.inlineDisplay leK showEntry kv.2

/-- `okane accounts`: the canonical names of the intern store, sorted (`all_accounts`). -/
def accountsReport (le : String → String → Bool) (recs : AMap String (Option String)) : List String :=
  ((recs.filter fun kv => kv.2.isNone).map Prod.fst).mergeSort le

/-- text of `BookKeepError::UnbalancedPostings(residual)` / `BalanceAssertionFailure{computed, diff}`: the
amounts go through `as_inline_display`. -/
def bkErrText (leK : κ → κ → Bool) (showEntry : κ → Rat → String) : BkErr κ → String
  | .unbalanced r => "unbalanced postings: " ++ Amount.inlineDisplay leK showEntry r
  | .assertionFailure i computed diff =>
    "balance assertion failed at posting " ++ toString i ++ ": computed " ++
      Amount.inlineDisplay leK showEntry computed ++ " diff " ++ Amount.inlineDisplay leK showEntry diff
  | .evalFailure _ => "failed to evaluate"
  | .balanceFailure => "balance = 0 cannot deduce posting amount when balance has multi commodities"
  | .undeducible a b => "cannot deduce postings " ++ toString a ++ " and " ++ toString b
  | .invalidAccount => "invalid account"
  | .invalidCommodity => "invalid commodity"
  | .zeroAmountWithExchange => "zero amount with exchange"
  | .zeroExchangeRate => "zero exchange rate"
  | .exchangeWithAmountCommodity => "exchange with the amount's commodity"

/-- The two `insert_impl` calls of `PriceRepositoryBuilder::insert_price` for one event, as the list of
`(price_with, price_of, date, rate)` records pushed, in push order. -/
def PriceEvent.records (e : PriceEvent κ) : List ((κ × κ) × Date × Rat) :=
  [((e.y.commodity, e.x.commodity), e.date, e.y.value / e.x.value),
   ((e.x.commodity, e.y.commodity), e.date, e.x.value / e.y.value)]

/-- pushing records into `records[price_with][price_of]` (the nested map flattened to a pair key). -/
def pushRecords [DecidableEq κ] (repo : AMap (κ × κ) (List (Date × Rat))) :
    List ((κ × κ) × Date × Rat) → AMap (κ × κ) (List (Date × Rat))
  | [] => repo
  | (k, r) :: rest => pushRecords (AMap.insert repo k (((AMap.get? repo k).getD []) ++ [r])) rest

/-! ## Rewrite rules: the AND-element of a matcher (`MatchAndExpr::extract` in `cli/src/import/extract.rs`)

`matchers.iter().try_fold(current, |prev, m| m.captures(&prev, entity).map(|c| prev + c))`, where `matchers` is built
from `FieldMatcher.fields : HashMap<RewriteField, String>` in iteration order.  Abstractly a matcher reads the payee
captured so far and either fails or yields a new capture. -/

/-- one field matcher: given the payee captured so far, `none` = no match, `some c` = match with optional capture. -/
abbrev FieldM := Option String → Option (Option String)

/-- `try_fold` over the matchers; `Fragment + Matched` keeps the newer payee (`rhs.payee.or(self.payee)`). -/
def andFold : List FieldM → Option String → Option (Option String)
  | [], cur => some cur
  | m :: ms, cur =>
    match m cur with
    | none => none
    | some cap => andFold ms (cap.orElse fun _ => cur)

/-- `creditor_name: (?P<payee>.*)` on an entry whose creditor is "ACME". -/
def captureCreditor : FieldM := fun _ => some (some "ACME")
/-- `payee: ACME`: matches on the payee captured so far (camt053: `fragment.payee`, nothing to fall back on). -/
def matchPayee : FieldM := fun cur => if cur = some "ACME" then some none else none

end Okane
