import Okane.Base.Date
import Okane.Model.Book
/-!
# Price repository (mirror of `core/src/report/price_db.rs`)

* `Builder` = `PriceRepositoryBuilder.records : HashMap<price_with, HashMap<price_of, Entry>>`,
  `Entry(PriceSource, Vec<(NaiveDate, Decimal)>)`.
* `insertPrice` / `insertImpl` : `insert_price` / `insert_impl` (division is the named panic site; after fix F4
  `insert_price` skips events with a zero amount, so the site is unreachable through it).
* `build` : `build_naive` (every record vector sorted by `(date, rate)`).
* `asOf` : `partition_point(|(d, _)| d <= date)` followed by `rates[bound - 1]`.
* `priceTable` : `compute_price_table`, a work-list algorithm.  **The pop choice (`pick`) and the order in which
  the neighbours of a node are visited (`ord`) are parameters**: they stand for `BinaryHeap`'s order (a max-heap
  on `Distance`, ties resolved by heap layout) and for the neighbour order (`HashMap` iteration order until fix
  b2e85da, sorted by commodity name since: the driver's `ordSorted`).  Theorems quantify over both.
* `Dist` : `Distance {num_ledger_conversions, num_all_conversions, staleness}` with the derived lexicographic order.
* `convertSingle`, `convertAmount` : the functions of the same name (the `(commodity_with, date)` cache is a pure
  memoisation, modelled separately by `convertSingleCached`).
-/
namespace Okane

/-! ## a structural insertion sort (stands for `sort` / `sort_unstable_by_key`; kernel-reducible) -/
section SortSec
variable {β : Type}

def insertBy (le : β → β → Bool) (x : β) : List β → List β
  | [] => [x]
  | y :: ys => if le x y then x :: y :: ys else y :: insertBy le x ys

def isortBy (le : β → β → Bool) : List β → List β
  | [] => []
  | x :: xs => insertBy le x (isortBy le xs)

theorem mem_insertBy (le : β → β → Bool) (x y : β) (l : List β) : y ∈ insertBy le x l ↔ y = x ∨ y ∈ l := by
  induction l with
  | nil => simp [insertBy]
  | cons a l ih =>
    simp only [insertBy]
    split
    · simp
    · simp [ih]; constructor
      · rintro (h | h | h) <;> simp [h]
      · rintro (h | h | h) <;> simp [h]

theorem mem_isortBy (le : β → β → Bool) (y : β) (l : List β) : y ∈ isortBy le l ↔ y ∈ l := by
  induction l with
  | nil => simp [isortBy]
  | cons a l ih => simp [isortBy, mem_insertBy, ih]

theorem insertBy_perm (le : β → β → Bool) (x : β) (l : List β) : (insertBy le x l).Perm (x :: l) := by
  induction l with
  | nil => simp [insertBy]
  | cons a l ih =>
    simp only [insertBy]
    split
    · exact List.Perm.refl _
    · exact (List.Perm.cons a ih).trans (List.Perm.swap x a l)

theorem isortBy_perm (le : β → β → Bool) (l : List β) : (isortBy le l).Perm l := by
  induction l with
  | nil => simp [isortBy]
  | cons a l ih => exact (insertBy_perm le a _).trans (List.Perm.cons a ih)

end SortSec

namespace Price
variable {κ : Type} [DecidableEq κ]

/-- `PriceSource`; derived `Ord`: `Ledger < PriceDB`. -/
inductive Source where
  | ledger
  | priceDB
  deriving Repr, DecidableEq, Inhabited

def Source.rank : Source → Nat
  | .ledger => 0
  | .priceDB => 1

/-- `Entry(PriceSource, Vec<(NaiveDate, Decimal)>)`. -/
structure PEntry where
  source : Source
  recs : List (Date × Rat)
  deriving Repr, Inhabited

/-- `records[price_with][price_of]`. -/
abbrev Builder (κ : Type) := AMap κ (AMap κ PEntry)

/-- the entry of an ordered pair, `Entry(Ledger, [])` when absent (what `or_insert` would create). -/
def entryOf (b : Builder κ) (priceWith priceOf : κ) : PEntry :=
  (AMap.get? ((AMap.get? b priceWith).getD []) priceOf).getD ⟨.ledger, []⟩

/-- `insert_impl`: the record `price_with.value / price_of.value` is appended under `[price_with][price_of]`;
a source of higher priority first clears what is stored. -/
def insertImpl (b : Builder κ) (src : Source) (date : Date) (priceOf priceWith : SingleAmount κ) :
    Outcome Unit (Builder κ) :=
  let inner := (AMap.get? b priceWith.commodity).getD []
  let e := (AMap.get? inner priceOf.commodity).getD ⟨.ledger, []⟩
  let e' : PEntry := if e.source.rank < src.rank then ⟨src, []⟩ else e
  if priceOf.value = 0 then .panic "Decimal division by zero (PriceRepositoryBuilder::insert_impl)"
  else
    .ok (AMap.insert b priceWith.commodity
          (AMap.insert inner priceOf.commodity ⟨e'.source, e'.recs ++ [(date, priceWith.value / priceOf.value)]⟩))

/-- `insert_price`: zero amounts are skipped (fix F4); a self-mention is logged but still inserted. -/
def insertPrice (b : Builder κ) (src : Source) (ev : PriceEvent κ) : Outcome Unit (Builder κ) :=
  if ev.x.value = 0 ∨ ev.y.value = 0 then .ok b
  else
    match insertImpl b src ev.date ev.x ev.y with
    | .ok b1 => insertImpl b1 src ev.date ev.y ev.x
    | o => o

/-- a run of `insert_price` calls with one source. -/
def insertAll (src : Source) : Builder κ → List (PriceEvent κ) → Outcome Unit (Builder κ)
  | b, [] => .ok b
  | b, ev :: evs =>
    match insertPrice b src ev with
    | .ok b' => insertAll src b' evs
    | o => o

/-- what `report::process` does: ledger events in order, then the price-db lines in order. -/
def buildFrom (ledgerEvents dbEvents : List (PriceEvent κ)) : Outcome Unit (Builder κ) :=
  match insertAll .ledger [] ledgerEvents with
  | .ok b => insertAll .priceDB b dbEvents
  | o => o

/-- order of `(NaiveDate, Decimal)` tuples. -/
def recLe (a b : Date × Rat) : Bool :=
  decide (a.1.dayNumber < b.1.dayNumber) || (decide (a.1.dayNumber = b.1.dayNumber) && decide (a.2 ≤ b.2))

/-- `build_naive`: sort every record vector. -/
def build (b : Builder κ) : Builder κ :=
  AMap.mapVals (fun inner => AMap.mapVals (fun e : PEntry => { e with recs := isortBy recLe e.recs }) inner) b

/-- `partition_point(pred)` on a vector partitioned by `pred` (which sorted record vectors are for
`record_date <= date`): the length of the prefix satisfying it. -/
def partitionPoint (recs : List (Date × Rat)) (date : Date) : Nat :=
  (recs.takeWhile fun r => decide (r.1 ≤ date)).length

/-- the record used for `date`: `rates[bound - 1]` unless `bound == 0`. -/
def asOf (recs : List (Date × Rat)) (date : Date) : Option (Date × Rat) :=
  let bound := partitionPoint recs date
  if bound = 0 then none else recs[bound - 1]?

/-- `Distance`. -/
structure Dist where
  ledger : Nat
  all : Nat
  stale : Int
  deriving Repr, DecidableEq, Inhabited

namespace Dist
def zero : Dist := ⟨0, 0, 0⟩
/-- derived lexicographic `<`. -/
@[reducible] def lt (a b : Dist) : Prop :=
  a.ledger < b.ledger ∨ (a.ledger = b.ledger ∧ (a.all < b.all ∨ (a.all = b.all ∧ a.stale < b.stale)))
@[reducible] def le (a b : Dist) : Prop :=
  a.ledger < b.ledger ∨ (a.ledger = b.ledger ∧ (a.all < b.all ∨ (a.all = b.all ∧ a.stale ≤ b.stale)))
instance : LT Dist := ⟨lt⟩
instance : LE Dist := ⟨le⟩
instance (a b : Dist) : Decidable (a < b) := inferInstanceAs (Decidable (lt a b))
instance (a b : Dist) : Decidable (a ≤ b) := inferInstanceAs (Decidable (le a b))
/-- `Distance::extend`. -/
def extend (d : Dist) (src : Source) (staleness : Int) : Dist :=
  ⟨d.ledger + (match src with | .ledger => 1 | .priceDB => 0), d.all + 1, max d.stale staleness⟩
end Dist

/-- one usable step out of a node at the query date: neighbour, source of the pair's entry, staleness
`date - record_date` in days, rate of the as-of record. -/
structure Edge (κ : Type) where
  to : κ
  source : Source
  stale : Int
  rate : Rat
  deriving Repr

/-- the body of the `for (j, Entry(source, rates)) in records[prev]` loop up to `let (record_date, rate) = …`:
the neighbours of `prev` in iteration order `ord`, those without a record on or before `date` skipped. -/
def edgesAt (ord : κ → List (κ × PEntry) → List (κ × PEntry)) (repo : Builder κ) (date : Date) (prev : κ) :
    List (Edge κ) :=
  match AMap.get? repo prev with
  | none => []
  | some inner =>
    (ord prev inner).filterMap fun je =>
      match asOf je.2.recs date with
      | none => none
      | some (recordDate, rate) => some ⟨je.1, je.2.source, date.dayNumber - recordDate.dayNumber, rate⟩

/-- queue element `WithDistance(dist, (commodity, rate))`. -/
structure Item (κ : Type) where
  dist : Dist
  node : κ
  rate : Rat
  deriving Repr, DecidableEq

/-- `distances : HashMap<Commodity, WithDistance<Decimal>>`. -/
abbrev Table (κ : Type) := AMap κ (Dist × Rat)

/-- one neighbour: `distances.entry(j)` occupied with `<=` → nothing; else store and push. -/
def relax (curDist : Dist) (prevRate : Rat) (st : Table κ × List (Item κ)) (e : Edge κ) :
    Table κ × List (Item κ) :=
  let nd := curDist.extend e.source e.stale
  let r := prevRate * e.rate
  match AMap.get? st.1 e.to with
  | some (d, _) => if d ≤ nd then st else (AMap.insert st.1 e.to (nd, r), st.2 ++ [⟨nd, e.to, r⟩])
  | none => (AMap.insert st.1 e.to (nd, r), st.2 ++ [⟨nd, e.to, r⟩])

/-- the `if let Some(prev_dist) = distances.get(&prev) { if prev_dist < curr_dist { continue } }` test. -/
def isStale (t : Table κ) (it : Item κ) : Bool :=
  match AMap.get? t it.node with
  | some (d, _) => decide (d < it.dist)
  | none => false

/-- `while let Some(curr) = queue.pop()`.  `pick n q` chooses which queued element is popped (index modulo
the queue length; `n` is the remaining fuel, so the choice may vary from step to step); `out` lists a node's
usable steps in visiting order. -/
def loop (out : κ → List (Edge κ)) (pick : Nat → List (Item κ) → Nat) :
    Nat → Table κ → List (Item κ) → Outcome Unit (Table κ)
  | _, t, [] => .ok t
  | 0, _, _ :: _ => .fuelOut
  | fuel + 1, t, x :: xs =>
    let q := x :: xs
    let i := pick fuel q % q.length
    let it := q.getD i x
    let q' := q.eraseIdx i
    if isStale t it then loop out pick fuel t q'
    else
      let st := (out it.node).foldl (relax it.dist it.rate) (t, q')
      loop out pick fuel st.1 st.2

/-- `compute_price_table` over an abstract step relation. -/
def tableOf (out : κ → List (Edge κ)) (pick : Nat → List (Item κ) → Nat) (fuel : Nat) (priceWith : κ) :
    Outcome Unit (Table κ) :=
  loop out pick fuel [] [⟨Dist.zero, priceWith, 1⟩]

/-- parameters of a run that the Rust leaves to the heap / the hasher, plus the model's fuel. -/
structure Cfg (κ : Type) where
  fuel : Nat
  /-- the pop choice; it may depend on which table is being computed (target commodity, date) and on the step -/
  pick : κ → Date → Nat → List (Item κ) → Nat
  ord : κ → List (κ × PEntry) → List (κ × PEntry)

/-- `compute_price_table(price_with, date)`. -/
def priceTable (cfg : Cfg κ) (repo : Builder κ) (priceWith : κ) (date : Date) : Outcome Unit (Table κ) :=
  tableOf (edgesAt cfg.ord repo date) (cfg.pick priceWith date) cfg.fuel priceWith

/-- `ConversionError::RateNotFound`. -/
inductive ConvErr (κ : Type) where
  | rateNotFound (value : SingleAmount κ) (target : κ) (date : Date)
  deriving Repr, DecidableEq

/-- `PriceRepository::convert_single` (cache left out: see `convertSingleCached`). -/
def convertSingle (cfg : Cfg κ) (repo : Builder κ) (value : SingleAmount κ) (commodityWith : κ) (date : Date) :
    Outcome (ConvErr κ) (SingleAmount κ) :=
  if value.commodity = commodityWith then .ok value
  else
    match priceTable cfg repo commodityWith date with
    | .ok tbl =>
      match AMap.get? tbl value.commodity with
      | some (_, rate) => .ok ⟨value.value * rate, commodityWith⟩
      | none => .err (.rateNotFound value commodityWith date)
    | .err _ => .panic "unreachable"
    | .panic s => .panic s
    | .fuelOut => .fuelOut

/-- `PriceRepository.cache`. -/
abbrev Cache (κ : Type) := AMap (κ × Date) (Table κ)

/-- `convert_single` with the `(commodity_with, date)` cache (`entry(..).or_insert_with(compute_price_table)`). -/
def convertSingleCached (cfg : Cfg κ) (repo : Builder κ) (cache : Cache κ) (value : SingleAmount κ)
    (commodityWith : κ) (date : Date) : Outcome (ConvErr κ) (SingleAmount κ) × Cache κ :=
  if value.commodity = commodityWith then (.ok value, cache)
  else
    let look : Outcome Unit (Table κ) × Cache κ :=
      match AMap.get? cache (commodityWith, date) with
      | some tbl => (.ok tbl, cache)
      | none =>
        match priceTable cfg repo commodityWith date with
        | .ok tbl => (.ok tbl, AMap.insert cache (commodityWith, date) tbl)
        | o => (o, cache)
    match look with
    | (.ok tbl, cache') =>
      match AMap.get? tbl value.commodity with
      | some (_, rate) => (.ok ⟨value.value * rate, commodityWith⟩, cache')
      | none => (.err (.rateNotFound value commodityWith date), cache')
    | (.err _, cache') => (.panic "unreachable", cache')
    | (.panic s, cache') => (.panic s, cache')
    | (.fuelOut, cache') => (.fuelOut, cache')

/-- the loop of `convert_amount` over the (sorted) entries. -/
def convertLoop (cfg : Cfg κ) (repo : Builder κ) (commodityWith : κ) (date : Date) :
    List (κ × Rat) → Amount κ → Outcome (ConvErr κ) (Amount κ)
  | [], acc => .ok acc
  | (c, v) :: rest, acc =>
    match convertSingle cfg repo ⟨v, c⟩ commodityWith date with
    | .ok s => convertLoop cfg repo commodityWith date rest (acc.addSingle s.commodity s.value)
    | .err e => .err e
    | .panic s => .panic s
    | .fuelOut => .fuelOut

/-- `convert_amount`: entries sorted by commodity name (`leK`), converted one by one, first failure wins. -/
def convertAmount (cfg : Cfg κ) (repo : Builder κ) (leK : κ → κ → Bool) (amount : Amount κ) (commodityWith : κ)
    (date : Date) : Outcome (ConvErr κ) (Amount κ) :=
  convertLoop cfg repo commodityWith date (isortBy (fun a b => leK a.1 b.1) amount) []

end Price
end Okane
