/-!
# Parser combinators: the part of winnow 0.7.6 that okane's ledger parser uses

`Parser α = List Char → Res α`.  The input is the *remaining* text; byte offsets (spans, error offsets) are
recovered from it as `utf8Len whole - utf8Len remaining` (`LocatingSlice` does exactly this:
`input.offset_from(&initial)`), see `Okane.Model.Parse`.

A failure carries the remaining input **at which the failing sub-parser left the stream** (`bt at` /
`cut at`): winnow leaves the stream where the failing parser stopped, and only these combinators reset it:
`opt` (on backtrack), `peek` and `not` (always), `alt` (before each alternative, *not* after the last one),
`repeat` / `repeat_till` / `separated` / `separated_foldl1` (before giving up on an element after a backtrack),
`verify` / `one_of` and `try_map` (when the predicate / conversion rejects).
`bt` is `ErrMode::Backtrack`, `cut` is `ErrMode::Cut`.

`panic site` stands for `ParserError::assert` (a panic in debug builds): a repeated element that succeeds
without consuming.  winnow tests `eof_offset() == len`; since parsers only ever consume, that is the same as
the `≥` used here (which makes the loops' own fuel `length + 1` sufficient whatever the element parser is).
`fuel` = a loop or recursion ran out of fuel (never happens for the loops of this file, see `Props/C05`).
-/
namespace Okane.Comb

inductive Res (α : Type) where
  | ok (a : α) (rest : List Char)
  | bt (pos : List Char)
  | cut (pos : List Char)
  | panic (site : String)
  | fuel
  deriving Repr, Inhabited, DecidableEq

/-- a winnow parser over `&str` -/
abbrev Parser (α : Type) := List Char → Res α

namespace Res
variable {α β : Type}

/-- sequencing: run `f` on the value and the remaining input of a success -/
@[inline] def andThen (r : Res α) (f : α → List Char → Res β) : Res β :=
  match r with
  | ok a rest => f a rest
  | bt p => bt p
  | cut p => cut p
  | panic s => panic s
  | fuel => fuel

@[inline] def map (f : α → β) (r : Res α) : Res β :=
  match r with
  | ok a rest => ok (f a) rest
  | bt p => bt p
  | cut p => cut p
  | panic s => panic s
  | fuel => fuel

@[simp] theorem andThen_ok (a : α) (r : List Char) (f : α → List Char → Res β) : (ok a r).andThen f = f a r := rfl
@[simp] theorem andThen_bt (p : List Char) (f : α → List Char → Res β) : (bt p : Res α).andThen f = bt p := rfl
@[simp] theorem andThen_cut (p : List Char) (f : α → List Char → Res β) : (cut p : Res α).andThen f = cut p := rfl
@[simp] theorem andThen_panic (s : String) (f : α → List Char → Res β) : (panic s : Res α).andThen f = panic s := rfl
@[simp] theorem andThen_fuel (f : α → List Char → Res β) : (fuel : Res α).andThen f = fuel := rfl
@[simp] theorem map_ok (a : α) (r : List Char) (f : α → β) : (ok a r).map f = ok (f a) r := rfl
@[simp] theorem map_bt (p : List Char) (f : α → β) : (bt p : Res α).map f = bt p := rfl
@[simp] theorem map_cut (p : List Char) (f : α → β) : (cut p : Res α).map f = cut p := rfl

def isOk : Res α → Bool
  | ok _ _ => true
  | _ => false

end Res

open Res
variable {α β γ : Type}

/-! ## sequencing -/

/-- `p.parse_next(i)?` followed by `f` -/
@[inline] def bind (p : Parser α) (f : α → Parser β) : Parser β := fun i => (p i).andThen f
/-- `empty` / a constant -/
@[inline] def pure (a : α) : Parser α := fun i => .ok a i
/-- `Parser::map` -/
@[inline] def map (f : α → β) (p : Parser α) : Parser β := fun i => (p i).map f
/-- `Parser::value` -/
@[inline] def value (b : β) (p : Parser α) : Parser β := map (fun _ => b) p
/-- `Parser::void` -/
@[inline] def void (p : Parser α) : Parser Unit := map (fun _ => ()) p
/-- `fail` -/
def fail : Parser α := fun i => .bt i
/-- `(p, q)` -/
@[inline] def pair (p : Parser α) (q : Parser β) : Parser (α × β) := bind p fun a => map (fun b => (a, b)) q
/-- `preceded(p, q)` -/
@[inline] def preceded (p : Parser α) (q : Parser β) : Parser β := bind p fun _ => q
/-- `terminated(p, q)` -/
@[inline] def terminated (p : Parser α) (q : Parser β) : Parser α := bind p fun a => map (fun _ => a) q
/-- `delimited(l, p, r)` -/
@[inline] def delimited (l : Parser α) (p : Parser β) (r : Parser γ) : Parser β := preceded l (terminated p r)

infixl:55 " >>- " => bind

/-! ## tokens -/

/-- `any` -/
def any : Parser Char
  | [] => .bt []
  | c :: r => .ok c r

/-- `one_of(set)` = `any.verify(set)`: a rejected token is un-consumed -/
def oneOf (p : Char → Bool) : Parser Char
  | [] => .bt []
  | c :: r => if p c then .ok c r else .bt (c :: r)

/-- `one_of(c)` for a single character -/
def char (c : Char) : Parser Char := oneOf (· == c)

/-- `literal(s)` -/
def literal (s : List Char) : Parser (List Char) := fun i =>
  if s.isPrefixOf i then .ok s (i.drop s.length) else .bt i

/-- `take_while(0.., p)` -/
def takeWhile0 (p : Char → Bool) : Parser (List Char) := fun i => .ok (i.takeWhile p) (i.dropWhile p)
/-- `take_while(1.., p)` -/
def takeWhile1 (p : Char → Bool) : Parser (List Char) := fun i =>
  match i with
  | c :: _ => if p c then .ok (i.takeWhile p) (i.dropWhile p) else .bt i
  | [] => .bt []
/-- `take_till(0.., p)` -/
def takeTill0 (p : Char → Bool) : Parser (List Char) := takeWhile0 (fun c => !p c)
/-- `take_till(1.., p)` -/
def takeTill1 (p : Char → Bool) : Parser (List Char) := takeWhile1 (fun c => !p c)

/-- `eof` -/
def eof : Parser Unit
  | [] => .ok () []
  | i => .bt i

/-- `AsChar::is_space`: blank or tab -/
def isSpace (c : Char) : Bool := c == ' ' || c == '\t'
/-- `space0` -/
def space0 : Parser (List Char) := takeWhile0 isSpace
/-- `space1` -/
def space1 : Parser (List Char) := takeWhile1 isSpace
/-- `digit1` (ASCII digits) -/
def digit1 : Parser (List Char) := takeWhile1 Char.isDigit

/-- `line_ending` = `alt(("\n", "\r\n"))`; neither literal consumes when it fails -/
def lineEnding : Parser Unit
  | '\n' :: r => .ok () r
  | '\r' :: '\n' :: r => .ok () r
  | i => .bt i

def isEol (c : Char) : Bool := c == '\r' || c == '\n'

/-- `till_line_ending`: everything up to the first `\r` or `\n` (or the end of input); **fails on a lone `\r`**,
leaving the stream at that `\r`. -/
def tillLineEnding : Parser (List Char) := fun i =>
  let pre := i.takeWhile (fun c => !isEol c)
  let rest := i.dropWhile (fun c => !isEol c)
  match rest with
  | '\r' :: '\n' :: _ => .ok pre rest
  | '\r' :: _ => .bt rest
  | _ => .ok pre rest

/-! ## control -/

/-- `opt(p)`: a backtrack is turned into `None` with the stream reset -/
def opt (p : Parser α) : Parser (Option α) := fun i =>
  match p i with
  | .ok a r => .ok (some a) r
  | .bt _ => .ok none i
  | .cut q => .cut q
  | .panic s => .panic s
  | .fuel => .fuel

/-- `peek(p)`: the stream is reset whatever happens -/
def peek (p : Parser α) : Parser α := fun i =>
  match p i with
  | .ok a _ => .ok a i
  | .bt _ => .bt i
  | .cut _ => .cut i
  | .panic s => .panic s
  | .fuel => .fuel

/-- `not(p)` -/
def not (p : Parser α) : Parser Unit := fun i =>
  match p i with
  | .ok _ _ => .bt i
  | .bt _ => .ok () i
  | .cut _ => .cut i
  | .panic s => .panic s
  | .fuel => .fuel

/-- `combinator::has_peek(p)` = `peek(opt(p)).map(is_some)` -/
def hasPeek (p : Parser α) : Parser Bool := fun i =>
  match p i with
  | .ok _ _ => .ok true i
  | .bt _ => .ok false i
  | .cut _ => .cut i
  | .panic s => .panic s
  | .fuel => .fuel

/-- `cut_err(p)` -/
def cutErr (p : Parser α) : Parser α := fun i =>
  match p i with
  | .bt q => .cut q
  | r => r

/-- `alt((p, q))`; longer tuples are nested to the right (`alt((p, q, r)) = alt2 p (alt2 q r)`: every
alternative starts from the same checkpoint and the failure of the last one is returned as it is). -/
def alt2 (p q : Parser α) : Parser α := fun i =>
  match p i with
  | .bt _ => q i
  | r => r

infixr:50 " <|| " => alt2

/-- `cond(b, p)` -/
def cond (b : Bool) (p : Parser α) : Parser (Option α) := if b then map some p else pure none
/-- `combinator::cond_else(b, p, q)` -/
def condElse (b : Bool) (p q : Parser α) : Parser α := if b then p else q

/-- `p.try_map(f)`: a rejected conversion resets the stream and backtracks -/
def tryMap (p : Parser α) (f : α → Option β) : Parser β := fun i =>
  match p i with
  | .ok a r => match f a with
    | some b => .ok b r
    | none => .bt i
  | .bt q => .bt q
  | .cut q => .cut q
  | .panic s => .panic s
  | .fuel => .fuel

/-- the text consumed between two stream positions (`rest` is a suffix of `i`) -/
def consumed (i rest : List Char) : List Char := i.take (i.length - rest.length)

/-- `p.with_taken()` -/
def withTaken (p : Parser α) : Parser (α × List Char) := fun i =>
  match p i with
  | .ok a r => .ok (a, consumed i r) r
  | .bt q => .bt q
  | .cut q => .cut q
  | .panic s => .panic s
  | .fuel => .fuel

/-- `p.take()` -/
def take (p : Parser α) : Parser (List Char) := map Prod.snd (withTaken p)

/-- `dispatch!{peek(any); …}`: backtracks at end of input, otherwise runs the arm chosen by the next character -/
def dispatch (arms : Char → Parser α) : Parser α
  | [] => .bt []
  | c :: r => arms c (c :: r)

/-- `dispatch!{peek(opt(any)); …}` -/
def dispatchOpt (arms : Option Char → Parser α) : Parser α
  | [] => arms none []
  | c :: r => arms (some c) (c :: r)

/-! ## repetition -/

/-- the loop of `fold_repeat0_` (`repeat(0.., p)`) -/
def repeat0Loop (p : Parser α) : Nat → List Char → List α → Res (List α)
  | 0, _, _ => .fuel
  | n + 1, i, acc =>
    match p i with
    | .ok a r => if r.length ≥ i.length then .panic "repeat: parsers must always consume" else repeat0Loop p n r (acc ++ [a])
    | .bt _ => .ok acc i
    | .cut q => .cut q
    | .panic s => .panic s
    | .fuel => .fuel

/-- `repeat(0.., p)` -/
def repeat0 (p : Parser α) : Parser (List α) := fun i => repeat0Loop p (i.length + 1) i []

/-- `repeat(1.., p)` (`fold_repeat1_`): the first element's failure is returned as it is, and the first
element is not subject to the consumption check. -/
def repeat1 (p : Parser α) : Parser (List α) := fun i =>
  match p i with
  | .ok a r => repeat0Loop p (r.length + 1) r [a]
  | .bt q => .bt q
  | .cut q => .cut q
  | .panic s => .panic s
  | .fuel => .fuel

/-- the second loop of `repeat_till_m_n_` -/
def repeatTillLoop (f : Parser α) (g : Parser β) : Nat → List Char → List α → Res (List α × β)
  | 0, _, _ => .fuel
  | n + 1, i, acc =>
    match g i with
    | .ok b r => .ok (acc, b) r
    | .bt _ =>
      match f i with
      | .ok a r => if r.length ≥ i.length then .panic "repeat_till: parsers must always consume" else repeatTillLoop f g n r (acc ++ [a])
      | .bt q => .bt q
      | .cut q => .cut q
      | .panic s => .panic s
      | .fuel => .fuel
    | .cut q => .cut q
    | .panic s => .panic s
    | .fuel => .fuel

/-- `repeat_till(1.., f, g)`: one `f` unconditionally, then `g` is tried before every further `f` -/
def repeatTill1 (f : Parser α) (g : Parser β) : Parser (List α × β) := fun i =>
  match f i with
  | .ok a r => repeatTillLoop f g (r.length + 1) r [a]
  | .bt q => .bt q
  | .cut q => .cut q
  | .panic s => .panic s
  | .fuel => .fuel

/-- the loop of `separated1_` -/
def separatedLoop (p : Parser α) (sep : Parser β) : Nat → List Char → List α → Res (List α)
  | 0, _, _ => .fuel
  | n + 1, i, acc =>
    match sep i with
    | .bt _ => .ok acc i
    | .ok _ r =>
      if r.length ≥ i.length then .panic "separated: separator must always consume" else
      match p r with
      | .ok a r' => separatedLoop p sep n r' (acc ++ [a])
      | .bt _ => .ok acc i
      | .cut q => .cut q
      | .panic s => .panic s
      | .fuel => .fuel
    | .cut q => .cut q
    | .panic s => .panic s
    | .fuel => .fuel

/-- `separated(1.., p, sep)` -/
def separated1 (p : Parser α) (sep : Parser β) : Parser (List α) := fun i =>
  match p i with
  | .ok a r => separatedLoop p sep (r.length + 1) r [a]
  | .bt q => .bt q
  | .cut q => .cut q
  | .panic s => .panic s
  | .fuel => .fuel

/-! ## byte offsets -/

/-- length in UTF-8 bytes -/
def utf8Len : List Char → Nat
  | [] => 0
  | c :: r => c.utf8Size + utf8Len r

theorem utf8Len_append (a b : List Char) : utf8Len (a ++ b) = utf8Len a + utf8Len b := by
  induction a with
  | nil => simp [utf8Len]
  | cons c r ih => simp [utf8Len, ih]; omega

end Okane.Comb
