import Okane.Model.Process
import Okane.Model.Range
import Okane.Model.InlineDisplay
/-!
# The text of `okane balance`, `okane register`, `okane accounts` (mirror of `cli/src/cmd.rs` `BalanceCmd::run`,
`RegisterCmd::run`, `AccountsCmd::run`, `cli/src/bin/okane.rs` `main`, and the `#[error(..)]` messages of
`core/src/report/book_keeping.rs`, `eval/error.rs`, `balance.rs`)

Executable, core only: this is what `drv c13 cmd` runs and what `bin/check C13` compares with the standard output /
standard error of the real binary.  `Lemmas/CmdTextEq.lean` proves that these functions are the command models the C13
theorems talk about (`cmdText`, `balanceLines`, `registerLines`, `accountsScanCmd` of `Lemmas/C13CmdReport.lean`)
instantiated with the orders and printers below, for every layout history of the hash maps.

Instantiation of the parameters of the command models:
* `leS`: `sort_unstable_by_key(|x| x.as_str())` — `str`'s `Ord` is byte-wise lexicographic, which for UTF-8 is the
  code-point order `String`'s `≤` is;
* `showAcct = id`: `account.as_str()`;
* `showEntry c v`: `write!(f, "{} {}", v, c.as_str())`.  The report layer of the model is exact rationals (DESIGN 3.1):
  the *scale* a `rust_decimal::Decimal` carries (`1.50` vs `1.5`) and the sign of a zero are not modelled, so a numeral
  is printed as a **hole** `⟪num/den⟫` (`numOpen`, `numClose`: U+0001, U+0002) holding the exact value.  The check
  matches the binary's output against the text byte for byte outside the holes, and requires the decimal numeral the
  binary printed at a hole to have exactly that value.
* error messages: the texts of the Rust `#[error(..)]` attributes.  Where the Rust message carries data the model's
  error value does not (`UnmatchingCommodities(a, b)`, `UnknownCommodity(c)`, the `InternError` behind
  `InvalidAccount` / `InvalidCommodity`) the text ends with `more` (U+0003): "the binary's message continues".
-/
namespace Okane.CmdText
open Okane

/-- the order of `sort_unstable_by_key(|x| x.as_str())`. -/
def leS (a b : String) : Bool := decide (a ≤ b)

/-- start / end of a numeral hole, and the "message continues" mark. -/
def numOpen : String := "\x01"
def numClose : String := "\x02"
def more : String := "\x03"

/-- a numeral: the exact value, to be matched against the decimal text the binary printed. -/
def showNum (v : Rat) : String := numOpen ++ ratStr v ++ numClose

/-- `write!(f, "{} {}", v, c.as_str())`. -/
def showEntry (c : String) (v : Rat) : String := showNum v ++ " " ++ c

/-- `as_inline_display()`. -/
def showAmount (a : Amount String) : String := Amount.inlineDisplay leS showEntry a

/-- `writeln!` of every line. -/
def unlines (ls : List String) : String := String.join (ls.map fun l => l ++ "\n")

/-- `impl Display for EvalError`. -/
def evalErrMsg : EvalErr → String
  | .unmatchingOperation => "operator can't be applied to unmatched types"
  | .unmatchingCommodities => "unmatching commodities " ++ more
  | .unknownCommodity => "unknown commodity " ++ more
  | .divideByZero => "cannot divide by zero"
  | .numberOverflow => "overflow happened"
  | .amountRequired => "expected 0 or amount with commodity"
  | .postingAmountRequired => "0 or amount with single commodity expected"
  | .singleAmountRequired => "amount with single commodity expected"

/-- `impl Display for BookKeepError` (the title of the rendered diagnostic). -/
def bkErrMsg : BkErrS → String
  | .evalFailure e => "failed to evaluate the expression: " ++ evalErrMsg e
  | .balanceFailure =>
    "failed to meet balance condition: balance = 0 cannot deduce posting amount when balance has multi commodities"
  | .undeducible _ _ => "transaction cannot have multiple postings without constraints"
  | .unbalanced r => "transaction cannot have unbalanced postings: " ++ showAmount r
  | .assertionFailure _ computed diff =>
    "balance assertion off by " ++ showAmount diff ++ ", computed balance is " ++ showAmount computed
  | .invalidAccount => "failed to register account: " ++ more
  | .invalidCommodity => "failed to register commodity: " ++ more
  | .zeroAmountWithExchange => "posting without commodity should not have exchange"
  | .zeroExchangeRate => "cost or lot exchange must not be zero"
  | .exchangeWithAmountCommodity => "cost or lot exchange must have different commodity from the amount commodity"

/-- the lines of `okane balance [--start ..] [--end ..]`:
`for (account, amount) in ledger.balance(..)?.into_owned().into_vec() { writeln!(w, "{}: {}", ..) }`. -/
def balanceLines (r : DateRange) (st : ProcState) : List String :=
  balanceReport leS leS id showEntry (balanceNoConv st.ctx.prec st.txns st.bal r)

/-- the lines of `okane register [ACCOUNT]`: posting account, posting amount, running total. -/
def registerLines (acct : Option String) (st : ProcState) : List String :=
  (register (postingsOf st.txns acct)).map fun row =>
    row.1.account ++ " " ++ showAmount row.1.amount ++ " " ++ showAmount row.2

/-- `report::accounts`: intern the account of every posting of every transaction (no book-keeping). -/
def accountsScan : Store → List Entry → Store
  | s, [] => s
  | s, .txn t :: es => accountsScan (t.posts.foldl (fun s p => (s.ensure p.account).2) s) es
  | s, _ :: es => accountsScan s es

/-- the lines of `okane accounts`. -/
def accountsLines (es : List Entry) : List String := accountsReport leS (accountsScan {} es).recs

/-- the commands covered. -/
inductive Cmd where
  | balance (r : DateRange)
  | register (acct : Option String)
  | accounts
  deriving Repr, Inhabited

/-- what a run leaves behind: on success (exit status 0) the standard output; on a book-keeping error (exit
status 1, nothing on standard output because `process` runs before the first `writeln!`) the index of the
offending entry and the title of the diagnostic on standard error. -/
abbrev Result := Outcome (Nat × String) String

/-- the report part of a command that runs book-keeping first. -/
def finish (lines : ProcState → List String) : Outcome (Nat × BkErrS) ProcState → Result
  | .ok st => .ok (unlines (lines st))
  | .err (i, e) => .err (i, bkErrMsg e)
  | .panic s => .panic s
  | .fuelOut => .fuelOut

/-- **`okane <cmd> FILE`** as a function of the entries the loader delivers. -/
def run : Cmd → List Entry → Result
  | .balance r, es => finish (balanceLines r) (process es)
  | .register acct, es => finish (registerLines acct) (process es)
  | .accounts, es => .ok (unlines (accountsLines es))

end Okane.CmdText
