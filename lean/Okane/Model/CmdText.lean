import Okane.Model.Process
import Okane.Model.Range
import Okane.Model.InlineDisplay
import Okane.Model.Query
import Okane.Model.PriceDbFile
/-!
# The text of `okane balance` (with and without `-X`), `okane register`, `okane accounts`, `okane primitive eval`
(mirror of `cli/src/cmd.rs` `BalanceCmd::run`, `RegisterCmd::run`, `AccountsCmd::run`, `EvalCmd::run`, `EvalOptions`,
`cli/src/bin/okane.rs` `main`, and the `#[error(..)]` messages of `core/src/report/book_keeping.rs`, `eval/error.rs`,
`balance.rs`, `query.rs`, `price_db.rs`)

Executable, core only: this is what `drv c13 cmd` runs and what `bin/check C13` compares with the standard output /
standard error of the real binary.  `Lemmas/CmdTextEq.lean` proves that these functions are the command models the C13
theorems talk about (`cmdText`, `balanceLines`, `registerLines`, `accountsScanCmd` of `Lemmas/C13CmdReport.lean`)
instantiated with the orders and printers below, for every layout history of the hash maps.

Instantiation of the parameters of the command models:
* `leS`: `sort_unstable_by_key(|x| x.as_str())` — `str`'s `Ord` is byte-wise lexicographic, which for UTF-8 is the
  code-point order `String`'s `≤` is;
* `showAcct = id`: `account.as_str()`;
* `showEntry c v`: `write!(f, "{} {}", v, c.as_str())`.  The report layer of the model is exact rationals (DESIGN 3.1):
  the *scale* a `rust_decimal::Decimal` carries (`1.50` vs `1.5`) and the sign of a zero are not modelled, so a numeral
  is printed as a **hole** `⟪num/den⟫` (`numOpen`, `numClose`: U+0001, U+0002) holding the exact value.  The check
  matches the binary's output against the text byte for byte outside the holes, and requires the decimal numeral the
  binary printed at a hole to have exactly that value.
* error messages: the texts of the Rust `#[error(..)]` attributes.  Where the Rust message carries data the model's
  error value does not (`UnmatchingCommodities(a, b)`, `UnknownCommodity(c)`, the `InternError` behind
  `InvalidAccount` / `InvalidCommodity`) the text ends with `more` (U+0003): "the binary's message continues".
-/
namespace Okane.CmdText
open Okane

/-- the order of `sort_unstable_by_key(|x| x.as_str())`. -/
def leS (a b : String) : Bool := decide (a ≤ b)

/-- start / end of a numeral hole, and the "message continues" mark. -/
def numOpen : String := "\x01"
def numClose : String := "\x02"
def more : String := "\x03"

/-- a numeral: the exact value, to be matched against the decimal text the binary printed. -/
def showNum (v : Rat) : String := numOpen ++ ratStr v ++ numClose

/-- `write!(f, "{} {}", v, c.as_str())`. -/
def showEntry (c : String) (v : Rat) : String := showNum v ++ " " ++ c

/-- `as_inline_display()`. -/
def showAmount (a : Amount String) : String := Amount.inlineDisplay leS showEntry a

/-- `writeln!` of every line. -/
def unlines (ls : List String) : String := String.join (ls.map fun l => l ++ "\n")

/-- `impl Display for EvalError`. -/
def evalErrMsg : EvalErr → String
  | .unmatchingOperation => "operator can't be applied to unmatched types"
  | .unmatchingCommodities => "unmatching commodities " ++ more
  | .unknownCommodity => "unknown commodity " ++ more
  | .divideByZero => "cannot divide by zero"
  | .numberOverflow => "overflow happened"
  | .amountRequired => "expected 0 or amount with commodity"
  | .postingAmountRequired => "0 or amount with single commodity expected"
  | .singleAmountRequired => "amount with single commodity expected"

/-- `impl Display for BookKeepError` (the title of the rendered diagnostic). -/
def bkErrMsg : BkErrS → String
  | .evalFailure e => "failed to evaluate the expression: " ++ evalErrMsg e
  | .balanceFailure =>
    "failed to meet balance condition: balance = 0 cannot deduce posting amount when balance has multi commodities"
  | .undeducible _ _ => "transaction cannot have multiple postings without constraints"
  | .unbalanced r => "transaction cannot have unbalanced postings: " ++ showAmount r
  | .assertionFailure _ computed diff =>
    "balance assertion off by " ++ showAmount diff ++ ", computed balance is " ++ showAmount computed
  | .invalidAccount => "failed to register account: " ++ more
  | .invalidCommodity => "failed to register commodity: " ++ more
  | .zeroAmountWithExchange => "posting without commodity should not have exchange"
  | .zeroExchangeRate => "cost or lot exchange must not be zero"
  | .exchangeWithAmountCommodity => "cost or lot exchange must have different commodity from the amount commodity"

/-- the lines of `okane balance [--start ..] [--end ..]`:
`for (account, amount) in ledger.balance(..)?.into_owned().into_vec() { writeln!(w, "{}: {}", ..) }`. -/
def balanceLines (r : DateRange) (st : ProcState) : List String :=
  balanceReport leS leS id showEntry (balanceNoConv st.ctx.prec st.txns st.bal r)

/-- the lines of `okane register [ACCOUNT]`: posting account, posting amount, running total. -/
def registerLines (acct : Option String) (st : ProcState) : List String :=
  (register (postingsOf st.txns acct)).map fun row =>
    row.1.account ++ " " ++ showAmount row.1.amount ++ " " ++ showAmount row.2

/-- `report::accounts`: intern the account of every posting of every transaction (no book-keeping). -/
def accountsScan : Store → List Entry → Store
  | s, [] => s
  | s, .txn t :: es => accountsScan (t.posts.foldl (fun s p => (s.ensure p.account).2) s) es
  | s, _ :: es => accountsScan s es

/-- the lines of `okane accounts`. -/
def accountsLines (es : List Entry) : List String := accountsReport leS (accountsScan {} es).recs

/-- the commands covered. -/
inductive Cmd where
  | balance (r : DateRange)
  | register (acct : Option String)
  | accounts
  deriving Repr, Inhabited

/-- what a run leaves behind: on success (exit status 0) the standard output; on a book-keeping error (exit
status 1, nothing on standard output because `process` runs before the first `writeln!`) the index of the
offending entry and the title of the diagnostic on standard error. -/
abbrev Result := Outcome (Nat × String) String

/-- the report part of a command that runs book-keeping first. -/
def finish (lines : ProcState → List String) : Outcome (Nat × BkErrS) ProcState → Result
  | .ok st => .ok (unlines (lines st))
  | .err (i, e) => .err (i, bkErrMsg e)
  | .panic s => .panic s
  | .fuelOut => .fuelOut

/-- **`okane <cmd> FILE`** as a function of the entries the loader delivers. -/
def run : Cmd → List Entry → Result
  | .balance r, es => finish (balanceLines r) (process es)
  | .register acct, es => finish (registerLines acct) (process es)
  | .accounts, es => .ok (unlines (accountsLines es))

/-! ## `okane balance -X COMMODITY --now DATE [--historical] [--start ..] [--end ..] [--price-db FILE]`

`BalanceCmd::run` with a conversion: `report::process` (book-keeping, then `load_price_db` when `--price-db` is given,
then `build()`), `EvalOptions::to_conversion` (`ctx.commodity(ex)` — **after** the price db registered its commodities,
so a commodity that only occurs in the price db is a valid `-X` target), `Ledger::balance`, the `writeln!` loop.
`cfg` stands for what the Rust leaves to `BinaryHeap` (`pick`) and, before fix b2e85da, to the hasher (`ord`). -/

/-- the options of a converting `okane balance`. -/
structure XOpts where
  exchange : String
  historical : Bool := false
  now : Date
  range : DateRange := {}
  deriving Repr, Inhabited

/-- how a converting run fails (exit status 1, nothing on standard output). -/
inductive Fail where
  /-- `failed to report` / `Caused by error: <title>` … : book-keeping error at an entry -/
  | book (entry : Nat) (title : String)
  /-- `failed to report` / `Caused by failed to load price DB …`: the price db does not parse (text not modelled) -/
  | priceDb
  /-- `failed to query` / `Caused by <text>` -/
  | query (text : String)
  deriving Repr, DecidableEq, Inhabited

abbrev XResult := Outcome Fail String

/-- `impl Display for ConversionError`: `SingleAmount`'s `Display` is `{value} {commodity}`, `NaiveDate`'s `%Y-%m-%d`. -/
def convErrMsg : Price.ConvErr String → String
  | .rateNotFound v target date =>
    "commodity rate " ++ showEntry v.commodity v.value ++ " into " ++ target ++ " at " ++ date.fmtHyphen ++ " not found"

/-- `impl Display for QueryError`, followed by the `Caused by` line of its source where it has one
(`EvalFailed(#[from] EvalError)`; `main` prints the chain). -/
def queryErrMsg : Query.QueryErr String → String
  | .commodityNotFound name => "commodity " ++ name ++ " not found"
  | .evalFailed e => "failed to evaluate the expr\nCaused by " ++ evalErrMsg e
  | .conversionFailure e => "cannot convert amount: " ++ convErrMsg e

/-- the second half of `report::process`: the price repository (ledger events, then the price db if any, then
`build()`) and the commodity store after `load_price_db`. -/
def loadRepo (dbText : Option (List Char)) (st : ProcState) :
    Outcome Parse.ParseErr (Store × Price.Builder String) :=
  match dbText with
  | some text => PriceDbFile.processPriceDb st.events text st.ctx.commodities
  | none =>
    match Price.insertAll .ledger [] st.events with
    | .ok b => .ok (st.ctx.commodities, Price.build b)
    | .err _ => .panic "unreachable"
    | .panic s => .panic s
    | .fuelOut => .fuelOut

/-- what `okane balance -X …` writes, given how book-keeping ended. -/
def xFinish (cfg : Price.Cfg String) (dbText : Option (List Char)) (o : XOpts) :
    Outcome (Nat × BkErrS) ProcState → XResult
  | .ok st =>
    match loadRepo dbText st with
    | .ok (store, repo) =>
      match Query.toConversion store (some o.exchange) o.historical o.now with
      | .ok conv =>
        match Query.balance st.ctx.prec ⟨cfg, repo, leS, leS⟩ st.txns st.bal ⟨conv, o.range⟩ with
        | .ok bal => .ok (unlines (balanceReport leS leS id showEntry bal))
        | .err e => .err (.query (queryErrMsg e))
        | .panic s => .panic s
        | .fuelOut => .fuelOut
      | .err e => .err (.query (queryErrMsg e))
      | .panic s => .panic s
      | .fuelOut => .fuelOut
    | .err _ => .err .priceDb
    | .panic s => .panic s
    | .fuelOut => .fuelOut
  | .err (i, e) => .err (.book i (bkErrMsg e))
  | .panic s => .panic s
  | .fuelOut => .fuelOut

/-- **`okane balance -X …`** as a function of the entries the loader delivers and the text of the price db. -/
def runX (cfg : Price.Cfg String) (dbText : Option (List Char)) (o : XOpts) (es : List Entry) : XResult :=
  xFinish cfg dbText o (process es)

/-! ## `okane primitive eval --date DATE [-X COMMODITY] [--price-db FILE] -f FILE EXPR…`

`EvalCmd::run`: `report::process` (with the price db), then `Ledger::eval(ctx, "(" + terms + ")", {date, exchange})`:
resolve the `-X` commodity, parse the string (`expr = none`: it does not parse; the parser is the real one, see C08),
evaluate read-only, convert, `writeln!("{}", result.as_inline_display())`. -/

/-- `QueryError::ParseFailed` (the parse error behind it is not modelled here). -/
def parseFailedMsg : String := "failed to parse the given value\nCaused by " ++ more

/-- what `okane primitive eval …` writes, given how book-keeping ended. -/
def evalFinish (cfg : Price.Cfg String) (dbText : Option (List Char)) (expr : Option VExpr) (date : Date)
    (exchange : Option String) : Outcome (Nat × BkErrS) ProcState → XResult
  | .ok st =>
    match loadRepo dbText st with
    | .ok (store, repo) =>
      match expr with
      | some e =>
        match Query.eval ⟨cfg, repo, leS, leS⟩ store e date exchange with
        | .ok a => .ok (unlines [showAmount a])
        | .err e => .err (.query (queryErrMsg e))
        | .panic s => .panic s
        | .fuelOut => .fuelOut
      | none =>
        match exchange.map store.resolve with
        | some none => .err (.query (queryErrMsg (.commodityNotFound (exchange.getD ""))))
        | _ => .err (.query parseFailedMsg)
    | .err _ => .err .priceDb
    | .panic s => .panic s
    | .fuelOut => .fuelOut
  | .err (i, e) => .err (.book i (bkErrMsg e))
  | .panic s => .panic s
  | .fuelOut => .fuelOut

/-- **`okane primitive eval …`** as a function of the entries, the text of the price db and the parsed expression. -/
def runEval (cfg : Price.Cfg String) (dbText : Option (List Char)) (expr : Option VExpr) (date : Date)
    (exchange : Option String) (es : List Entry) : XResult :=
  evalFinish cfg dbText expr date exchange (process es)

end Okane.CmdText
