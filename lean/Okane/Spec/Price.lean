import Okane.Model.Price
/-!
# Reference notions for C09: chains of as-of steps, their distance and rate product

`out j` lists the usable steps out of commodity `j` at the query date (for the real repository:
`edgesAt ord repo date j`, one step per neighbour that has a record dated on or before the date, carrying the
most recent such record).  `Walk out src j d r` says: there is a chain of such steps from `src` (the target
commodity of the conversion, where the table computation starts) to `j` whose `Distance` — number of
ledger-sourced steps, number of steps, greatest staleness, accumulated with `Distance::extend` — is `d`, and
whose rate product is `r`.  Chains may revisit commodities (the statement "no chain is better" is then the
stronger one).
-/
namespace Okane.Price
variable {κ : Type}

inductive Walk (out : κ → List (Edge κ)) (src : κ) : κ → Dist → Rat → Prop where
  | nil : Walk out src src Dist.zero 1
  | cons {j : κ} {d : Dist} {r : Rat} {e : Edge κ} :
      Walk out src j d r → e ∈ out j → Walk out src e.to (d.extend e.source e.stale) (r * e.rate)

/-- a chain given explicitly as its list of steps (first step leaves `src`). -/
def IsChain (out : κ → List (Edge κ)) : κ → List (Edge κ) → κ → Prop
  | a, [], b => a = b
  | a, e :: es, b => e ∈ out a ∧ IsChain out e.to es b

def chainDist : Dist → List (Edge κ) → Dist
  | d, [] => d
  | d, e :: es => chainDist (d.extend e.source e.stale) es

def chainRate : Rat → List (Edge κ) → Rat
  | r, [] => r
  | r, e :: es => chainRate (r * e.rate) es

end Okane.Price
