import Okane.Model.Load
/-!
# C11 — reference semantics of `include`: plain substitution

`expand fs n p` is the entry list of file `p` with every `include g` line replaced, in place, by the
concatenation of the expansions of the files matched by `parent(p)/g`, in sorted path order; every other
entry is tagged with the (canonical) path of the file it stands in.  There is no include stack and no error
reporting here: the expansion is simply undefined (`none`) when a file is missing or unreadable, a pattern
matches nothing, or the nesting is deeper than `n` (in particular for cyclic includes, for every `n`).
-/
namespace Okane.Load

abbrev Tagged := List (Path × Entry)

def expandListWith (rec : Path → Option Tagged) : List Path → Option Tagged
  | [] => some []
  | q :: qs =>
    match rec q, expandListWith rec qs with
    | some a, some b => some (a ++ b)
    | _, _ => none

def expandInclude (fs : FSI) (rec : Path → Option Tagged) (cp : Path) (g : String) : Option Tagged :=
  match parent cp with
  | none => none
  | some dir =>
    match fs.glob (joinStr dir g) with
    | .ok paths => if paths.isEmpty then none else expandListWith rec (sortPaths paths)
    | _ => none

def expandEntriesWith (fs : FSI) (rec : Path → Option Tagged) (cp : Path) : List Entry → Option Tagged
  | [] => some []
  | .include g :: rest =>
    match expandInclude fs rec cp g, expandEntriesWith fs rec cp rest with
    | some a, some b => some (a ++ b)
    | _, _ => none
  | e :: rest => (expandEntriesWith fs rec cp rest).map fun xs => (cp, e) :: xs

def expand (fs : FSI) : Nat → Path → Option Tagged
  | 0, _ => none
  | n + 1, p =>
    match fs.read (fs.canon p) with
    | .ok c => if c.parseErr then none else expandEntriesWith fs (expand fs n) (fs.canon p) c.entries
    | _ => none

def isInclude : Entry → Bool
  | .include _ => true
  | _ => false

/-- the untagged entries -/
def untag (xs : Tagged) : List Entry := xs.map Prod.snd

end Okane.Load
