import Okane.Model.Print
/-!
# Vocabulary of the layout property C19 (what "numeric part", "gap", "line" mean on the printed text)

Nothing here is used by the printer model; these are the notions the C19 theorems are stated with.
-/
namespace Okane.Print
open Okane

/-- a character that takes one byte and one display column -/
def Narrow (w : Char → Nat) (c : Char) : Prop := c.utf8Size = 1 ∧ w c = 1

instance (w : Char → Nat) (c : Char) : Decidable (Narrow w c) := inferInstanceAs (Decidable (_ ∧ _))

/-- a text of one-byte, one-column characters -/
def AsciiW (w : Char → Nat) (s : List Char) : Prop := ∀ c ∈ s, Narrow w c

/-- numbers are printed with one-byte, one-column characters (true of `[0-9,.-]` under unicode-width) -/
def NumOK (cx : Ctx) : Prop := ∀ v c, AsciiW cx.w (cx.num v c)

/-- the punctuation the expression printer emits, and the blank, take one column -/
def SymOK (w : Char → Nat) : Prop := ∀ c ∈ ['(', ')', '-', '+', '*', '/', ' '], w c = 1

/-- the numeric part of a printed value expression: the text up to the end of the first number that bears a commodity
(the whole text when no number does) -/
def numericPart (cx : Ctx) (v : VExpr) : List Char := (fmtVExpr cx v).1.take (fmtVExpr cx v).2.absolute

/-- what follows the numeric part inside the printed value expression (for `12.5 USD`: ` USD`) -/
def afterNumeric (cx : Ctx) (v : VExpr) : List Char := (fmtVExpr cx v).1.drop (fmtVExpr cx v).2.absolute

/-- blanks the printer puts before the amount -/
def amountPad (cx : Ctx) (p : Posting) (a : PostingAmount) : Nat :=
  getColumn Params.amountColumn (accountWidth cx p + (fmtVExpr cx a.amount).2.absolute) Params.amountPadding

/-- the number of blanks between the account and what follows it on the posting line -/
def gapWidth (cx : Ctx) (p : Posting) : Nat :=
  match p.amount, p.balance with
  | some a, _ => amountPad cx p a
  | none, some b => balancePadding cx p b - 1
  | none, none => 0

/-- what follows the gap: the amount (with lot, cost, assertion), or the `=` of a balance-only posting -/
def afterGap (cx : Ctx) (p : Posting) : List Char :=
  match p.amount, p.balance with
  | some a, _ => (fmtVExpr cx a.amount).1 ++ printLot cx a.lot ++ printCost cx a.cost ++ balancePart cx p
  | none, some b => '=' :: ' ' :: printVExpr cx b
  | none, none => []

/-- the posting line up to and including the numeric part of the amount -/
def headUpToNumber (cx : Ctx) (p : Posting) (a : PostingAmount) : List Char :=
  spaces 4 ++ clearMark p.clear ++ p.account.toList ++ spaces (amountPad cx p a) ++ numericPart cx a.amount

/-- the posting line up to (excluding) the `=` of its balance -/
def beforeEq (cx : Ctx) (p : Posting) : List Char :=
  match p.amount with
  | some a =>
    spaces 4 ++ clearMark p.clear ++ p.account.toList ++ spaces (amountPad cx p a) ++
      (fmtVExpr cx a.amount).1 ++ printLot cx a.lot ++ printCost cx a.cost ++ [' ']
  | none => spaces 4 ++ clearMark p.clear ++ p.account.toList ++ spaces (gapWidth cx p)

/-- worker of `linesOf`; `cur` is the current line, reversed -/
def linesAux : List Char → List Char → List (List Char)
  | [], [] => []
  | [], c :: cur => [(c :: cur).reverse]
  | c :: cs, cur => if c = '\n' then cur.reverse :: linesAux cs [] else linesAux cs (c :: cur)

/-- the lines of a text: pieces ended by a line feed (and a last piece without one, if any) -/
def linesOf (s : List Char) : List (List Char) := linesAux s []

/-- the account is not empty and does not start with a blank (true of every account the parser returns) -/
def AccountOK (p : Posting) : Prop := ∃ c cs, p.account.toList = c :: cs ∧ c ≠ ' '

/-! ## "no field holds a line feed" (true of every tree the parser returns: all these fields are cut out of one line) -/

/-- the text holds no line feed -/
def NoLF (s : String) : Prop := '\n' ∉ s.toList

mutual
def exprNoLF : Expr → Prop
  | .neg e => exprNoLF e
  | .bin _ l r => exprNoLF l ∧ exprNoLF r
  | .val v => vexprNoLF v
def vexprNoLF : VExpr → Prop
  | .paren e => exprNoLF e
  | .amt _ c => NoLF c
end

def exchangeNoLF : Exchange → Prop
  | .total e => vexprNoLF e
  | .rate e => vexprNoLF e

def optNoLF {α} (f : α → Prop) : Option α → Prop
  | none => True
  | some x => f x

def lotNoLF (l : Lot) : Prop := optNoLF exchangeNoLF l.price ∧ optNoLF NoLF l.note

def metaValueNoLF : MetaValue → Prop
  | .text s => NoLF s
  | .expr s => NoLF s

def metadataNoLF : Metadata → Prop
  | .comment s => NoLF s
  | .wordTags ts => ∀ t ∈ ts, NoLF t
  | .keyValue k v => NoLF k ∧ metaValueNoLF v

def postingAmountNoLF (a : PostingAmount) : Prop :=
  vexprNoLF a.amount ∧ optNoLF exchangeNoLF a.cost ∧ lotNoLF a.lot

def postingNoLF (p : Posting) : Prop :=
  NoLF p.account ∧ optNoLF postingAmountNoLF p.amount ∧ optNoLF vexprNoLF p.balance ∧ ∀ m ∈ p.metadata, metadataNoLF m

def txnNoLF (t : Transaction) : Prop :=
  NoLF t.payee ∧ optNoLF NoLF t.code ∧ (∀ m ∈ t.metadata, metadataNoLF m) ∧ ∀ p ∈ t.posts, postingNoLF p

/-- no single-line field of the entry holds a line feed (comment and note texts may: they are printed line by line) -/
def entryNoLF : Entry → Prop
  | .txn t => txnNoLF t
  | .comment _ => True
  | .applyTag k v => NoLF k ∧ optNoLF metaValueNoLF v
  | .endApplyTag => True
  | .include p => NoLF p
  | .account n ds => NoLF n ∧ ∀ d ∈ ds, (match d with | .alias s => NoLF s | _ => True)
  | .commodity n ds => NoLF n ∧ ∀ d ∈ ds, (match d with | .alias s => NoLF s | .format _ c => NoLF c | _ => True)

/-- the number printer emits no line feed -/
def NumNoLF (cx : Ctx) : Prop := ∀ v c, '\n' ∉ cx.num v c

end Okane.Print
