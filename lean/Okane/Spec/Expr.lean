import Okane.Base.Outcome
import Okane.Model.Syntax
import Okane.Model.Amount
/-!
# C08 — the statement: value expressions as ordinary arithmetic with commodity typing

* The *grammar-stratified* trees (`AddE` over `MulE` over `UnaryE` over `ValueE`): precedence and left
  associativity are in the *types* (`AddE ::= AddE (+|−) MulE | MulE`, `MulE ::= MulE (*|/) UnaryE | UnaryE`,
  `UnaryE ::= −? ValueE`, `ValueE ::= amount | ( AddE )`).
* The reference denotation `den`: a value is a bare number or a commodity-indexed family of numbers
  (`com ks f`: the commodities mentioned and the quantity of each — pointwise arithmetic, commodities kept apart).
  Typing table: number ± number, amount ± amount, amount × number, number × amount, number × number,
  amount / number, number / number, number / single-commodity amount; every other combination is an error,
  and so is division by a zero value.
The model's association-list implementation (`Okane.Evaluated`, `Okane.Amount`) is proved to compute this
denotation in `Props/C08.lean`.
-/
namespace Okane.Spec
open Okane

mutual
inductive AddE where
  | one (m : MulE)
  | add (l : AddE) (r : MulE)
  | sub (l : AddE) (r : MulE)
inductive MulE where
  | one (u : UnaryE)
  | mul (l : MulE) (r : UnaryE)
  | div (l : MulE) (r : UnaryE)
inductive UnaryE where
  | pos (v : ValueE)
  | neg (v : ValueE)
inductive ValueE where
  | amt (value : PDec) (commodity : String)
  | paren (a : AddE)
end

mutual
/-- the syntax tree the parser builds for a stratified tree (`infixl` = left fold) -/
def AddE.toExpr : AddE → Expr
  | .one m => m.toExpr
  | .add l r => .bin .add l.toExpr r.toExpr
  | .sub l r => .bin .sub l.toExpr r.toExpr
def MulE.toExpr : MulE → Expr
  | .one u => u.toExpr
  | .mul l r => .bin .mul l.toExpr r.toExpr
  | .div l r => .bin .div l.toExpr r.toExpr
def UnaryE.toExpr : UnaryE → Expr
  | .pos v => .val v.toVExpr
  | .neg v => .neg (.val v.toVExpr)
def ValueE.toVExpr : ValueE → VExpr
  | .amt value commodity => .amt value commodity
  | .paren a => .paren a.toExpr
end

/-- values of the reference semantics -/
inductive RVal where
  | num (r : Rat)
  | com (ks : List String) (f : String → Rat)

namespace RVal

def isZero : RVal → Bool
  | num r => r == 0
  | com ks f => ks.all fun k => f k == 0

def neg : RVal → RVal
  | num r => num (-r)
  | com ks f => com ks fun c => -f c

/-- exactly one commodity is mentioned -/
def single? : List String → Option String
  | [] => none
  | k :: t => if t.all (· == k) then some k else none

def add : RVal → RVal → Outcome EvalErr RVal
  | num x, num y => .ok (num (x + y))
  | com k1 f1, com k2 f2 => .ok (com (k1 ++ k2) fun c => f1 c + f2 c)
  | _, _ => .err .unmatchingOperation

def sub : RVal → RVal → Outcome EvalErr RVal
  | num x, num y => .ok (num (x - y))
  | com k1 f1, com k2 f2 => .ok (com (k1 ++ k2) fun c => f1 c - f2 c)
  | _, _ => .err .unmatchingOperation

def mul : RVal → RVal → Outcome EvalErr RVal
  | num x, num y => .ok (num (x * y))
  | com ks f, num y => .ok (com ks fun c => f c * y)
  | num x, com ks f => .ok (com ks fun c => f c * x)
  | _, _ => .err .unmatchingOperation

def div (l r : RVal) : Outcome EvalErr RVal :=
  if r.isZero then .err .divideByZero else
  match l, r with
  | num x, num y => .ok (num (x / y))
  | com ks f, num y => .ok (com ks fun c => f c / y)
  | num x, com ks f =>
    match single? ks with
    | some k => .ok (com [k] fun c => if c = k then x / f k else 0)
    | none => .err .singleAmountRequired
  | _, _ => .err .unmatchingOperation

end RVal

/-- a literal: a bare number, or a quantity of one (resolved) commodity -/
def denLeaf (ρ : String → Option String) (value : PDec) (commodity : String) : Outcome EvalErr RVal :=
  if commodity.isEmpty then .ok (.num value.toRat)
  else match ρ commodity with
    | some k => .ok (.com [k] fun c => if c = k then value.toRat else 0)
    | none => .err .unknownCommodity

def bind2 (x y : Outcome EvalErr RVal) (f : RVal → RVal → Outcome EvalErr RVal) : Outcome EvalErr RVal :=
  match x with
  | .ok a => match y with
    | .ok b => f a b
    | .err e => .err e
    | .panic p => .panic p
    | .fuelOut => .fuelOut
  | .err e => .err e
  | .panic p => .panic p
  | .fuelOut => .fuelOut

mutual
/-- the denotation: the obvious fold (operands left to right, first error wins) -/
def AddE.den (ρ : String → Option String) : AddE → Outcome EvalErr RVal
  | .one m => m.den ρ
  | .add l r => bind2 (l.den ρ) (r.den ρ) RVal.add
  | .sub l r => bind2 (l.den ρ) (r.den ρ) RVal.sub
def MulE.den (ρ : String → Option String) : MulE → Outcome EvalErr RVal
  | .one u => u.den ρ
  | .mul l r => bind2 (l.den ρ) (r.den ρ) RVal.mul
  | .div l r => bind2 (l.den ρ) (r.den ρ) RVal.div
def UnaryE.den (ρ : String → Option String) : UnaryE → Outcome EvalErr RVal
  | .pos v => v.den ρ
  | .neg v => (v.den ρ).map' RVal.neg
def ValueE.den (ρ : String → Option String) : ValueE → Outcome EvalErr RVal
  | .amt value commodity => denLeaf ρ value commodity
  | .paren a => a.den ρ
end

/-! ### Stratification of the parser's tree type (used to run the reference on what the implementation parsed) -/

mutual
/-- read an `Expr` back as an `AddE` if it is stratified (operands of `*`/`/` are not bare sums, the right
operand of any operator is one level down, negation applies to a value) -/
def ofExprAdd : Expr → Option AddE
  | .bin .add l r => do let a ← ofExprAdd l; let m ← ofExprMul r; pure (.add a m)
  | .bin .sub l r => do let a ← ofExprAdd l; let m ← ofExprMul r; pure (.sub a m)
  | e => (ofExprMul e).map .one
def ofExprMul : Expr → Option MulE
  | .bin .mul l r => do let a ← ofExprMul l; let u ← ofExprUnary r; pure (.mul a u)
  | .bin .div l r => do let a ← ofExprMul l; let u ← ofExprUnary r; pure (.div a u)
  | e => (ofExprUnary e).map .one
def ofExprUnary : Expr → Option UnaryE
  | .neg (.val v) => (ofVExpr v).map .neg
  | .val v => (ofVExpr v).map .pos
  | _ => none
def ofVExpr : VExpr → Option ValueE
  | .amt value commodity => some (.amt value commodity)
  | .paren e => (ofExprAdd e).map .paren
end

end Okane.Spec
