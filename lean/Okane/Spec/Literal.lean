import Okane.Model.Syntax
/-!
# C07 — the statement: what a well-formed numeric literal is, and what it means

Transcribed from the property text, independent of the scanner:

> optional minus, at least one digit, digits either ungrouped or grouped by commas into complete groups of
> three after a leading group of one to three, at most one decimal point

Recogniser: strip one leading `-`; the integer part is everything before the first `.`, the fraction everything
after it; the fraction is all digits (so a second `.`, or a comma after the point, is malformed); the integer
part is all digits, or 1–3 digits followed by one or more groups `,ddd`; at least one digit overall
(`.5` and `5.` are well formed).  The value is the digit string read as a number, scaled by the number of
fraction digits, with the sign.
-/
namespace Okane.Spec
open Okane

def stripMinus : List Char → List Char
  | '-' :: r => r
  | s => s

def isNegative : List Char → Bool
  | '-' :: _ => true
  | _ => false

/-- everything before the first `.` (after the optional minus) -/
def intPart (s : List Char) : List Char := (stripMinus s).takeWhile (· != '.')
/-- everything after the first `.` -/
def fracPart (s : List Char) : List Char := ((stripMinus s).dropWhile (· != '.')).drop 1

/-- zero or more complete groups `,ddd` and nothing else -/
def groupsOk : List Char → Bool
  | [] => true
  | ',' :: a :: b :: c :: tl => a.isDigit && b.isDigit && c.isDigit && groupsOk tl
  | _ => false

/-- all digits, or a leading group of one to three digits followed by complete comma groups -/
def intOk (ip : List Char) : Bool :=
  let lead := ip.takeWhile Char.isDigit
  let rest := ip.dropWhile Char.isDigit
  rest.isEmpty || (decide (1 ≤ lead.length) && decide (lead.length ≤ 3) && groupsOk rest)

def WellFormedLiteral (s : List Char) : Bool :=
  intOk (intPart s) && (fracPart s).all Char.isDigit && (stripMinus s).any Char.isDigit

/-- the digits of the literal read as one natural number (punctuation ignored) -/
def digitsValue (ds : List Char) : Nat := ds.foldl (fun m c => m * 10 + (c.toNat - 48)) 0
def litMant (s : List Char) : Nat := digitsValue (s.filter Char.isDigit)
/-- number of decimal places written -/
def litScale (s : List Char) : Nat := (fracPart s).length
/-- the number written -/
def litValue (s : List Char) : Rat :=
  let v : Rat := (litMant s : Rat) / (10 : Rat) ^ litScale s
  if isNegative s then -v else v

/-- within rust_decimal's range: at most 28 decimal places, mantissa below 2^96 -/
def Representable (s : List Char) : Bool := decide (litScale s ≤ 28) && decide (litMant s < 2 ^ 96)

/-- thousands separators are written -/
def hasThousands (s : List Char) : Bool := s.contains ','
/-- the grouping style that is written: commas; no commas although there are four or more integer digits
(so commas could have been used); or nothing to tell -/
def grouping (s : List Char) : Option Fmt :=
  if hasThousands s then some .comma3dot
  else if (intPart s).length ≥ 4 then some .plain
  else none

end Okane.Spec
