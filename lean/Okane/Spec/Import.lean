import Okane.Model.Import
/-!
# Executable statements for C15 / C17

* `CleanText` — the decidable class of statement texts for which C15's read-back is claimed
  (payee / code / comments / accounts / commodities / charge payees / dates), and `ReadableTree`, the same
  conditions on the syntax tree `toDoubleEntry` produces (the hypothesis under which the printer's text is
  re-read as the same tree: each clause names the parser rule that would otherwise read something else).
* `matchingFrom` — the rules that match a record, each looking at the fragment left by the rules before it
  (reference semantics of C17's "rules apply in list order").
* `Txn.withFragment` — the glue all three importers share between a `Fragment` and a `Txn`.
-/
namespace Okane.Import
open Okane

/-! ## character classes -/

/-- `char::is_whitespace` (Unicode `White_Space`). -/
def isRustWs (c : Char) : Bool :=
  let n := c.toNat
  (9 ≤ n && n ≤ 13) || n == 32 || n == 0x85 || n == 0xA0 || n == 0x1680 || (0x2000 ≤ n && n ≤ 0x200A) ||
  n == 0x2028 || n == 0x2029 || n == 0x202F || n == 0x205F || n == 0x3000

/-- `char::is_ascii_whitespace`: space, tab, LF, FF, CR. -/
def isAsciiWs (c : Char) : Bool := c == ' ' || c == '\t' || c == '\n' || c == '\x0c' || c == '\r'

def isLineBreak (c : Char) : Bool := c == '\n' || c == '\r'

/-- no leading and no trailing Unicode whitespace (`s == s.trim()`) -/
def isTrimmed (s : List Char) : Bool :=
  (match s.head? with | some c => !isRustWs c | none => true) &&
  (match s.getLast? with | some c => !isRustWs c | none => true)

/-- `primitive::NON_COMMODITY_CHARS` -/
def nonCommodityChars : List Char := " \t\r\n0123456789.,;:?!-+*/^&|=<>[](){}@".toList

/-! ## the clean class, field by field -/

/-- A payee that the header parser reads back unchanged: no `;` (would start a comment), no line break,
no blank at either end (`space0` before, `trim_end` after), and — when the header carries no `(code)` —
not a leading `(` that is closed by a `)` further on (would be read as a code; `paren_str` must close on the
same line, so a payee such as `(abc` is read back as the payee). -/
def cleanPayee (hasCode : Bool) (s : String) : Bool :=
  let cs := s.toList
  cs.all (fun c => !(c == ';' || isLineBreak c)) && isTrimmed cs &&
  (hasCode || cs.head? != some '(' || !cs.contains ')')

/-- A code survives `paren_str` (`take_till(0.., [')', '\r', '\n'])`, then `)`) iff it holds no `)` and no line
break. -/
def cleanCode (s : String) : Bool := s.toList.all (fun c => !(c == ')' || isLineBreak c))

/-- the `key … :` shape that `metadata_kv` takes: a run of non-blank non-colon characters, blanks, a colon -/
def looksLikeKeyValue (cs : List Char) : Bool :=
  let key := cs.takeWhile (fun c => !(isAsciiWs c || c == ':'))
  let rest := (cs.drop key.length).dropWhile (fun c => c == ' ' || c == '\t')
  !key.isEmpty && rest.head? == some ':'

/-- A comment line that is read back as the same `Metadata::Comment`: one line, nothing for `space0` /
`trim_end` to remove, not of the tag (`:a:b:`) or `key: value` shapes. -/
def cleanComment (s : String) : Bool :=
  let cs := s.toList
  cs.all (fun c => !isLineBreak c) &&
  (match cs.head? with | some c => !(c == ' ' || c == '\t' || c == ':') | none => true) &&
  (match cs.getLast? with | some c => !isRustWs c | none => true) &&
  !looksLikeKeyValue cs

/-- no two consecutive blanks -/
def noDoubleSpace : List Char → Bool
  | ' ' :: ' ' :: _ => false
  | _ :: rest => noDoubleSpace rest
  | [] => true

/-- An account name that `posting_account` reads back: non-empty, none of its stop characters, no double
blank, no blank at either end, not starting with a clear mark. -/
def cleanAccount (s : String) : Bool :=
  let cs := s.toList
  !cs.isEmpty && cs.all (fun c => !(isLineBreak c || c == ';' || c == '\t')) && noDoubleSpace cs &&
  (match cs.head? with | some c => !(isRustWs c || c == '*' || c == '!') | none => false) &&
  cs.getLast? != some ' '

/-- A commodity that `primitive::commodity` reads back whole. -/
def cleanCommodity (s : String) : Bool := s.toList.all (fun c => !nonCommodityChars.contains c)

/-- The value of the `Payee:` tag on a charge posting: one line, `s == s.trim()`. -/
def cleanTagValue (s : String) : Bool :=
  let cs := s.toList
  cs.all (fun c => !isLineBreak c) && isTrimmed cs

/-- dates the printer writes with a four-digit year and chrono reads back -/
def cleanDate (d : Date) : Bool := decide (0 ≤ d.y) && decide (d.y ≤ 9999) && d.valid

/-- numbers inside `rust_decimal`'s range -/
def cleanDec (d : Dec) : Bool := decide (d.mant < 2 ^ 96) && decide (d.scale ≤ 28)

def cleanAmount (a : OwnedAmount) : Bool := cleanDec a.value && cleanCommodity a.commodity

/-- **CleanText**: the statement record (as a `Txn`) and the imported account hold only text that the
ledger syntax can carry in the place the importer puts it. -/
def CleanText (t : Txn) (srcAccount : String) : Bool :=
  cleanDate t.date && (match t.effectiveDate with | some d => cleanDate d | none => true) &&
  cleanPayee t.code.isSome t.payee &&
  (match t.code with | some c => cleanCode c | none => true) &&
  t.comments.all cleanComment &&
  cleanAccount srcAccount &&
  (match t.destAccount with | some a => cleanAccount a | none => true) &&
  cleanAmount t.amount &&
  (match t.transferredAmount with | some a => cleanAmount a | none => true) &&
  (match t.balance with | some a => cleanAmount a | none => true) &&
  t.rates.all (fun kv => cleanAmount kv.2) &&
  t.charges.all (fun c => cleanTagValue c.payee && cleanAmount c.amount)

/-! ## the same conditions on a syntax tree -/

def readablePDec (d : PDec) : Bool := decide (d.mant < 2 ^ 96) && decide (d.scale ≤ 28)

/-- a plain amount (no parenthesised expression) with a readable commodity -/
def readableVExpr : VExpr → Bool
  | .amt v c => readablePDec v && cleanCommodity c
  | .paren _ => false

def readableExchange : Exchange → Bool
  | .rate v => readableVExpr v
  | .total v => readableVExpr v

def readableMetadata : Metadata → Bool
  | .comment s => cleanComment s
  | .keyValue k (.text v) => k == "Payee" && cleanTagValue v
  | _ => false

def readableCost : Option Exchange → Bool
  | some x => readableExchange x
  | none => true

/-- the amount part of a posting as the importer writes it: plain amount, optional `@ rate`, no lot -/
def readablePostingAmount (a : PostingAmount) : Bool :=
  readableVExpr a.amount && readableCost a.cost && a.lot.price.isNone && a.lot.date.isNone && a.lot.note.isNone

def readableBalance : Option VExpr → Bool
  | some b => readableVExpr b
  | none => true

def readablePosting (p : Posting) : Bool :=
  cleanAccount p.account &&
  (match p.amount with
    | some a => readablePostingAmount a
    | none => false) &&
  readableBalance p.balance &&
  p.metadata.all readableMetadata

/-- **ReadableTree**: every text field of the transaction is in the class its place in the syntax can carry. -/
def ReadableTree (t : Transaction) : Bool :=
  cleanDate t.date && (match t.effectiveDate with | some d => cleanDate d | none => true) &&
  cleanPayee t.code.isSome t.payee &&
  (match t.code with | some c => cleanCode c | none => true) &&
  t.metadata.all readableMetadata &&
  t.posts.all readablePosting

/-! ## C17 reference semantics -/

/-- The rules that match, in list order, each evaluated on the fragment left by the rules before it. -/
def matchingFrom (cap : Captures) (r : Record) : Fragment → List Rule → List Rule
  | _, [] => []
  | f, x :: xs =>
    match ruleExtract cap r x f with
    | some _ => x :: matchingFrom cap r (applyRule cap r f x) xs
    | none => matchingFrom cap r f xs

/-- the rules of `rules` that match the record `r` -/
def matching (cap : Captures) (rules : List Rule) (r : Record) : List Rule := matchingFrom cap r {} rules

/-- What every importer does with the fragment: `dest_account_option(fragment.account)` and
`if !fragment.cleared { clear_state(Pending) }`. -/
def Txn.withFragment (t : Txn) (frag : Fragment) : Txn :=
  let t := t.destAccountOption frag.account
  if !frag.cleared then t.setClearState .pending else t

/-- the loop of `ImportCmd::run`: `for xact in xacts { xact.to_double_entry(&account)?; … }` -/
def toDoubleEntries (src : String) : List Txn → Outcome ImportErr (List Transaction)
  | [] => .ok []
  | t :: rest =>
    match t.toDoubleEntry src with
    | .ok tr =>
      (match toDoubleEntries src rest with
       | .ok trs => .ok (tr :: trs)
       | e => e)
    | .err e => .err e
    | .panic s => .panic s
    | .fuelOut => .fuelOut

end Okane.Import
