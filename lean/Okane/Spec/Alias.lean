import Okane.Model.Process
/-!
# C12 — what "writing an alias instead of the canonical name" means

`SameAccount s x y` / `SameCommodity s x y`: the two spellings are the same, or both are registered in the store and
resolve to the same canonical name (one may be canonical, the other an alias; or two aliases).
The relations on syntax (`Expr.Rel`, …, `Transaction.Rel`, `EntriesRel`) say: same tree, except that at ANY subset of the
account / commodity occurrences the spelling was replaced by an equivalent one.
-/
namespace Okane

/-- the store only grows: every record of `s` is a record of `s'` (records are never changed or removed). -/
def Store.le (s s' : Store) : Prop := ∀ k v, AMap.get? s.recs k = some v → AMap.get? s'.recs k = some v

def Store.SameAccount (s : Store) (x y : String) : Prop :=
  x = y ∨ ∃ c, s.resolve x = some c ∧ s.resolve y = some c

/-- commodities: an amount without commodity (`""`) is a plain number and is never an alias of anything. -/
def Store.SameCommodity (s : Store) (x y : String) : Prop :=
  x = y ∨ (x.isEmpty = false ∧ y.isEmpty = false ∧ ∃ c, s.resolve x = some c ∧ s.resolve y = some c)

def Ctx.le (c c' : Ctx) : Prop := c.accounts.le c'.accounts ∧ c.commodities.le c'.commodities

mutual
def Expr.Rel (R : String → String → Prop) : Expr → Expr → Prop
  | .neg a, .neg b => Expr.Rel R a b
  | .bin o l r, .bin o' l' r' => o = o' ∧ Expr.Rel R l l' ∧ Expr.Rel R r r'
  | .val v, .val v' => VExpr.Rel R v v'
  | _, _ => False
def VExpr.Rel (R : String → String → Prop) : VExpr → VExpr → Prop
  | .paren a, .paren b => Expr.Rel R a b
  | .amt v c, .amt v' c' => v = v' ∧ R c c'
  | _, _ => False
end

def Exchange.Rel (R : String → String → Prop) : Exchange → Exchange → Prop
  | .total a, .total b => VExpr.Rel R a b
  | .rate a, .rate b => VExpr.Rel R a b
  | _, _ => False

def optRel {α : Type} (r : α → α → Prop) : Option α → Option α → Prop
  | none, none => True
  | some a, some b => r a b
  | _, _ => False

def listRel {α : Type} (r : α → α → Prop) : List α → List α → Prop
  | [], [] => True
  | a :: as, b :: bs => r a b ∧ listRel r as bs
  | _, _ => False

def PostingAmount.Rel (R : String → String → Prop) (a b : PostingAmount) : Prop :=
  VExpr.Rel R a.amount b.amount ∧ optRel (Exchange.Rel R) a.cost b.cost ∧
  optRel (Exchange.Rel R) a.lot.price b.lot.price ∧ a.lot.date = b.lot.date ∧ a.lot.note = b.lot.note

/-- postings that differ only in the spelling of the account (`Ra`) and of commodities (`Rc`: amount, cost, lot price,
balance assertion). -/
def Posting.Rel (Ra Rc : String → String → Prop) (p q : Posting) : Prop :=
  Ra p.account q.account ∧ p.clear = q.clear ∧ optRel (PostingAmount.Rel Rc) p.amount q.amount ∧
  optRel (VExpr.Rel Rc) p.balance q.balance ∧ p.metadata = q.metadata

def Transaction.Rel (Ra Rc : String → String → Prop) (t u : Transaction) : Prop :=
  t.date = u.date ∧ t.effectiveDate = u.effectiveDate ∧ t.clear = u.clear ∧ t.code = u.code ∧ t.payee = u.payee ∧
  listRel (Posting.Rel Ra Rc) t.posts u.posts ∧ t.metadata = u.metadata

/-- entries: transactions up to name spelling, everything else (declarations included) literally the same. -/
def Entry.Rel (Ra Rc : String → String → Prop) : Entry → Entry → Prop
  | .txn t, .txn u => Transaction.Rel Ra Rc t u
  | e, e' => e = e'

/-- spelling changes allowed by the context at hand -/
def Entry.RelCtx (c : Ctx) : Entry → Entry → Prop :=
  Entry.Rel c.accounts.SameAccount c.commodities.SameCommodity

/-- two ledgers, entry by entry: each transaction of the second is the corresponding transaction of the first with names
respelt through what the store knows *at that point of the run* (i.e. after the declarations processed so far). -/
def EntriesRel : ProcState → List Entry → List Entry → Prop
  | _, [], [] => True
  | st, e :: es, e' :: es' => Entry.RelCtx st.ctx e e' ∧ ∀ st', stepEntry st e = .ok st' → EntriesRel st' es es'
  | _, _, _ => False

/-! ## the syntactic version: an explicit alias table -/

/-- alias tables: `(alias, canonical)` pairs for accounts and for commodities. -/
structure AliasTable where
  accounts : List (String × String) := []
  commodities : List (String × String) := []

/-- `y` is `x`, or `x` is a canonical name and `y` one of its aliases in the table. -/
def AliasTable.subst (tbl : List (String × String)) (x y : String) : Prop := x = y ∨ (y, x) ∈ tbl

/-- every pair of the table is registered in the context: the alias is an alias record of the canonical, the canonical is
a canonical record; commodity names are not empty. -/
def Declared (c : Ctx) (σ : AliasTable) : Prop :=
  (∀ a k, (a, k) ∈ σ.accounts → AMap.get? c.accounts.recs a = some (some k) ∧ AMap.get? c.accounts.recs k = some none) ∧
  (∀ a k, (a, k) ∈ σ.commodities → AMap.get? c.commodities.recs a = some (some k) ∧
    AMap.get? c.commodities.recs k = some none ∧ a.isEmpty = false ∧ k.isEmpty = false)

/-- `es'` is `es` with canonical names replaced by aliases of the table at any subset of the occurrences in transactions. -/
def SubstEntries (σ : AliasTable) : List Entry → List Entry → Prop :=
  listRel (Entry.Rel (AliasTable.subst σ.accounts) (AliasTable.subst σ.commodities))

def accountAliases (details : List AccountDetail) : List String :=
  details.filterMap fun | .alias a => some a | _ => none

def commodityAliases (details : List CommodityDetail) : List String :=
  details.filterMap fun | .alias a => some a | _ => none

/-- the pair `(a, k)` is declared by an entry of `es`: `account k` / `commodity k` with a sub-directive `alias a`. -/
def DeclaresAccount (es : List Entry) (a k : String) : Prop :=
  ∃ ds, Entry.account k ds ∈ es ∧ a ∈ accountAliases ds

def DeclaresCommodity (es : List Entry) (a k : String) : Prop :=
  ∃ ds, Entry.commodity k ds ∈ es ∧ a ∈ commodityAliases ds

/-- all account and commodity names that occur in the resulting ledger -/
def ledgerAccounts (st : ProcState) : List String :=
  st.bal.map (·.1) ++ st.txns.flatMap fun t => t.postings.map (·.account)

end Okane
