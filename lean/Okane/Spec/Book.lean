import Okane.Model.Book
/-!
# The statements of C01–C03 as predicates over resolved transactions (restated from the property text,
not from the code)
-/
namespace Okane.Spec
open Okane
variable {α κ : Type} [DecidableEq α] [DecidableEq κ]

/-- value of quantity `a` under an exchange: `@ r` / `{r}` is rate × quantity; `@@ t` / `{{t}}` is the total
with the sign of the quantity. -/
def exchangeValue : RExchange κ → SingleAmount κ → SingleAmount κ
  | .rate r, a => ⟨r.value * a.value, r.commodity⟩
  | .total t, a => ⟨if a.value < 0 then -(ratAbs t.value) else ratAbs t.value, t.commodity⟩

/-- "valuing each posting at its lot price, else its cost, else its own amount". -/
def balancingValue : RAmount κ → PostingAmt κ
  | .plain a => a
  | .priced s cost lot =>
    match lot, cost with
    | some l, _ => .single (exchangeValue l s)
    | none, some c => .single (exchangeValue c s)
    | none, none => .single s

/-- what posting `p` contributes to the transaction's per-commodity totals; `out` is the amount the
posting has in the accepted transaction (only consulted for assignment postings `acct = X`, whose
amount C03 pins down). -/
def contribution (p : RPosting α κ) (out : Amount κ) : Amount κ :=
  match p.amount, p.balance with
  | some ra, _ => (balancingValue ra).toAmount
  | none, some _ => out
  | none, none => []

/-- per-commodity total of a posting list -/
def total : List (RPosting α κ) → List (Amount κ) → κ → Rat
  | p :: ps, o :: os, c => Amount.getPart (contribution p o) c + total ps os c
  | _, _, _ => 0

/-- rounding to a commodity's declared precision -/
def rounded (prec : κ → Option Nat) (f : κ → Rat) (c : κ) : Rat :=
  match prec c with
  | none => f c
  | some dp => roundHalfEven (f c) dp

def AllZero (prec : κ → Option Nat) (f : κ → Rat) : Prop := ∀ c, rounded prec f c = 0

def isOmitted (p : RPosting α κ) : Bool := p.amount.isNone && p.balance.isNone

def omittedCount (ps : List (RPosting α κ)) : Nat := (ps.filter isOmitted).length

/-- exactly two commodities remain with non-zero totals, of opposite sign -/
def TwoOpposite (prec : κ → Option Nat) (f : κ → Rat) : Prop :=
  ∃ c1 c2, c1 ≠ c2 ∧ rounded prec f c1 ≠ 0 ∧ rounded prec f c2 ≠ 0 ∧
    ((0 < rounded prec f c1) ↔ (rounded prec f c2 < 0)) ∧
    ∀ c, c ≠ c1 → c ≠ c2 → rounded prec f c = 0

/-- C01's notion of a balanced transaction. -/
def Balanced (prec : κ → Option Nat) (t : RTxn α κ) (outs : List (Amount κ)) : Prop :=
  AllZero prec (total t.posts outs) ∨ omittedCount t.posts = 1 ∨ TwoOpposite prec (total t.posts outs)

end Okane.Spec
