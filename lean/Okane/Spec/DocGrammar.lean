import Okane.Base.Date
import Okane.Spec.Literal
/-!
# The documented ledger syntax (`/repo/doc/syntax.md`), production by production

Property C05 begins: *"Every text that follows the documented ledger syntax — including one whose last line ends at
end of file rather than with a newline — is accepted by the parser."*  This file is the first half of that sentence:
the EBNF of `doc/syntax.md` transcribed as relations over `List Char`.  The second half (the parser model accepts
every derivable text) is `Okane.Lemmas.DocAccept*`.

## How a production is represented

A production is a relation `X : G = List Char → List Char → Prop` between two *positions* of the text (a position
is the remaining input): `X i r` means "`i = s ++ r` for a text `s` that `X` derives".  This is the usual
definite-clause reading of a grammar; it is used because the documented `new-line ::= "\r"? "\n" | <EOF>` mentions
the end of the file, which is a property of the position and not of the text derived (`eof i r := i = [] ∧ r = []`).
`ledgerFile D t []` says that the whole text `t` is a `ledger-file`.

The EBNF operators are the combinators `⬝` (sequence), `∥` (alternative), `opt` (`?`), `star` (`*`), `plus` (`+`),
`chr` (a character class), `lit` (a quoted literal); the five mutually recursive expression productions are an
explicit mutual inductive definition with one constructor per alternative.

## Charitable readings (R…) — where the document is evidently informal or incomplete

Each is marked `R<n>` at the production concerned.
* **R1** `date ::= <yyyy/mm/dd> | <yyyy-mm-dd>` is not EBNF: read as four, two and two ASCII digits around the
  separator, naming a date of the (proleptic Gregorian) calendar.
* **R2** `commodity ::= [...]` is a single character class: read as one or more such characters.
* **R3** `decimal-number` (in `comma-decimal`) is not defined: read as `number`.
* **R4** `expr` (in `metadata-key-value`, marked `TODO(#78)`) is not defined: read as `no-new-line*` (whatever it is
  meant to be, it is a text on one line).
* **R5** `metadata-comment ::= ";" no-new-line*` under `metadata ::= ";" (… | metadata-comment)` would require two
  semicolons: read as `metadata-comment ::= no-new-line*` (so `;;x` is still a comment, and so is `; x`).
* **R6** `transaction-header ::= … (new-line | metadata)`: the alternative `metadata` lacks its `new-line` (compare
  `posting ::= posting-line metadata? new-line …`); read as `(new-line | metadata new-line)`.
* **R7** `transaction ::= transaction-header metadata* posting*` and `posting ::= … new-line (metadata new-line)*`:
  the further metadata are lines of their own, and such a line is indented like a posting (an unindented `;` line
  is a `top-comment` that ends the transaction): read as `(sp+ metadata new-line)*` in both places.
  The literal reading derives texts the parser (rightly) rejects, e.g. `2024/01/01 x⏎  A  1⏎;c⏎  B  1⏎`
  (`DocAcceptFindings.literal_R7_rejected`).
* **R8** `directive ::= … | top-comment` names a production defined as `top-level-comment`: same production.
* **R9** `commodity-detail ::= … | commodity-format`: `commodity-format` is not defined; read, by analogy with its
  siblings, as `sp+ "format" sp+ amount-expr new-line`.
* **R10** `posting-lot ::= … | ... ; permutations`: the six orders of the three optional items.
* **R11** `tag ::= <no-sp except ":">+`: a `no-sp` character other than `:`.

## One extension (E1) — a superset of the document

* **E1** `comma-decimal` may begin with `-`.  The documented grammar has no negative literal (`-` is only the
  unary operator *inside* parentheses), so that `Assets:Cash  -10 USD` would not be derivable at all; the extension
  makes the acceptance theorem cover it.  Everything derivable without E1 is derivable with it.

## Where the parser rejects documented texts: the `Dialect` parameter

The acceptance theorem is false of the grammar as documented: there are derivable texts the parser rejects (each
confirmed on the real binary, see `Lemmas/DocAcceptFindings.lean`).  Every such disagreement is a decidable
condition on ONE lexeme, and the grammar takes these conditions as a parameter `D : Dialect`:
`Dialect.documented` imposes none (the grammar as documented), `Dialect.accepted` imposes exactly those needed.
* `numOk`  — a number is within `rust_decimal`'s range (at most 28 decimal places, mantissa below 2^96);
* `postingAccountOk` — the account of a posting contains no `;` and is not just `*` or `!`
  (`  A;c  1 USD (a⏎b)⏎`: the parser ends the account at `;`; `  *⏎`: the parser reads a clear mark and then finds no
  account; an account such as `*A` is accepted — as the clear mark `*` and the account `A`);
* `applyTagOk` — the tag of `apply tag` contains no form feed (the parser's tag stops at ASCII white space, which
  includes U+000C; `no-sp` does not exclude it).

A fourth condition existed until the defect it described was repaired in the code: `noteOk` — the text after the date of a
transaction does not begin (after blanks and at most one clear mark) with a `(` that has no `)` on the same line — was needed
while the parser's transaction code ran across line ends to the next `)` of the file (`2024/01/01 (⏎account X)⏎ note c  d⏎`
was rejected).  `paren_str` now has to close on its line, the text after such a `(` is the payee as documented, and the
condition is gone (`DocAcceptFindings.noteOk_not_needed`).
-/
namespace Okane.Spec.Doc

/-- a production: `X i r` iff `i = s ++ r` for some text `s` derived by `X` (positions are remaining inputs) -/
abbrev G := List Char → List Char → Prop

namespace G
/-- the empty text -/
def eps : G := fun i r => i = r
/-- one character of a class -/
def chr (p : Char → Bool) : G := fun i r => ∃ c, i = c :: r ∧ p c = true
/-- a quoted literal -/
def lit (s : String) : G := fun i r => i = s.toList ++ r
/-- `<EOF>`: derives the empty text, at the end of the file only -/
def eof : G := fun i r => i = [] ∧ r = []
/-- `a b` -/
def seq (a b : G) : G := fun i r => ∃ m, a i m ∧ b m r
/-- `a | b` -/
def alt (a b : G) : G := fun i r => a i r ∨ b i r
/-- `a?` -/
def opt (a : G) : G := fun i r => a i r ∨ i = r
/-- `a*` -/
inductive star (a : G) : G
  | nil (i : List Char) : star a i i
  | cons {i m r : List Char} : a i m → star a m r → star a i r
/-- `a+` -/
def plus (a : G) : G := seq a (star a)
/-- `a`, whose derived text must satisfy the decidable side condition `ok` -/
def sat (a : G) (ok : List Char → Bool) : G := fun i r => a i r ∧ ∃ s, i = s ++ r ∧ ok s = true
end G

@[inherit_doc] infixr:67 " ⬝ " => G.seq
@[inherit_doc] infixr:62 " ∥ " => G.alt

open G

/-! ## The side conditions under which the parser accepts (see the module comment) -/

structure Dialect where
  /-- on the text of a `comma-decimal` -/
  numOk : List Char → Bool
  /-- on the text of the `account` of a `posting-line` -/
  postingAccountOk : List Char → Bool
  /-- on the text of the `tag` of an `apply-tag` -/
  applyTagOk : List Char → Bool

/-- the grammar exactly as documented: no side condition -/
def Dialect.documented : Dialect := ⟨fun _ => true, fun _ => true, fun _ => true⟩

/-! ## characters (`## characters` of the document) -/

/-- `sp ::= [ \t]` -/
def isSp (c : Char) : Bool := c == ' ' || c == '\t'
/-- `no-sp ::= [^ \t\r\n]` -/
def isNoSp (c : Char) : Bool := !(c == ' ' || c == '\t' || c == '\r' || c == '\n')
/-- `no-new-line ::= [^\r\n]` -/
def isNoNewLine (c : Char) : Bool := !(c == '\r' || c == '\n')

/-- `sp ::= [ \t]` -/
def sp : G := chr isSp
/-- `no-sp ::= [^ \t\r\n]` -/
def noSp : G := chr isNoSp
/-- `new-line ::= "\r"? "\n" | <EOF>` -/
def newLine : G := (opt (lit "\r") ⬝ lit "\n") ∥ eof
/-- `no-new-line ::= [^\r\n]` -/
def noNewLine : G := chr isNoNewLine
/-- `vertical-space ::=  sp* new-line` -/
def verticalSpace : G := star sp ⬝ newLine

/-! ## primitives -/

/-- `number ::= [0-9]` -/
def number : G := chr Char.isDigit
/-- `comma-integer ::= number+ | number{1-3} ("," number{3})*` -/
def commaInteger : G :=
  plus number ∥ ((number ⬝ opt number ⬝ opt number) ⬝ star (lit "," ⬝ number ⬝ number ⬝ number))
/-- `comma-decimal ::= comma-integer ("." decimal-number*)?`  (R3: `decimal-number` = `number`; E1: an optional `-`) -/
def commaDecimal : G := opt (lit "-") ⬝ commaInteger ⬝ opt (lit "." ⬝ star number)

/-- the characters excluded by `commodity ::= [^- \t\r\n0123456789.,;:?!+*/^&|=<>[](){}@]`, in the document's order -/
def nonCommodity : List Char := "- \t\r\n0123456789.,;:?!+*/^&|=<>[](){}@".toList
def isCommodityChar (c : Char) : Bool := !nonCommodity.contains c
/-- `commodity ::= [^- \t\r\n0123456789.,;:?!+*/^&|=<>[](){}@]`  (R2: one or more) -/
def commodity : G := plus (chr isCommodityChar)

/-- `<yyyy S mm S dd>` for the separator `S` (R1) -/
def dateWith (sep : Char) : G := fun i r =>
  ∃ y m d : List Char, i = y ++ sep :: (m ++ sep :: (d ++ r)) ∧ y.length = 4 ∧ m.length = 2 ∧ d.length = 2 ∧
    (∀ c ∈ y ++ (m ++ d), c.isDigit = true) ∧
    (Date.mk (digitsValue y : Nat) (digitsValue m) (digitsValue d)).valid = true
/-- `date ::= <yyyy/mm/dd> | <yyyy-mm-dd>` -/
def date : G := dateWith '/' ∥ dateWith '-'

/-! ## Expressions -/

/-- `amount-expr ::= comma-decimal sp* commodity?` -/
def amountExpr (D : Dialect) : G := (commaDecimal.sat D.numOk) ⬝ star sp ⬝ opt commodity

mutual
/-- `value-expr ::= amount-expr | paren-expr` -/
inductive ValueExpr (D : Dialect) : G
  | amount {i r : List Char} : amountExpr D i r → ValueExpr D i r
  | paren {i r : List Char} : ParenExpr D i r → ValueExpr D i r
/-- `paren-expr ::= "(" sp* add-expr sp* ")"` -/
inductive ParenExpr (D : Dialect) : G
  | mk {i i1 i2 r : List Char} : star sp i i1 → AddExpr D i1 i2 → star sp i2 (')' :: r) → ParenExpr D ('(' :: i) r
/-- `add-expr ::= mul-expr (sp* [+-] sp* mul-expr)*` -/
inductive AddExpr (D : Dialect) : G
  | mk {i m r : List Char} : MulExpr D i m → AddRest D m r → AddExpr D i r
/-- `(sp* [+-] sp* mul-expr)*` -/
inductive AddRest (D : Dialect) : G
  | nil (i : List Char) : AddRest D i i
  | cons {i i1 i2 i3 r : List Char} (c : Char) : star sp i (c :: i1) → (c = '+' ∨ c = '-') → star sp i1 i2 →
      MulExpr D i2 i3 → AddRest D i3 r → AddRest D i r
/-- `mul-expr ::= unary-expr (sp* [*/] sp* unary-expr)*` -/
inductive MulExpr (D : Dialect) : G
  | mk {i m r : List Char} : UnaryExpr D i m → MulRest D m r → MulExpr D i r
/-- `(sp* [*/] sp* unary-expr)*` -/
inductive MulRest (D : Dialect) : G
  | nil (i : List Char) : MulRest D i i
  | cons {i i1 i2 i3 r : List Char} (c : Char) : star sp i (c :: i1) → (c = '*' ∨ c = '/') → star sp i1 i2 →
      UnaryExpr D i2 i3 → MulRest D i3 r → MulRest D i r
/-- `unary-expr ::= "-"? value-expr` -/
inductive UnaryExpr (D : Dialect) : G
  | pos {i r : List Char} : ValueExpr D i r → UnaryExpr D i r
  | neg {i r : List Char} : ValueExpr D i r → UnaryExpr D ('-' :: i) r
end

/-! ## Transaction -/

/-- `clear-state ::= "*" | "!"` -/
def clearState : G := lit "*" ∥ lit "!"

/-- `account ::= no-sp (no-sp | " " no-sp)*`  ("account can't contain \t or two spaces") -/
def account : G := noSp ⬝ star (noSp ∥ (lit " " ⬝ noSp))

/-- `lot-price ::= "{{" sp* amount-expr sp* "}}" | "{" sp* amount-expr sp* "}"` -/
def lotPrice (D : Dialect) : G :=
  (lit "{{" ⬝ star sp ⬝ amountExpr D ⬝ star sp ⬝ lit "}}") ∥ (lit "{" ⬝ star sp ⬝ amountExpr D ⬝ star sp ⬝ lit "}")
/-- `lot-date ::= "[" sp* date sp* "]"` -/
def lotDate : G := lit "[" ⬝ star sp ⬝ date ⬝ star sp ⬝ lit "]"
/-- `lot-note ::= "(" [^()@]* ")"` -/
def lotNote : G := lit "(" ⬝ star (chr fun c => !(c == '(' || c == ')' || c == '@')) ⬝ lit ")"

/-- `posting-lot ::= (lot-price sp*)? (lot-date sp*)? (lot-note sp*)? | … ; permutations`  (R10) -/
def postingLot (D : Dialect) : G :=
  let p := opt (lotPrice D ⬝ star sp)
  let d := opt (lotDate ⬝ star sp)
  let n := opt (lotNote ⬝ star sp)
  (p ⬝ d ⬝ n) ∥ (p ⬝ n ⬝ d) ∥ (d ⬝ p ⬝ n) ∥ (d ⬝ n ⬝ p) ∥ (n ⬝ p ⬝ d) ∥ (n ⬝ d ⬝ p)

/-- `posting-cost ::= "@@" sp* value-expr | "@"  sp* value-expr` -/
def postingCost (D : Dialect) : G := (lit "@@" ⬝ star sp ⬝ ValueExpr D) ∥ (lit "@" ⬝ star sp ⬝ ValueExpr D)
/-- `posting-amount ::= value-expr sp* posting-lot? posting-cost?` -/
def postingAmount (D : Dialect) : G := ValueExpr D ⬝ star sp ⬝ opt (postingLot D) ⬝ opt (postingCost D)
/-- `balance ::= "=" sp* value-expr sp*` -/
def balance (D : Dialect) : G := lit "=" ⬝ star sp ⬝ ValueExpr D ⬝ star sp
/-- `posting-value ::= ("  " | "\t") sp* (posting-amount sp*)? balance?` -/
def postingValue (D : Dialect) : G :=
  (lit "  " ∥ lit "\t") ⬝ star sp ⬝ opt (postingAmount D ⬝ star sp) ⬝ opt (balance D)
/-- `posting-line ::= sp+ (clear-state sp*)? account posting-value?` -/
def postingLine (D : Dialect) : G :=
  plus sp ⬝ opt (clearState ⬝ star sp) ⬝ (account.sat D.postingAccountOk) ⬝ opt (postingValue D)

/-- `tag ::= <no-sp except ":">+`  (R11) -/
def tag : G := plus (chr fun c => isNoSp c && c != ':')
/-- `metadata-key-value ::= sp* tag sp* ":" sp* no-new-line* | sp* tag sp* "::" sp* expr`  (R4: `expr` = `no-new-line*`) -/
def metadataKeyValue : G :=
  (star sp ⬝ tag ⬝ star sp ⬝ lit ":" ⬝ star sp ⬝ star noNewLine) ∥
  (star sp ⬝ tag ⬝ star sp ⬝ lit "::" ⬝ star sp ⬝ star noNewLine)
/-- `metadata-tag-words ::= sp* ":" (tag ":")+` -/
def metadataTagWords : G := star sp ⬝ lit ":" ⬝ plus (tag ⬝ lit ":")
/-- `metadata-comment ::= ";" no-new-line*`  (R5: without the second `;`) -/
def metadataComment : G := star noNewLine
/-- `metadata ::= ";" (metadata-key-value | metadata-tag-words | metadata-comment)` -/
def metadata : G := lit ";" ⬝ (metadataKeyValue ∥ metadataTagWords ∥ metadataComment)

/-- a further metadata line (R7): `sp+ metadata new-line` -/
def metadataLine : G := plus sp ⬝ metadata ⬝ newLine

/-- `posting ::= posting-line metadata? new-line (metadata new-line)*`  (R7) -/
def posting (D : Dialect) : G := postingLine D ⬝ opt metadata ⬝ newLine ⬝ star metadataLine

/-- `transaction-date ::= date ("=" date)?` -/
def transactionDate : G := date ⬝ opt (lit "=" ⬝ date)
/-- `transaction-code ::= "(" sp* [^()\r\n]* sp* ")"` -/
def transactionCode : G :=
  lit "(" ⬝ star sp ⬝ star (chr fun c => !(c == '(' || c == ')' || c == '\r' || c == '\n')) ⬝ star sp ⬝ lit ")"
/-- `payee ::= [^\r\n;]*` -/
def payee : G := star (chr fun c => !(c == '\r' || c == '\n' || c == ';'))
/-- `transcation-note ::= (clear-state sp*)? (transaction-code sp*)? payee`  (the document's spelling) -/
def transactionNote : G := opt (clearState ⬝ star sp) ⬝ opt (transactionCode ⬝ star sp) ⬝ payee
/-- `transaction-header ::= transaction-date (sp+ transcation-note)? (new-line | metadata)`  (R6) -/
def transactionHeader (D : Dialect) : G :=
  transactionDate ⬝ opt (plus sp ⬝ transactionNote) ⬝ (newLine ∥ (metadata ⬝ newLine))
/-- `transaction ::= transaction-header metadata* posting*`  (R7) -/
def transaction (D : Dialect) : G := transactionHeader D ⬝ star metadataLine ⬝ star (posting D)

/-! ## Top level comments -/

/-- `comment-prefix ::= [;#%|*]` -/
def isCommentPrefix (c : Char) : Bool := c == ';' || c == '#' || c == '%' || c == '|' || c == '*'
def commentPrefix : G := chr isCommentPrefix
/-- `top-level-comment ::= (comment-prefix no-new-line* new-line)+` -/
def topLevelComment : G := plus (commentPrefix ⬝ star noNewLine ⬝ newLine)

/-! ## account declaration -/

/-- `account-note ::= sp+ "note" sp+ no-new-line* new-line` -/
def accountNote : G := plus sp ⬝ lit "note" ⬝ plus sp ⬝ star noNewLine ⬝ newLine
/-- `account-alias ::= sp+ "alias" sp+ account new-line` -/
def accountAlias : G := plus sp ⬝ lit "alias" ⬝ plus sp ⬝ account ⬝ newLine
/-- `account-comment ::= sp+ comment-prefix no-new-line* new-line` -/
def accountComment : G := plus sp ⬝ commentPrefix ⬝ star noNewLine ⬝ newLine
/-- `account-detail ::= account-note | account-alias | account-comment` -/
def accountDetail : G := accountNote ∥ accountAlias ∥ accountComment
/-- `account-declaration ::= "account" sp+ account sp* new-line account-detail*` -/
def accountDeclaration : G := lit "account" ⬝ plus sp ⬝ account ⬝ star sp ⬝ newLine ⬝ star accountDetail

/-! ## commodity declaration -/

/-- `commodity-note ::= sp+ "note" sp+ no-new-line* new-line` -/
def commodityNote : G := plus sp ⬝ lit "note" ⬝ plus sp ⬝ star noNewLine ⬝ newLine
/-- `commodity-alias ::= sp+ "alias" sp+ commodity new-line` -/
def commodityAlias : G := plus sp ⬝ lit "alias" ⬝ plus sp ⬝ commodity ⬝ newLine
/-- `commodity-format` (R9): `sp+ "format" sp+ amount-expr new-line` -/
def commodityFormat (D : Dialect) : G := plus sp ⬝ lit "format" ⬝ plus sp ⬝ amountExpr D ⬝ newLine
/-- `commodity-comment ::= sp+ comment-prefix no-new-line* new-line` -/
def commodityComment : G := plus sp ⬝ commentPrefix ⬝ star noNewLine ⬝ newLine
/-- `commodity-detail ::= commodity-note | commodity-alias | commodity-format | commodity-comment` -/
def commodityDetail (D : Dialect) : G := commodityNote ∥ commodityAlias ∥ commodityFormat D ∥ commodityComment
/-- `commodity-declaration ::= "commodity" sp+ commodity sp* new-line commodity-detail*` -/
def commodityDeclaration (D : Dialect) : G :=
  lit "commodity" ⬝ plus sp ⬝ commodity ⬝ star sp ⬝ newLine ⬝ star (commodityDetail D)

/-! ## apply directives -/

/-- `apply-tag-prefix ::= "apply" sp+ "tag" sp+` -/
def applyTagPrefix : G := lit "apply" ⬝ plus sp ⬝ lit "tag" ⬝ plus sp
/-- `apply-tag-key ::= tag sp*` -/
def applyTagKey (D : Dialect) : G := (tag.sat D.applyTagOk) ⬝ star sp
/-- `apply-tag-key-value ::= metadata-key-value`, with the side condition on its `tag` -/
def applyTagKeyValue (D : Dialect) : G :=
  (star sp ⬝ (tag.sat D.applyTagOk) ⬝ star sp ⬝ lit ":" ⬝ star sp ⬝ star noNewLine) ∥
  (star sp ⬝ (tag.sat D.applyTagOk) ⬝ star sp ⬝ lit "::" ⬝ star sp ⬝ star noNewLine)
/-- `apply-tag ::= apply-tag-prefix (apply-tag-key | apply-tag-key-value) new-line` -/
def applyTag (D : Dialect) : G := applyTagPrefix ⬝ (applyTagKey D ∥ applyTagKeyValue D) ⬝ newLine
/-- `end-apply-tag ::= "end" sp+ "apply" sp+ "tag" sp* new-line` -/
def endApplyTag : G := lit "end" ⬝ plus sp ⬝ lit "apply" ⬝ plus sp ⬝ lit "tag" ⬝ star sp ⬝ newLine

/-! ## include directive -/

/-- `path ::= no-new-line+` -/
def path : G := plus noNewLine
/-- `include ::= "include" sp+ path new-line` -/
def includeDirective : G := lit "include" ⬝ plus sp ⬝ path ⬝ newLine

/-! ## directives -/

/-- `directive ::= transaction | top-comment | account-declaration | commodity-declaration | apply-tag | end-apply-tag | include`
(R8: `top-comment` is `top-level-comment`) -/
def directive (D : Dialect) : G :=
  transaction D ∥ topLevelComment ∥ accountDeclaration ∥ commodityDeclaration D ∥ applyTag D ∥ endApplyTag ∥ includeDirective

/-- `ledger-file ::= vertical-space* (directive vertical-space*)*` -/
def ledgerFile (D : Dialect) : G := star verticalSpace ⬝ star (directive D ⬝ star verticalSpace)

/-- the whole text `t` follows the documented syntax (in the dialect `D`) -/
def DocLedger (D : Dialect) (t : List Char) : Prop := ledgerFile D t []

/-! ## The dialect the parser accepts -/

/-- blanks removed from the front -/
def stripSp (s : List Char) : List Char := s.dropWhile isSp

/-- the side conditions under which every derivable text is accepted (each is necessary: `DocAcceptFindings`) -/
def Dialect.accepted : Dialect where
  numOk := Representable
  postingAccountOk := fun a => !a.contains ';' && !(a == ['*'] || a == ['!'])
  applyTagOk := fun t => !t.contains '\x0c'

end Okane.Spec.Doc
