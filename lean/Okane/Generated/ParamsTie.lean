import Okane.Generated.Params
import Okane.Model.Parse
/-!
# Tie between the character classes of the parser model and the Rust source

`Okane.Params.*` is regenerated from /repo's sources by `tools/probe_source.py` on every check run.  The lemmas below
state, for EVERY character, that the predicate the model uses is membership in the set the Rust source spells out now;
if the source changes one of these sets the file stops compiling and every check that imports it reports the broken tie
(the model must then be brought up to date, and the property theorems re-proved for the new set).
-/
namespace Okane.ParamsTie
open Okane

theorem nonCommodityChars_tie : ExprSyntax.nonCommodityChars = Params.nonCommodityChars.toList := by decide

theorem isCommodityChar_tie (c : Char) :
    ExprSyntax.isCommodityChar c = !Params.nonCommodityChars.toList.contains c := by
  rw [← nonCommodityChars_tie]; rfl

theorem commentPrefix_tie (c : Char) : Parse.isCommentPrefix c = Params.commentPrefixChars.toList.contains c := by
  have : Params.commentPrefixChars.toList = [';', '#', '%', '|', '*'] := by decide
  rw [this]; simp only [Parse.isCommentPrefix, List.contains_cons, List.contains_nil]; grind

theorem accountStop_tie (c : Char) : Parse.isAccountStop c = Params.accountStopChars.toList.contains c := by
  have : Params.accountStopChars.toList = ['\n', '\r', ';', ' ', '\t'] := by decide
  rw [this]; simp only [Parse.isAccountStop, List.contains_cons, List.contains_nil]; grind

/-- `paren_str` (the transaction code): the text stops at `)` or at the end of the line -/
theorem parenStrStop_tie (c : Char) : Parse.isParenStrStop c = Params.parenStrStopChars.toList.contains c := by
  have : Params.parenStrStopChars.toList = [')', '\r', '\n'] := by decide
  rw [this]; simp only [Parse.isParenStrStop, List.contains_cons, List.contains_nil]; grind

/-- the terminator set of `posting_account`, the stop set of a lot note, of `till_line_ending_or_semi`, and the
two punctuation characters of a number token, as literal character lists (the model spells them inline) -/
theorem accountEndChars_tie : Params.accountEndChars.toList = ['\t', ';', '\r', '\n'] := by decide
theorem lotNoteStopChars_tie : Params.lotNoteStopChars.toList = ['(', ')', '@'] := by decide
theorem lineOrSemiStopChars_tie : Params.lineOrSemiStopChars.toList = [';', '\r', '\n'] := by decide
theorem numberToken_tie (c : Char) :
    Literal.isNumChar c = (c.isDigit || Params.numberTokenExtra.toList.contains c || Params.numberTokenExtra2.toList.contains c) := by
  have h1 : Params.numberTokenExtra.toList = [','] := by decide
  have h2 : Params.numberTokenExtra2.toList = ['.'] := by decide
  rw [h1, h2]; simp only [Literal.isNumChar, List.contains_cons, List.contains_nil]; grind

end Okane.ParamsTie
