/-!
# Dates: civil (y, m, d) with chrono's validity rule, ordered by day number
-/
namespace Okane

structure Date where
  y : Int
  m : Nat
  d : Nat
  deriving Repr, DecidableEq, Inhabited, BEq

namespace Date

def isLeap (y : Int) : Bool := (y % 4 == 0 && y % 100 != 0) || y % 400 == 0

def daysInMonth (y : Int) (m : Nat) : Nat :=
  match m with
  | 1 => 31 | 2 => if isLeap y then 29 else 28 | 3 => 31 | 4 => 30 | 5 => 31 | 6 => 30
  | 7 => 31 | 8 => 31 | 9 => 30 | 10 => 31 | 11 => 30 | 12 => 31 | _ => 0

def valid (dt : Date) : Bool := 1 ≤ dt.m && dt.m ≤ 12 && 1 ≤ dt.d && dt.d ≤ daysInMonth dt.y dt.m

/-- days since 1970-01-01 (Howard Hinnant's `days_from_civil`). -/
def dayNumber (dt : Date) : Int :=
  let y : Int := if dt.m ≤ 2 then dt.y - 1 else dt.y
  let era : Int := (if y ≥ 0 then y else y - 399) / 400
  let yoe : Int := y - era * 400
  let mp : Int := ((dt.m : Int) + 9) % 12
  let doy : Int := (153 * mp + 2) / 5 + (dt.d : Int) - 1
  let doe : Int := yoe * 365 + yoe / 4 - yoe / 100 + doy
  era * 146097 + doe - 719468

instance : LT Date := ⟨fun a b => a.dayNumber < b.dayNumber⟩
instance : LE Date := ⟨fun a b => a.dayNumber ≤ b.dayNumber⟩
instance (a b : Date) : Decidable (a < b) := inferInstanceAs (Decidable (a.dayNumber < b.dayNumber))
instance (a b : Date) : Decidable (a ≤ b) := inferInstanceAs (Decidable (a.dayNumber ≤ b.dayNumber))

def pad (n w : Nat) : String :=
  let s := toString n
  String.ofList (List.replicate (w - s.length) '0') ++ s

/-- chrono `%Y/%m/%d` rendering (4-digit year, zero padded). -/
def fmtSlash (dt : Date) : String :=
  (if dt.y < 0 then "-" else "") ++ pad dt.y.natAbs 4 ++ "/" ++ pad dt.m 2 ++ "/" ++ pad dt.d 2

def fmtHyphen (dt : Date) : String :=
  (if dt.y < 0 then "-" else "") ++ pad dt.y.natAbs 4 ++ "-" ++ pad dt.m 2 ++ "-" ++ pad dt.d 2

end Date
end Okane
