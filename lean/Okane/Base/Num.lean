/-!
# Numbers: exact rationals for the report layer, half-even rounding, decimal (mantissa, scale) pairs
-/
namespace Okane

/-- `10^n` as a rational. -/
def pow10 (n : Nat) : Rat := (10 : Rat) ^ n

/-- value of a decimal given as signed mantissa and scale. -/
def decToRat (mant : Int) (scale : Nat) : Rat := (mant : Rat) / pow10 scale

/-- round half to even at integer granularity. -/
def roundHalfEvenInt (x : Rat) : Int :=
  let f := x.floor
  let r := x - (f : Rat)
  if r < 1/2 then f
  else if r > 1/2 then f + 1
  else if f % 2 = 0 then f else f + 1

/-- `Decimal::round_dp_with_strategy(dp, MidpointNearestEven)` on values. -/
def roundHalfEven (x : Rat) (dp : Nat) : Rat :=
  (roundHalfEvenInt (x * pow10 dp) : Rat) / pow10 dp

def ratAbs (x : Rat) : Rat := if x < 0 then -x else x

/-- canonical text of a rational: `num/den` in lowest terms. -/
def ratStr (x : Rat) : String := toString x.num ++ "/" ++ toString x.den

end Okane
