/-!
# S-expressions and the line protocol's text encoding

Atoms are percent-encoded UTF-8 (`~` is the empty string); lists are parenthesised, blank separated.
One case = one line.
-/
namespace Okane

inductive Sexp where
  | atom (s : String)
  | list (xs : List Sexp)
  deriving Repr, Inhabited, BEq

namespace Sexp

def hexDigit (n : Nat) : Char :=
  if n < 10 then Char.ofNat (48 + n) else Char.ofNat (55 + n)

def hexVal (c : Char) : Option Nat :=
  if '0' ≤ c ∧ c ≤ '9' then some (c.toNat - 48)
  else if 'A' ≤ c ∧ c ≤ 'F' then some (c.toNat - 55)
  else if 'a' ≤ c ∧ c ≤ 'f' then some (c.toNat - 87)
  else none

def safeByte (b : UInt8) : Bool :=
  let n := b.toNat
  (48 ≤ n ∧ n ≤ 57) || (65 ≤ n ∧ n ≤ 90) || (97 ≤ n ∧ n ≤ 122) ||
  n == 95 || n == 46 || n == 58 || n == 47 || n == 43 || n == 45 || n == 44

/-- percent-encode a string as one atom. -/
def encode (s : String) : String :=
  if s.isEmpty then "~" else
  String.ofList (s.toUTF8.toList.flatMap fun b =>
    if safeByte b then [Char.ofNat b.toNat]
    else ['%', hexDigit (b.toNat / 16), hexDigit (b.toNat % 16)])

def decodeBytes : List Char → List UInt8 → Option (List UInt8)
  | [], acc => some acc.reverse
  | '%' :: a :: b :: rest, acc =>
    match hexVal a, hexVal b with
    | some x, some y => decodeBytes rest (UInt8.ofNat (x * 16 + y) :: acc)
    | _, _ => none
  | c :: rest, acc => if c.toNat < 128 then decodeBytes rest (UInt8.ofNat c.toNat :: acc) else none

def decode (s : String) : Option String :=
  if s == "~" then some "" else
  match decodeBytes s.toList [] with
  | some bs => String.fromUTF8? (ByteArray.mk bs.toArray)
  | none => none

partial def toStr : Sexp → String
  | atom s => s
  | list xs => "(" ++ " ".intercalate (xs.map toStr) ++ ")"

/-- tokenizer: parens and blank-separated atoms. -/
def tokens (s : String) : List String :=
  let rec go (cs : List Char) (cur : List Char) (acc : List String) : List String :=
    match cs with
    | [] => (if cur.isEmpty then acc else String.ofList cur.reverse :: acc).reverse
    | c :: rest =>
      if c == '(' || c == ')' then
        let acc := if cur.isEmpty then acc else String.ofList cur.reverse :: acc
        go rest [] (String.singleton c :: acc)
      else if c == ' ' || c == '\n' || c == '\r' || c == '\t' then
        let acc := if cur.isEmpty then acc else String.ofList cur.reverse :: acc
        go rest [] acc
      else go rest (c :: cur) acc
  go s.toList [] []

/-- parse tokens with an explicit stack. -/
def parseTokens (ts : List String) : Option Sexp :=
  let rec go (ts : List String) (stack : List (List Sexp)) : Option Sexp :=
    match ts with
    | [] => match stack with
      | [[x]] => some x
      | _ => none
    | t :: rest =>
      if t == "(" then go rest ([] :: stack)
      else if t == ")" then
        match stack with
        | top :: next :: stack' => go rest ((list top.reverse :: next) :: stack')
        | _ => none
      else
        match stack with
        | top :: stack' => go rest ((atom t :: top) :: stack')
        | [] => none
  go ts [[]]

def parse (s : String) : Option Sexp := parseTokens (tokens s)

def str? : Sexp → Option String
  | atom s => decode s
  | _ => none

def int? : Sexp → Option Int
  | atom s => s.toInt?
  | _ => none

def nat? : Sexp → Option Nat
  | atom s => s.toNat?
  | _ => none

def mkStr (s : String) : Sexp := atom (encode s)
def mkInt (i : Int) : Sexp := atom (toString i)
def mkNat (n : Nat) : Sexp := atom (toString n)
def tagged (tag : String) (xs : List Sexp) : Sexp := list (atom tag :: xs)

end Sexp
end Okane
