/-!
# AMap: association-list finite maps (the model of Rust's `HashMap`)

Observable results are stated through `get`.  Key uniqueness (`Nodup keys`) is a separate invariant
(`AMap.WF`), proved preserved by every operation, not a subtype.
The *order* of the list is the model's stand-in for the hash-iteration order; every place the Rust code
iterates a map takes the list in the order given, and theorems quantify over all orders.
-/
set_option linter.unusedSectionVars false
namespace Okane

abbrev AMap (κ : Type) (ν : Type) := List (κ × ν)

namespace AMap
variable {κ ν : Type} [DecidableEq κ]

def get? : AMap κ ν → κ → Option ν
  | [], _ => none
  | (k', v) :: m, k => if k' = k then some v else get? m k

def contains (m : AMap κ ν) (k : κ) : Bool := (get? m k).isSome

/-- insert-or-replace; a replaced key keeps its position, a new key goes to the end. -/
def insert : AMap κ ν → κ → ν → AMap κ ν
  | [], k, v => [(k, v)]
  | (k', v') :: m, k, v => if k' = k then (k', v) :: m else (k', v') :: insert m k v

def erase : AMap κ ν → κ → AMap κ ν
  | [], _ => []
  | (k', v') :: m, k => if k' = k then m else (k', v') :: erase m k

def keys (m : AMap κ ν) : List κ := m.map Prod.fst

def WF (m : AMap κ ν) : Prop := (keys m).Nodup

/-- `entry(k).or_insert(d)` followed by an update. -/
def modifyD (m : AMap κ ν) (k : κ) (d : ν) (f : ν → ν) : AMap κ ν :=
  match get? m k with
  | some v => insert m k (f v)
  | none => insert m k (f d)

def filterVals (p : ν → Bool) (m : AMap κ ν) : AMap κ ν := m.filter (fun kv => p kv.2)

def mapVals {ν'} (f : ν → ν') (m : AMap κ ν) : AMap κ ν' := m.map (fun kv => (kv.1, f kv.2))

def mapValsK {ν'} (f : κ → ν → ν') (m : AMap κ ν) : AMap κ ν' := m.map (fun kv => (kv.1, f kv.1 kv.2))

@[simp] theorem get?_nil (k : κ) : get? ([] : AMap κ ν) k = none := rfl

theorem get?_insert (m : AMap κ ν) (k k' : κ) (v : ν) :
    get? (insert m k v) k' = if k = k' then some v else get? m k' := by
  induction m with
  | nil => simp [insert, get?]
  | cons hd tl ih =>
    obtain ⟨a, b⟩ := hd
    simp only [insert]
    by_cases h : a = k
    · subst h; simp only [if_true, get?]; by_cases h2 : a = k' <;> simp [h2]
    · simp only [h, if_false, get?, ih]
      by_cases h2 : a = k'
      · subst h2; simp [Ne.symm h]
      · simp [h2]

theorem get?_insert_self (m : AMap κ ν) (k : κ) (v : ν) : get? (insert m k v) k = some v := by
  simp [get?_insert]

theorem get?_insert_ne (m : AMap κ ν) {k k' : κ} (v : ν) (h : k ≠ k') :
    get? (insert m k v) k' = get? m k' := by
  simp [get?_insert, h]

theorem keys_insert_of_mem (m : AMap κ ν) (k : κ) (v : ν) (h : (get? m k).isSome) :
    keys (insert m k v) = keys m := by
  induction m with
  | nil => simp [get?] at h
  | cons hd tl ih =>
    obtain ⟨a, b⟩ := hd
    simp only [insert]
    by_cases h1 : a = k
    · simp [h1, keys]
    · simp only [h1, if_false]
      simp only [get?, h1, if_false] at h
      have := ih h
      simp [keys] at this ⊢
      exact this

theorem get?_none_iff_not_mem (m : AMap κ ν) (k : κ) : get? m k = none ↔ k ∉ keys m := by
  induction m with
  | nil => simp [keys]
  | cons hd tl ih =>
    obtain ⟨a, b⟩ := hd
    simp only [get?, keys, List.map_cons, List.mem_cons]
    by_cases h : a = k
    · simp [h]
    · simp only [h, if_false]
      rw [ih]
      simp [keys, Ne.symm h]

theorem keys_insert_of_not_mem (m : AMap κ ν) (k : κ) (v : ν) (h : get? m k = none) :
    keys (insert m k v) = keys m ++ [k] := by
  induction m with
  | nil => simp [insert, keys]
  | cons hd tl ih =>
    obtain ⟨a, b⟩ := hd
    simp only [get?] at h
    by_cases h1 : a = k
    · simp [h1] at h
    · simp only [h1, if_false] at h
      simp only [insert, h1, if_false]
      have := ih h
      simp [keys] at this ⊢
      exact this

theorem WF_insert (m : AMap κ ν) (k : κ) (v : ν) (h : WF m) : WF (insert m k v) := by
  unfold WF at *
  cases hg : get? m k with
  | some x => rw [keys_insert_of_mem m k v (by simp [hg])]; exact h
  | none =>
    rw [keys_insert_of_not_mem m k v hg]
    have hn := (get?_none_iff_not_mem m k).1 hg
    rw [List.nodup_append]
    refine ⟨h, by simp, ?_⟩
    intro a ha b hb
    simp at hb
    subst hb
    intro hab; subst hab; exact hn ha

theorem get?_erase (m : AMap κ ν) (h : WF m) (k k' : κ) :
    get? (erase m k) k' = if k = k' then none else get? m k' := by
  induction m with
  | nil => simp [erase]
  | cons hd tl ih =>
    obtain ⟨a, b⟩ := hd
    have htl : WF tl := by unfold WF keys at *; simp at h; exact h.2
    have hnot : a ∉ keys tl := by unfold WF keys at *; simp at h; simpa [keys] using h.1
    simp only [erase]
    by_cases h1 : a = k
    · subst h1
      simp only [if_true]
      by_cases h2 : a = k'
      · subst h2; simp; exact (get?_none_iff_not_mem tl a).2 hnot
      · simp [h2, get?]
    · simp only [h1, if_false, get?, ih htl]
      by_cases h2 : a = k'
      · subst h2; simp [Ne.symm h1]
      · simp [h2]

theorem keys_erase_sublist (m : AMap κ ν) (k : κ) : (keys (erase m k)).Sublist (keys m) := by
  induction m with
  | nil => simp [erase, keys]
  | cons hd tl ih =>
    obtain ⟨a, b⟩ := hd
    simp only [erase]
    by_cases h1 : a = k
    · simp [h1, keys]
    · simp only [h1, if_false, keys, List.map_cons]
      exact List.Sublist.cons_cons _ ih

theorem WF_erase (m : AMap κ ν) (k : κ) (h : WF m) : WF (erase m k) :=
  List.Sublist.nodup (keys_erase_sublist m k) h

theorem WF_nil : WF ([] : AMap κ ν) := by simp [WF, keys]

theorem keys_filterVals_sublist (p : ν → Bool) (m : AMap κ ν) :
    (keys (filterVals p m)).Sublist (keys m) := by
  unfold keys filterVals
  exact List.Sublist.map _ List.filter_sublist

theorem WF_filterVals (p : ν → Bool) (m : AMap κ ν) (h : WF m) : WF (filterVals p m) :=
  List.Sublist.nodup (keys_filterVals_sublist p m) h

theorem get?_filterVals (p : ν → Bool) (m : AMap κ ν) (h : WF m) (k : κ) :
    get? (filterVals p m) k = (get? m k).filter p := by
  induction m with
  | nil => simp [filterVals]
  | cons hd tl ih =>
    obtain ⟨a, b⟩ := hd
    have htl : WF tl := by unfold WF keys at *; simp at h; exact h.2
    have hnot : a ∉ keys tl := by unfold WF keys at *; simp at h; simpa [keys] using h.1
    have ih' := ih htl
    unfold filterVals at ih' ⊢
    simp only [List.filter_cons]
    by_cases hp : p b = true
    · simp only [hp, if_true, get?]
      by_cases h1 : a = k
      · simp [h1, Option.filter, hp]
      · simp [h1, ih']
    · simp only [hp, get?]
      by_cases h1 : a = k
      · subst h1
        have : get? tl a = none := (get?_none_iff_not_mem tl a).2 hnot
        simp [ih', this, Option.filter, hp]
      · simp [h1, ih']

@[simp] theorem keys_mapVals {ν'} (f : ν → ν') (m : AMap κ ν) : keys (mapVals f m) = keys m := by
  simp [keys, mapVals, List.map_map, Function.comp_def]

@[simp] theorem keys_mapValsK {ν'} (f : κ → ν → ν') (m : AMap κ ν) : keys (mapValsK f m) = keys m := by
  simp [keys, mapValsK, List.map_map, Function.comp_def]

theorem get?_mapVals {ν'} (f : ν → ν') (m : AMap κ ν) (k : κ) :
    get? (mapVals f m) k = (get? m k).map f := by
  induction m with
  | nil => simp [mapVals]
  | cons hd tl ih =>
    obtain ⟨a, b⟩ := hd
    unfold mapVals at ih ⊢
    simp only [List.map_cons, get?]
    by_cases h1 : a = k <;> simp [h1, ih]

theorem get?_mapValsK {ν'} (f : κ → ν → ν') (m : AMap κ ν) (k : κ) :
    get? (mapValsK f m) k = (get? m k).map (f k) := by
  induction m with
  | nil => simp [mapValsK]
  | cons hd tl ih =>
    obtain ⟨a, b⟩ := hd
    unfold mapValsK at ih ⊢
    simp only [List.map_cons, get?]
    by_cases h1 : a = k
    · subst h1; simp
    · simp [h1, ih]

theorem WF_mapVals {ν'} (f : ν → ν') (m : AMap κ ν) (h : WF m) : WF (mapVals f m) := by
  unfold WF at *; simpa using h

theorem WF_mapValsK {ν'} (f : κ → ν → ν') (m : AMap κ ν) (h : WF m) : WF (mapValsK f m) := by
  unfold WF at *; simpa using h

theorem get?_some_of_mem (m : AMap κ ν) (h : WF m) {k : κ} {v : ν} (hm : (k, v) ∈ m) :
    get? m k = some v := by
  induction m with
  | nil => simp at hm
  | cons hd tl ih =>
    obtain ⟨a, b⟩ := hd
    have htl : WF tl := by unfold WF keys at *; simp at h; exact h.2
    have hnot : a ∉ keys tl := by unfold WF keys at *; simp at h; simpa [keys] using h.1
    simp only [List.mem_cons, Prod.mk.injEq] at hm
    rcases hm with ⟨h1, h2⟩ | hm
    · subst h1; subst h2; simp [get?]
    · have hk : k ∈ keys tl := by unfold keys; exact List.mem_map.2 ⟨(k, v), hm, rfl⟩
      have : a ≠ k := by intro h; subst h; exact hnot hk
      simp [get?, this, ih htl hm]

theorem mem_of_get?_some (m : AMap κ ν) {k : κ} {v : ν} (hg : get? m k = some v) : (k, v) ∈ m := by
  induction m with
  | nil => simp at hg
  | cons hd tl ih =>
    obtain ⟨a, b⟩ := hd
    simp only [get?] at hg
    by_cases h1 : a = k
    · simp [h1] at hg; subst h1; subst hg; simp
    · simp [h1] at hg; exact List.mem_cons_of_mem _ (ih hg)

end AMap
end Okane

namespace Okane.AMap
variable {κ ν : Type} [DecidableEq κ]

theorem mem_insert_imp (m : AMap κ ν) (k : κ) (v : ν) {kv : κ × ν} (h : kv ∈ insert m k v) :
    kv = (k, v) ∨ kv ∈ m := by
  induction m with
  | nil => simp [insert] at h; exact Or.inl h
  | cons hd tl ih =>
    obtain ⟨a, b⟩ := hd
    simp only [insert] at h
    by_cases h1 : a = k
    · simp only [h1, if_true, List.mem_cons] at h
      rcases h with h | h
      · exact Or.inl h
      · exact Or.inr (List.mem_cons_of_mem _ h)
    · simp only [h1, if_false, List.mem_cons] at h
      rcases h with h | h
      · exact Or.inr (by simp [h])
      · rcases ih h with h | h
        · exact Or.inl h
        · exact Or.inr (List.mem_cons_of_mem _ h)

theorem mem_erase_imp (m : AMap κ ν) (k : κ) {kv : κ × ν} (h : kv ∈ erase m k) : kv ∈ m := by
  induction m with
  | nil => simp [erase] at h
  | cons hd tl ih =>
    obtain ⟨a, b⟩ := hd
    simp only [erase] at h
    by_cases h1 : a = k
    · simp only [h1, if_true] at h; exact List.mem_cons_of_mem _ h
    · simp only [h1, if_false, List.mem_cons] at h
      rcases h with h | h
      · simp [h]
      · exact List.mem_cons_of_mem _ (ih h)

end Okane.AMap
