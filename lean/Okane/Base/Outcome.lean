/-!
# Outcome: the result type of every modelled entry point

`ok a`      – the Rust function returned `Ok(a)` / a plain value
`err e`     – the Rust function returned `Err(e)`
`panic s`   – the Rust code reaches a panic (named site `s`: division by zero, overflow, `unreachable!`, …)
`fuelOut`   – the model's fuel ran out (stands for an unbounded loop / recursion of the Rust code)
-/
namespace Okane

inductive Outcome (ε : Type) (α : Type) where
  | ok (a : α)
  | err (e : ε)
  | panic (site : String)
  | fuelOut
  deriving Repr, DecidableEq, Inhabited

namespace Outcome
variable {ε α β : Type}

@[inline] def bind (x : Outcome ε α) (f : α → Outcome ε β) : Outcome ε β :=
  match x with
  | ok a => f a
  | err e => err e
  | panic s => panic s
  | fuelOut => fuelOut

instance : Monad (Outcome ε) where
  pure := ok
  bind := bind

def map' (f : α → β) : Outcome ε α → Outcome ε β
  | ok a => ok (f a)
  | err e => err e
  | panic s => panic s
  | fuelOut => fuelOut

def mapErr {ε'} (f : ε → ε') : Outcome ε α → Outcome ε' α
  | ok a => ok a
  | err e => err (f e)
  | panic s => panic s
  | fuelOut => fuelOut

def isOk : Outcome ε α → Bool
  | ok _ => true
  | _ => false

def isErr : Outcome ε α → Bool
  | err _ => true
  | _ => false

/-- "crashes": a panic or a hang. -/
def crashes : Outcome ε α → Bool
  | panic _ => true
  | fuelOut => true
  | _ => false

@[simp] theorem bind_ok (a : α) (f : α → Outcome ε β) : (ok a : Outcome ε α) >>= f = f a := rfl
@[simp] theorem bind_err (e : ε) (f : α → Outcome ε β) : (err e : Outcome ε α) >>= f = err e := rfl
@[simp] theorem bind_panic (s : String) (f : α → Outcome ε β) : (panic s : Outcome ε α) >>= f = panic s := rfl
@[simp] theorem bind_fuelOut (f : α → Outcome ε β) : (fuelOut : Outcome ε α) >>= f = fuelOut := rfl
@[simp] theorem pure_eq (a : α) : (pure a : Outcome ε α) = ok a := rfl

theorem bind_eq_ok {x : Outcome ε α} {f : α → Outcome ε β} {b : β} :
    x >>= f = ok b ↔ ∃ a, x = ok a ∧ f a = ok b := by
  cases x <;> simp [Bind.bind, bind]

end Outcome
end Okane
