def hello := "world"
