import Okane.Lemmas.BookText2
import Okane.Lemmas.C14TextBook
import Okane.Lemmas.C11TextGrammar
/-!
# What is WRITTEN in the text: the parser facts behind C02 / C03 on texts, proved from the parser model

`C02_text_holds`, `C03_text_assign`, `C03_text_omitted` speak about the posting lines of a text through the parsed tree:
"the line carries no amount" is `p.amount = none`, "`= X` is written" is `p.balance = some X`.  Here these tree facts are
tied to the characters of the text, for EVERY text, by following the parser model (`Model/Parse.lean`):

* `posting_readFrom` — every posting of every transaction of a parsed text was returned by the posting parser on a suffix of
  the text (`ReadFrom`): through `ParsedIter`, `parse_ledger_entry`, `transaction` and its `repeat(0.., posting)`;
* `posting_written` — for a posting the parser returned from `i`: after the clear mark, the account and the blanks that
  follow it (rest `i1`),
  - `amount = none`  ⇒ nothing is written where the amount would stand: `i1` is empty or begins with `=`, `;`, LF or CR;
  - `amount = some a` ⇒ `i1` begins with a text that the expression parser reads as `a.amount`;
  and after the amount part (rest `i2`)
  - `balance = some X` ⇒ `i2` is `=`, blanks, and a text the expression parser reads as `X`;
  - `balance = none` ⇒ `i2` does not begin with `=`.
* `C02_text_written` / `C03_text_written` — the combination, for the postings of a parsed text.
-/
set_option linter.unusedSectionVars false
set_option linter.unusedVariables false
set_option linter.unusedSimpArgs false
namespace Okane.BookText
open Okane Okane.Comb Okane.Parse Okane.C14Book

/-- the posting `p` was read inside `i`: the posting parser returned it on a suffix of `i` -/
def ReadIn (i : List Char) (p : Posting) : Prop := ∃ i' r', i' <:+ i ∧ Parse.posting i' = .ok p r'

/-- the posting `p` was read from the text `t` -/
abbrev ReadFrom (t : List Char) (p : Posting) : Prop := ReadIn t p

theorem ReadIn.up {i i' : List Char} {p : Posting} (h : ReadIn i p) (hs : i <:+ i') : ReadIn i' p := by
  obtain ⟨a, b, h1, h2⟩ := h
  exact ⟨a, b, h1.trans hs, h2⟩

section framework
variable {α β : Type}

/-- every value `p` returns satisfies `P` relative to the input it was run on -/
def YieldsIn (P : List Char → α → Prop) (p : Parser α) : Prop := ∀ i a r, p i = .ok a r → P i a

/-- `P` survives extending the input to the left -/
def Up (P : List Char → α → Prop) : Prop := ∀ i i' a, P i a → i <:+ i' → P i' a

theorem yieldsIn_bind {k : Nat} {P : List Char → β → Prop} {p : Parser α} {f : α → Parser β} (hp : Safe k p)
    (hup : Up P) (hf : ∀ a, YieldsIn P (f a)) : YieldsIn P (p >>- f) := by
  intro i b r h
  simp only [Comb.bind] at h
  cases hpi : p i with
  | ok a r1 =>
    rw [hpi] at h
    simp only [Res.andThen_ok] at h
    have := hp.good i
    rw [hpi] at this
    exact hup r1 i b (hf a r1 b r h) this.1
  | bt _ => rw [hpi] at h; cases h
  | cut _ => rw [hpi] at h; cases h
  | panic _ => rw [hpi] at h; cases h
  | fuel => rw [hpi] at h; cases h

/-- every element `repeat(0.., p)` collects was returned by `p` on a suffix of the loop's input -/
theorem repeat0Loop_elems {p : Parser α} (hp : Safe 1 p) :
    ∀ (n : Nat) (i : List Char) (acc l : List α) (r : List Char), repeat0Loop p n i acc = .ok l r →
      ∀ x ∈ l, x ∈ acc ∨ ∃ i' r', i' <:+ i ∧ p i' = .ok x r' := by
  intro n
  induction n with
  | zero => intro i acc l r h; simp [repeat0Loop] at h
  | succ n ih =>
    intro i acc l r h x hx
    simp only [repeat0Loop] at h
    cases hpi : p i with
    | ok a r1 =>
      rw [hpi] at h
      simp only at h
      split at h
      · cases h
      · have hg := hp.good i
        rw [hpi] at hg
        rcases ih r1 (acc ++ [a]) l r h x hx with h1 | ⟨i', r', h2, h3⟩
        · rcases List.mem_append.1 h1 with h1 | h1
          · exact .inl h1
          · simp only [List.mem_singleton] at h1
            subst h1
            exact .inr ⟨i, r1, List.suffix_refl i, hpi⟩
        · exact .inr ⟨i', r', h2.trans hg.1, h3⟩
    | bt _ =>
      rw [hpi] at h
      simp only [Res.ok.injEq] at h
      rw [← h.1] at hx
      exact .inl hx
    | cut _ => rw [hpi] at h; cases h
    | panic _ => rw [hpi] at h; cases h
    | fuel => rw [hpi] at h; cases h

end framework

/-! ## `transaction`: every posting was read by the posting parser -/

/-- the element of `transaction`'s repetition hands its input, minus the indentation, to the posting parser -/
theorem postItem_read {i r : List Char} {p : Posting}
    (h : preceded (pair (takeWhile1 isSpace) (Comb.not lineEndingOrEof)) (cutErr posting) i = .ok p r) : ReadIn i p := by
  have hs : Safe 1 (pair (takeWhile1 isSpace) (Comb.not lineEndingOrEof)) := by safe_tac
  simp only [preceded, Comb.bind] at h
  cases hq : pair (takeWhile1 isSpace) (Comb.not lineEndingOrEof) i with
  | ok a r1 =>
    rw [hq] at h
    simp only [Res.andThen_ok, cutErr] at h
    have hg := hs.good i
    rw [hq] at hg
    cases hpp : posting r1 with
    | ok p' r' =>
      rw [hpp] at h
      simp only [Res.ok.injEq] at h
      obtain ⟨rfl, rfl⟩ := h
      exact ⟨r1, r', hg.1, hpp⟩
    | bt _ => rw [hpp] at h; cases h
    | cut _ => rw [hpp] at h; cases h
    | panic _ => rw [hpp] at h; cases h
    | fuel => rw [hpp] at h; cases h
  | bt _ => rw [hq] at h; cases h
  | cut _ => rw [hq] at h; cases h
  | panic _ => rw [hq] at h; cases h
  | fuel => rw [hq] at h; cases h

theorem up_posts : Up (fun i (t : Transaction) => ∀ p ∈ t.posts, ReadIn i p) :=
  fun i i' t h hs p hp => (h p hp).up hs

/-- **every posting of a parsed transaction was read by the posting parser inside the transaction's text** -/
theorem transaction_posts : YieldsIn (fun i (t : Transaction) => ∀ p ∈ t.posts, ReadIn i p) transaction := by
  unfold transaction
  refine yieldsIn_bind safe_date up_posts fun d => ?_
  refine yieldsIn_bind (k := 0) (by safe_tac) up_posts fun ed => ?_
  refine yieldsIn_bind (k := 0) (by safe_tac) up_posts fun isShortest => ?_
  refine yieldsIn_bind (k := 0) (by safe_tac) up_posts fun _ => ?_
  refine yieldsIn_bind (k := 0) (by safe_tac) up_posts fun cs => ?_
  refine yieldsIn_bind (k := 0) (by safe_tac) up_posts fun code => ?_
  refine yieldsIn_bind (k := 0) (by safe_tac) up_posts fun payee => ?_
  refine yieldsIn_bind (k := 0) (by safe_tac) up_posts fun md => ?_
  intro i t r h
  simp only [Comb.bind] at h
  cases hrep : repeat0 (preceded (pair (takeWhile1 isSpace) (Comb.not lineEndingOrEof)) (cutErr posting)) i with
  | ok posts r1 =>
    rw [hrep] at h
    simp only [Res.andThen_ok, Comb.pure, Res.ok.injEq] at h
    obtain ⟨rfl, _⟩ := h
    intro p hp
    simp only at hp
    unfold repeat0 at hrep
    rcases repeat0Loop_elems (safe_transaction_elem.mono (by omega)) _ i [] posts r1 hrep p hp with h1 | ⟨i', r', h2, h3⟩
    · simp at h1
    · exact (postItem_read h3).up h2
  | bt _ => rw [hrep] at h; cases h
  | cut _ => rw [hrep] at h; cases h
  | panic _ => rw [hrep] at h; cases h
  | fuel => rw [hrep] at h; cases h

/-! ## `parse_ledger_entry` and `ParsedIter` -/

theorem notTxn_absurd {p : Parser Entry} (hp : Yields NotTxn p) {i r : List Char} {t : Transaction}
    (h : p i = .ok (.txn t) r) : False := hp i _ r h

/-- a transaction entry was returned by the transaction parser on the same input -/
theorem parseLedgerEntry_txn (i r : List Char) (t : Transaction) (h : parseLedgerEntry i = .ok (.txn t) r) :
    transaction i = .ok t r := by
  unfold parseLedgerEntry at h
  cases i with
  | nil => cases h
  | cons c rest =>
    simp only [dispatch] at h
    split at h
    · exact (notTxn_absurd (yields_alt2 (yields_preceded (yields_cutErr notTxn_accountDeclaration))
        (yields_preceded (yields_cutErr notTxn_applyTag))) h).elim
    · split at h
      · exact (notTxn_absurd notTxn_commodityDeclaration h).elim
      · split at h
        · exact (notTxn_absurd notTxn_endApplyTag h).elim
        · split at h
          · exact (notTxn_absurd notTxn_includeDirective h).elim
          · split at h
            · exact (notTxn_absurd notTxn_topComment h).elim
            · split at h
              · simp only [Comb.map] at h
                cases ht : transaction (c :: rest) with
                | ok t' r' =>
                  rw [ht] at h
                  simp only [Res.map_ok, Res.ok.injEq, Entry.txn.injEq] at h
                  obtain ⟨rfl, rfl⟩ := h
                  rfl
                | bt _ => rw [ht] at h; cases h
                | cut _ => rw [ht] at h; cases h
                | panic _ => rw [ht] at h; cases h
                | fuel => rw [ht] at h; cases h
              · cases h

/-- the entries of a parsed text are the entries `ParsedIter` delivered -/
theorem parseEntries_delivered (t : List Char) (es : List Entry) (hp : parseEntries t = .ok es) (e : Entry) (he : e ∈ es) :
    ∃ x ∈ (parseLedgerRun t).1, x.entry = e := by
  unfold parseEntries parseLedger at hp
  cases hr : parseLedgerRun t with
  | mk xs en =>
    rw [hr] at hp
    cases en with
    | done =>
      simp only [Outcome.map', Outcome.ok.injEq] at hp
      rw [← hp] at he
      obtain ⟨x, hx, rfl⟩ := List.mem_map.1 he
      exact ⟨x, hx, rfl⟩
    | error e' => simp [Outcome.map'] at hp
    | panic s => simp [Outcome.map'] at hp
    | fuelOut => simp [Outcome.map'] at hp

/-- **posting_readFrom**: for EVERY text that parses, every posting of every transaction of the parsed entries was
returned by the posting parser of the model on a suffix of the text. -/
theorem posting_readFrom (t : List Char) (es : List Entry) (hp : parseEntries t = .ok es) (txn : Transaction)
    (hm : Entry.txn txn ∈ es) (p : Posting) (hpm : p ∈ txn.posts) : ReadFrom t p := by
  obtain ⟨x, hx, hxe⟩ := parseEntries_delivered t es hp _ hm
  obtain ⟨i1, r, _, h2, _, h4, _, _⟩ := parseLedgerRun_delivered t x hx
  rw [hxe] at h4
  have htx := parseLedgerEntry_txn i1 r txn h4
  exact (transaction_posts i1 txn r htx p hpm).up h2

/-! ## what the posting parser read, field by field -/

/-- nothing is written where the amount would stand: the rest of the line is empty, or begins with `=` (the assertion),
`;` (a comment), LF or CR (the line ends) -/
def NoAmountAt (i : List Char) : Prop :=
  i = [] ∨ ∃ c r, i = c :: r ∧ (c = '=' ∨ c = ';' ∨ c = '\n' ∨ c = '\r')

/-- `= X` is written at `i`: an `=`, blanks, and a text that the expression parser reads as `X` -/
def AssertionAt (i : List Char) (X : VExpr) : Prop :=
  ∃ i' b, i = '=' :: i' ∧ valueExpr (i'.dropWhile isSpace) = .ok X b

/-- no `=` stands at `i` -/
def NoAssertionAt (i : List Char) : Prop := ∀ r, i ≠ '=' :: r

theorem hasPeek_ok {α : Type} {p : Parser α} {i r : List Char} {b : Bool} (h : hasPeek p i = .ok b r) :
    r = i ∧ (b = true → ∃ a r', p i = .ok a r') := by
  unfold hasPeek at h
  cases hp : p i with
  | ok a r' =>
    rw [hp] at h
    simp only [Res.ok.injEq] at h
    exact ⟨h.2.symm, fun _ => ⟨a, r', rfl⟩⟩
  | bt _ =>
    rw [hp] at h
    simp only [Res.ok.injEq] at h
    exact ⟨h.2.symm, fun hb => by rw [← h.1] at hb; cases hb⟩
  | cut _ => rw [hp] at h; cases h
  | panic _ => rw [hp] at h; cases h
  | fuel => rw [hp] at h; cases h

theorem lineEnding_ok_head {i r : List Char} (h : lineEnding i = .ok () r) :
    ∃ c t, i = c :: t ∧ (c = '\n' ∨ c = '\r') := by
  unfold lineEnding at h
  split at h
  · exact ⟨_, _, rfl, .inl rfl⟩
  · exact ⟨_, _, rfl, .inr rfl⟩
  · cases h

theorem lineEndingOrSemi_ok_head {i : List Char} {u : Unit} {r : List Char} (h : lineEndingOrSemi i = .ok u r) :
    ∃ c t, i = c :: t ∧ (c = ';' ∨ c = '\n' ∨ c = '\r') := by
  unfold lineEndingOrSemi alt2 at h
  cases hl : lineEnding i with
  | ok a r' =>
    obtain ⟨c, t, e, hc⟩ := lineEnding_ok_head hl
    exact ⟨c, t, e, .inr hc⟩
  | bt _ =>
    rw [hl] at h
    simp only [void, Comb.map, literal] at h
    cases i with
    | nil => simp [List.isPrefixOf] at h
    | cons c t =>
      by_cases hc : c = ';'
      · exact ⟨c, t, rfl, .inl hc⟩
      · have hc' : ¬ ';' = c := fun e => hc e.symm
        simp [List.isPrefixOf, hc'] at h
  | cut _ => rw [hl] at h; cases h
  | panic _ => rw [hl] at h; cases h
  | fuel => rw [hl] at h; cases h

/-- `block_metadata` only succeeds at the end of the text, at `;`, or at a line end -/
theorem blockMetadata_head {i r : List Char} {md : List Metadata} (h : blockMetadata i = .ok md r) :
    i = [] ∨ ∃ c t, i = c :: t ∧ (c = ';' ∨ c = '\n' ∨ c = '\r') := by
  cases i with
  | nil => exact .inl rfl
  | cons c t => exact .inr ⟨c, t, rfl, Parse.blockMetadata_ok_head h⟩

section inversion
variable {α β γ : Type}

theorem bind_ok {p : Parser α} {f : α → Parser β} {i r : List Char} {b : β} (h : (p >>- f) i = .ok b r) :
    ∃ a r1, p i = .ok a r1 ∧ f a r1 = .ok b r := by
  simp only [Comb.bind] at h
  cases hp : p i with
  | ok a r1 => rw [hp] at h; exact ⟨a, r1, rfl, h⟩
  | bt _ => rw [hp] at h; cases h
  | cut _ => rw [hp] at h; cases h
  | panic _ => rw [hp] at h; cases h
  | fuel => rw [hp] at h; cases h

theorem map_ok' {p : Parser α} {f : α → β} {i r : List Char} {b : β} (h : Comb.map f p i = .ok b r) :
    ∃ a, p i = .ok a r ∧ b = f a := by
  simp only [Comb.map] at h
  cases hp : p i with
  | ok a r1 =>
    rw [hp] at h
    simp only [Res.map_ok, Res.ok.injEq] at h
    exact ⟨a, by rw [h.2], h.1.symm⟩
  | bt _ => rw [hp] at h; cases h
  | cut _ => rw [hp] at h; cases h
  | panic _ => rw [hp] at h; cases h
  | fuel => rw [hp] at h; cases h

theorem terminated_ok {p : Parser α} {q : Parser β} {i r : List Char} {a : α} (h : terminated p q i = .ok a r) :
    ∃ r1 b, p i = .ok a r1 ∧ q r1 = .ok b r := by
  obtain ⟨a', r1, h1, h2⟩ := bind_ok (f := fun a => Comb.map (fun _ => a) q) h
  obtain ⟨b, h3, h4⟩ := map_ok' h2
  subst h4
  exact ⟨r1, b, h1, h3⟩

theorem preceded_ok {p : Parser α} {q : Parser β} {i r : List Char} {b : β} (h : preceded p q i = .ok b r) :
    ∃ a r1, p i = .ok a r1 ∧ q r1 = .ok b r :=
  bind_ok (f := fun _ => q) h

theorem opt_ok {p : Parser α} {i r : List Char} {o : Option α} (h : opt p i = .ok o r) :
    (o = none ∧ r = i) ∨ ∃ a, o = some a ∧ p i = .ok a r := by
  unfold opt at h
  cases hp : p i with
  | ok a r' =>
    rw [hp] at h
    simp only [Res.ok.injEq] at h
    exact .inr ⟨a, h.1.symm, by rw [h.2]⟩
  | bt _ =>
    rw [hp] at h
    simp only [Res.ok.injEq] at h
    exact .inl ⟨h.1.symm, h.2.symm⟩
  | cut _ => rw [hp] at h; cases h
  | panic _ => rw [hp] at h; cases h
  | fuel => rw [hp] at h; cases h

end inversion

theorem space0_ok {i r : List Char} {a : List Char} (h : space0 i = .ok a r) : r = i.dropWhile isSpace := by
  simp only [space0, takeWhile0, Res.ok.injEq] at h
  exact h.2.symm

theorem char_ok {c : Char} {i r : List Char} {a : Char} (h : char c i = .ok a r) : i = c :: r := by
  unfold char oneOf at h
  cases i with
  | nil => cases h
  | cons d t =>
    simp only at h
    by_cases hd : (d == c) = true
    · simp only [hd, if_true, Res.ok.injEq] at h
      rw [← h.2, beq_iff_eq.1 hd]
    · simp [hd] at h

/-- the balance parser: `=`, blanks, a value expression, blanks -/
theorem balance_ok {i r : List Char} {X : VExpr}
    (h : delimited (pair (char '=') space0) valueExpr space0 i = .ok X r) : AssertionAt i X := by
  obtain ⟨a, r1, h1, h2⟩ := preceded_ok (q := terminated valueExpr space0) h
  obtain ⟨c, r0, h3, h4⟩ := bind_ok (f := fun a => Comb.map (fun b => (a, b)) space0) h1
  obtain ⟨sp, h5, _⟩ := map_ok' h4
  obtain ⟨r2, _, h6, _⟩ := terminated_ok h2
  have e1 := char_ok h3
  have e2 := space0_ok h5
  subst e1
  subst e2
  exact ⟨r0, r2, rfl, h6⟩

/-- the amount parser starts with the value expression, whose value is the `amount` field -/
theorem postingAmount_ok {i r : List Char} {pa : PostingAmount}
    (h : terminated postingAmount space0 i = .ok pa r) : ∃ r1, valueExpr i = .ok pa.amount r1 := by
  obtain ⟨r1, _, h1, _⟩ := terminated_ok h
  unfold postingAmount at h1
  obtain ⟨v, r2, h2, h3⟩ := bind_ok h1
  obtain ⟨r3, _, h4, _⟩ := terminated_ok h2
  have hy : Yields (fun (q : PostingAmount) => q.amount = v)
      (lot >>- fun l => hasPeek (char '@') >>- fun isAt => hasPeek (literal ['@', '@']) >>- fun isDoubleAt =>
        cond isAt (condElse isDoubleAt totalCost rateCost) >>- fun cost =>
        Comb.pure { amount := v, cost := cost, lot := l }) :=
    yields_bind fun _ => yields_bind fun _ => yields_bind fun _ => yields_bind fun _ => yields_pure rfl
  have := hy r2 pa r1 h3
  rw [this]
  exact ⟨r3, h4⟩

theorem safe_suffix {α : Type} {k : Nat} {p : Parser α} (hp : Safe k p) {i r : List Char} {a : α}
    (h : p i = .ok a r) : r <:+ i := by
  have := hp.good i
  rw [h] at this
  exact this.1

/-- **posting_written**: what the characters of a posting line are, given what the parser made of it.  `i1` is the rest of
the line after the clear mark, the account and the blanks after it; `i2` the rest after the amount part. -/
theorem posting_written (i r : List Char) (p : Posting) (h : posting i = .ok p r) :
    ∃ i0 i1 i2, i0 <:+ i ∧ i1 <:+ i0 ∧ i2 <:+ i1 ∧ postingAccount i0 = .ok p.account i1 ∧
      (p.amount = none → NoAmountAt i1 ∧ i2 = i1) ∧
      (∀ pa, p.amount = some pa → ∃ r1, valueExpr i1 = .ok pa.amount r1) ∧
      (p.balance = none → NoAssertionAt i2) ∧
      (∀ X, p.balance = some X → AssertionAt i2 X) := by
  unfold posting at h
  obtain ⟨cs, i0, h0, h1⟩ := bind_ok h
  obtain ⟨account, i1, h2, h3⟩ := bind_ok h1
  have hs0 : i0 <:+ i := safe_suffix (k := 0) (by safe_tac) h0
  have hs1 : i1 <:+ i0 := safe_suffix safe_postingAccount h2
  obtain ⟨shortcut, i1', h4, h5⟩ := bind_ok h3
  obtain ⟨e1, hsc⟩ := hasPeek_ok h4
  subst e1
  cases shortcut with
  | true =>
    simp only [if_true] at h5
    obtain ⟨md, r', _, h6⟩ := bind_ok h5
    simp only [Comb.pure, Res.ok.injEq] at h6
    obtain ⟨rfl, _⟩ := h6
    obtain ⟨u, r'', hl⟩ := hsc rfl
    obtain ⟨c, t, e, hc⟩ := lineEndingOrSemi_ok_head hl
    refine ⟨i0, i1', i1', hs0, hs1, List.suffix_refl _, h2, ?_, ?_, ?_, ?_⟩
    · exact fun _ => ⟨.inr ⟨c, t, e, .inr hc⟩, rfl⟩
    · intro pa hpa; cases hpa
    · intro _ r0 hr0
      rw [hr0] at e
      simp only [List.cons.injEq] at e
      rcases hc with hc | hc | hc <;> rw [← e.1] at hc <;> revert hc <;> decide
    · intro X hX; cases hX
  | false =>
    simp only [Bool.false_eq_true, if_false] at h5
    obtain ⟨amount, i2, h6, h7⟩ := bind_ok h5
    obtain ⟨balance, i3, h8, h9⟩ := bind_ok h7
    obtain ⟨md, r', h10, h11⟩ := bind_ok h9
    simp only [Comb.pure, Res.ok.injEq] at h11
    obtain ⟨rfl, _⟩ := h11
    simp only
    -- where `block_metadata` succeeded, no `=` stands
    have hmd := blockMetadata_head h10
    have hnoeq : NoAssertionAt i3 := by
      intro r0 hr0
      rcases hmd with hmd | ⟨c, t, e, hc⟩
      · rw [hmd] at hr0; cases hr0
      · rw [hr0] at e
        simp only [List.cons.injEq] at e
        rcases hc with hc | hc | hc <;> rw [← e.1] at hc <;> revert hc <;> decide
    have hbal : (balance = none → NoAssertionAt i2) ∧ (∀ X, balance = some X → AssertionAt i2 X) := by
      rcases opt_ok h8 with ⟨hb, hi⟩ | ⟨X, hb, hX⟩
      · subst hb; subst hi
        refine ⟨fun _ => hnoeq, ?_⟩
        intro X hX; cases hX
      · subst hb
        refine ⟨?_, ?_⟩
        · intro hn; cases hn
        · intro X' hX'; cases hX'; exact balance_ok hX
    rcases opt_ok h6 with ⟨ha, hi⟩ | ⟨pa, ha, hpa⟩
    · subst ha; subst hi
      refine ⟨i0, i2, i2, hs0, hs1, List.suffix_refl _, h2, fun _ => ⟨?_, rfl⟩, ?_, hbal.1, hbal.2⟩
      rotate_left
      · intro pa hpa; cases hpa
      -- the assertion or the metadata block starts right here
      rcases opt_ok h8 with ⟨hb, hi⟩ | ⟨X, hb, hX⟩
      · subst hi
        rcases hmd with hmd | ⟨c, t, e, hc⟩
        · exact .inl hmd
        · exact .inr ⟨c, t, e, .inr hc⟩
      · obtain ⟨i', b, e, _⟩ := balance_ok hX
        exact .inr ⟨'=', i', e, .inl rfl⟩
    · subst ha
      refine ⟨i0, i1', i2, hs0, hs1, safe_suffix (k := 0) (by safe_tac) h6, h2, ?_, ?_, hbal.1, hbal.2⟩
      · intro hn; cases hn
      intro pa' hpa'
      cases hpa'
      exact postingAmount_ok hpa

/-- **text_written**: for EVERY text that parses, every posting `p` of every transaction of the parsed entries stands in
the text — at the suffix `i0` the account parser read `p.account`, leaving `i1`; after the amount part `i2` remains — and
* `p.amount = none` ⇒ `i1` is empty or begins with `=`, `;`, LF or CR (nothing is written for the amount), and `i2 = i1`;
* `p.amount = some a` ⇒ the expression parser reads `a.amount` at `i1`;
* `p.balance = some X` ⇒ `i2` is `=`, blanks, and a text the expression parser reads as `X`;
* `p.balance = none` ⇒ `i2` does not begin with `=`.
So "the posting written without amount" is the one with `amount = none`, and "`= X` written in the text" is the one
with `balance = some X` — facts about the parser model, not assumptions. -/
theorem text_written (t : List Char) (es : List Entry) (hp : parseEntries t = .ok es) (txn : Transaction)
    (hm : Entry.txn txn ∈ es) (p : Posting) (hpm : p ∈ txn.posts) :
    ∃ i0 i1 i2, i0 <:+ t ∧ i1 <:+ i0 ∧ i2 <:+ i1 ∧ postingAccount i0 = .ok p.account i1 ∧
      (p.amount = none → NoAmountAt i1 ∧ i2 = i1) ∧
      (∀ pa, p.amount = some pa → ∃ r1, valueExpr i1 = .ok pa.amount r1) ∧
      (p.balance = none → NoAssertionAt i2) ∧
      (∀ X, p.balance = some X → AssertionAt i2 X) := by
  obtain ⟨i, r, hi, hpost⟩ := posting_readFrom t es hp txn hm p hpm
  obtain ⟨i0, i1, i2, h0, h1, h2, rest⟩ := posting_written i r p hpost
  exact ⟨i0, i1, i2, h0.trans hi, h1, h2, rest⟩

/-- a bare posting line (`bare p`, the hypothesis of `C03_text_omitted`): after the account nothing but a comment or the
end of the line is written -/
theorem text_written_bare (t : List Char) (es : List Entry) (hp : parseEntries t = .ok es) (txn : Transaction)
    (hm : Entry.txn txn ∈ es) (p : Posting) (hpm : p ∈ txn.posts) (hb : bare p = true) :
    ∃ i0 i1, i0 <:+ t ∧ i1 <:+ i0 ∧ postingAccount i0 = .ok p.account i1 ∧
      (i1 = [] ∨ ∃ c r, i1 = c :: r ∧ (c = ';' ∨ c = '\n' ∨ c = '\r')) := by
  obtain ⟨i0, i1, i2, h0, h1, _, hacc, ha, _, hbn, _⟩ := text_written t es hp txn hm p hpm
  simp only [bare, Bool.and_eq_true, Option.isNone_iff_eq_none] at hb
  obtain ⟨hna, e⟩ := ha hb.1
  rw [e] at hbn
  refine ⟨i0, i1, h0, h1, hacc, ?_⟩
  rcases hna with h | ⟨c, r, e, hc⟩
  · exact .inl h
  · rcases hc with hc | hc
    · exact absurd (hc ▸ e) (hbn hb.2 r)
    · exact .inr ⟨c, r, e, hc⟩

end Okane.BookText
