import Okane.Lemmas.DocAcceptPosting
/-!
# Acceptance of the documented grammar — transactions

* `headerTail_accept` — the part of `transaction::transaction` between the date(s) and the metadata block (clear mark,
  code, payee) accepts EVERY line text without CR / LF (a `(` that is not closed on the line is no code: `paren_str`
  fails at the line end and the text is the payee), and stops at the first `;` after the code or at the line end;
* `transaction_accept` — `transaction::transaction` accepts a documented `transaction` that is followed by the end of the
  text, a blank line, or a line that begins in column one.
-/
set_option linter.unusedSimpArgs false
set_option linter.unusedVariables false
namespace Okane.DocAccept
open Okane Okane.Spec.Doc Okane.Comb Okane.Literal
open Okane.ExprSyntax (skipSpaces)
open Okane.Unparse (StartsEntry)

local notation "𝔸" => Dialect.accepted

/-! ## the header line after the date -/

theorem lineEnd_stop_space {T : List Char} (h : LineEnd T) : Stop Comb.isSpace T :=
  lineEnd_stop (by
    intro c hc
    simp only [isEol, Bool.or_eq_true, beq_iff_eq] at hc
    rcases hc with rfl | rfl <;> decide) h

/-- the text after at most one clear mark and the blanks that follow it -/
def afterMark (L : List Char) : List Char :=
  match L with
  | c :: r => if c == '*' || c == '!' then stripSp r else L
  | [] => []

theorem dropWhile_head_false {q : Char → Bool} : ∀ {l : List Char} {c : Char} {t : List Char},
    l.dropWhile q = c :: t → q c = false
  | [], _, _, h => by cases h
  | a :: l, c, t, h => by
    cases ha : q a with
    | false =>
      simp only [List.dropWhile, ha] at h
      injection h with e _
      rw [← e]; exact ha
    | true =>
      simp only [List.dropWhile, ha] at h
      exact dropWhile_head_false h

/-- `clear_state` at the beginning of a line text -/
theorem clearState_line {L T : List Char} (hL : NoNL L) (hT : LineEnd T) :
    ∃ cs L1, Parse.clearState (L ++ T) = .ok cs (L1 ++ T) ∧ NoNL L1 ∧ L1 = afterMark L := by
  have hsp : ∀ l : List Char, NoNL l → space0 (l ++ T) = .ok (l.takeWhile Comb.isSpace) (stripSp l ++ T) ∧
      NoNL (stripSp l) := by
    intro l hl
    have := takeWhile0_line (q := Comb.isSpace) (by
      intro c hc
      simp only [isEol, Bool.or_eq_true, beq_iff_eq] at hc
      rcases hc with rfl | rfl <;> decide) hl hT
    exact ⟨this.1, this.2.1⟩
  cases L with
  | nil =>
    refine ⟨.uncleared, [], clearState_none ?_, NoNL.nil, rfl⟩
    intro c t e
    rcases hT with rfl | ⟨c', t', rfl, hc'⟩
    · cases e
    · simp only [List.nil_append] at e
      injection e with e _
      subst e
      exact ⟨by intro e; subst e; revert hc'; decide, by intro e; subst e; revert hc'; decide⟩
  | cons c r =>
    have hr : NoNL r := fun d hd => hL d (by simp [hd])
    by_cases h1 : c = '*'
    · subst h1
      obtain ⟨h2, h3⟩ := hsp r hr
      exact ⟨.cleared, stripSp r, by simp [Parse.clearState, opt, alt2, h2], h3, by simp [afterMark]⟩
    · by_cases h2 : c = '!'
      · subst h2
        obtain ⟨h3, h4⟩ := hsp r hr
        exact ⟨.pending, stripSp r, by
          simp [Parse.clearState, opt, alt2, h3, char_cons_ne (c := '*') (d := '!') (by decide)], h4,
          by simp [afterMark]⟩
      · refine ⟨.uncleared, c :: r, clearState_none ?_, hL, by simp [afterMark, h1, h2]⟩
        intro c' t e
        simp only [List.cons_append] at e
        injection e with e _
        subst e
        exact ⟨h1, h2⟩

/-- a list that contains `)` splits at its first `)` -/
theorem split_at_close {r : List Char} (h : r.contains ')' = true) :
    ∃ a b, r = a ++ ')' :: b ∧ ∀ c ∈ a, (c == ')') = false := by
  induction r with
  | nil => simp at h
  | cons c t ih =>
    by_cases hc : c = ')'
    · subst hc; exact ⟨[], t, rfl, by simp⟩
    · have : t.contains ')' = true := by
        simp only [List.contains_cons, Bool.or_eq_true, beq_iff_eq] at h
        rcases h with h | h
        · exact absurd h.symm hc
        · exact h
      obtain ⟨a, b, rfl, ha⟩ := ih this
      refine ⟨c :: a, b, rfl, ?_⟩
      intro d hd
      rcases List.mem_cons.mp hd with rfl | hd
      · simpa using hc
      · exact ha d hd

/-- the optional code: `(…)` up to the first `)` of the line; a `(` without `)` on its line is no code -/
theorem code_line {L1 T : List Char} (hL : NoNL L1) (hT : LineEnd T) :
    ∃ code L2, opt (terminated Parse.parenStr space0) (L1 ++ T) = .ok code (L2 ++ T) ∧ NoNL L2 := by
  by_cases hp : ∃ r, L1 = '(' :: r
  · obtain ⟨r, rfl⟩ := hp
    have hr : NoNL r := fun d hd => hL d (by simp [hd])
    have hstop : ∀ {a : List Char}, NoNL a → (∀ c ∈ a, (c == ')') = false) → ∀ c ∈ a, Parse.isParenStrStop c = false := by
      intro a ha h c hc
      have h1 := ha.eol c hc
      simp only [isEol, Bool.or_eq_false_iff] at h1
      simp [Parse.isParenStrStop, h c hc, h1.1, h1.2]
    by_cases hcl : r.contains ')' = true
    · obtain ⟨a, b, rfl, ha⟩ := split_at_close hcl
      have hb : NoNL b := fun d hd => hr d (by simp [hd])
      have hann : NoNL a := fun d hd => hr d (by simp [hd])
      have htt : takeTill0 Parse.isParenStrStop (a ++ (')' :: (b ++ T))) = .ok a (')' :: (b ++ T)) :=
        takeTill0_append (hstop hann ha) (by intro c r e; injection e with e _; subst e; rfl)
      obtain ⟨hsp, hb', _⟩ := takeWhile0_line (q := Comb.isSpace) (by
        intro c hc
        simp only [isEol, Bool.or_eq_true, beq_iff_eq] at hc
        rcases hc with rfl | rfl <;> decide) hb hT
      refine ⟨some a, b.dropWhile Comb.isSpace, opt_ok ?_, hb'⟩
      simp only [terminated_apply, Parse.parenStr, Parse.paren, delimited_apply, List.cons_append, List.append_assoc,
        char_cons_self, Res.andThen_ok, htt, Res.map_ok, space0, hsp]
    · -- no `)` on the line: the text up to the line end is taken, the closing `)` is missing, `opt` backtracks
      have hno : ∀ c ∈ r, (c == ')') = false := by
        intro c hc
        cases h : c == ')' with
        | false => rfl
        | true =>
          exfalso
          apply hcl
          have : c = ')' := by simpa using h
          subst this
          exact List.contains_iff_mem.mpr hc
      have htt : takeTill0 Parse.isParenStrStop (r ++ T) = .ok r T :=
        takeTill0_append (hstop hr hno) (by
          intro c t e
          rcases hT with rfl | ⟨c', t', rfl, hc'⟩
          · cases e
          · injection e with e _
            subst e
            simp only [isEol, Bool.or_eq_true, beq_iff_eq] at hc'
            rcases hc' with rfl | rfl <;> rfl)
      have hclose : char ')' T = .bt T := by
        rcases hT with rfl | ⟨c, t, rfl, hc⟩
        · rfl
        · exact char_cons_ne (by intro e; subst e; revert hc; decide) t
      refine ⟨none, '(' :: r, opt_bt (q := T) ?_, hL⟩
      simp only [terminated_apply, Parse.parenStr, Parse.paren, delimited_apply, List.cons_append,
        char_cons_self, Res.andThen_ok, htt, hclose, Res.andThen_bt, Res.map_bt]
  · refine ⟨none, L1, opt_bt (q := L1 ++ T) ?_, hL⟩
    have : char '(' (L1 ++ T) = .bt (L1 ++ T) := by
      cases L1 with
      | nil =>
        rcases hT with rfl | ⟨c, t, rfl, hc⟩
        · rfl
        · exact char_cons_ne (by intro e; subst e; revert hc; decide) t
      | cons c t => exact char_cons_ne (fun e => hp ⟨t, by rw [e]⟩) _
    simp only [terminated_apply, Parse.parenStr, Parse.paren, delimited_apply, this, Res.andThen_bt]

/-- the optional payee: up to the first `;` or the end of the line -/
theorem payee_line {L2 T : List Char} (hL : NoNL L2) (hT : LineEnd T) :
    ∃ payee M, opt (map Parse.trimEnd Parse.tillLineEndingOrSemi) (L2 ++ T) = .ok payee (M ++ T) ∧ NoNL M ∧
      (M = [] ∨ ∃ t, M = ';' :: t) := by
  let q : Char → Bool := fun c => !(c == ';' || c == '\r' || c == '\n')
  have hq : ∀ c, isEol c = true → q c = false := by
    intro c hc
    simp only [isEol, Bool.or_eq_true, beq_iff_eq] at hc
    rcases hc with rfl | rfl <;> rfl
  have hM : NoNL (L2.dropWhile q) := NoNL.of_suffix (List.dropWhile_suffix q) hL
  have hMhead : L2.dropWhile q = [] ∨ ∃ t, L2.dropWhile q = ';' :: t := by
    cases hd : L2.dropWhile q with
    | nil => exact Or.inl rfl
    | cons c t =>
      right
      have hqc : q c = false := dropWhile_head_false hd
      have hc : isEol c = false := hM.eol c (by rw [hd]; simp)
      simp only [q, Bool.not_eq_false', Bool.or_eq_true, beq_iff_eq] at hqc
      rcases hqc with (rfl | rfl) | rfl
      · exact ⟨t, rfl⟩
      · exact absurd hc (by decide)
      · exact absurd hc (by decide)
  rcases takeWhile1_line (α := List Char) (q := q) hq hL hT with ⟨a, s2, h1, hs2, _⟩ | ⟨z, hz⟩
  · -- some payee
    have hst := lineEnd_stop hq hT
    have hdrop : (L2 ++ T).dropWhile q = L2.dropWhile q ++ T := dropWhile_append_lineEnd hst
    have h1' : takeWhile1 q (L2 ++ T) = .ok ((L2 ++ T).takeWhile q) (L2.dropWhile q ++ T) := by
      cases hl : L2 ++ T with
      | nil => rw [hl] at h1; simp [takeWhile1] at h1
      | cons c t =>
        rw [hl] at h1 hdrop
        by_cases hc : q c = true
        · simp only [takeWhile1, hc, if_true, hdrop]
        · simp [takeWhile1, hc] at h1
    refine ⟨some (Parse.trimEnd ((L2 ++ T).takeWhile q)), L2.dropWhile q, opt_ok ?_, hM, hMhead⟩
    simp only [map_apply, Parse.tillLineEndingOrSemi, takeTill1]
    show (takeWhile1 q (L2 ++ T)).map Parse.trimEnd = _
    rw [h1']
    rfl
  · -- none: the text begins with `;` or is empty
    have hL2 : L2.dropWhile q = L2 := by
      cases L2 with
      | nil => rfl
      | cons c t =>
        cases hc : q c with
        | false => simp [List.dropWhile, hc]
        | true =>
          exfalso
          simp [takeWhile1, hc] at hz
    refine ⟨none, L2, opt_bt (q := z) ?_, hL, by rw [← hL2]; exact hMhead⟩
    simp only [map_apply, Parse.tillLineEndingOrSemi, takeTill1]
    show (takeWhile1 q (L2 ++ T)).map Parse.trimEnd = _
    rw [hz]
    rfl

/-- **the header line after the date**: clear mark, code and payee accept every line text, and stop at the first `;`
after the code, or at the end of the line -/
theorem headerTail_accept {L T : List Char} (hL : NoNL L) (hT : LineEnd T) :
    ∃ cs code payee M, NoNL M ∧ (M = [] ∨ ∃ t, M = ';' :: t) ∧
      ∀ {β : Type} (k : ClearState → Option (List Char) → Option (List Char) → Parser β),
        (Parse.clearState >>- fun cs => opt (terminated Parse.parenStr space0) >>- fun code =>
          opt (map Parse.trimEnd Parse.tillLineEndingOrSemi) >>- fun payee => k cs code payee) (L ++ T) =
        k cs code payee (M ++ T) := by
  obtain ⟨cs, L1, h1, hL1, hdef⟩ := clearState_line hL hT
  obtain ⟨code, L2, h2, hL2⟩ := code_line hL1 hT
  obtain ⟨payee, M, h3, hM, hMhead⟩ := payee_line hL2 hT
  refine ⟨cs, code, payee, M, hM, hMhead, ?_⟩
  intro β k
  simp only [bind_apply, h1, Res.andThen_ok, h2, h3]

/-- a comment is a `metadata` (reading R5): `;` and any text without CR / LF -/
theorem metadata_of_text {s r : List Char} (hs : NoNL s) : metadata (';' :: (s ++ r)) r :=
  ⟨s ++ r, rfl, Or.inr (Or.inr (star_chr_of s r hs))⟩

/-! ## the element of `transaction`'s `repeat(0..)` -/

/-- the end of the text, a blank line, or (below) a line that begins in column one -/
def BlankStart (r : List Char) : Prop :=
  ∃ s x, r = s ++ x ∧ (∀ c ∈ s, Comb.isSpace c = true) ∧ (x = [] ∨ (∃ t, x = '\n' :: t) ∨ ∃ t, x = '\r' :: '\n' :: t)

/-- what may follow a directive -/
def DirFollow (r : List Char) : Prop := BlankStart r ∨ StartsEntry r

abbrev postingElem : Parser Posting :=
  preceded (pair (takeWhile1 Comb.isSpace) (Comb.not Parse.lineEndingOrEof)) (cutErr Parse.posting)

theorem DirFollow.noMetaCont {r : List Char} (h : DirFollow r) : NoMetaCont r := by
  intro s' x' e hs'
  rcases h with ⟨s, x, rfl, hs, hx⟩ | ⟨c, t, rfl, _, _, h3, h4⟩
  · have h1 : (s ++ x).dropWhile Comb.isSpace = x :=
      dropWhile_append_stop hs (by rcases hx with rfl | ⟨t, rfl⟩ | ⟨t, rfl⟩ <;> simp [Comb.isSpace])
    have h2 : (s' ++ ';' :: x').dropWhile Comb.isSpace = ';' :: x' := dropWhile_append_stop hs' (by simp [Comb.isSpace])
    rw [e, h2] at h1
    rcases hx with rfl | ⟨t, rfl⟩ | ⟨t, rfl⟩ <;> cases h1
  · cases s' with
    | nil => rfl
    | cons d t' =>
      injection e with e _
      have := hs' d (by simp)
      rw [← e] at this
      simp [Comb.isSpace, h3, h4] at this

theorem DirFollow.elem_bt {r : List Char} (h : DirFollow r) : ∃ z, postingElem r = .bt z := by
  rcases h with ⟨s, x, rfl, hs, hx⟩ | ⟨c, t, rfl, _, _, h3, h4⟩
  · have hstx : Stop Comb.isSpace x := by rcases hx with rfl | ⟨t, rfl⟩ | ⟨t, rfl⟩ <;> simp [Comb.isSpace]
    by_cases hne : s = []
    · subst hne
      exact ⟨x, by simp [postingElem, takeWhile1_stop hstx]⟩
    · have h1 : takeWhile1 Comb.isSpace (s ++ x) = .ok s x := takeWhile1_append hne hs hstx
      have h2 : ∃ x', Parse.lineEndingOrEof x = .ok () x' := by
        rcases hx with rfl | ⟨t, rfl⟩ | ⟨t, rfl⟩
        · exact ⟨[], by simp [Parse.lineEndingOrEof, alt2, lineEnding, eof]⟩
        · exact ⟨t, by simp [Parse.lineEndingOrEof, alt2, lineEnding]⟩
        · exact ⟨t, by simp [Parse.lineEndingOrEof, alt2, lineEnding]⟩
      obtain ⟨x', h2⟩ := h2
      exact ⟨x, by simp only [postingElem, preceded_apply, pair_apply, h1, Res.andThen_ok, not_ok h2, Res.map_bt,
        Res.andThen_bt]⟩
  · exact ⟨c :: t, by
      have : takeWhile1 Comb.isSpace (c :: t) = .bt (c :: t) := takeWhile1_stop (by simp [Comb.isSpace, h3, h4])
      simp [postingElem, this]⟩

/-- the head of a posting line, after its indentation: a clear mark or the first character of the account -/
theorem postingLine_parts {i pl : List Char} (h : postingLine 𝔸 i pl) :
    ∃ s i1 i2 i3, i = s ++ i1 ∧ s ≠ [] ∧ (∀ c ∈ s, Comb.isSpace c = true) ∧ G.opt (clearState ⬝ G.star sp) i1 i2 ∧
      (account.sat (𝔸).postingAccountOk) i2 i3 ∧ G.opt (postingValue 𝔸) i3 pl ∧
      ∃ c t, i1 = c :: t ∧ isNoSp c = true ∧ c ≠ ';' := by
  obtain ⟨i1, hsp, i2, hclear, i3, hacct, hpv⟩ := h
  obtain ⟨s, rfl, hne, hs⟩ := plus_sp hsp
  refine ⟨s, i1, i2, i3, rfl, hne, hs, hclear, hacct, hpv, ?_⟩
  rcases hclear with ⟨k, hc, _⟩ | rfl
  · obtain ⟨c, rfl, hmark⟩ := clearState_doc hc
    exact ⟨c, k, rfl, by rcases hmark with rfl | rfl <;> decide, by rcases hmark with rfl | rfl <;> decide⟩
  · obtain ⟨hacc, sa, hsa, hok⟩ := hacct
    obtain ⟨c, t, rfl, hc⟩ := account_head hacc
    refine ⟨c, t, rfl, hc, ?_⟩
    intro e
    subst e
    simp only [Dialect.accepted, Bool.and_eq_true, Bool.not_eq_true'] at hok
    cases sa with
    | nil =>
      simp only [List.nil_append] at hsa
      obtain ⟨w0, ws, he, ⟨hne', _⟩, _⟩ := account_words hacc
      have := congrArg List.length he
      rw [← hsa] at this
      have : 0 < w0.length := List.length_pos_iff.mpr hne'
      simp at *
      omega
    | cons d sa' =>
      injection hsa with e _
      subst e
      simp at hok

/-- **one posting** as an element of the transaction's loop -/
theorem postingElem_accept {i m : List Char} (h : posting 𝔸 i m) (hm : NoMetaCont m) :
    ∃ a, postingElem i = .ok a m ∧ m.length < i.length := by
  obtain ⟨pl, hline, hblock⟩ := h
  obtain ⟨s, i1, i2, i3, rfl, hne, hs, hclear, hacct, hpv, c, t, rfl, hc, _⟩ := postingLine_parts hline
  obtain ⟨h1, h2, h3, h4⟩ := (isNoSp_iff c).mp hc
  have hst : Stop Comb.isSpace (c :: t) := by simp [Comb.isSpace, h1, h2]
  have htw : takeWhile1 Comb.isSpace (s ++ c :: t) = .ok s (c :: t) := takeWhile1_append hne hs hst
  have hnot : Comb.not Parse.lineEndingOrEof (c :: t) = .ok () (c :: t) :=
    not_bt (lineEndingOrEof_bt (by simp [isEol, h3, h4]))
  obtain ⟨p, hp⟩ := posting_accept hclear hacct hpv hblock hm
  have hres : postingElem (s ++ c :: t) = .ok p m := by
    simp only [postingElem, preceded_apply, pair_apply, htw, Res.andThen_ok, hnot, Res.map_ok, cutErr_ok hp]
  have := Safe.length Parse.safe_transaction_elem hres
  exact ⟨p, hres, by omega⟩

theorem posting_noMetaCont {i m : List Char} (h : posting 𝔸 i m) : NoMetaCont i := by
  obtain ⟨pl, hline, _⟩ := h
  obtain ⟨s, i1, i2, i3, rfl, hne, hs, _, _, _, c, t, rfl, hc, hsemi⟩ := postingLine_parts hline
  intro s' x' e hs'
  obtain ⟨h1, h2, _, _⟩ := (isNoSp_iff c).mp hc
  have e1 : (s ++ c :: t).dropWhile Comb.isSpace = c :: t := dropWhile_append_stop hs (by simp [Comb.isSpace, h1, h2])
  have e2 : (s' ++ ';' :: x').dropWhile Comb.isSpace = ';' :: x' := dropWhile_append_stop hs' (by simp [Comb.isSpace])
  rw [e, e2] at e1
  injection e1 with e1 _
  exact absurd e1.symm hsemi

/-! ## `transaction` -/

theorem oneLine_clearState : OneLine clearState := oneLine_alt (oneLine_lit _ (by decide)) (oneLine_lit _ (by decide))

theorem oneLine_note : OneLine
    (G.opt (clearState ⬝ G.star sp) ⬝ G.opt (transactionCode ⬝ G.star sp) ⬝ payee) := by
  have hsp := oneLine_star oneLine_sp
  refine oneLine_seq (oneLine_opt (oneLine_seq oneLine_clearState hsp)) (oneLine_seq (oneLine_opt (oneLine_seq ?_ hsp)) ?_)
  · refine oneLine_seq (oneLine_lit _ (by decide)) (oneLine_seq hsp (oneLine_seq (oneLine_star (oneLine_chr ?_))
      (oneLine_seq hsp (oneLine_lit _ (by decide)))))
    intro c hc
    simp only [Bool.not_eq_true', Bool.or_eq_false_iff] at hc
    simp [isNoNewLine, hc.1.2, hc.2]
  · refine oneLine_star (oneLine_chr ?_)
    intro c hc
    simp only [Bool.not_eq_true', Bool.or_eq_false_iff] at hc
    simp [isNoNewLine, hc.1.1, hc.1.2]

/-- the `Transaction` value built at the end of `transaction::transaction` -/
def mkTxn (d : Date) (ed : Option Date) (cs : ClearState) (code payee : Option (List Char)) (posts : List Posting)
    (md : List Metadata) : Transaction :=
  { date := d, effectiveDate := ed, clear := cs, code := code.map String.ofList,
    payee := String.ofList (payee.getD []), posts := posts, metadata := md }

/-- the part of `transaction::transaction` after the dates -/
def txnTail (d : Date) (ed : Option Date) : Parser Transaction :=
  hasPeek (Parse.lineEndingOrEof <|| void (char ';')) >>- fun isShortest =>
  Comb.cond (!isShortest) space1 >>- fun _ =>
  Parse.clearState >>- fun cs =>
  opt (terminated Parse.parenStr space0) >>- fun code =>
  opt (map Parse.trimEnd Parse.tillLineEndingOrSemi) >>- fun payee =>
  Parse.blockMetadata >>- fun md =>
  repeat0 postingElem >>- fun posts =>
  pure (mkTxn d ed cs code payee posts md)

theorem transaction_eq : Parse.transaction =
    (Parse.date >>- fun d => opt (preceded (char '=') Parse.date) >>- fun ed => txnTail d ed) := rfl

/-- **`transaction::transaction` accepts a documented `transaction`** followed by the end of the text, a blank line or a
line that begins in column one -/
theorem transaction_accept {i r : List Char} (h : transaction 𝔸 i r) (hr : DirFollow r) :
    ∃ t, Parse.transaction i = .ok t r := by
  obtain ⟨h3, ⟨d1, ⟨d0, hdate, hed⟩, d2, hnote, htail⟩, p0, hmeta, hposts⟩ := h
  -- the postings
  have hp0 : NoMetaCont p0 := star_first (g := posting 𝔸) (F := NoMetaCont) (fun _ _ h => posting_noMetaCont h) hposts
    hr.noMetaCont
  obtain ⟨posts, hposts'⟩ := repeat0_star (p := postingElem) (g := posting 𝔸) NoMetaCont
    (fun _ _ h hm => postingElem_accept h hm) (fun _ _ h => posting_noMetaCont h) hposts hr.noMetaCont hr.elem_bt
  -- the end of the header line: an inline metadata (or nothing) and the line end
  obtain ⟨L0, T, hd2, hL0, hL0head, hT⟩ : ∃ L0 T, d2 = L0 ++ T ∧ NoNL L0 ∧ (L0 = [] ∨ ∃ t, L0 = ';' :: t) ∧
      newLine T h3 := by
    rcases htail with hnl | ⟨x, hm, hnl⟩
    · exact ⟨[], d2, rfl, NoNL.nil, Or.inl rfl, hnl⟩
    · obtain ⟨s, rfl, hs⟩ := metadata_text hm
      exact ⟨';' :: s, x, rfl, by
        intro c hc
        rcases List.mem_cons.mp hc with rfl | hc
        · decide
        · exact hs c hc, Or.inr ⟨s, rfl⟩, hnl⟩
  have hTend := lineEnd_of_newLine hT
  have hTstop := lineEnd_stop_space hTend
  have hd2stop : Stop Comb.isSpace d2 ∧ Stop Char.isDigit d2 ∧ ∀ t, d2 ≠ '=' :: t := by
    rw [hd2]
    rcases hL0head with rfl | ⟨t, rfl⟩
    · rcases hTend with rfl | ⟨c, t, rfl, hc⟩
      · exact ⟨by simp, by simp, by intro t e; cases e⟩
      · simp only [isEol, Bool.or_eq_true, beq_iff_eq] at hc
        rcases hc with rfl | rfl <;>
          exact ⟨by simp [Comb.isSpace], by simp, by intro t e; cases e⟩
    · exact ⟨by simp [Comb.isSpace], by simp, by intro t e; cases e⟩
  -- the block of metadata, from any `M ++ T`
  have hblock : ∀ M, NoNL M → (M = [] ∨ ∃ t, M = ';' :: t) → ∃ ms, Parse.blockMetadata (M ++ T) = .ok ms p0 := by
    intro M hM hMhead
    apply blockMetadata_accept _ hp0
    rcases hMhead with rfl | ⟨t, rfl⟩
    · exact ⟨T, Or.inr rfl, h3, hT, hmeta⟩
    · exact ⟨T, Or.inl (metadata_of_text (fun c hc => hM c (by simp [hc]))), h3, hT, hmeta⟩
  -- from the position after the dates
  have htailacc : ∀ d ed, ∃ t, txnTail d ed d1 = .ok t r := by
    intro d ed
    rcases hnote with ⟨n0, hsp, hnote⟩ | rfl
    · -- a note
      obtain ⟨sps, rfl, hspsne, hsps⟩ := plus_sp hsp
      obtain ⟨ntext, hn0, hnt⟩ := oneLine_note _ _ hnote
      subst hn0
      obtain ⟨b, sps', rfl⟩ : ∃ b t, sps = b :: t := by
        cases sps with
        | nil => exact absurd rfl hspsne
        | cons b t => exact ⟨b, t, rfl⟩
      have hb : Comb.isSpace b = true := hsps b (by simp)
      have hb1 : b ≠ '\n' := by intro e; subst e; revert hb; decide
      have hb2 : b ≠ '\r' := by intro e; subst e; revert hb; decide
      have hb3 : b ≠ ';' := by intro e; subst e; revert hb; decide
      have hpk : hasPeek (Parse.lineEndingOrEof <|| void (char ';')) ((b :: sps') ++ (ntext ++ d2)) =
          .ok false ((b :: sps') ++ (ntext ++ d2)) :=
        hasPeek_bt (z := b :: (sps' ++ (ntext ++ d2))) (by
          simp [alt2, lineEndingOrEof_bt (c := b) (by simp [isEol, hb1, hb2]), char_cons_ne hb3])
      -- `space1` takes the blanks before the note and the note's own leading blanks
      let L := stripSp (ntext ++ L0)
      have hLnn : NoNL L := NoNL.of_suffix (List.dropWhile_suffix _) (hnt.append hL0)
      have hdrop : ((b :: sps') ++ (ntext ++ d2)).dropWhile Comb.isSpace = L ++ T := by
        rw [hd2, ← List.append_assoc ntext]
        have h1 : ((b :: sps') ++ ((ntext ++ L0) ++ T)).dropWhile Comb.isSpace = ((ntext ++ L0) ++ T).dropWhile Comb.isSpace :=
          List.dropWhile_append_of_pos hsps
        rw [h1]
        exact dropWhile_append_lineEnd hTstop
      have hsp1 : space1 ((b :: sps') ++ (ntext ++ d2)) =
          .ok (((b :: sps') ++ (ntext ++ d2)).takeWhile Comb.isSpace) (L ++ T) := by
        simp only [space1, takeWhile1, List.cons_append, hb, if_true]
        rw [← hdrop]
        rfl
      have hLstop : Stop Comb.isSpace (L ++ T) := by
        cases hl : L with
        | nil => simpa using hTstop
        | cons c t =>
          have : isSp c = false := dropWhile_head_false (q := isSp) hl
          simpa [isSp_eq_isSpace] using this
      obtain ⟨cs, code, payee, M, hM, hMhead, hk⟩ := headerTail_accept hLnn hTend
      obtain ⟨ms, hms⟩ := hblock M hM hMhead
      refine ⟨mkTxn d ed cs code payee posts ms, ?_⟩
      have := hk (fun cs code payee => Parse.blockMetadata >>- fun md => repeat0 postingElem >>- fun posts =>
        pure (mkTxn d ed cs code payee posts md))
      simp only [txnTail, bind_apply, hpk, Res.andThen_ok, Bool.not_false, Comb.cond, if_true, map_apply, hsp1,
        Res.map_ok]
      simp only [bind_apply] at this
      rw [this]
      simp only [hms, Res.andThen_ok, bind_apply, hposts', pure_apply]
    · -- no note: the date is followed by the metadata or the line end
      have hpk : hasPeek (Parse.lineEndingOrEof <|| void (char ';')) d1 = .ok true d1 := by
        rw [hd2]
        rcases hL0head with rfl | ⟨t, rfl⟩
        · exact hasPeek_ok (a := ()) (r := h3) (alt2_ok (lineEndingOrEof_newLine hT))
        · exact hasPeek_ok (a := ()) (r := t ++ T) (by
            simp [alt2, lineEndingOrEof_bt (c := ';') (by decide)])
      obtain ⟨cs, code, payee, M, hM, hMhead, hk⟩ := headerTail_accept hL0 hTend
      obtain ⟨ms, hms⟩ := hblock M hM hMhead
      refine ⟨mkTxn d ed cs code payee posts ms, ?_⟩
      have := hk (fun cs code payee => Parse.blockMetadata >>- fun md => repeat0 postingElem >>- fun posts =>
        pure (mkTxn d ed cs code payee posts md))
      simp only [txnTail, bind_apply, hpk, Res.andThen_ok, Bool.not_true, Comb.cond, Bool.false_eq_true, if_false,
        pure_apply]
      simp only [bind_apply] at this
      rw [hd2, this]
      simp only [hms, Res.andThen_ok, bind_apply, hposts', pure_apply]
  -- the dates
  have hd1stop : Stop Char.isDigit d1 ∧ ∀ t, d1 ≠ '=' :: t := by
    rcases hnote with ⟨n0, hsp, _⟩ | rfl
    · obtain ⟨sps, rfl, hspsne, hsps⟩ := plus_sp hsp
      cases sps with
      | nil => exact absurd rfl hspsne
      | cons b t =>
        have hb := hsps b (by simp)
        exact ⟨by
          have : b.isDigit = false := by
            cases hd : b.isDigit with
            | false => rfl
            | true => rw [digit_not_space' hd] at hb; cases hb
          simpa using this, by intro t' e; injection e with e _; subst e; revert hb; decide⟩
    · exact ⟨hd2stop.2.1, hd2stop.2.2⟩
  rw [transaction_eq]
  rcases hed with ⟨d0', h0, hdate2⟩ | rfl
  · have h0 := lit_eq ['='] rfl h0
    subst h0
    obtain ⟨dt, hdt⟩ := date_accept hdate (by simp)
    obtain ⟨dt2, hdt2⟩ := date_accept hdate2 hd1stop.1
    obtain ⟨t, ht⟩ := htailacc dt (some dt2)
    refine ⟨t, ?_⟩
    have hopt : opt (preceded (char '=') Parse.date) ('=' :: d0') = .ok (some dt2) d1 :=
      opt_ok (by simp [hdt2])
    simp only [bind_apply, hdt, Res.andThen_ok, List.cons_append, List.nil_append, hopt, ht]
  · obtain ⟨dt, hdt⟩ := date_accept hdate hd1stop.1
    obtain ⟨t, ht⟩ := htailacc dt none
    refine ⟨t, ?_⟩
    have hopt : opt (preceded (char '=') Parse.date) d0 = .ok none d0 := by
      cases d0 with
      | nil => exact opt_bt (q := []) (by simp)
      | cons c t' =>
        have : c ≠ '=' := fun e => hd1stop.2 t' (by rw [e])
        exact opt_bt (q := c :: t') (by simp [char_cons_ne this])
    simp only [bind_apply, hdt, Res.andThen_ok, hopt, ht]

end Okane.DocAccept
