import Okane.Model.PriceDbFile
import Okane.Lemmas.ParseTotal
import Okane.Lemmas.C05DeclNum
import Okane.Lemmas.C05TxnBase
import Okane.Lemmas.Price
/-!
# The price-database file: totality, round trip, loader (C09 / C10 / C06)

* **totality** (`safe_priceDbEntry`, `parsedIter_priceDb_total`, `parsePriceDb_total`, `loadPriceDb_total`,
  `processPriceDb_total`): for every text the parser returns records or a `ParseError`; no `ParserError::assert`, no
  fuel-out, and the stream positions `ParseError::new` is built from are nested suffixes of the text.
* **round trip** (`priceDbEntry_body`, `priceDbEntry_rt`, `parsePriceDb_layout_rt`, `parsePriceDb_rt`): the parser reads
  back every list of well-formed records printed one per line; also with `\r\n` line ends and any runs of `\r` / `\n`
  between the lines.
* **rejected texts** (`parsePriceDb_fails_at`, `parsePriceDb_rejects_nonP`, `parsePriceDb_rejects_unterminated`): a line
  not starting with `P`, and a line that lacks its line end, after any number of well-formed lines; where the error is.
* **loader** (`loadRecs_ok`, `load_entry`, `load_member`, `load_zero`, `loadPriceDb_of_ok`, `processPriceDb_of_ok`): what
  the builder holds after `load_price_db`, stated with `Price.entryOf`, `Price.contrib`, `Price.bump` of
  `Lemmas/Price.lean`.  The statements are re-exported (with non-vacuity examples) at the end of `Props/C09.lean`.
-/
set_option linter.unusedSimpArgs false
namespace Okane.PriceDbFile
open Okane Okane.Comb Okane.Parse Okane.Unparse

/-! ## totality -/

theorem safe_newlines : Safe 0 newlines := by unfold newlines; safe_tac
theorem safe_commodity : Safe 0 commodity := by unfold commodity; safe_tac
macro_rules | `(tactic| safe_leaf) => `(tactic| with_reducible apply Safe.mono safe_commodity)

/-- `price_db_entry` never panics, never runs out of fuel and consumes at least its `P` -/
theorem safe_priceDbEntry : Safe 1 priceDbEntry := by unfold priceDbEntry; safe_tac

/-- **the iteration of `parse_price_db` ends in `done` or in a `ParseError`, for every text and every fuel above the
text's length**: no `panic`, no fuel-out; the checkpoint and the failure position of the error are nested suffixes
of the text (the precondition of `offset_from` / `compute_line_number` in `ParseError::new`). -/
theorem parsedIter_priceDb_total (t : List Char) (n : Nat) (hn : t.length < n) :
    GoodEnding t (parsedIter priceDbEntry newlines t n t []).2 :=
  parsedIter_total safe_priceDbEntry safe_newlines t n t [] (List.suffix_refl t) hn

theorem parsePriceDbRun_total (t : List Char) : GoodEnding t (parsePriceDbRun t).2 :=
  parsedIter_priceDb_total t (t.length + 1) (Nat.lt_succ_self _)

/-- **`parse_price_db(..).collect()` returns the records or a `ParseError`, for every text** -/
theorem parsePriceDb_total (t : List Char) :
    (∃ rs, parsePriceDb t = .ok rs) ∨
    (∃ e, parsePriceDb t = .err e ∧
      ∃ i' pos, pos <:+ i' ∧ i' <:+ t ∧ parseErrorNew t i' pos e.isCut = .ok e) := by
  have h := parsePriceDbRun_total t
  unfold parsePriceDb
  cases hr : parsePriceDbRun t with
  | mk es en =>
    rw [hr] at h
    cases en with
    | done => exact .inl ⟨_, rfl⟩
    | error e => exact .inr ⟨e, rfl, h⟩
    | panic s => exact h.elim
    | fuelOut => exact h.elim

theorem parsePriceDb_safe (t : List Char) : (parsePriceDb t).crashes = false := by
  rcases parsePriceDb_total t with ⟨es, h⟩ | ⟨e, h, _⟩ <;> rw [h] <;> rfl

/-! ## round trip: one entry -/

/-- a character that ends an amount: not part of a number, of a commodity, not a blank (`\n`, `\r`) -/
def EndsAmount (e : Char) : Prop :=
  Literal.isNumChar e = false ∧ ExprSyntax.isCommodityChar e = false ∧ ExprSyntax.isSpace e = false

theorem endsAmount_lf : EndsAmount '\n' := ⟨by decide, by decide, by decide⟩
theorem endsAmount_cr : EndsAmount '\r' := ⟨by decide, by decide, by decide⟩

/-- what may follow an amount: nothing, or a character that ends it -/
def AmountEnd (X : List Char) : Prop := ∀ e t, X = e :: t → EndsAmount e

theorem amountEnd_nil : AmountEnd [] := by intro e t h; cases h
theorem amountEnd_cons {e : Char} (he : EndsAmount e) (t : List Char) : AmountEnd (e :: t) := by
  intro e' t' h; cases h; exact he

/-- `primitive::commodity` after `space0` on a commodity followed by the end of input or a character that ends it -/
theorem commodity_rt_gen {c : List Char} (hc : isCommodityText c = true) {X : List Char} (hX : AmountEnd X) :
    ExprSyntax.commodity (ExprSyntax.skipSpaces (c ++ X)) = (c, X) := by
  simp [isCommodityText, List.all_eq_true] at hc
  have hnl : Stop ExprSyntax.isCommodityChar X := by
    intro e t h; exact (hX e t h).2.1
  have hsk : ExprSyntax.skipSpaces (c ++ X) = c ++ X := by
    cases c with
    | nil =>
      cases X with
      | nil => rfl
      | cons e t => simp [ExprSyntax.skipSpaces, List.dropWhile, (hX e t rfl).2.2]
    | cons a t =>
      have := commodityChar_not_space (hc a (by simp))
      simp [ExprSyntax.skipSpaces, List.dropWhile, this]
  rw [hsk]
  simp [ExprSyntax.commodity, takeWhile_append_stop hc hnl, dropWhile_append_stop hc hnl]

/-- `expr::amount` reads back `Display for Amount` at the end of input or before a character that ends it -/
theorem amount_rt_gen {d : PDec} {c : String} (hd : wfNumber d = true) (hc : isCommodityText c.toList = true)
    {X : List Char} (hX : AmountEnd X) :
    Parse.amount (printAmount d c ++ X) = .ok (d, c) X := by
  rw [printAmount_eq]
  by_cases hem : c.isEmpty = true
  · have hnil : c.toList = [] := by simpa using hem
    have hpd := prettyDecimal_rt hd (X := X) (by intro a r h; exact (hX a r h).1)
    have hcm := commodity_rt_gen (c := []) (by rfl) hX
    simp only [List.nil_append] at hcm
    have hcs : String.ofList [] = c := by rw [← hnil, String.ofList_toList]
    simp [hem, Parse.amount, hpd, hcm, hcs]
  · have hpd := prettyDecimal_rt hd (X := ' ' :: (c.toList ++ X)) (by intro a r h; cases h; decide)
    have hcm := commodity_rt_gen hc hX
    have hsk : ExprSyntax.skipSpaces (' ' :: (c.toList ++ X)) = ExprSyntax.skipSpaces (c.toList ++ X) := by
      simp [ExprSyntax.skipSpaces, List.dropWhile, ExprSyntax.isSpace]
    simp [hem, Parse.amount, hpd, hsk, hcm]

/-- the two line ends `line_ending` accepts -/
def eolText (crlf : Bool) : List Char := if crlf then ['\r', '\n'] else ['\n']

/-- a record's line without its line end -/
def printBody (r : PriceRec) : List Char :=
  'P' :: ' ' :: (printDate r.date ++ ' ' :: (r.target.toList ++ ' ' :: printAmount r.rate r.commodity))

/-- a record's line with either line end (`printRec` is the `\n` one) -/
def printRecEol (r : PriceRec) (crlf : Bool) : List Char := printBody r ++ eolText crlf

theorem printRecEol_false (r : PriceRec) : printRecEol r false = printRec r := by
  simp [printRecEol, printBody, printRec, eolText]

theorem printRecEol_cons (r : PriceRec) (crlf : Bool) :
    printRecEol r crlf = 'P' :: ' ' :: (printDate r.date ++ ' ' :: (r.target.toList ++ ' ' ::
      (printAmount r.rate r.commodity ++ eolText crlf))) := by
  simp [printRecEol, printBody]

theorem lineEnding_eol (crlf : Bool) (X : List Char) : lineEnding (eolText crlf ++ X) = .ok () X := by
  cases crlf <;> rfl

theorem amountEnd_eol (crlf : Bool) (X : List Char) : AmountEnd (eolText crlf ++ X) := by
  cases crlf
  · exact amountEnd_cons endsAmount_lf _
  · exact amountEnd_cons endsAmount_cr _

/-- **`price_db_entry` on a printed record followed by `Z`** (the end of input, or a character that cannot
continue the amount): everything up to the amount is read back, what is left to do is `line_ending` on `Z` -/
theorem priceDbEntry_body (r : PriceRec) (hr : wfRec r = true) (Z : List Char) (hZ : AmountEnd Z) :
    priceDbEntry (printBody r ++ Z) = (lineEnding Z).andThen fun _ rest => .ok r rest := by
  simp only [wfRec, Bool.and_eq_true, Bool.not_eq_true', List.isEmpty_eq_false_iff] at hr
  obtain ⟨⟨⟨⟨hd, hne⟩, ht⟩, hn⟩, hc⟩ := hr
  have ht' : ∀ c ∈ r.target.toList, ExprSyntax.isCommodityChar c = true := by
    simpa [isCommodityText, List.all_eq_true] using ht
  -- the pieces, from the right
  have hAmt : Parse.amount (printAmount r.rate r.commodity ++ Z) = .ok (r.rate, r.commodity) Z :=
    amount_rt_gen hn hc hZ
  have hSp2 : space1 (' ' :: (printAmount r.rate r.commodity ++ Z)) =
      .ok [' '] (printAmount r.rate r.commodity ++ Z) := by
    have hstop : Stop isSpace (printAmount r.rate r.commodity ++ Z) := by
      rw [printAmount_eq]
      split
      · exact printPDec_stop_space hn _
      · rw [List.append_assoc]; exact printPDec_stop_space hn _
    exact space1_append (a := [' ']) (by simp) (by intro c hc; simp at hc; subst hc; rfl) hstop
  have hCom : commodity (r.target.toList ++ ' ' :: (printAmount r.rate r.commodity ++ Z)) =
      .ok r.target.toList (' ' :: (printAmount r.rate r.commodity ++ Z)) :=
    takeWhile0_append ht' (by simp only [Stop_cons]; decide)
  have hSp1 : space1 (' ' :: (r.target.toList ++ ' ' :: (printAmount r.rate r.commodity ++ Z))) =
      .ok [' '] (r.target.toList ++ ' ' :: (printAmount r.rate r.commodity ++ Z)) := by
    have hstop : Stop isSpace (r.target.toList ++ ' ' :: (printAmount r.rate r.commodity ++ Z)) := by
      cases htl : r.target.toList with
      | nil => exact absurd htl hne
      | cons a t =>
        have := commodityChar_not_space (ht' a (by simp [htl]))
        simp only [List.cons_append, Stop_cons]
        exact this
    exact space1_append (a := [' ']) (by simp) (by intro c hc; simp at hc; subst hc; rfl) hstop
  have hDate := date_rt r.date hd (' ' :: (r.target.toList ++ ' ' :: (printAmount r.rate r.commodity ++ Z)))
    (by simp only [Stop_cons]; decide)
  have hP : pair (literal ['P']) space1 ('P' :: ' ' :: (printDate r.date ++ ' ' :: (r.target.toList ++ ' ' ::
        (printAmount r.rate r.commodity ++ Z)))) =
      .ok (['P'], [' ']) (printDate r.date ++ ' ' :: (r.target.toList ++ ' ' :: (printAmount r.rate r.commodity ++ Z))) := by
    have hy : 0 ≤ r.date.y := by
      simp only [wfDate, Bool.and_eq_true, decide_eq_true_eq] at hd; exact hd.1.2
    obtain ⟨c0, r0, h0, hdig⟩ := printDate_head r.date hy
    have hstop : Stop isSpace (printDate r.date ++ ' ' :: (r.target.toList ++ ' ' :: (printAmount r.rate r.commodity ++ Z))) := by
      rw [h0]
      simp only [List.cons_append, Stop_cons]
      cases hs : isSpace c0 with
      | false => rfl
      | true =>
        simp [isSpace] at hs
        rcases hs with rfl | rfl <;> exact absurd hdig (by decide)
    have hl : literal ['P'] ('P' :: ' ' :: (printDate r.date ++ ' ' :: (r.target.toList ++ ' ' ::
        (printAmount r.rate r.commodity ++ Z)))) = .ok ['P'] (' ' :: (printDate r.date ++ ' ' :: (r.target.toList ++ ' ' ::
        (printAmount r.rate r.commodity ++ Z)))) := literal_append ['P'] _
    have hs := space1_append (a := [' ']) (by simp) (by intro c hc; simp at hc; subst hc; rfl) hstop
    simp only [List.cons_append, List.nil_append] at hs
    simp [pair, Comb.bind, Comb.map, hl, hs]
  have hstr : String.ofList r.target.toList = r.target := String.ofList_toList
  unfold priceDbEntry printBody
  simp only [List.cons_append, List.append_assoc]
  simp only [Comb.bind, hP, Res.andThen_ok, hDate, hSp1, hCom, hSp2, hAmt, hstr]
  rfl

/-- **`price_db_entry` reads back a printed record**, whatever follows the line -/
theorem priceDbEntry_rt (r : PriceRec) (hr : wfRec r = true) (crlf : Bool) (X : List Char) :
    priceDbEntry (printRecEol r crlf ++ X) = .ok r X := by
  rw [printRecEol, List.append_assoc, priceDbEntry_body r hr _ (amountEnd_eol crlf X), lineEnding_eol]
  rfl

/-! ## round trip: the file -/

section Iter
variable {α : Type}

theorem parsedIter_step {p : Parser α} {sep : Parser Unit} {whole i i1 r : List Char} {e : α} (n : Nat)
    (acc : List (Nat × Nat × α)) (hs : sep i = .ok () i1) (hne : i1.isEmpty = false) (hp : p i1 = .ok e r) :
    parsedIter p sep whole (n + 1) i acc =
      parsedIter p sep whole n r (acc ++ [(utf8Len whole - utf8Len i1, utf8Len whole - utf8Len r, e)]) := by
  simp [parsedIter, hs, hne, hp]

theorem parsedIter_done {p : Parser α} {sep : Parser Unit} {whole i : List Char} (n : Nat)
    (acc : List (Nat × Nat × α)) (hs : sep i = .ok () []) :
    parsedIter p sep whole (n + 1) i acc = (acc, .done) := by
  simp [parsedIter, hs]

end Iter

/-- `newlines` eats a run of `\r` / `\n` characters up to the first other character -/
theorem newlines_run {b X : List Char} (hb : b.all isNl = true) (hX : Stop isNl X) : newlines (b ++ X) = .ok () X := by
  have hb' : ∀ c ∈ b, isNl c = true := by simpa [List.all_eq_true] using hb
  simp [newlines, void, Comb.map, takeWhile0_append hb' hX]

/-- one laid-out line: the run of `\r` / `\n` characters in front of it, the record, the kind of line end -/
abbrev Line := List Char × PriceRec × Bool

/-- a price-db text in any layout the parser accepts for the canonical lines: every line may be preceded by a run
of `\r` / `\n` characters (empty lines, stray carriage returns) and may end in `\n` or `\r\n`; `trailer` is such
a run at the end of the file -/
def printLayout (ls : List Line) (trailer : List Char) : List Char :=
  ls.flatMap (fun l => l.1 ++ printRecEol l.2.1 l.2.2) ++ trailer

theorem printLayout_cons (l : Line) (ls : List Line) (trailer : List Char) :
    printLayout (l :: ls) trailer = l.1 ++ (printRecEol l.2.1 l.2.2 ++ printLayout ls trailer) := by
  simp [printLayout, List.append_assoc]

theorem printLayout_length (ls : List Line) (trailer : List Char) : ls.length ≤ (printLayout ls trailer).length := by
  induction ls with
  | nil => simp
  | cons l ls ih =>
    rw [printLayout_cons]
    simp only [List.length_append, List.length_cons, printRecEol_cons]
    omega

theorem printDb_eq_layout (rs : List PriceRec) : printDb rs = printLayout (rs.map fun r => ([], r, false)) [] := by
  simp [printDb, printLayout, List.flatMap_map, printRecEol_false]

/-- the iterator on a laid-out text: it yields exactly the records, in order, and ends in `done` -/
theorem parsedIter_layout_rt (whole trailer : List Char) (htr : trailer.all isNl = true) :
    ∀ (ls : List Line), (∀ l ∈ ls, l.1.all isNl = true ∧ wfRec l.2.1 = true) →
    ∀ (n : Nat), ls.length < n → ∀ (acc : List (Nat × Nat × PriceRec)),
      ∃ spans, parsedIter priceDbEntry newlines whole n (printLayout ls trailer) acc = (acc ++ spans, .done) ∧
        spans.map (fun x => x.2.2) = ls.map (fun l => l.2.1) := by
  intro ls
  induction ls with
  | nil =>
    intro _ n hn acc
    obtain ⟨m, rfl⟩ : ∃ m, n = m + 1 := ⟨n - 1, by simp at hn; omega⟩
    refine ⟨[], ?_, rfl⟩
    have h := newlines_run (X := []) htr (Stop_nil _)
    simp only [List.append_nil] at h
    simp [printLayout, parsedIter_done m acc h]
  | cons l ls ih =>
    intro hwf n hn acc
    obtain ⟨m, rfl⟩ : ∃ m, n = m + 1 := ⟨n - 1, by simp at hn; omega⟩
    obtain ⟨hb, hr⟩ := hwf l (by simp)
    rw [printLayout_cons]
    have hsep : newlines (l.1 ++ (printRecEol l.2.1 l.2.2 ++ printLayout ls trailer)) =
        .ok () (printRecEol l.2.1 l.2.2 ++ printLayout ls trailer) :=
      newlines_run hb (by rw [printRecEol_cons]; simp only [List.cons_append, Stop_cons]; decide)
    have hne : (printRecEol l.2.1 l.2.2 ++ printLayout ls trailer).isEmpty = false := by
      simp [printRecEol_cons]
    rw [parsedIter_step m acc hsep hne (priceDbEntry_rt l.2.1 hr l.2.2 _)]
    obtain ⟨spans, h1, h2⟩ := ih (fun l' hl' => hwf l' (by simp [hl'])) m (by simp at hn; omega)
      (acc ++ [(utf8Len whole - utf8Len (printRecEol l.2.1 l.2.2 ++ printLayout ls trailer),
        utf8Len whole - utf8Len (printLayout ls trailer), l.2.1)])
    exact ⟨(utf8Len whole - utf8Len (printRecEol l.2.1 l.2.2 ++ printLayout ls trailer),
        utf8Len whole - utf8Len (printLayout ls trailer), l.2.1) :: spans, by rw [h1]; simp, by simp [h2]⟩

/-- **round trip, any accepted layout**: well-formed records printed one per line, every line ended by `\n` or
`\r\n`, with arbitrary runs of `\r` / `\n` before, between and after the lines, are read back exactly -/
theorem parsePriceDb_layout_rt (ls : List Line) (trailer : List Char) (htr : trailer.all isNl = true)
    (hwf : ∀ l ∈ ls, l.1.all isNl = true ∧ wfRec l.2.1 = true) :
    parsePriceDb (printLayout ls trailer) = .ok (ls.map fun l => l.2.1) := by
  obtain ⟨spans, h1, h2⟩ := parsedIter_layout_rt (printLayout ls trailer) trailer htr ls hwf
    ((printLayout ls trailer).length + 1) (by have := printLayout_length ls trailer; omega) []
  simp only [parsePriceDb, parsePriceDbRun, h1, List.nil_append, h2]

/-- **round trip**: the parser reads back any list of well-formed records printed one per line as
`P <date> <commodity> <number> <commodity>\n` -/
theorem parsePriceDb_rt (rs : List PriceRec) (hwf : ∀ r ∈ rs, wfRec r = true) :
    parsePriceDb (printDb rs) = .ok rs := by
  rw [printDb_eq_layout]
  have := parsePriceDb_layout_rt (rs.map fun r => ([], r, false)) [] rfl (by
    intro l hl
    simp only [List.mem_map] at hl
    obtain ⟨r, hr, rfl⟩ := hl
    exact ⟨rfl, hwf r hr⟩)
  rw [this, List.map_map]
  exact congrArg Outcome.ok (List.map_id' rs)

/-! ## rejected texts: where the error is -/

/-- the lines without a trailer -/
def printLines (ls : List Line) : List Char := ls.flatMap (fun l => l.1 ++ printRecEol l.2.1 l.2.2)

theorem printLines_cons (l : Line) (ls : List Line) :
    printLines (l :: ls) = l.1 ++ (printRecEol l.2.1 l.2.2 ++ printLines ls) := by
  simp [printLines, List.append_assoc]

/-- the iterator reads a prefix of well-formed lines and goes on with whatever follows -/
theorem parsedIter_lines (whole : List Char) :
    ∀ (ls : List Line), (∀ l ∈ ls, l.1.all isNl = true ∧ wfRec l.2.1 = true) →
    ∀ (Y : List Char) (n : Nat) (acc : List (Nat × Nat × PriceRec)),
      ∃ spans, parsedIter priceDbEntry newlines whole (n + ls.length) (printLines ls ++ Y) acc =
          parsedIter priceDbEntry newlines whole n Y (acc ++ spans) ∧
        spans.map (fun x => x.2.2) = ls.map (fun l => l.2.1) := by
  intro ls
  induction ls with
  | nil => intro _ Y n acc; exact ⟨[], by simp [printLines], rfl⟩
  | cons l ls ih =>
    intro hwf Y n acc
    obtain ⟨hb, hr⟩ := hwf l (by simp)
    rw [printLines_cons]
    simp only [List.append_assoc, List.length_cons, ← Nat.add_assoc]
    have hsep : newlines (l.1 ++ (printRecEol l.2.1 l.2.2 ++ (printLines ls ++ Y))) =
        .ok () (printRecEol l.2.1 l.2.2 ++ (printLines ls ++ Y)) :=
      newlines_run hb (by rw [printRecEol_cons]; simp only [List.cons_append, Stop_cons]; decide)
    have hne : (printRecEol l.2.1 l.2.2 ++ (printLines ls ++ Y)).isEmpty = false := by
      simp [printRecEol_cons]
    rw [parsedIter_step (n + ls.length) acc hsep hne (priceDbEntry_rt l.2.1 hr l.2.2 _)]
    obtain ⟨spans, h1, h2⟩ := ih (fun l' hl' => hwf l' (by simp [hl'])) Y n
      (acc ++ [(utf8Len whole - utf8Len (printRecEol l.2.1 l.2.2 ++ (printLines ls ++ Y)),
        utf8Len whole - utf8Len (printLines ls ++ Y), l.2.1)])
    exact ⟨(utf8Len whole - utf8Len (printRecEol l.2.1 l.2.2 ++ (printLines ls ++ Y)),
        utf8Len whole - utf8Len (printLines ls ++ Y), l.2.1) :: spans, by rw [h1]; simp, by simp [h2]⟩

theorem printLines_length (ls : List Line) : ls.length ≤ (printLines ls).length := by
  induction ls with
  | nil => simp
  | cons l ls ih =>
    rw [printLines_cons]
    simp only [List.length_append, List.length_cons, printRecEol_cons]
    omega

/-- size in bytes of the first character (0 at end of input) -/
def headSize : List Char → Nat
  | [] => 0
  | c :: _ => c.utf8Size

/-- the span of a `ParseError` is the character at which the stream was left (empty at end of input) -/
theorem parseErrorNew_spanEnd {whole atStart pos : List Char} {isCut : Bool} {e : ParseErr}
    (h : parseErrorNew whole atStart pos isCut = .ok e) :
    e.spanEnd = e.offset + headSize pos ∧
    e.lineStart = 1 + lfBefore whole (utf8Len whole - utf8Len atStart) := by
  have hn : ¬ (utf8Len whole - utf8Len atStart > utf8Len whole) := by omega
  simp only [parseErrorNew, computeLineNumber, if_neg hn, Outcome.ok.injEq] at h
  subst h
  cases pos <;> simp [headSize]

/-- `ParsedIter::next` failing at a fresh checkpoint `Y` with the stream left at `pos` -/
theorem parsedIter_fail {sepRest pos : List Char} (whole Y : List Char) (n : Nat) (acc : List (Nat × Nat × PriceRec))
    (hs : newlines Y = .ok () sepRest) (hne : sepRest.isEmpty = false) (hp : priceDbEntry sepRest = .bt pos) :
    (parsedIter priceDbEntry newlines whole (n + 1) Y acc).2 =
      (match parseErrorNew whole Y pos false with
        | .ok e => Ending.error e
        | .panic s => .panic s
        | _ => .panic "ParseError::new") := by
  simp only [parsedIter, hs, hne, hp]
  cases parseErrorNew whole Y pos false <;> rfl

/-- after any number of well-formed lines, a `next()` call whose entry parser backtracks ends the whole parse
with the `ParseError` built from that call's checkpoint `Y` and the failure position -/
theorem parsePriceDb_fails_at (ls : List Line) (hwf : ∀ l ∈ ls, l.1.all isNl = true ∧ wfRec l.2.1 = true)
    {Y sepRest pos : List Char} (hs : newlines Y = .ok () sepRest) (hne : sepRest.isEmpty = false)
    (hp : priceDbEntry sepRest = .bt pos) :
    ∃ e, parsePriceDb (printLines ls ++ Y) = .err e ∧ parseErrorNew (printLines ls ++ Y) Y pos false = .ok e := by
  have hlen := printLines_length ls
  obtain ⟨m, hm⟩ : ∃ m, (printLines ls ++ Y).length + 1 = (m + 1) + ls.length :=
    ⟨(printLines ls ++ Y).length - ls.length, by simp only [List.length_append]; omega⟩
  obtain ⟨spans, h1, _⟩ := parsedIter_lines (printLines ls ++ Y) ls hwf Y (m + 1) []
  have hend := parsedIter_fail (printLines ls ++ Y) Y m ([] ++ spans) hs hne hp
  obtain ⟨e, he, _, _⟩ := parseErrorNew_ok (printLines ls ++ Y) Y pos false
  rw [he] at hend
  refine ⟨e, ?_, he⟩
  unfold parsePriceDb parsePriceDbRun
  rw [hm, h1]
  cases hr : parsedIter priceDbEntry newlines (printLines ls ++ Y) (m + 1) Y ([] ++ spans) with
  | mk es en =>
    rw [hr] at hend
    simp only at hend
    subst hend
    rfl

/-- **a line that does not start with `P` is rejected, and the error is its first character**: after any number
of well-formed lines, a text going on with a character other than `P`, `\r`, `\n` (a comment, a blank, an
indented line, …) makes the parser return a `ParseError` whose span is that character (`offset = 0` relative to
the checkpoint of that `next()` call, i.e. the end of the previous entry) -/
theorem parsePriceDb_rejects_nonP (ls : List Line) (hwf : ∀ l ∈ ls, l.1.all isNl = true ∧ wfRec l.2.1 = true)
    (c : Char) (Y : List Char) (hP : c ≠ 'P') (hnl : isNl c = false) :
    ∃ e, parsePriceDb (printLines ls ++ c :: Y) = .err e ∧ e.offset = 0 ∧ e.spanEnd = c.utf8Size := by
  have hs : newlines (c :: Y) = .ok () (c :: Y) := by
    have := newlines_run (b := []) (X := c :: Y) rfl (by simp only [Stop_cons]; exact hnl)
    simpa using this
  have hp : priceDbEntry (c :: Y) = .bt (c :: Y) := by
    have hl : literal ['P'] (c :: Y) = .bt (c :: Y) := by
      simp [literal, List.isPrefixOf, Ne.symm hP]
    simp [priceDbEntry, Comb.bind, pair, Comb.map, hl]
  obtain ⟨e, h1, he⟩ := parsePriceDb_fails_at ls hwf hs (by simp) hp
  obtain ⟨_, he', _, hoff⟩ := parseErrorNew_ok (printLines ls ++ c :: Y) (c :: Y) (c :: Y) false
  rw [he] at he'
  simp only [Outcome.ok.injEq] at he'
  subst he'
  have := (parseErrorNew_spanEnd he).1
  simp only [headSize] at this
  exact ⟨e, h1, by omega, by omega⟩

/-- **a well-formed line that is not followed by a line end is rejected, and the error is where the line end is
missing**: `Z` is the end of input (the last line of the file lacks its new-line: `price_db_entry` ends in
`line_ending`, not `line_ending_or_eof`) or starts with a character that cannot continue the amount and is no line
end (`;`, a lone `\r`, …).  The offset is counted from the checkpoint of that `next()` call, which lies *before*
the run `b` of `\r` / `\n` characters in front of the line. -/
theorem parsePriceDb_rejects_unterminated (ls : List Line) (hwf : ∀ l ∈ ls, l.1.all isNl = true ∧ wfRec l.2.1 = true)
    (b : List Char) (hb : b.all isNl = true) (r : PriceRec) (hr : wfRec r = true)
    (Z : List Char) (hZ : AmountEnd Z) (hle : lineEnding Z = .bt Z) :
    ∃ e, parsePriceDb (printLines ls ++ (b ++ (printBody r ++ Z))) = .err e ∧
      e.offset = utf8Len (b ++ printBody r) ∧
      e.spanEnd = e.offset + headSize Z := by
  have hs : newlines (b ++ (printBody r ++ Z)) = .ok () (printBody r ++ Z) :=
    newlines_run hb (by simp only [printBody, List.cons_append, Stop_cons]; decide)
  have hp : priceDbEntry (printBody r ++ Z) = .bt Z := by
    rw [priceDbEntry_body r hr Z hZ, hle]; rfl
  obtain ⟨e, h1, he⟩ := parsePriceDb_fails_at ls hwf hs (by simp [printBody]) hp
  obtain ⟨_, he', _, hoff⟩ := parseErrorNew_ok (printLines ls ++ (b ++ (printBody r ++ Z))) (b ++ (printBody r ++ Z)) Z false
  rw [he] at he'
  simp only [Outcome.ok.injEq] at he'
  subst he'
  refine ⟨e, h1, ?_, (parseErrorNew_spanEnd he).1⟩
  rw [hoff, ← List.append_assoc, utf8Len_append]
  omega

/-! ## loader -/

open Okane.Price

/-- the interned commodity `ctx.commodities.ensure(name)` hands out: the canonical name of a registered alias,
the name itself otherwise -/
def canon (s : Store) (name : String) : String := (s.resolve name).getD name

theorem ensure_fst (s : Store) (n : String) : (s.ensure n).1 = canon s n := by
  unfold Store.ensure canon
  cases h : s.resolve n <;> simp

/-- registering a name does not change what any name resolves to -/
theorem canon_ensure (s : Store) (m n : String) : canon (s.ensure m).2 n = canon s n := by
  unfold Store.ensure
  cases h : s.resolve m with
  | some c => rfl
  | none =>
    simp only
    unfold canon Store.resolve
    by_cases hmn : m = n
    · subst hmn
      rw [AMap.get?_insert_self]
      unfold Store.resolve at h
      cases hg : AMap.get? s.recs m with
      | none => simp
      | some v => cases v <;> simp [hg] at h
    · rw [AMap.get?_insert_ne _ _ hmn]

/-- the price events `load_price_db` inserts for the records, in order -/
def eventsOf (s : Store) (rs : List PriceRec) : List (PriceEvent String) :=
  rs.map fun r => eventOf r (canon s r.target) (canon s r.commodity)

/-- the commodity store after the loop: both commodities of every record are registered -/
def storeAfter (s : Store) (rs : List PriceRec) : Store :=
  rs.foldl (fun s r => ((s.ensure r.target).2.ensure r.commodity).2) s

theorem eventsOf_ensure (s : Store) (m : String) (rs : List PriceRec) : eventsOf (s.ensure m).2 rs = eventsOf s rs := by
  simp [eventsOf, canon_ensure]

/-- **the loader loop is `insert_price(PriceDB, {1 target, rate})` for every record in file order, and never
panics** (the division of `insert_impl` is guarded by fix 4244ce7) -/
theorem loadRecs_ok : ∀ (rs : List PriceRec) (s : Store) (b : Builder String),
    ∃ b', insertAll .priceDB b (eventsOf s rs) = .ok b' ∧ loadRecs s b rs = .ok (storeAfter s rs, b') := by
  intro rs
  induction rs with
  | nil => intro s b; exact ⟨b, rfl, rfl⟩
  | cons r rs ih =>
    intro s b
    obtain ⟨b1, h1⟩ := insertPrice_no_panic b .priceDB (eventOf r (canon s r.target) (canon s r.commodity))
    obtain ⟨b2, h2, h3⟩ := ih ((s.ensure r.target).2.ensure r.commodity).2 b1
    rw [eventsOf_ensure, eventsOf_ensure] at h2
    refine ⟨b2, ?_, ?_⟩
    · simp [eventsOf, insertAll, h1] at h2 ⊢
      exact h2
    · have e1 : s.ensure r.target = (canon s r.target, (s.ensure r.target).2) := by
        rw [← ensure_fst]
      have e2 : (s.ensure r.target).2.ensure r.commodity =
          (canon s r.commodity, ((s.ensure r.target).2.ensure r.commodity).2) := by
        rw [← canon_ensure s r.target r.commodity, ← ensure_fst]
      unfold loadRecs
      rw [e1]
      simp only
      rw [e2]
      simp only [h1]
      rw [h3]
      rfl

/-- what an ordered pair `records[w][o]` holds after the loop: the stored entry bumped (source raised to
`PriceDB`, ledger records dropped) by the contributions of the file's records, in file order -/
theorem load_entry {rs : List PriceRec} {s s' : Store} {b b' : Builder String}
    (h : loadRecs s b rs = .ok (s', b')) (w o : String) :
    entryOf b' w o = bump .priceDB (entryOf b w o) (contrib (eventsOf s rs) w o) := by
  obtain ⟨b2, h2, h3⟩ := loadRecs_ok rs s b
  rw [h3] at h
  simp only [Outcome.ok.injEq, Prod.mk.injEq] at h
  rw [← h.2]
  exact entryOf_insertAll _ _ _ _ h2 w o

theorem mem_contrib {evs : List (PriceEvent String)} {ev : PriceEvent String} (hev : ev ∈ evs) (w o : String)
    {x : Date × Rat} (hx : x ∈ contrib1 ev w o) : x ∈ contrib evs w o := by
  simp only [contrib, List.mem_flatMap]
  exact ⟨ev, hev, hx⟩

theorem bump_of_mem {e : PEntry} {c : List (Date × Rat)} {x : Date × Rat} (hx : x ∈ c) :
    x ∈ (bump .priceDB e c).recs ∧ (bump .priceDB e c).source = .priceDB := by
  have hne : c ≠ [] := by intro h; simp [h] at hx
  simp only [bump, hne, if_false]
  constructor
  · simp [hx]
  · cases hs : e.source <;> simp [Source.rank]

/-- **every record `P d A x B` with `x ≠ 0` is in the builder after loading**: under `B → A` (`records[B][A]`,
"1 A is worth x B") with rate `x`, under `A → B` with rate `1 / x`, both entries have source `PriceDB`.
`A`, `B` are the interned commodities (aliases resolved).  Holds for self-mentions (`A = B`) too. -/
theorem load_member {rs : List PriceRec} {s s' : Store} {b b' : Builder String}
    (h : loadRecs s b rs = .ok (s', b')) {r : PriceRec} (hr : r ∈ rs) (hx : r.rate.toRat ≠ 0) :
    (r.date, r.rate.toRat) ∈ (entryOf b' (canon s r.commodity) (canon s r.target)).recs ∧
    (entryOf b' (canon s r.commodity) (canon s r.target)).source = .priceDB ∧
    (r.date, 1 / r.rate.toRat) ∈ (entryOf b' (canon s r.target) (canon s r.commodity)).recs ∧
    (entryOf b' (canon s r.target) (canon s r.commodity)).source = .priceDB ∧
    r.rate.toRat * (1 / r.rate.toRat) = 1 := by
  have hev : eventOf r (canon s r.target) (canon s r.commodity) ∈ eventsOf s rs := by
    simp only [eventsOf, List.mem_map]; exact ⟨r, hr, rfl⟩
  have h1 : (r.date, r.rate.toRat) ∈
      contrib1 (eventOf r (canon s r.target) (canon s r.commodity)) (canon s r.commodity) (canon s r.target) := by
    have e : r.rate.toRat / 1 = r.rate.toRat := by grind
    simp [contrib1, eventOf, hx, e]
  have h2 : (r.date, 1 / r.rate.toRat) ∈
      contrib1 (eventOf r (canon s r.target) (canon s r.commodity)) (canon s r.target) (canon s r.commodity) := by
    simp [contrib1, eventOf, hx]
  have m1 := bump_of_mem (e := entryOf b (canon s r.commodity) (canon s r.target)) (mem_contrib hev _ _ h1)
  have m2 := bump_of_mem (e := entryOf b (canon s r.target) (canon s r.commodity)) (mem_contrib hev _ _ h2)
  rw [load_entry h, load_entry h]
  exact ⟨m1.1, m1.2, m2.1, m2.2, by grind⟩

theorem pow10_ne_zero (n : Nat) : (10 : Rat) ^ n ≠ 0 := by
  induction n with
  | zero => simp
  | succ n ih =>
    rw [Rat.pow_succ]; intro h
    rcases Rat.mul_eq_zero.mp h with h | h
    · exact ih h
    · exact absurd h (by decide)

/-- the amount of a line is zero exactly when its mantissa is (`0`, `0.00`, `-0`, …) -/
theorem toRat_eq_zero_iff (d : PDec) : d.toRat = 0 ↔ d.mant = 0 := by
  have hp := pow10_ne_zero d.scale
  unfold PDec.toRat
  constructor
  · intro h
    have h' : (d.mant : Rat) / (10 : Rat) ^ d.scale = 0 := by
      split at h
      · grind
      · exact h
    have : (d.mant : Rat) = 0 := by grind
    exact_mod_cast this
  · intro h; rw [h]; split <;> grind

/-- a record with a zero amount leaves the builder as it is (only its commodities get registered) -/
theorem load_zero_step (s : Store) (b : Builder String) (r : PriceRec) (rs : List PriceRec)
    (hz : r.rate.toRat = 0) :
    loadRecs s b (r :: rs) = loadRecs ((s.ensure r.target).2.ensure r.commodity).2 b rs := by
  simp [loadRecs, insertPrice, eventOf, hz]

theorem contrib1_zero (ev : PriceEvent String) (hz : ev.x.value = 0 ∨ ev.y.value = 0) (w o : String) :
    contrib1 ev w o = [] := by simp [contrib1, hz]

/-- **records with `x = 0` change nothing**: the builder after loading the file is the builder after loading
the file without its zero-amount lines -/
theorem load_zero : ∀ (rs : List PriceRec) (s : Store) (b : Builder String) (s' : Store) (b' : Builder String),
    loadRecs s b rs = .ok (s', b') →
    ∃ s'', loadRecs s b (rs.filter fun r => decide (r.rate.toRat ≠ 0)) = .ok (s'', b') := by
  intro rs
  induction rs with
  | nil => intro s b s' b' h; exact ⟨s', h⟩
  | cons r rs ih =>
    intro s b s' b' h
    by_cases hz : r.rate.toRat = 0
    · rw [load_zero_step s b r rs hz] at h
      obtain ⟨s2, h2⟩ := ih _ b s' b' h
      -- the filtered list does not contain `r`; the start store differs only by registrations
      rw [List.filter_cons_of_neg (by simpa using hz)]
      obtain ⟨b3, e3, l3⟩ := loadRecs_ok (rs.filter fun r => decide (r.rate.toRat ≠ 0)) s b
      obtain ⟨b4, e4, l4⟩ := loadRecs_ok (rs.filter fun r => decide (r.rate.toRat ≠ 0))
        ((s.ensure r.target).2.ensure r.commodity).2 b
      rw [eventsOf_ensure, eventsOf_ensure, e3] at e4
      rw [l4] at h2
      simp only [Outcome.ok.injEq, Prod.mk.injEq] at h2 e4
      exact ⟨_, by rw [l3, e4, h2.2]⟩
    · rw [List.filter_cons_of_pos (by simpa using hz)]
      obtain ⟨b1, h1⟩ := insertPrice_no_panic b .priceDB (eventOf r (s.ensure r.target).1 ((s.ensure r.target).2.ensure r.commodity).1)
      have hstep : ∀ l, loadRecs s b (r :: l) = loadRecs ((s.ensure r.target).2.ensure r.commodity).2 b1 l := by
        intro l; simp [loadRecs, h1]
      rw [hstep] at h ⊢
      exact ih _ b1 s' b' h

/-! ## `load_price_db` and `process` on the text -/

/-- a text the parser accepts is loaded record by record: `load_price_db` returns `Ok` with every record inserted -/
theorem loadPriceDb_of_ok {t : List Char} {rs : List PriceRec} (h : parsePriceDb t = .ok rs) (s : Store)
    (b : Builder String) :
    ∃ b', insertAll .priceDB b (eventsOf s rs) = .ok b' ∧ loadRecs s b rs = .ok (storeAfter s rs, b') ∧
      loadPriceDb t s b = .ok (storeAfter s rs, b') := by
  unfold parsePriceDb at h
  unfold loadPriceDb
  cases hr : parsePriceDbRun t with
  | mk es en =>
    rw [hr] at h
    cases en with
    | done =>
      simp only [Outcome.ok.injEq] at h
      subst h
      obtain ⟨b', h1, h2⟩ := loadRecs_ok (es.map fun x => x.2.2) s b
      exact ⟨b', h1, h2, by simp [h2]⟩
    | error e => simp at h
    | panic p => simp at h
    | fuelOut => simp at h

/-- a text the parser rejects makes `load_price_db` return that `ParseError` (`LoadError::Parse`) -/
theorem loadPriceDb_of_err {t : List Char} {e : ParseErr} (h : parsePriceDb t = .err e) (s : Store)
    (b : Builder String) : loadPriceDb t s b = .err e := by
  unfold parsePriceDb at h
  unfold loadPriceDb
  cases hr : parsePriceDbRun t with
  | mk es en =>
    rw [hr] at h
    obtain ⟨b', _, h2⟩ := loadRecs_ok (es.map fun x => x.2.2) s b
    cases en with
    | done => simp at h
    | error e' =>
      simp only [Outcome.err.injEq] at h
      subst h
      simp [h2]
    | panic p => simp at h
    | fuelOut => simp at h

/-- **`load_price_db` is total**: for every text, store and builder it returns `Ok` (exactly when the parser
accepts the text) or the parser's `ParseError`; it never panics and never hangs -/
theorem loadPriceDb_total (t : List Char) (s : Store) (b : Builder String) :
    (∃ rs b', parsePriceDb t = .ok rs ∧ loadPriceDb t s b = .ok (storeAfter s rs, b')) ∨
    (∃ e, parsePriceDb t = .err e ∧ loadPriceDb t s b = .err e) := by
  rcases parsePriceDb_total t with ⟨rs, h⟩ | ⟨e, h, _⟩
  · obtain ⟨b', _, _, h3⟩ := loadPriceDb_of_ok h s b
    exact .inl ⟨rs, b', h, h3⟩
  · exact .inr ⟨e, h, loadPriceDb_of_err h s b⟩

theorem loadPriceDb_safe (t : List Char) (s : Store) (b : Builder String) : (loadPriceDb t s b).crashes = false := by
  rcases loadPriceDb_total t s b with ⟨rs, b', _, h⟩ | ⟨e, _, h⟩ <;> rw [h] <;> rfl

/-- `process` with a price-db path is `buildFrom` (ledger events first, then the file's records) followed by
`build`, on the records the parser reads from the text -/
theorem processPriceDb_of_ok {t : List Char} {rs : List PriceRec} (h : parsePriceDb t = .ok rs)
    (ledgerEvents : List (PriceEvent String)) (s : Store) :
    ∃ b, buildFrom ledgerEvents (eventsOf s rs) = .ok b ∧
      processPriceDb ledgerEvents t s = .ok (storeAfter s rs, build b) := by
  obtain ⟨b1, h1⟩ := insertAll_ok .ledger ledgerEvents ([] : Builder String)
  obtain ⟨b2, h2, _, h4⟩ := loadPriceDb_of_ok h s b1
  exact ⟨b2, by simp [buildFrom, h1, h2], by simp [processPriceDb, h1, h4]⟩

theorem processPriceDb_of_err {t : List Char} {e : ParseErr} (h : parsePriceDb t = .err e)
    (ledgerEvents : List (PriceEvent String)) (s : Store) : processPriceDb ledgerEvents t s = .err e := by
  obtain ⟨b1, h1⟩ := insertAll_ok .ledger ledgerEvents ([] : Builder String)
  simp [processPriceDb, h1, loadPriceDb_of_err h s b1]

/-- **the price-db part of `process` is total** -/
theorem processPriceDb_total (ledgerEvents : List (PriceEvent String)) (t : List Char) (s : Store) :
    (∃ rs b, parsePriceDb t = .ok rs ∧ buildFrom ledgerEvents (eventsOf s rs) = .ok b ∧
      processPriceDb ledgerEvents t s = .ok (storeAfter s rs, build b)) ∨
    (∃ e, parsePriceDb t = .err e ∧ processPriceDb ledgerEvents t s = .err e) := by
  rcases parsePriceDb_total t with ⟨rs, h⟩ | ⟨e, h, _⟩
  · obtain ⟨b, h1, h2⟩ := processPriceDb_of_ok h ledgerEvents s
    exact .inl ⟨rs, b, h, h1, h2⟩
  · exact .inr ⟨e, h, processPriceDb_of_err h ledgerEvents s⟩

end Okane.PriceDbFile
