import Okane.Lemmas.ImportBooks
import Okane.Model.Import
import Okane.Model.ImportLedger
/-!
# From importer transactions (`Import.Txn`) to ledgers the book-keeping accepts

`Txn.toDoubleEntry` of a single-commodity `Txn` without rates is a posting list of the shape
`Lemmas/ImportBooks.lean` characterises; it sums to `amount + charges + counter amount`.
-/
set_option linter.unusedSectionVars false
set_option linter.unusedVariables false
namespace Okane

/-! ## list lemmas for `PostingsOK` / `sumV` / `finalX` -/

theorem sumV_append (l1 l2 : List Posting) : sumV (l1 ++ l2) = sumV l1 + sumV l2 := by
  induction l1 with
  | nil => simp [sumV]
  | cons p ps ih =>
    simp only [List.cons_append, sumV]
    split <;> simp [ih] <;> grind

theorem finalX_append (acct : String) (l1 l2 : List Posting) (x : Rat) :
    finalX acct x (l1 ++ l2) = finalX acct (finalX acct x l1) l2 := by
  induction l1 generalizing x with
  | nil => simp [finalX]
  | cons p ps ih =>
    simp only [List.cons_append, finalX]
    split <;> simp [ih]

theorem PostingsOK_append (acct c : String) (l1 l2 : List Posting) (x : Rat)
    (h1 : PostingsOK acct c x l1) (h2 : PostingsOK acct c (finalX acct x l1) l2) :
    PostingsOK acct c x (l1 ++ l2) := by
  induction l1 generalizing x with
  | nil => simpa [finalX] using h2
  | cons p ps ih =>
    obtain ⟨v, hamt, hbal, hrest⟩ := h1
    refine ⟨v, hamt, hbal, ?_⟩
    apply ih _ hrest
    simpa [finalX, hamt] using h2

theorem sumV_cons_amt (p : Posting) (ps : List Posting) (v : PDec) (c : String) (cost : Option Exchange) (lot : Lot)
    (h : p.amount = some { amount := .amt v c, cost := cost, lot := lot }) : sumV (p :: ps) = v.toRat + sumV ps := by
  simp [sumV, h]

theorem finalX_cons_amt (acct : String) (x : Rat) (p : Posting) (ps : List Posting) (v : PDec) (c : String)
    (cost : Option Exchange) (lot : Lot) (h : p.amount = some { amount := .amt v c, cost := cost, lot := lot }) :
    finalX acct x (p :: ps) = finalX acct (stepX acct x p.account v.toRat) ps := by
  simp [finalX, h]

namespace Import

theorem Dec.toPDec_toRat (d : Dec) : d.toPDec.toRat = d.toRat := rfl

theorem Dec.negate_toRat (d : Dec) : d.negate.toRat = - d.toRat := by
  unfold Dec.negate Dec.toRat Dec.isSignPositive
  cases d.neg <;> simp

/-- sum of the charge amounts -/
def chargeSum : List Charge → Rat
  | [] => 0
  | ch :: rest => ch.amount.value.toRat + chargeSum rest

/-- the value of the counter-posting (`Txn::dest_amount`) -/
def Txn.destVal (t : Txn) : Rat :=
  match t.transferredAmount with
  | some tr => (Txn.amountWithSign tr t.amount.value.negate).value.toRat
  | none => t.amount.value.negate.toRat

/-- everything in one commodity, no rates -/
structure Txn.Mono (c : String) (t : Txn) : Prop where
  amount : t.amount.commodity = c
  charges : ∀ ch ∈ t.charges, ch.amount.commodity = c
  transferred : ∀ tr, t.transferredAmount = some tr → tr.commodity = c
  rates : t.rates = []
  balance : ∀ b, t.balance = some b → b.commodity = c

/-- the printed transaction sums to zero -/
def Txn.Balanced (t : Txn) : Prop := t.amount.value.toRat + chargeSum t.charges + t.destVal = 0

/-- the counter accounts are not the imported account -/
structure Txn.OtherAccounts (acct : String) (t : Txn) : Prop where
  dest : ∀ fallback, fallback = "Income:Unknown" ∨ fallback = "Expenses:Unknown" → t.destAccount.getD fallback ≠ acct
  commissions : "Expenses:Commissions" ≠ acct

theorem chargePostings_ok (t : Txn) (acct c : String) (hr : t.rates = []) (hne : "Expenses:Commissions" ≠ acct) (x : Rat) :
    ∀ cs : List Charge, (∀ ch ∈ cs, ch.amount.commodity = c) →
      let ps := cs.map fun ch : Charge =>
        ({ account := "Expenses:Commissions", clear := .uncleared, amount := some (t.toPostingAmount ch.amount),
           balance := none, metadata := [.keyValue "Payee" (.text ch.payee)] } : Posting)
      PostingsOK acct c x ps ∧ sumV ps = chargeSum cs ∧ finalX acct x ps = x := by
  intro cs
  induction cs with
  | nil => intro _; simp [PostingsOK, sumV, finalX, chargeSum]
  | cons ch rest ih =>
    intro hcs
    have hc : ch.amount.commodity = c := hcs ch (by simp)
    have ih' := ih (fun ch' h => hcs ch' (by simp [h]))
    simp only [List.map_cons]
    refine ⟨?_, ?_, ?_⟩
    · refine ⟨ch.amount.value.toPDec, ?_, Or.inl rfl, ?_⟩
      · simp [Txn.toPostingAmount, Txn.asSyntaxAmount, Txn.rate, hr, hc]
      · simp only [stepX, hne, if_false]
        exact ih'.1
    · rw [sumV_cons_amt _ _ ch.amount.value.toPDec ch.amount.commodity (t.rate ch.amount.commodity) {} rfl]
      rw [ih'.2.1]; rfl
    · rw [finalX_cons_amt acct x _ _ ch.amount.value.toPDec ch.amount.commodity (t.rate ch.amount.commodity) {} rfl]
      simp only [stepX, hne, if_false]
      exact ih'.2.2

/-- **Shape of `to_double_entry` for the book-keeping.**  A single-commodity, balanced `Txn` whose asserted
balance (if any) is `x + amount` prints postings the book-keeping accepts from a state where the account holds `x`;
afterwards the account holds `x + amount`. -/
theorem toDoubleEntry_ok (t : Txn) (acct c : String) (x : Rat) (hm : t.Mono c) (hbal : t.Balanced)
    (ho : t.OtherAccounts acct)
    (hassert : t.balance = none ∨ ∃ b, t.balance = some ⟨b, c⟩ ∧ b.toRat = x + t.amount.value.toRat) :
    ∃ tr, t.toDoubleEntry acct = .ok tr ∧ tr.date = t.date ∧ PostingsOK acct c x tr.posts ∧ sumV tr.posts = 0 ∧
      finalX acct x tr.posts = x + t.amount.value.toRat := by
  have hrate : ∀ k, t.rate k = none := by intro k; simp [Txn.rate, hm.rates]
  -- the three groups of postings
  have hsrcAmt : (t.srcPosting acct).amount = some { amount := .amt t.amount.value.toPDec c, cost := none, lot := {} } := by
    simp [Txn.srcPosting, Txn.srcAmount, Txn.toPostingAmount, Txn.asSyntaxAmount, hrate, hm.amount]
  have hsrcOK : ∀ y, y = x → PostingsOK acct c y [t.srcPosting acct] := by
    intro y hy
    subst hy
    refine ⟨t.amount.value.toPDec, hsrcAmt, ?_, trivial⟩
    rcases hassert with h | ⟨b, h, hb⟩
    · left; simp [Txn.srcPosting, h]
    · right
      refine ⟨rfl, b.toPDec, ?_, ?_⟩
      · simp [Txn.srcPosting, h, Txn.asSyntaxAmount]
      · simp [stepX, Txn.srcPosting, Dec.toPDec_toRat, hb]
  have hsrcSum : sumV [t.srcPosting acct] = t.amount.value.toRat := by
    rw [sumV_cons_amt _ _ _ _ _ _ hsrcAmt]; simp [sumV, Dec.toPDec_toRat]
  have hsrcX : ∀ y, finalX acct y [t.srcPosting acct] = y + t.amount.value.toRat := by
    intro y
    rw [finalX_cons_amt acct y _ _ _ _ _ _ hsrcAmt]
    simp [finalX, stepX, Txn.srcPosting, Dec.toPDec_toRat]
  -- counter-posting
  have hdest : ∀ fb, ∃ v : PDec, (t.destPosting fb).amount = some { amount := .amt v c, cost := none, lot := {} } ∧
      v.toRat = t.destVal ∧ (t.destPosting fb).balance = none ∧ (t.destPosting fb).account = t.destAccount.getD fb := by
    intro fb
    unfold Txn.destPosting Txn.destAmount Txn.destVal
    cases htr : t.transferredAmount with
    | none =>
      refine ⟨t.amount.value.negate.toPDec, ?_, rfl, rfl, rfl⟩
      simp [Txn.toPostingAmount, Txn.asSyntaxAmount, OwnedAmount.negate, hrate, hm.amount]
    | some tr =>
      refine ⟨(Txn.amountWithSign tr t.amount.value.negate).value.toPDec, ?_, rfl, rfl, rfl⟩
      simp [Txn.toPostingAmount, Txn.asSyntaxAmount, Txn.amountWithSign, hrate, hm.transferred tr htr]
  have hdestOK : ∀ fb y, (fb = "Income:Unknown" ∨ fb = "Expenses:Unknown") →
      PostingsOK acct c y [t.destPosting fb] ∧ sumV [t.destPosting fb] = t.destVal ∧ finalX acct y [t.destPosting fb] = y := by
    intro fb y hfb
    obtain ⟨v, hv, hval, hb, hacc⟩ := hdest fb
    have hne : (t.destPosting fb).account ≠ acct := by rw [hacc]; exact ho.dest fb hfb
    refine ⟨⟨v, hv, Or.inl hb, trivial⟩, ?_, ?_⟩
    · rw [sumV_cons_amt _ _ _ _ _ _ hv]; simp [sumV, hval]
    · rw [finalX_cons_amt acct y _ _ _ _ _ _ hv]; simp [finalX, stepX, hne]
  have hch := chargePostings_ok t acct c hm.rates ho.commissions
  have hbal' : t.amount.value.toRat + chargeSum t.charges + t.destVal = 0 := hbal
  unfold Txn.toDoubleEntry Txn.postings
  by_cases hpos : t.amount.value.isSignPositive = true
  · simp only [hpos, if_true]
    refine ⟨_, rfl, rfl, ?_, ?_, ?_⟩
    · obtain ⟨h1, _, h3⟩ := hch (x + t.amount.value.toRat) t.charges hm.charges
      obtain ⟨hd1, _, _⟩ := hdestOK "Income:Unknown" (x + t.amount.value.toRat) (Or.inl rfl)
      apply PostingsOK_append
      · apply PostingsOK_append
        · exact hsrcOK x rfl
        · rw [hsrcX]; exact h1
      · rw [finalX_append, hsrcX]
        unfold Txn.chargePostings
        rw [h3]; exact hd1
    · obtain ⟨_, h2, _⟩ := hch x t.charges hm.charges
      obtain ⟨_, hd2, _⟩ := hdestOK "Income:Unknown" x (Or.inl rfl)
      rw [sumV_append, sumV_append, hsrcSum, hd2]
      unfold Txn.chargePostings
      rw [h2]; exact hbal'
    · obtain ⟨_, _, h3⟩ := hch (x + t.amount.value.toRat) t.charges hm.charges
      obtain ⟨_, _, hd3⟩ := hdestOK "Income:Unknown" (x + t.amount.value.toRat) (Or.inl rfl)
      rw [finalX_append, finalX_append, hsrcX]
      unfold Txn.chargePostings
      rw [h3, hd3]
  · have hneg : t.amount.value.isSignNegative = true := by
      unfold Dec.isSignPositive at hpos
      unfold Dec.isSignNegative
      cases h : t.amount.value.neg <;> simp [h] at hpos ⊢
    simp only [hpos, hneg, if_true]
    refine ⟨_, rfl, rfl, ?_, ?_, ?_⟩
    · obtain ⟨hd1, _, hd3⟩ := hdestOK "Expenses:Unknown" x (Or.inr rfl)
      obtain ⟨h1, _, h3⟩ := hch x t.charges hm.charges
      apply PostingsOK_append
      · apply PostingsOK_append
        · exact hd1
        · rw [hd3]; exact h1
      · rw [finalX_append, hd3]
        unfold Txn.chargePostings
        rw [h3]; exact hsrcOK x rfl
    · obtain ⟨_, h2, _⟩ := hch x t.charges hm.charges
      obtain ⟨_, hd2, _⟩ := hdestOK "Expenses:Unknown" x (Or.inr rfl)
      rw [sumV_append, sumV_append, hsrcSum, hd2]
      unfold Txn.chargePostings
      rw [h2]
      have := hbal'
      grind
    · obtain ⟨_, _, h3⟩ := hch x t.charges hm.charges
      obtain ⟨_, _, hd3⟩ := hdestOK "Expenses:Unknown" x (Or.inr rfl)
      rw [finalX_append, finalX_append, hd3]
      unfold Txn.chargePostings
      rw [h3, hsrcX]

/-! ## a run of importer transactions with a consistent running balance -/

/-- Starting from `x`, every transaction is single-commodity, balanced, books its counter-postings elsewhere and,
if it asserts a balance, asserts the running total. -/
def RunOK (acct c : String) : Rat → List Txn → Prop
  | _, [] => True
  | x, t :: ts =>
    t.Mono c ∧ t.Balanced ∧ t.OtherAccounts acct ∧
    (t.balance = none ∨ ∃ b, t.balance = some ⟨b, c⟩ ∧ b.toRat = x + t.amount.value.toRat) ∧
    RunOK acct c (x + t.amount.value.toRat) ts

/-- the running total after the transactions -/
def runX : Rat → List Txn → Rat
  | x, [] => x
  | x, t :: ts => runX (x + t.amount.value.toRat) ts

theorem ledgerOf_ok (acct c : String) : ∀ (txns : List Txn) (x : Rat), RunOK acct c x txns →
    ∃ trs, ledgerOf acct txns = .ok trs ∧ LedgerOK acct c x trs ∧ ledgerX acct x trs = runX x txns := by
  intro txns
  induction txns with
  | nil => intro x _; exact ⟨[], rfl, trivial, rfl⟩
  | cons t ts ih =>
    intro x h
    obtain ⟨hm, hb, ho, ha, hrest⟩ := h
    obtain ⟨tr, htr, _, hp, hs, hx⟩ := toDoubleEntry_ok t acct c x hm hb ho ha
    obtain ⟨trs, hl, hok, hlx⟩ := ih _ hrest
    refine ⟨tr :: trs, ?_, ⟨hp, hs, ?_⟩, ?_⟩
    · simp [ledgerOf, htr, hl]
    · rw [hx]; exact hok
    · simp only [ledgerX, runX, hx]; exact hlx

theorem fundTxn_ok (acct c : String) (date : Date) (b : Dec) (hne : "Equity:Opening" ≠ acct) :
    PostingsOK acct c 0 (fundTxn acct date b c).posts ∧ sumV (fundTxn acct date b c).posts = 0 ∧
      finalX acct 0 (fundTxn acct date b c).posts = b.toRat := by
  refine ⟨⟨b.toPDec, rfl, Or.inl rfl, b.negate.toPDec, rfl, Or.inl rfl, trivial⟩, ?_, ?_⟩
  · simp [fundTxn, sumV, Dec.toPDec_toRat, Dec.negate_toRat]
    grind
  · simp [fundTxn, finalX, stepX, hne, Dec.toPDec_toRat]

/-- **Composition of the importer's output with the book-keeping.**  Given that the account held `b₀`
beforehand, a consistent run is accepted by `process` and the account ends at the running total. -/
theorem run_accepts (acct c : String) (hc : c ≠ "") (hne : "Equity:Opening" ≠ acct) (date : Date) (b₀ : Dec)
    (txns : List Txn) (h : RunOK acct c b₀.toRat txns) :
    ∃ trs st, ledgerOf acct txns = .ok trs ∧
      process (Entry.txn (fundTxn acct date b₀ c) :: trs.map Entry.txn) = .ok st ∧
      Amount.getPart (Balance.get st.bal acct) c = runX b₀.toRat txns := by
  obtain ⟨trs, hl, hok, hx⟩ := ledgerOf_ok acct c txns _ h
  obtain ⟨hf1, hf2, hf3⟩ := fundTxn_ok acct c date b₀ hne
  have hledger : LedgerOK acct c 0 (fundTxn acct date b₀ c :: trs) := ⟨hf1, hf2, by rw [hf3]; exact hok⟩
  obtain ⟨st, hp, hv⟩ := process_ok acct c hc _ hledger
  refine ⟨trs, st, hl, ?_, ?_⟩
  · simpa using hp
  · rw [hv]
    simp only [ledgerX, hf3]
    exact hx

end Import
end Okane
