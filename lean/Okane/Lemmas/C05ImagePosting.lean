import Okane.Lemmas.C05ImageMeta
import Okane.Lemmas.C05ImageNum
import Okane.Lemmas.C05Txn
/-!
# Image lemmas for C05, part 5: postings

* `postingAccount_image`: the account (`repeat_till` of words with its peeked terminator, then `trim_start`) — uses
  `asciiSpaceOnly`: an account word made of white space only would be trimmed away (known finding F28);
* `clearState_ok`, `lot_image`, `postingAmount_image`, `posting_image`.
-/
set_option linter.unusedSimpArgs false
set_option linter.unusedVariables false
namespace Okane.C05Image
open Okane Okane.Comb Okane.Parse Okane.Unparse Okane.ExprParse

/-! ## the account -/

/-- what one round of the account loop consumes: a word, possibly after one blank -/
def isChunk (k : List Char) : Prop := ∃ pre w, k = pre ++ w ∧ (pre = [] ∨ pre = [' ']) ∧ wfWord w

theorem accountWord_ok {i r : List Char} {u : Unit} (h : accountWord i = .ok u r) : ∃ k, isChunk k ∧ i = k ++ r := by
  unfold accountWord at h
  obtain ⟨a, ha⟩ := void_ok_iff.1 h
  obtain ⟨r1, hopt, hw⟩ := pair_ok_iff.1 ha
  obtain ⟨hr1, hne, hall, _⟩ := takeTill1_ok hw
  rcases opt_ok_iff.1 hopt with ⟨x, hx, _⟩ | ⟨_, _, hri⟩
  · obtain ⟨_, hi⟩ := literal_ok_iff.1 hx
    exact ⟨[' '] ++ a.2, ⟨[' '], a.2, rfl, Or.inr rfl, hne, hall⟩, by rw [hi, hr1]; simp⟩
  · exact ⟨a.2, ⟨[], a.2, rfl, Or.inl rfl, hne, hall⟩, by rw [← hri, hr1]⟩

theorem steps_account {i j : List Char} {xs : List Unit} (h : Steps accountWord i xs j) :
    ∃ ks : List (List Char), ks.length = xs.length ∧ (∀ k ∈ ks, isChunk k) ∧ i = ks.flatten ++ j := by
  induction h with
  | nil i => exact ⟨[], rfl, by simp, by simp⟩
  | cons hp hs ih =>
    obtain ⟨k, hk, hi⟩ := accountWord_ok hp
    obtain ⟨ks, hl, hall, hr⟩ := ih
    refine ⟨k :: ks, by simp [hl], ?_, by rw [hi, hr]; simp⟩
    intro x hx
    rcases List.mem_cons.mp hx with rfl | hx
    · exact hk
    · exact hall x hx

theorem stop_blank : isAccountStop ' ' = true := by decide

theorem ne_blank_of_notStop {c : Char} (h : isAccountStop c = false) : c ≠ ' ' := by
  intro e; subst e; simp [stop_blank] at h

theorem nd_cons {c : Char} (s : List Char) (h : c ≠ ' ') : noDoubleBlank (c :: s) = noDoubleBlank s := by
  rw [noDoubleBlank]
  intro tail h1 h2
  exact h h1

theorem nd_blank_cons {c : Char} (s : List Char) (h : c ≠ ' ') :
    noDoubleBlank (' ' :: c :: s) = noDoubleBlank (c :: s) := by
  rw [noDoubleBlank]
  intro tail h1 h2
  simp at h2
  exact h h2.1

theorem nd_word {w : List Char} (hw : ∀ c ∈ w, isAccountStop c = false) (X : List Char) :
    noDoubleBlank (w ++ X) = noDoubleBlank X := by
  induction w with
  | nil => rfl
  | cons c t ih =>
    rw [List.cons_append, nd_cons _ (ne_blank_of_notStop (hw c (by simp)))]
    exact ih (fun d hd => hw d (by simp [hd]))

theorem nd_chunk {k : List Char} (hk : isChunk k) (X : List Char) : noDoubleBlank (k ++ X) = noDoubleBlank X := by
  obtain ⟨pre, w, rfl, hpre, hne, hw⟩ := hk
  rcases hpre with rfl | rfl
  · simpa using nd_word hw X
  · cases w with
    | nil => exact absurd rfl hne
    | cons c t =>
      have := nd_word hw X
      simp only [List.cons_append, List.nil_append] at this ⊢
      rw [nd_blank_cons _ (ne_blank_of_notStop (hw c (by simp)))]
      exact this

theorem nd_chunks (ks : List (List Char)) (h : ∀ k ∈ ks, isChunk k) : noDoubleBlank ks.flatten = true := by
  induction ks with
  | nil => rfl
  | cons k t ih =>
    rw [List.flatten_cons, nd_chunk (h k (by simp))]
    exact ih (fun x hx => h x (by simp [hx]))

/-- the text ends with a character of a word -/
def lastOk (s : List Char) : Prop := ∃ c, s.getLast? = some c ∧ isAccountStop c = false

theorem lastOk_word {w : List Char} (hw : wfWord w) (s : List Char) : lastOk (s ++ w) := by
  obtain ⟨hne, hall⟩ := hw
  cases hl : w.getLast? with
  | none => exact absurd (List.getLast?_eq_none_iff.mp hl) hne
  | some c =>
    refine ⟨c, ?_, hall c (List.mem_of_getLast? hl)⟩
    rw [List.getLast?_append, hl]; rfl

theorem lastOk_chunks (ks : List (List Char)) (h : ∀ k ∈ ks, isChunk k) : ∀ s, lastOk s → lastOk (s ++ ks.flatten) := by
  induction ks with
  | nil => intro s hs; simpa using hs
  | cons k t ih =>
    intro s hs
    obtain ⟨pre, w, rfl, _, hw⟩ := h k (by simp)
    have h1 : lastOk ((s ++ pre) ++ w) := lastOk_word hw (s ++ pre)
    have := ih (fun x hx => h x (by simp [hx])) _ h1
    simpa [List.append_assoc] using this

theorem chunk_chars {k : List Char} (hk : isChunk k) : ∀ c ∈ k, c = ' ' ∨ isAccountStop c = false := by
  obtain ⟨pre, w, rfl, hpre, _, hw⟩ := hk
  intro c hc
  rcases List.mem_append.mp hc with hc | hc
  · rcases hpre with rfl | rfl
    · simp at hc
    · simp at hc; exact Or.inl hc
  · exact Or.inr (hw c hc)

theorem accChar_ok {c : Char} (h : c = ' ' ∨ isAccountStop c = false) :
    (!(c == '\n' || c == '\r' || c == ';' || c == '\t')) = true := by
  rcases h with rfl | h
  · decide
  · simp only [isAccountStop, Bool.or_eq_false_iff] at h
    simp [h.1.1.1.1, h.1.1.1.2, h.1.1.2, h.2]

/-- under `asciiSpaceOnly`, a character that is not an account stop is not white space -/
theorem notStop_notWs {c : Char} (hok : okWs c = true) (h : isAccountStop c = false) : isRustWhitespace c = false := by
  cases hw : isRustWhitespace c with
  | false => rfl
  | true =>
    exfalso
    simp only [okWs, hw, Bool.not_true, Bool.false_or, Bool.or_eq_true, beq_iff_eq] at hok
    simp only [isAccountStop, Bool.or_eq_false_iff, beq_eq_false_iff_ne] at h
    rcases hok with ((e | e) | e) | e
    · exact h.1.2 e
    · exact h.2 e
    · exact h.1.1.1.1 e
    · exact h.1.1.1.2 e

/-- **image of `posting_account`**: the account is well formed and it is the text at the head of the input, possibly
after one blank -/
theorem postingAccount_image {i r : List Char} {s : String} (hi : TextOK i) (h : postingAccount i = .ok s r) :
    wfAccount s.toList = true ∧ ∃ pre X, (pre = [] ∨ pre = [' ']) ∧ i = pre ++ (s.toList ++ X) := by
  unfold postingAccount at h
  obtain ⟨r1, _, hmap, _⟩ := terminated_ok_iff.1 h
  obtain ⟨taken, htk, rfl⟩ := map_ok_iff.1 hmap
  obtain ⟨⟨a, ha⟩, htaken⟩ := take_ok_iff.1 htk
  obtain ⟨xs, b⟩ := a
  obtain ⟨j, hne, hsteps, hg⟩ := repeatTill1_ok ha
  have hj : r1 = j := by
    unfold accountEnd at hg
    exact (peek_ok_iff.1 hg).1
  subst hj
  obtain ⟨ks, hl, hall, hij⟩ := steps_account hsteps
  have htk' : taken = ks.flatten := by rw [htaken, hij]; exact consumed_append _ _
  subst htk'
  cases ks with
  | nil => exact absurd (List.eq_nil_of_length_eq_zero hl.symm) hne
  | cons k0 ks' =>
    obtain ⟨pre, w0, rfl, hpre, hw0ne, hw0⟩ := hall k0 (by simp)
    have hall' : ∀ k ∈ ks', isChunk k := fun k hk => hall k (by simp [hk])
    cases w0 with
    | nil => exact absurd rfl hw0ne
    | cons c0 t0 =>
      have hc0s : isAccountStop c0 = false := hw0 c0 (by simp)
      have hc0 : isRustWhitespace c0 = false := notStop_notWs (hi.mem (by rw [hij]; simp)) hc0s
      have htrim : trimStart (((pre ++ c0 :: t0) :: ks').flatten) = c0 :: (t0 ++ ks'.flatten) := by
        rcases hpre with rfl | rfl
        · simp [trimStart, List.dropWhile, hc0]
        · have hb : isRustWhitespace ' ' = true := by decide
          simp [trimStart, List.dropWhile, hc0, hb]
      simp only [String.toList_ofList, htrim]
      refine ⟨?_, pre, r1, hpre, by rw [hij]; simp⟩
      have hchars : ∀ c ∈ c0 :: (t0 ++ ks'.flatten), c = ' ' ∨ isAccountStop c = false := by
        intro c hc
        rcases List.mem_cons.mp hc with rfl | hc
        · exact Or.inr hc0s
        · rcases List.mem_append.mp hc with hc | hc
          · exact Or.inr (hw0 c (by simp [hc]))
          · obtain ⟨k, hk, hck⟩ := List.mem_flatten.mp hc
            exact chunk_chars (hall' k hk) c hck
      have hlast : lastOk ((c0 :: t0) ++ ks'.flatten) :=
        lastOk_chunks ks' hall' _ (by simpa using lastOk_word (w := c0 :: t0) ⟨hw0ne, hw0⟩ [])
      have hnd : noDoubleBlank ((c0 :: t0) ++ ks'.flatten) = true := by
        rw [nd_word hw0]; exact nd_chunks ks' hall'
      simp only [List.cons_append] at hlast hnd
      simp only [wfAccount, Bool.and_eq_true, List.all_eq_true, bne_iff_ne, ne_eq]
      refine ⟨⟨⟨⟨by simp, fun c hc => accChar_ok (hchars c hc)⟩, by simp [startTrimmed, hc0]⟩, ?_⟩, hnd⟩
      obtain ⟨c, hc1, hc2⟩ := hlast
      rw [hc1]
      intro e
      simp only [Option.some.injEq] at e
      exact ne_blank_of_notStop hc2 e

/-! ## the clear mark -/

theorem clearState_ok {i r : List Char} {cs : ClearState} (h : clearState i = .ok cs r) :
    (cs = .uncleared ∧ r = i ∧ ∀ c t, i = c :: t → c ≠ '*' ∧ c ≠ '!') ∨ (cs ≠ .uncleared ∧ Stop isSpace r) := by
  unfold clearState at h
  obtain ⟨o, ho, rfl⟩ := map_ok_iff.1 h
  rcases opt_ok_iff.1 ho with ⟨a, ha, rfl⟩ | ⟨⟨z, hz⟩, rfl, rfl⟩
  · right
    obtain ⟨r1, _, hv, hsp⟩ := terminated_ok_iff.1 ha
    refine ⟨?_, (space0_ok hsp).2.2⟩
    rcases alt2_ok_iff.1 hv with h1 | ⟨_, h1⟩
    · rw [(value_ok_iff.1 h1).2]; simp
    · rw [(value_ok_iff.1 h1).2]; simp
  · left
    refine ⟨rfl, rfl, ?_⟩
    intro c t e
    subst e
    constructor
    · rintro rfl
      simp [alt2, char, oneOf, space0, takeWhile0] at hz
    · rintro rfl
      simp [alt2, char, oneOf, space0, takeWhile0] at hz

/-! ## value expressions, lot, cost -/

/-- a value expression as the image property wants it: its meaning-normal form is printable and plain -/
def VOK (v : VExpr) : Prop := wfVExpr (canonVExpr v) = true ∧ plainV (canonVExpr v) = true

def XOK : Exchange → Prop
  | .total v => VOK v
  | .rate v => VOK v

theorem valueExpr_VOK {i r : List Char} {v : VExpr} (h : valueExpr i = .ok v r) : VOK v := parseValueExpr_canon h

theorem XOK.wf {x : Exchange} (h : XOK x) : wfExchange (canonExchange x) = true := by
  cases x <;> exact h.1

theorem XOK.plain {x : Exchange} (h : XOK x) : ∀ v ∈ exprsOfExchange (some (canonExchange x)), plainV v = true := by
  cases x <;> simp only [canonExchange, exprsOfExchange, List.mem_singleton, forall_eq] <;> exact h.2

structure LotOK (l : Lot) : Prop where
  price : ∀ x, l.price = some x → XOK x
  date : ∀ d, l.date = some d → wfDate d = true
  note : ∀ n, l.note = some n → (n.toList.all fun c => !(c == '(' || c == ')' || c == '@')) = true

theorem lotAmount_image {i r : List Char} {x : Exchange} (h : lotAmount i = .ok x r) : XOK x := by
  unfold lotAmount at h
  obtain ⟨b, r1, _, h2⟩ := bind_ok_iff.1 h
  cases b
  · simp only [Bool.false_eq_true, if_false] at h2
    obtain ⟨v, hv, rfl⟩ := map_ok_iff.1 h2
    obtain ⟨_, _, _, _, _, hve, _⟩ := delimited_ok_iff.1 hv
    exact valueExpr_VOK hve
  · simp only [if_true] at h2
    obtain ⟨v, hv, rfl⟩ := map_ok_iff.1 h2
    obtain ⟨_, _, _, _, _, hve, _⟩ := delimited_ok_iff.1 hv
    exact valueExpr_VOK hve

theorem lotLoop_image : ∀ (n : Nat) (l : Lot) (i : List Char) (l' : Lot) (r : List Char), LotOK l →
    lotLoop n l i = .ok l' r → LotOK l' := by
  intro n
  induction n with
  | zero => intro l i l' r _ h; simp [lotLoop] at h
  | succ n ih =>
    intro l i l' r hl h
    simp only [lotLoop] at h
    split at h
    · split at h
      · obtain ⟨a, r1, ha, h2⟩ := bind_ok_iff.1 h
        obtain ⟨_, r2, _, h3⟩ := bind_ok_iff.1 h2
        refine ih { l with price := some a } r2 l' r ⟨?_, hl.date, hl.note⟩ h3
        intro x hx
        simp only [Option.some.injEq] at hx
        subst hx
        exact lotAmount_image ha
      · simp at h
    · split at h
      · obtain ⟨d, r1, hd, h2⟩ := bind_ok_iff.1 h
        obtain ⟨_, r2, _, h3⟩ := bind_ok_iff.1 h2
        obtain ⟨_, _, _, _, _, hdate, _⟩ := delimited_ok_iff.1 hd
        refine ih { l with date := some d } r2 l' r ⟨hl.price, ?_, hl.note⟩ h3
        intro x hx
        simp only [Option.some.injEq] at hx
        subst hx
        exact date_image hdate
      · simp at h
    · split at h
      · obtain ⟨s, r1, hs, h2⟩ := bind_ok_iff.1 h
        obtain ⟨_, r2, _, h3⟩ := bind_ok_iff.1 h2
        unfold paren at hs
        obtain ⟨_, _, _, _, _, htt, _⟩ := delimited_ok_iff.1 hs
        refine ih { l with note := some (String.ofList s) } r2 l' r ⟨hl.price, hl.date, ?_⟩ h3
        intro x hx
        simp only [Option.some.injEq] at hx
        subst hx
        simp only [String.toList_ofList, List.all_eq_true]
        intro c hc
        have := (takeTill0_ok htt).2.1 c hc
        simp only [this, Bool.not_false]
      · simp at h
    · simp only [Res.ok.injEq] at h
      obtain ⟨rfl, rfl⟩ := h
      exact hl

/-- **image of `posting::lot`** -/
theorem lot_image {i r : List Char} {l : Lot} (h : lot i = .ok l r) : LotOK l := by
  unfold lot at h
  obtain ⟨_, r1, _, h2⟩ := bind_ok_iff.1 h
  exact lotLoop_image _ _ _ _ _ ⟨by simp, by simp, by simp⟩ h2

structure PAOK (a : PostingAmount) : Prop where
  amount : VOK a.amount
  lot : LotOK a.lot
  cost : ∀ x, a.cost = some x → XOK x

/-- **image of `posting::posting_amount`** -/
theorem postingAmount_image {i r : List Char} {a : PostingAmount} (h : postingAmount i = .ok a r) : PAOK a := by
  unfold postingAmount at h
  simp only [bind_ok_iff, pure_ok_iff] at h
  obtain ⟨amount, r1, ham, l, r2, hl, isAt, r3, _, isD, r4, _, cost, r5, hc, rfl, _⟩ := h
  obtain ⟨_, _, hv, _⟩ := terminated_ok_iff.1 ham
  refine ⟨valueExpr_VOK hv, lot_image hl, ?_⟩
  intro x hx
  simp only at hx
  subst hx
  rcases cond_ok_iff.1 hc with ⟨_, y, hy, he⟩ | ⟨_, he, _⟩
  · simp only [Option.some.injEq] at he
    subst he
    unfold condElse at hy
    split at hy
    · unfold totalCost at hy
      obtain ⟨v, hv', rfl⟩ := map_ok_iff.1 hy
      obtain ⟨_, _, _, hve⟩ := preceded_ok_iff.1 hv'
      exact valueExpr_VOK hve
    · unfold rateCost at hy
      obtain ⟨v, hv', rfl⟩ := map_ok_iff.1 hy
      obtain ⟨_, _, _, hve⟩ := preceded_ok_iff.1 hv'
      exact valueExpr_VOK hve
  · cases he

theorem PAOK.wf {a : PostingAmount} (h : PAOK a) : wfPostingAmount (canonPostingAmount a) = true := by
  obtain ⟨⟨h1, _⟩, ⟨hp, hd, hn⟩, hc⟩ := h
  obtain ⟨amount, cost, ⟨price, date, note⟩⟩ := a
  simp only at h1 hp hd hn hc
  simp only [wfPostingAmount, canonPostingAmount, wfLot, h1, Bool.true_and, Bool.and_eq_true]
  refine ⟨⟨⟨?_, ?_⟩, ?_⟩, ?_⟩
  · cases price with
    | none => rfl
    | some x => exact (hp x rfl).wf
  · cases date with
    | none => rfl
    | some d => exact hd d rfl
  · cases note with
    | none => rfl
    | some n => exact hn n rfl
  · cases cost with
    | none => rfl
    | some x => exact (hc x rfl).wf

theorem plain_of_option {x : Option Exchange} (h : ∀ y, x = some y → XOK y) :
    ∀ v ∈ exprsOfExchange (x.map canonExchange), plainV v = true := by
  cases x with
  | none => intro v hv; simp [exprsOfExchange] at hv
  | some y => exact (h y rfl).plain

theorem PAOK.plain {a : PostingAmount} (h : PAOK a) :
    ∀ v ∈ (canonPostingAmount a).amount ::
      (exprsOfExchange (canonPostingAmount a).lot.price ++ exprsOfExchange (canonPostingAmount a).cost), plainV v = true := by
  intro v hv
  simp only [canonPostingAmount, List.mem_cons, List.mem_append] at hv
  rcases hv with rfl | hv | hv
  · exact h.amount.2
  · exact plain_of_option h.lot.price v hv
  · exact plain_of_option h.cost v hv

/-! ## the posting -/

theorem safe_amountPart : Safe 0 (opt (terminated postingAmount space0)) := by safe_tac
theorem safe_balancePart : Safe 0 (opt (delimited (pair (char '=') space0) valueExpr space0)) := by safe_tac

theorem posting_assemble {account : String} {cs : ClearState} {amount : Option PostingAmount} {balance : Option VExpr}
    {md : List Metadata} (hacc : wfAccount account.toList = true)
    (hclear : (cs != .uncleared || notClearMarkStart account.toList) = true)
    (ham : ∀ a, amount = some a → PAOK a) (hbal : ∀ b, balance = some b → VOK b)
    (hmd : ∀ m ∈ md, wfMetadata m = true) :
    let p : Posting := { account := account, clear := cs, amount := amount, balance := balance, metadata := md }
    wfPosting (canonPosting p) = true ∧ ∀ v ∈ exprsOfPosting (canonPosting p), plainV v = true := by
  intro p
  constructor
  · simp only [p, wfPosting, canonPosting, hacc, hclear, Bool.true_and, Bool.and_eq_true, List.all_eq_true]
    refine ⟨⟨?_, ?_⟩, hmd⟩
    · cases amount with
      | none => rfl
      | some a => exact (ham a rfl).wf
    · cases balance with
      | none => rfl
      | some b => exact (hbal b rfl).1
  · intro v hv
    simp only [p, exprsOfPosting, canonPosting, List.mem_append] at hv
    rcases hv with hv | hv
    · cases amount with
      | none => simp at hv
      | some a => exact (ham a rfl).plain v (by simpa using hv)
    · cases balance with
      | none => simp at hv
      | some b =>
        simp only [Option.map_some, List.mem_singleton] at hv
        rw [hv]; exact (hbal b rfl).2

/-- **image of `posting::posting`** -/
theorem posting_image {i r : List Char} {p : Posting} (hi : TextOK i) (h : posting i = .ok p r) :
    wfPosting (canonPosting p) = true ∧ ∀ v ∈ exprsOfPosting (canonPosting p), plainV v = true := by
  unfold posting at h
  obtain ⟨cs, r1, hcs, h1⟩ := bind_ok_iff.1 h
  obtain ⟨account, r2, hacc, h2⟩ := bind_ok_iff.1 h1
  obtain ⟨shortcut, r3, hsc, h3⟩ := bind_ok_iff.1 h2
  obtain ⟨_, r0, hsp, hcl⟩ := preceded_ok_iff.1 hcs
  have hstop0 : Stop isSpace r0 := (space0_ok hsp).2.2
  have hok0 : TextOK r0 := hi.suffix ((safe_space0 (Nat.le_refl 0)).suffix hsp)
  have hok1 : TextOK r1 := hok0.suffix (safe_clearState.suffix hcl)
  have hok2 : TextOK r2 := hok1.suffix (safe_postingAccount.suffix hacc)
  obtain ⟨hwfacc, pre, X, hpre, hr1⟩ := postingAccount_image hok1 hacc
  have hclear : (cs != .uncleared || notClearMarkStart account.toList) = true := by
    rcases clearState_ok hcl with ⟨rfl, hr, hhead⟩ | ⟨hne, _⟩
    · subst hr
      have hpre' : pre = [] := by
        rcases hpre with rfl | rfl
        · rfl
        · exfalso
          have := hstop0 ' ' _ (by rw [hr1]; rfl)
          simp [isSpace] at this
      subst hpre'
      cases hal : account.toList with
      | nil => simp [notClearMarkStart]
      | cons c t =>
        rw [hal] at hr1
        obtain ⟨h1', h2'⟩ := hhead c (t ++ X) (by rw [hr1]; rfl)
        simp [notClearMarkStart, h1', h2']
    · cases cs <;> simp_all
  have hr3 : r3 = r2 := (hasPeek_ok_iff.1 hsc).1
  subst hr3
  cases shortcut
  · simp only [Bool.false_eq_true, if_false] at h3
    simp only [bind_ok_iff, pure_ok_iff] at h3
    obtain ⟨amount, r4, ham, balance, r5, hbal, md, r6, hmd, rfl, _⟩ := h3
    have hok4 : TextOK r4 := hok2.suffix (safe_amountPart.suffix ham)
    have hok5 : TextOK r5 := hok4.suffix (safe_balancePart.suffix hbal)
    refine posting_assemble hwfacc hclear ?_ ?_ (blockMetadata_image hok5 hmd)
    · intro a ha
      subst ha
      rcases opt_ok_iff.1 ham with ⟨a', ha', he⟩ | ⟨_, he, _⟩
      · simp only [Option.some.injEq] at he
        subst he
        obtain ⟨_, _, hpa, _⟩ := terminated_ok_iff.1 ha'
        exact postingAmount_image hpa
      · cases he
    · intro b hb
      subst hb
      rcases opt_ok_iff.1 hbal with ⟨b', hb', he⟩ | ⟨_, he, _⟩
      · simp only [Option.some.injEq] at he
        subst he
        obtain ⟨_, _, _, _, _, hve, _⟩ := delimited_ok_iff.1 hb'
        exact valueExpr_VOK hve
      · cases he
  · simp only [if_true] at h3
    simp only [bind_ok_iff, pure_ok_iff] at h3
    obtain ⟨md, r6, hmd, rfl, _⟩ := h3
    exact posting_assemble (amount := none) (balance := none) hwfacc hclear (by intro a ha; cases ha)
      (by intro b hb; cases hb) (blockMetadata_image hok2 hmd)

example : (match posting "  * Assets:Bank of X  -1,234.50 USD {2 EUR} [2024/01/02] (n) @ 3 EUR = 0 ; k: v\n".toList with
    | .ok p [] => p ==
        { account := "Assets:Bank of X", clear := .cleared,
          amount := some { amount := .amt ⟨true, 123450, 2, some .comma3dot⟩ "USD",
                           cost := some (.rate (.amt ⟨false, 3, 0, none⟩ "EUR")),
                           lot := { price := some (.rate (.amt ⟨false, 2, 0, none⟩ "EUR")), date := some ⟨2024, 1, 2⟩,
                                    note := some "n" } },
          balance := some (.amt ⟨false, 0, 0, none⟩ ""), metadata := [.keyValue "k" (.text "v")] }
    | _ => false) = true := by
  decide +kernel

end Okane.C05Image
