import Okane.Lemmas.C05TxnExpr
import Okane.Lemmas.ExprParseImage
/-!
# Round trip of transactions (C05), part 5: every value expression of a parsed ledger came out of `value_expr`

Hence (`ExprParse.parseValueExpr_image`) every parsed tree is plain, and the `PlainV` hypothesis of
`C05_roundtrip_txn_plain` is automatic for ledgers that were parsed: `C05_roundtrip_txn_parsed`.
-/
set_option linter.unusedSimpArgs false
namespace Okane.Unparse
open Okane Okane.Comb Okane.Parse

/-! ## inversion of the combinators on a success -/

theorem andThen_ok_inv {α β : Type} {r : Res α} {f : α → List Char → Res β} {b : β} {s : List Char}
    (h : r.andThen f = .ok b s) : ∃ a t, r = .ok a t ∧ f a t = .ok b s := by
  cases r with
  | ok a t => exact ⟨a, t, rfl, h⟩
  | bt p => cases h
  | cut p => cases h
  | panic p => cases h
  | fuel => cases h

theorem resMap_ok_inv {α β : Type} {r : Res α} {f : α → β} {b : β} {s : List Char}
    (h : r.map f = .ok b s) : ∃ a, r = .ok a s ∧ b = f a := by
  cases r with
  | ok a t => simp only [Res.map_ok, Res.ok.injEq] at h; exact ⟨a, by rw [h.2], h.1.symm⟩
  | bt p => cases h
  | cut p => cases h
  | panic p => cases h
  | fuel => cases h

theorem opt_ok_inv {α : Type} {p : Parser α} {i s : List Char} {o : Option α} (h : opt p i = .ok o s) :
    o = none ∨ ∃ a, o = some a ∧ p i = .ok a s := by
  unfold opt at h
  split at h
  · rename_i a r hp
    simp only [Res.ok.injEq] at h
    exact Or.inr ⟨a, h.1.symm, by rw [hp, h.2]⟩
  · simp only [Res.ok.injEq] at h; exact Or.inl h.1.symm
  · cases h
  · cases h
  · cases h

theorem alt2_ok_inv {α : Type} {p q : Parser α} {i s : List Char} {a : α} (h : (p <|| q) i = .ok a s) :
    p i = .ok a s ∨ q i = .ok a s := by
  unfold alt2 at h
  split at h
  · exact Or.inr h
  · exact Or.inl h

theorem cutErr_ok_inv {α : Type} {p : Parser α} {i s : List Char} {a : α} (h : cutErr p i = .ok a s) :
    p i = .ok a s := by
  unfold cutErr at h
  split at h
  · cases h
  · exact h

/-- an invariant of the elements is an invariant of what `repeat(0.., p)` collects -/
theorem repeat0Loop_all {α : Type} {p : Parser α} (R : α → Prop) (hp : ∀ i a s, p i = .ok a s → R a) :
    ∀ (n : Nat) (i : List Char) (acc xs : List α) (s : List Char), repeat0Loop p n i acc = .ok xs s →
      (∀ x ∈ acc, R x) → ∀ x ∈ xs, R x := by
  intro n
  induction n with
  | zero => intro i acc xs s h; cases h
  | succ n ih =>
    intro i acc xs s h hacc
    unfold repeat0Loop at h
    split at h
    · rename_i a r hpa
      split at h
      · cases h
      · exact ih r (acc ++ [a]) xs s h (by
          intro x hx
          rcases List.mem_append.mp hx with hx | hx
          · exact hacc x hx
          · simp only [List.mem_singleton] at hx; subst hx; exact hp i _ r hpa)
    · simp only [Res.ok.injEq] at h; rw [← h.1]; exact hacc
    · cases h
    · cases h
    · cases h

/-! ## the value expressions of a parsed posting / transaction / entry -/

section
variable {Q : VExpr → Prop} (hV : ∀ i v s, valueExpr i = .ok v s → Q v)
include hV

theorem lotAmount_image {i s : List Char} {x : Exchange} (h : lotAmount i = .ok x s) :
    ∀ v ∈ exprsOfExchange (some x), Q v := by
  simp only [lotAmount, bind_apply] at h
  obtain ⟨b, t, _, h⟩ := andThen_ok_inv h
  cases b with
  | true =>
    simp only [if_true, map_apply, delimited_apply] at h
    obtain ⟨e, h1, rfl⟩ := resMap_ok_inv h
    obtain ⟨_, _, _, h1⟩ := andThen_ok_inv h1
    obtain ⟨e', _, h2, _⟩ := andThen_ok_inv h1
    intro v hv
    simp only [exprsOfExchange, List.mem_singleton] at hv
    subst hv
    obtain ⟨e'', t', h3, h4⟩ := andThen_ok_inv h1
    obtain ⟨_, _, h5⟩ := resMap_ok_inv h4
    subst h5
    exact hV _ _ _ h3
  | false =>
    simp only [Bool.false_eq_true, if_false, map_apply, delimited_apply] at h
    obtain ⟨e, h1, rfl⟩ := resMap_ok_inv h
    obtain ⟨_, _, _, h1⟩ := andThen_ok_inv h1
    intro v hv
    simp only [exprsOfExchange, List.mem_singleton] at hv
    subst hv
    obtain ⟨e'', t', h3, h4⟩ := andThen_ok_inv h1
    obtain ⟨_, _, h5⟩ := resMap_ok_inv h4
    subst h5
    exact hV _ _ _ h3

theorem lotLoop_image : ∀ (n : Nat) (cur l : Lot) (i s : List Char), lotLoop n cur i = .ok l s →
    (∀ v ∈ exprsOfExchange cur.price, Q v) → ∀ v ∈ exprsOfExchange l.price, Q v := by
  intro n
  induction n with
  | zero => intro cur l i s h; cases h
  | succ n ih =>
    intro cur l i s h hcur
    simp only [lotLoop] at h
    split at h
    · split at h
      · simp only [bind_apply] at h
        obtain ⟨x, t, h1, h2⟩ := andThen_ok_inv h
        obtain ⟨_, t', _, h3⟩ := andThen_ok_inv h2
        exact ih _ l _ s h3 (lotAmount_image hV h1)
      · cases h
    · split at h
      · simp only [bind_apply] at h
        obtain ⟨x, t, h1, h2⟩ := andThen_ok_inv h
        obtain ⟨_, t', _, h3⟩ := andThen_ok_inv h2
        exact ih _ l _ s h3 hcur
      · cases h
    · split at h
      · simp only [bind_apply] at h
        obtain ⟨x, t, h1, h2⟩ := andThen_ok_inv h
        obtain ⟨_, t', _, h3⟩ := andThen_ok_inv h2
        exact ih _ l _ s h3 hcur
      · cases h
    · simp only [Res.ok.injEq] at h
      rw [← h.1]; exact hcur

theorem postingAmount_image {i s : List Char} {a : PostingAmount} (h : postingAmount i = .ok a s) :
    ∀ v ∈ a.amount :: (exprsOfExchange a.lot.price ++ exprsOfExchange a.cost), Q v := by
  rw [postingAmount_eq] at h
  simp only [bind_apply, terminated_apply] at h
  obtain ⟨amt, t1, h1, h⟩ := andThen_ok_inv h
  obtain ⟨amt', t1', h1a, h1b⟩ := andThen_ok_inv h1
  obtain ⟨_, _, h1c⟩ := resMap_ok_inv h1b
  subst h1c
  have hQa := hV _ _ _ h1a
  obtain ⟨l, t2, h2, h⟩ := andThen_ok_inv h
  have hQl : ∀ v ∈ exprsOfExchange l.price, Q v := by
    simp only [lot, bind_apply] at h2
    obtain ⟨_, t, _, h2⟩ := andThen_ok_inv h2
    exact lotLoop_image hV _ {} l _ _ h2 (by intro v hv; cases hv)
  obtain ⟨c, t3, h3, h⟩ := andThen_ok_inv h
  have hQc : ∀ v ∈ exprsOfExchange c, Q v := by
    simp only [costParser, bind_apply] at h3
    obtain ⟨isAt, t, _, h3⟩ := andThen_ok_inv h3
    obtain ⟨isD, t', _, h3⟩ := andThen_ok_inv h3
    cases isAt with
    | false =>
      simp only [Comb.cond, Bool.false_eq_true, if_false, pure_apply, Res.ok.injEq] at h3
      rw [← h3.1]; intro v hv; cases hv
    | true =>
      simp only [Comb.cond, if_true, map_apply] at h3
      obtain ⟨x, h4, rfl⟩ := resMap_ok_inv h3
      cases isD with
      | true =>
        simp only [condElse, if_true, totalCost, map_apply, preceded_apply] at h4
        obtain ⟨e, h5, rfl⟩ := resMap_ok_inv h4
        obtain ⟨_, _, _, h6⟩ := andThen_ok_inv h5
        intro v hv
        simp only [exprsOfExchange, List.mem_singleton] at hv
        subst hv; exact hV _ _ _ h6
      | false =>
        simp only [condElse, Bool.false_eq_true, if_false, rateCost, map_apply, preceded_apply] at h4
        obtain ⟨e, h5, rfl⟩ := resMap_ok_inv h4
        obtain ⟨_, _, _, h6⟩ := andThen_ok_inv h5
        intro v hv
        simp only [exprsOfExchange, List.mem_singleton] at hv
        subst hv; exact hV _ _ _ h6
  simp only [pure_apply, Res.ok.injEq] at h
  rw [← h.1]
  intro v hv
  simp only [List.mem_cons, List.mem_append] at hv
  rcases hv with rfl | hv | hv
  · exact hQa
  · exact hQl v hv
  · exact hQc v hv

theorem posting_image {i s : List Char} {p : Posting} (h : posting i = .ok p s) : ∀ v ∈ exprsOfPosting p, Q v := by
  rw [posting_eq] at h
  simp only [bind_apply] at h
  obtain ⟨cs, t1, _, h⟩ := andThen_ok_inv h
  obtain ⟨acct, t2, _, h⟩ := andThen_ok_inv h
  simp only [postingTail, bind_apply] at h
  obtain ⟨sc, t3, _, h⟩ := andThen_ok_inv h
  cases sc with
  | true =>
    simp only [if_true, bind_apply] at h
    obtain ⟨md, t4, _, h⟩ := andThen_ok_inv h
    simp only [pure_apply, Res.ok.injEq] at h
    rw [← h.1]
    intro v hv
    simp [exprsOfPosting] at hv
  | false =>
    simp only [Bool.false_eq_true, if_false, bind_apply] at h
    obtain ⟨amount, t4, h4, h⟩ := andThen_ok_inv h
    obtain ⟨balance, t5, h5, h⟩ := andThen_ok_inv h
    obtain ⟨md, t6, _, h⟩ := andThen_ok_inv h
    simp only [pure_apply, Res.ok.injEq] at h
    rw [← h.1]
    intro v hv
    simp only [exprsOfPosting, List.mem_append] at hv
    rcases hv with hv | hv
    · rcases opt_ok_inv h4 with rfl | ⟨a, rfl, ha⟩
      · cases hv
      · simp only [terminated_apply] at ha
        obtain ⟨a', _, ha1, ha2⟩ := andThen_ok_inv ha
        obtain ⟨_, _, ha3⟩ := resMap_ok_inv ha2
        subst ha3
        exact postingAmount_image hV ha1 v hv
    · rcases opt_ok_inv h5 with rfl | ⟨b, rfl, hb⟩
      · cases hv
      · simp only [balanceParser, delimited_apply] at hb
        obtain ⟨_, _, _, hb⟩ := andThen_ok_inv hb
        obtain ⟨b', _, hb1, hb2⟩ := andThen_ok_inv hb
        obtain ⟨_, _, hb3⟩ := resMap_ok_inv hb2
        subst hb3
        simp only [List.mem_singleton] at hv
        subst hv
        exact hV _ _ _ hb1

theorem transaction_image {i s : List Char} {t : Transaction} (h : transaction i = .ok t s) :
    ∀ v ∈ exprsOfTransaction t, Q v := by
  rw [transaction_eq] at h
  simp only [bind_apply] at h
  obtain ⟨_, _, _, h⟩ := andThen_ok_inv h
  obtain ⟨_, _, _, h⟩ := andThen_ok_inv h
  obtain ⟨_, _, _, h⟩ := andThen_ok_inv h
  obtain ⟨_, _, _, h⟩ := andThen_ok_inv h
  obtain ⟨_, _, _, h⟩ := andThen_ok_inv h
  obtain ⟨_, _, _, h⟩ := andThen_ok_inv h
  obtain ⟨_, _, _, h⟩ := andThen_ok_inv h
  obtain ⟨_, _, _, h⟩ := andThen_ok_inv h
  obtain ⟨posts, t9, h9, h⟩ := andThen_ok_inv h
  simp only [pure_apply, Res.ok.injEq] at h
  rw [← h.1]
  have hall : ∀ p ∈ posts, ∀ v ∈ exprsOfPosting p, Q v :=
    repeat0Loop_all (fun p => ∀ v ∈ exprsOfPosting p, Q v) (by
      intro i p s hp
      simp only [postItem, preceded_apply] at hp
      obtain ⟨_, _, _, hp⟩ := andThen_ok_inv hp
      exact posting_image hV (cutErr_ok_inv hp)) _ _ [] posts t9 h9 (by intro x hx; cases hx)
  intro v hv
  simp only [exprsOfTransaction] at hv
  obtain ⟨p, hp, hv⟩ := List.mem_flatMap.mp hv
  exact hall p hp v hv

end

/-- entries other than transactions carry no value expression that `exprsOfEntry` lists -/
theorem bind_pure_entry_image {α : Type} {p : Parser α} {f : α → Entry} (hf : ∀ a, exprsOfEntry (f a) = [])
    {i s : List Char} {e : Entry} (h : (p >>- fun a => pure (f a)) i = .ok e s) : exprsOfEntry e = [] := by
  simp only [bind_apply] at h
  obtain ⟨a, _, _, h⟩ := andThen_ok_inv h
  simp only [pure_apply, Res.ok.injEq] at h
  rw [← h.1]; exact hf a

theorem parseLedgerEntry_image {Q : VExpr → Prop} (hV : ∀ i v s, valueExpr i = .ok v s → Q v)
    {i s : List Char} {e : Entry} (h : parseLedgerEntry i = .ok e s) : ∀ v ∈ exprsOfEntry e, Q v := by
  have hnil : exprsOfEntry e = [] → ∀ v ∈ exprsOfEntry e, Q v := by intro h0 v hv; rw [h0] at hv; cases hv
  cases i with
  | nil => cases h
  | cons c r =>
    simp only [parseLedgerEntry, dispatch_cons] at h
    split at h
    · -- account / apply tag
      rcases alt2_ok_inv h with h | h
      · apply hnil
        simp only [preceded_apply] at h
        obtain ⟨_, _, _, h⟩ := andThen_ok_inv h
        have h := cutErr_ok_inv h
        simp only [accountDeclaration, bind_apply] at h
        obtain ⟨_, _, _, h⟩ := andThen_ok_inv h
        obtain ⟨_, _, _, h⟩ := andThen_ok_inv h
        simp only [pure_apply, Res.ok.injEq] at h
        rw [← h.1]; rfl
      · apply hnil
        simp only [preceded_apply] at h
        obtain ⟨_, _, _, h⟩ := andThen_ok_inv h
        have h := cutErr_ok_inv h
        simp only [applyTag, bind_apply] at h
        obtain ⟨_, _, _, h⟩ := andThen_ok_inv h
        obtain ⟨_, _, _, h⟩ := andThen_ok_inv h
        simp only [pure_apply, Res.ok.injEq] at h
        rw [← h.1]; rfl
    · split at h
      · apply hnil
        simp only [commodityDeclaration, bind_apply] at h
        obtain ⟨_, _, _, h⟩ := andThen_ok_inv h
        obtain ⟨_, _, _, h⟩ := andThen_ok_inv h
        simp only [pure_apply, Res.ok.injEq] at h
        rw [← h.1]; rfl
      · split at h
        · apply hnil
          simp only [endApplyTag, value_apply] at h
          obtain ⟨_, _, h⟩ := resMap_ok_inv h
          rw [h]; rfl
        · split at h
          · apply hnil
            simp only [includeDirective, map_apply] at h
            obtain ⟨_, _, h⟩ := resMap_ok_inv h
            rw [h]; rfl
          · split at h
            · apply hnil
              simp only [topComment, map_apply] at h
              obtain ⟨_, _, h⟩ := resMap_ok_inv h
              rw [h]; rfl
            · split at h
              · simp only [map_apply] at h
                obtain ⟨t, ht, rfl⟩ := resMap_ok_inv h
                exact transaction_image hV ht
              · cases h

/-- an invariant of the entry parser's results holds of everything `ParsedIter` yields -/
theorem parsedIter_all {α : Type} {p : Parser α} {sep : Parser Unit} (whole : List Char) (R : α → Prop)
    (hp : ∀ i a s, p i = .ok a s → R a) :
    ∀ (n : Nat) (i : List Char) (acc out : List (Nat × Nat × α)) (en : Ending),
      parsedIter p sep whole n i acc = (out, en) → (∀ x ∈ acc, R x.2.2) → ∀ x ∈ out, R x.2.2 := by
  intro n
  induction n with
  | zero =>
    intro i acc out en h hacc
    simp only [parsedIter, Prod.mk.injEq] at h
    rw [← h.1]; exact hacc
  | succ n ih =>
    intro i acc out en h hacc
    have hfail : ∀ pos b, (match parseErrorNew whole i pos b with
        | .ok e => (acc, Ending.error e)
        | .panic s => (acc, Ending.panic s)
        | _ => (acc, Ending.panic "ParseError::new")) = (out, en) → ∀ x ∈ out, R x.2.2 := by
      intro pos b hh
      split at hh <;> (simp only [Prod.mk.injEq] at hh; rw [← hh.1]; exact hacc)
    simp only [parsedIter] at h
    split at h
    · split at h
      · simp only [Prod.mk.injEq] at h; rw [← h.1]; exact hacc
      · split at h
        · rename_i e r hpe
          exact ih _ _ out en h (by
            intro x hx
            rcases List.mem_append.mp hx with hx | hx
            · exact hacc x hx
            · simp only [List.mem_singleton] at hx; subst hx; exact hp _ _ _ hpe)
        · exact hfail _ _ h
        · exact hfail _ _ h
        · simp only [Prod.mk.injEq] at h; rw [← h.1]; exact hacc
        · simp only [Prod.mk.injEq] at h; rw [← h.1]; exact hacc
    · exact hfail _ _ h
    · exact hfail _ _ h
    · simp only [Prod.mk.injEq] at h; rw [← h.1]; exact hacc
    · simp only [Prod.mk.injEq] at h; rw [← h.1]; exact hacc

/-- every value expression of a parsed ledger is a result of `value_expr` -/
theorem parseEntries_image {Q : VExpr → Prop} (hV : ∀ i v s, valueExpr i = .ok v s → Q v)
    {t : List Char} {es : List Entry} (h : parseEntries t = .ok es) : ∀ e ∈ es, ∀ v ∈ exprsOfEntry e, Q v := by
  simp only [parseEntries, parseLedger, parseLedgerRun] at h
  cases hit : parsedIter parseLedgerEntry verticalSpaces t (t.length + 1) t [] with
  | mk out en =>
    rw [hit] at h
    have hall := parsedIter_all t (fun e => ∀ v ∈ exprsOfEntry e, Q v)
      (fun i a s hp => parseLedgerEntry_image hV hp) _ _ _ out en hit (by intro x hx; cases hx)
    cases en with
    | done =>
      simp only [Outcome.map'] at h
      cases h
      intro e he
      simp only [List.mem_map] at he
      obtain ⟨x, ⟨y, hy, rfl⟩, rfl⟩ := he
      exact hall y hy
    | error e => simp [Outcome.map'] at h
    | panic s => simp [Outcome.map'] at h
    | fuelOut => simp [Outcome.map'] at h

/-- `value_expr` only returns plain trees -/
theorem valueExpr_plain (i : List Char) (v : VExpr) (s : List Char) (h : valueExpr i = .ok v s) : PlainV v := by
  unfold valueExpr at h
  cases hp : ExprSyntax.parseValueExpr i with
  | ok a r =>
    rw [hp] at h
    simp only [ofPRes, Res.ok.injEq] at h
    obtain ⟨rfl, rfl⟩ := h
    exact (ExprParse.parseValueExpr_image hp).2
  | fail p => rw [hp] at h; cases h
  | fuelOut => rw [hp] at h; cases h

/-- every value expression of a parsed ledger is plain -/
theorem parseEntries_plain {t : List Char} {es : List Entry} (h : parseEntries t = .ok es) :
    ∀ e ∈ es, ∀ v ∈ exprsOfEntry e, PlainV v :=
  parseEntries_image valueExpr_plain h

/-- **parse ∘ format = id and format ∘ format = format** for every text that parses to well-formed directives
(`include`, `apply tag`, `end apply tag`, comments) and transactions; no hypothesis on the expressions -/
theorem C05_roundtrip_txn_parsed (w : List Char → Nat) (t : List Char) (es : List Entry)
    (hp : parseEntries t = .ok es) (hwf : ∀ e ∈ es, wfEntry e = true) (hk : ∀ e ∈ es, isDirectiveOrTxn e = true) :
    ∃ f, format w t = .ok f ∧ parseEntries f = .ok es ∧ format w f = .ok f :=
  C05_roundtrip_txn_plain w t es hp hwf hk (parseEntries_plain hp)


/-! ## non-vacuity -/

/-- a text that parses to a well-formed transaction and a directive: the hypotheses of `C05_roundtrip_txn_parsed`
are satisfiable -/
example : ∃ f, format widthCjk (formatEntries widthStd [.txn exTxn, .endApplyTag]) = .ok f ∧
    parseEntries f = .ok [.txn exTxn, .endApplyTag] ∧ format widthCjk f = .ok f := by
  have hp : parseEntries (formatEntries widthStd [.txn exTxn, .endApplyTag]) = .ok [.txn exTxn, .endApplyTag] :=
    parseEntries_format widthStd _ (by
      intro e he
      simp only [List.mem_cons, List.mem_nil_iff, or_false] at he
      rcases he with rfl | rfl
      · exact entryRT_txn_plain widthStd exTxn exTxn_wf exTxn_plain
      · exact entryRT_endApplyTag widthStd)
  refine C05_roundtrip_txn_parsed widthCjk _ _ hp ?_ ?_
  · intro e he
    simp only [List.mem_cons, List.mem_nil_iff, or_false] at he
    rcases he with rfl | rfl
    · exact exTxn_wf
    · rfl
  · intro e he
    simp only [List.mem_cons, List.mem_nil_iff, or_false] at he
    rcases he with rfl | rfl <;> rfl

end Okane.Unparse
