import Okane.Props.Book
import Okane.Lemmas.NoCrash
import Okane.Model.Parse
/-!
# C01 at the level of ledger TEXT: the parser model composed with `process`

`Props/C01.lean` speaks about one resolved transaction, `Props/Book.lean` about a list of syntax entries
(`C01_history`, `C01_named`).  Here the entries are what the parser model (`Parse.parseEntries`, validated against
`parse_ledger` by C05/C06/C14) makes of a text:

* `okaneAccepts t` — the text parses and book-keeping accepts the parsed entries;
* `C01_text` — every transaction of an accepted text is `Balanced` (for the precisions declared up to it, after the
  history that precedes it) — exactly as strong as `C01_history`;
* `process_err_at` — the converse of `C01_named`: if the entries before index `k` are processed and the step of entry `k`
  fails with `e`, then `process` returns exactly `(k, e)`;
* `stepEntry_txn_reject` — a transaction none of whose resolutions is balanced makes its step fail (an error value:
  never accepted, never a crash) — `C01_reject` through the syntax layer;
* `C01_text_reject` — a text whose `k`-th parsed entry is such a transaction, the earlier entries being fine, is rejected
  with error index `k` (and is not accepted);
* `C01_text_named` — `C01_named` for texts; `C01_text_no_crash` — book-keeping on a parsed text never panics / hangs.

(These live here and not in `Props/C01.lean` because `C01_history` is in `Props/Book.lean`, which imports `Props/C01`
through C02–C04.)
-/
namespace Okane.BookText
open Okane Okane.Spec

/-- the text is accepted: it parses, and book-keeping accepts the parsed entries -/
def okaneAccepts (t : List Char) : Prop :=
  ∃ es st, Parse.parseEntries t = .ok es ∧ process es = .ok st

/-- the entries of a text are a function of the text -/
theorem parse_unique {t : List Char} {es es' : List Entry} (h : Parse.parseEntries t = .ok es)
    (h' : Parse.parseEntries t = .ok es') : es = es' := by
  rw [h] at h'
  injection h'

/-- **C01_text**: every transaction of an accepted TEXT is balanced in the sense of the property (some resolution of its
postings, of the same length, is `Balanced` for the precisions in force when it is reached). -/
theorem C01_text (t : List Char) (es : List Entry) (st : ProcState) (_hp : Parse.parseEntries t = .ok es)
    (h : process es = .ok st) (txn : Transaction) (ht : Entry.txn txn ∈ es) :
    ∃ (prec : String → Option Nat) (rt : RTxn String String) (outs : List (Amount String)),
      rt.date = txn.date ∧ rt.posts.length = txn.posts.length ∧ Spec.Balanced prec rt outs :=
  C01_history es st h txn ht

/-- the same, from `okaneAccepts` -/
theorem C01_text_accepts (t : List Char) (h : okaneAccepts t) (es : List Entry) (hp : Parse.parseEntries t = .ok es)
    (txn : Transaction) (ht : Entry.txn txn ∈ es) :
    ∃ (prec : String → Option Nat) (rt : RTxn String String) (outs : List (Amount String)),
      rt.date = txn.date ∧ rt.posts.length = txn.posts.length ∧ Spec.Balanced prec rt outs := by
  obtain ⟨es', st, hp', hproc⟩ := h
  have := parse_unique hp hp'
  subst this
  exact C01_history es st hproc txn ht

/-- **the converse of `C01_named`**: entries `0 … k-1` processed, step `k` fails with `e` ⇒ the run fails with `(i + k, e)`. -/
theorem process_err_at (es : List Entry) (st stk : ProcState) (i k : Nat) (e : BkErrS) (hk : k < es.length)
    (hpre : processFrom st i (es.take k) = .ok stk) (hstep : stepEntry stk es[k] = .err e) :
    processFrom st i es = .err (i + k, e) := by
  induction es generalizing st i k with
  | nil => simp at hk
  | cons x es ih =>
    cases k with
    | zero =>
      simp only [List.take_zero, processFrom, Outcome.ok.injEq] at hpre
      subst hpre
      simp only [List.getElem_cons_zero] at hstep
      simp [processFrom, hstep]
    | succ k =>
      simp only [List.take_succ_cons, processFrom] at hpre
      cases hs : stepEntry st x with
      | ok st1 =>
        rw [hs] at hpre
        simp only [List.getElem_cons_succ] at hstep
        have := ih st1 (i + 1) k (by simpa using hk) hpre hstep
        simp only [processFrom, hs]
        rw [this]
        congr 2
        omega
      | err y => rw [hs] at hpre; simp at hpre
      | panic y => rw [hs] at hpre; simp at hpre
      | fuelOut => rw [hs] at hpre; simp at hpre

/-- **`C01_reject` through the syntax layer**: if no resolution of the postings of `txn` is balanced for the precisions in
force, the step of that transaction is an error value — it is not accepted and it does not crash. -/
theorem stepEntry_txn_reject (stk : ProcState) (txn : Transaction)
    (hnb : ∀ (rps : List (RPosting String String)), rps.length = txn.posts.length →
      ∀ outs, ¬ Spec.Balanced stk.ctx.prec ⟨txn.date, rps⟩ outs) :
    ∃ e, stepEntry stk (.txn txn) = .err e := by
  have hsafe := stepEntry_safe stk (.txn txn)
  cases hs : stepEntry stk (.txn txn) with
  | ok st1 =>
    exfalso
    simp only [stepEntry] at hs
    cases ha : addTransactionSyntax stk.ctx stk.bal txn with
    | ok x =>
      obtain ⟨c', r⟩ := x
      obtain ⟨rps, hlen, hcore, _⟩ := addTransactionSyntax_core stk.ctx c' stk.bal txn r ha
      exact hnb rps hlen _ (C01_sound stk.ctx.prec stk.bal ⟨txn.date, rps⟩ r hcore)
    | err x => rw [ha] at hs; simp at hs
    | panic x => rw [ha] at hs; simp at hs
    | fuelOut => rw [ha] at hs; simp at hs
  | err e => exact ⟨e, rfl⟩
  | panic s => rw [hs] at hsafe; simp [Outcome.crashes] at hsafe
  | fuelOut => rw [hs] at hsafe; simp [Outcome.crashes] at hsafe

/-- **C01_text_reject**: a text whose `k`-th parsed entry is a transaction with no balanced resolution — the entries
before it being accepted — is rejected, and the error carries the index `k` of that entry. -/
theorem C01_text_reject (t : List Char) (es : List Entry) (k : Nat) (stk : ProcState) (txn : Transaction)
    (hp : Parse.parseEntries t = .ok es) (hk : k < es.length) (hek : es[k] = .txn txn)
    (hpre : process (es.take k) = .ok stk)
    (hnb : ∀ (rps : List (RPosting String String)), rps.length = txn.posts.length →
      ∀ outs, ¬ Spec.Balanced stk.ctx.prec ⟨txn.date, rps⟩ outs) :
    (∃ e, process es = .err (k, e)) ∧ ¬ okaneAccepts t := by
  obtain ⟨e, he⟩ := stepEntry_txn_reject stk txn hnb
  have hrun : process es = .err (k, e) := by
    have := process_err_at es {} stk 0 k e hk hpre (by rw [hek]; exact he)
    simpa [process] using this
  refine ⟨⟨e, hrun⟩, ?_⟩
  rintro ⟨es', st, hp', hproc⟩
  have := parse_unique hp hp'
  subst this
  rw [hrun] at hproc
  cases hproc

/-- **C01_text_named**: when book-keeping rejects a parsed text with `(j, e)`, `j` is the index of a parsed entry, all
entries before it were processed, and it is that entry's step that failed with `e`. -/
theorem C01_text_named (t : List Char) (es : List Entry) (j : Nat) (e : BkErrS) (_hp : Parse.parseEntries t = .ok es)
    (h : process es = .err (j, e)) :
    j < es.length ∧ ∃ stj, process (es.take j) = .ok stj ∧ stepEntry stj es[j]! = .err e := by
  obtain ⟨k, hj, hk, stk, hpre, hstep⟩ := C01_named es {} 0 j e h
  have : j = k := by omega
  subst this
  exact ⟨hk, stk, hpre, hstep⟩

/-- the error index and the failing step determine each other (`C01_named` and its converse) -/
theorem process_err_iff (es : List Entry) (j : Nat) (e : BkErrS) :
    process es = .err (j, e) ↔
      ∃ (hj : j < es.length) (stj : ProcState), process (es.take j) = .ok stj ∧ stepEntry stj es[j] = .err e := by
  constructor
  · intro h
    obtain ⟨k, hjk, hk, stk, hpre, hstep⟩ := C01_named es {} 0 j e h
    have : j = k := by omega
    subst this
    refine ⟨hk, stk, hpre, ?_⟩
    rw [getElem!_pos es j hk] at hstep
    exact hstep
  · rintro ⟨hj, stj, hpre, hstep⟩
    have := process_err_at es {} stj 0 j e hj hpre hstep
    simpa [process] using this

/-- **C01_text_no_crash**: whatever the text, book-keeping on its parsed entries returns a ledger or an error value -/
theorem C01_text_no_crash (t : List Char) (es : List Entry) (_hp : Parse.parseEntries t = .ok es) :
    (∃ st, process es = .ok st) ∨ (∃ j e, process es = .err (j, e)) := by
  have hsafe := processFrom_safe {} 0 es
  cases h : process es with
  | ok st => exact .inl ⟨st, rfl⟩
  | err x => exact .inr ⟨x.1, x.2, rfl⟩
  | panic s => unfold process at h; rw [h] at hsafe; simp [Outcome.crashes] at hsafe
  | fuelOut => unfold process at h; rw [h] at hsafe; simp [Outcome.crashes] at hsafe

/-- accepted text ⇒ per account and commodity the balance is the sum of the postings (`C04_raw` for texts) -/
theorem C04_text_raw (t : List Char) (es : List Entry) (st : ProcState) (_hp : Parse.parseEntries t = .ok es)
    (h : process es = .ok st) (a c : String) :
    Amount.getPart (Balance.get st.bal a) c = ledgerSum st.txns a c :=
  (C04_raw es st h a c).1

/-! ## non-vacuity -/

/-- a decidable test for `okaneAccepts` -/
def acceptsCheck (t : List Char) : Bool :=
  match Parse.parseEntries t with
  | .ok es => (process es).isOk
  | _ => false

theorem okaneAccepts_of_check {t : List Char} (h : acceptsCheck t = true) : okaneAccepts t := by
  unfold acceptsCheck at h
  cases hp : Parse.parseEntries t with
  | ok es =>
    rw [hp] at h
    simp only at h
    cases hq : process es with
    | ok st => exact ⟨es, st, hp, hq⟩
    | err x => rw [hq] at h; simp [Outcome.isOk] at h
    | panic x => rw [hq] at h; simp [Outcome.isOk] at h
    | fuelOut => rw [hq] at h; simp [Outcome.isOk] at h
  | err x => rw [hp] at h; simp at h
  | panic x => rw [hp] at h; simp at h
  | fuelOut => rw [hp] at h; simp at h

/-- an accepted text (hypotheses of `C01_text` / `C01_text_accepts` are satisfiable) -/
example : okaneAccepts "2024/01/01 x\n a  1 USD\n b\n".toList := okaneAccepts_of_check (by decide +kernel)

/-- a text whose second entry (index 1) is unbalanced: rejected with error index 1 (the situation of `C01_text_reject`,
`C01_text_named`, `process_err_iff`) -/
example : (match Parse.parseEntries "2024/01/01 x\n a  1 USD\n b\n\n2024/01/02 y\n a  1 USD\n b  1 USD\n".toList with
    | .ok es => (match process es with | .err (j, _) => j == 1 | _ => false)
    | _ => false) = true := by decide +kernel

end Okane.BookText
