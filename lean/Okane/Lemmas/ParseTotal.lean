import Okane.Model.Unparse
import Okane.Lemmas.ParseTotalGrammar
import Okane.Lemmas.NoCrash
/-!
# Totality of `parse_ledger` and of `format` (C06_parse, C06_format)

`parsedIter_total`: for an entry parser that is `Safe 1` and a separator that is `Safe 0`, `ParsedIter::next` run in a
loop from a suffix `i` of the text with fuel `> |i|` ends in `done` or in `error e`, never in `panic` / `fuelOut`;
and the two stream positions `ParseError::new` is built from satisfy `pos <:+ checkpoint <:+ whole`
(the precondition of winnow's `offset_from` and of `compute_line_number`).
`parseLedger_total` instantiates it with `parse_ledger_entry` / `vertical_spaces` (`ParseTotalGrammar`).
-/
namespace Okane.Parse
open Okane Okane.Comb

/-- `ParseError::new` of the parser model is total (its byte arithmetic is on `Nat`; the precondition that makes
the Rust's `usize` arithmetic and asserts safe is `ErrorAt` below, see `Props/C06`) -/
theorem parseErrorNew_ok (whole atStart pos : List Char) (isCut : Bool) :
    ∃ e, parseErrorNew whole atStart pos isCut = .ok e ∧ e.isCut = isCut ∧
      e.offset = utf8Len atStart - utf8Len pos := by
  have h : ¬ (utf8Len whole - utf8Len atStart > utf8Len whole) := by omega
  simp only [parseErrorNew, computeLineNumber, if_neg h]
  exact ⟨_, rfl, rfl, rfl⟩

/-- how the iterator ended: exhausted, or with a `ParseError` built from a checkpoint `i'` and a failure
position `pos` that are nested suffixes of the text -/
def GoodEnding (whole : List Char) : Ending → Prop
  | .done => True
  | .error e => ∃ i' pos, pos <:+ i' ∧ i' <:+ whole ∧ parseErrorNew whole i' pos e.isCut = .ok e
  | .panic _ => False
  | .fuelOut => False

theorem failAt_good (whole i pos : List Char) (isCut : Bool) (hi : i <:+ whole) (hp : pos <:+ i)
    {β : Type} (acc : β) :
    GoodEnding whole
      (match parseErrorNew whole i pos isCut with
        | .ok e => (acc, Ending.error e)
        | .panic s => (acc, .panic s)
        | _ => (acc, .panic "ParseError::new")).2 := by
  obtain ⟨e, he, hc, _⟩ := parseErrorNew_ok whole i pos isCut
  rw [he]
  exact ⟨i, pos, hp, hi, by rw [hc]; exact he⟩

/-- **the loop of `ParsedIter::next` never panics and never runs out of fuel** when every entry consumes at
least one character -/
theorem parsedIter_total {α : Type} {p : Parser α} {sep : Parser Unit} (hp : Safe 1 p) (hsep : Safe 0 sep)
    (whole : List Char) :
    ∀ (n : Nat) (i : List Char) (acc : List (Nat × Nat × α)), i <:+ whole → i.length < n →
      GoodEnding whole (parsedIter p sep whole n i acc).2 := by
  intro n
  induction n with
  | zero => intro i acc _ h; omega
  | succ n ih =>
    intro i acc hi hlt
    have h1 := hsep.good i
    unfold parsedIter
    simp only
    split
    · rename_i u i1 he
      rw [he] at h1
      obtain ⟨h2, h3⟩ := h1
      split
      · trivial
      · have h4 := hp.good i1
        split
        · rename_i e r he'
          rw [he'] at h4
          obtain ⟨h5, h6⟩ := h4
          exact ih r _ (h5.trans (h2.trans hi)) (by omega)
        · rename_i pos he'
          rw [he'] at h4
          exact failAt_good whole i pos false hi (List.IsSuffix.trans h4 h2) acc
        · rename_i pos he'
          rw [he'] at h4
          exact failAt_good whole i pos true hi (List.IsSuffix.trans h4 h2) acc
        · rename_i s he'; rw [he'] at h4; exact h4
        · rename_i he'; rw [he'] at h4; exact h4
    · rename_i pos he
      rw [he] at h1
      exact failAt_good whole i pos false hi h1 acc
    · rename_i pos he
      rw [he] at h1
      exact failAt_good whole i pos true hi h1 acc
    · rename_i s he; rw [he] at h1; exact h1
    · rename_i he; rw [he] at h1; exact h1

/-- `parse_ledger` run to its first error, for every text -/
theorem parseLedgerRun_total (t : List Char) : GoodEnding t (parseLedgerRun t).2 := by
  have h := parsedIter_total safe_parseLedgerEntry safe_verticalSpaces t (t.length + 1) t []
    (List.suffix_refl t) (Nat.lt_succ_self _)
  simp only [parseLedgerRun]
  exact h

/-- **`parse_ledger(..).collect()` returns the entries or a `ParseError`, for every text** -/
theorem parseLedger_total (t : List Char) :
    (∃ es, parseLedger t = .ok es) ∨
    (∃ e, parseLedger t = .err e ∧
      ∃ i' pos, pos <:+ i' ∧ i' <:+ t ∧ parseErrorNew t i' pos e.isCut = .ok e) := by
  have h := parseLedgerRun_total t
  unfold parseLedger
  cases hr : parseLedgerRun t with
  | mk es en =>
    rw [hr] at h
    cases en with
    | done => exact .inl ⟨es, rfl⟩
    | error e => exact .inr ⟨e, rfl, h⟩
    | panic s => exact h.elim
    | fuelOut => exact h.elim

theorem parseLedger_safe (t : List Char) : (parseLedger t).crashes = false := by
  rcases parseLedger_total t with ⟨es, h⟩ | ⟨e, h, _⟩ <;> rw [h] <;> rfl

theorem parseEntries_safe (t : List Char) : (parseEntries t).crashes = false := by
  unfold parseEntries
  rw [map'_crashes]
  exact parseLedger_safe t

/-- the ledger parser with its fuel as a parameter (the shape of the statement `C06.C06_parse`);
`parseLedger t = parseLedgerFuel (t.length + 1) t` by definition -/
def parseLedgerFuel (fuel : Nat) (text : List Char) : Outcome ParseErr (List Parsed) :=
  match parsedIter parseLedgerEntry verticalSpaces text fuel text [] with
  | (es, .done) => .ok (es.map fun (s, t, x) => ⟨s, t, x⟩)
  | (_, .error e) => .err e
  | (_, .panic s) => .panic s
  | (_, .fuelOut) => .fuelOut

theorem parseLedgerFuel_eq (t : List Char) : parseLedgerFuel (t.length + 1) t = parseLedger t := by
  unfold parseLedgerFuel parseLedger parseLedgerRun
  cases h : parsedIter parseLedgerEntry verticalSpaces t (t.length + 1) t [] with
  | mk es en => cases en <;> rfl

end Okane.Parse

namespace Okane.Unparse
open Okane Okane.Parse

/-- **`format` (parse, then print every entry) returns text or a `ParseError`, for every text and every display
width function** — the printer itself is a total function of the tree -/
theorem format_safe (w : List Char → Nat) (t : List Char) : (format w t).crashes = false := by
  unfold format
  rw [map'_crashes]
  exact parseEntries_safe t

theorem format_total (w : List Char → Nat) (t : List Char) :
    (∃ out, format w t = .ok out) ∨ (∃ e, format w t = .err e) := by
  have h := format_safe w t
  cases hf : format w t with
  | ok out => exact .inl ⟨out, rfl⟩
  | err e => exact .inr ⟨e, rfl⟩
  | panic s => rw [hf] at h; simp at h
  | fuelOut => rw [hf] at h; simp at h

end Okane.Unparse
