import Okane.Lemmas.ImportVisecaScan
/-!
# Viseca statement importer — totality and one transaction per record (parts (a), (b) of `Lemmas/ImportViseca.lean`)

(a) **totality**: `parseEntry`, `parseEntries`, `visecaImport` never panic and never run out of fuel, for every list of lines,
    every configuration and every regex engine (`visecaImport_total`);
(b) **one transaction per statement record**: the transactions are, in order, the conversions of the entries the parser reads, and
    every entry is read at a head line of the file, with strictly increasing line numbers (`visecaImport_one_per_record`,
    `parseEntries_heads`);
(c) **round trip**: the canonical text of canonical entries is read back as exactly those entries (`parseEntry_printEntry`,
    `parseEntries_printStatement`), with witnesses that the side conditions are needed;
(d) **sign / amount facts** of `viseca.rs::import` (`entryToTxn_*`, `viseca_tree_*`).
-/
set_option linter.unusedSimpArgs false
namespace Okane.Import.Viseca
open Okane Okane.Import Okane.Literal Okane.C07

/-! ## (a) totality -/

/-- neither a panic nor out of fuel -/
def Fine {α : Type} (o : Outcome ImportErr α) : Prop := o.crashes = false

@[simp] theorem fine_ok {α : Type} (a : α) : Fine (.ok a : Outcome ImportErr α) := rfl
@[simp] theorem fine_err {α : Type} (e : ImportErr) : Fine (.err e : Outcome ImportErr α) := rfl
@[simp] theorem not_fine_panic {α : Type} (s : String) : ¬ Fine (.panic s : Outcome ImportErr α) := by simp [Fine, Outcome.crashes]
@[simp] theorem not_fine_fuelOut {α : Type} : ¬ Fine (.fuelOut : Outcome ImportErr α) := by simp [Fine, Outcome.crashes]

theorem fine_iff {α : Type} (o : Outcome ImportErr α) : Fine o ↔ (∃ a, o = .ok a) ∨ (∃ e, o = .err e) := by
  cases o <;> simp [Fine, Outcome.crashes]

theorem parseDecimalE_fine (s : List Char) : Fine (parseDecimalE s) := by
  unfold parseDecimalE; split <;> simp

theorem parseEuroDateE_fine (s : List Char) : Fine (parseEuroDateE s) := by
  unfold parseEuroDateE; split <;> simp

theorem parseDecimalE_cases (s : List Char) : (∃ d, parseDecimalE s = .ok d) ∨ parseDecimalE s = .err .invalidDecimal := by
  unfold parseDecimalE; split <;> simp

theorem parseEuroDateE_cases (s : List Char) : (∃ d, parseEuroDateE s = .ok d) ∨ parseEuroDateE s = .err .invalidDatetime := by
  unfold parseEuroDateE; split <;> simp

theorem parseFirstLine_fine (n : Nat) (c : FirstCaps) : Fine (parseFirstLine n c) := by
  unfold parseFirstLine
  split
  · simp
  · rcases parseEuroDateE_cases c.edate with ⟨d, h⟩ | h <;> rw [h] <;> simp only [fine_err]
    rcases parseDecimalE_cases c.amount with ⟨a, ha⟩ | ha
    · cases hs : c.spent with
      | none => simp [ha]
      | some p =>
        obtain ⟨cur, ex⟩ := p
        rcases parseDecimalE_cases ex with ⟨x, hx⟩ | hx <;> simp [hx, ha]
    · cases hs : c.spent with
      | none => simp [ha]
      | some p =>
        obtain ⟨cur, ex⟩ := p
        rcases parseDecimalE_cases ex with ⟨x, hx⟩ | hx <;> simp [hx, ha]

theorem peek_fine (r : Reader) : Fine r.peek := by
  unfold Reader.peek; split <;> simp

theorem readLine_fine (r : Reader) : Fine r.readLine := by
  unfold Reader.readLine; split <;> simp

/-- what `read_line` does to the reader: at most one line consumed, the count incremented -/
theorem readLine_ok {r r1 : Reader} {buf : List Char} (h : r.readLine = .ok (buf, r1)) :
    r1.lineCount = r.lineCount + 1 ∧
    ((r.rest = [] ∧ buf = [] ∧ r1.rest = []) ∨ (r.rest = .text buf :: r1.rest)) := by
  unfold Reader.readLine at h
  split at h
  · rename_i h0
    simp only [Outcome.ok.injEq, Prod.mk.injEq] at h
    obtain ⟨e1, e2⟩ := h
    subst e1; subst e2
    exact ⟨rfl, Or.inl ⟨h0, rfl, h0⟩⟩
  · rename_i cs rest h0
    simp only [Outcome.ok.injEq, Prod.mk.injEq] at h
    obtain ⟨e1, e2⟩ := h
    subst e1; subst e2
    exact ⟨rfl, Or.inr h0⟩
  · exact absurd h (by simp)

/-- a non-empty line was read: exactly one line consumed -/
theorem readLine_ok_ne {r r1 : Reader} {buf : List Char} (h : r.readLine = .ok (buf, r1)) (hne : buf ≠ []) :
    r.rest = .text buf :: r1.rest ∧ r1.lineCount = r.lineCount + 1 := by
  obtain ⟨h1, h2⟩ := readLine_ok h
  rcases h2 with ⟨_, hb, _⟩ | h2
  · exact absurd hb hne
  · exact ⟨h2, h1⟩

/-- `r'` is `r` after exactly `k` lines were consumed, each of them counted -/
def Adv (k : Nat) (r r' : Reader) : Prop := r'.rest = r.rest.drop k ∧ r'.lineCount = r.lineCount + k ∧ k ≤ r.rest.length

theorem Adv.refl (r : Reader) : Adv 0 r r := ⟨by simp, by simp, Nat.zero_le _⟩

theorem Adv.trans {k j : Nat} {r r' r'' : Reader} (h1 : Adv k r r') (h2 : Adv j r' r'') : Adv (k + j) r r'' := by
  obtain ⟨a1, a2, a3⟩ := h1
  obtain ⟨b1, b2, b3⟩ := h2
  refine ⟨?_, ?_, ?_⟩
  · rw [b1, a1, List.drop_drop]
  · rw [b2, a2]; omega
  · rw [a1, List.length_drop] at b3; omega

theorem Adv.length {k : Nat} {r r' : Reader} (h : Adv k r r') : r'.rest.length + k = r.rest.length := by
  obtain ⟨a1, _, a3⟩ := h
  rw [a1, List.length_drop]; omega

theorem adv_readLine {r r1 : Reader} {buf : List Char} (h : r.readLine = .ok (buf, r1)) (hne : buf ≠ []) : Adv 1 r r1 := by
  obtain ⟨h1, h2⟩ := readLine_ok_ne h hne
  exact ⟨by rw [h1]; rfl, h2, by rw [h1]; simp⟩

theorem isEmpty_false_ne {l : List Char} (h : l.isEmpty = false) : l ≠ [] := by
  intro h0; subst h0; simp at h

/-- `parse_exchange`: fine, and a success consumes exactly one line -/
theorem parseExchange_spec (r : Reader) :
    Fine (parseExchange r) ∧ ∀ x r', parseExchange r = .ok (x, r') → Adv 1 r r' := by
  unfold parseExchange
  cases hr : r.readLine with
  | ok p =>
    obtain ⟨buf, r1⟩ := p
    simp only []
    cases hb : buf.isEmpty with
    | true => simp
    | false =>
      simp only [Bool.false_eq_true, if_false]
      cases exchangeLine (Parse.trimEnd buf) with
      | none => simp
      | some c =>
        simp only []
        rcases parseDecimalE_cases c.rate with ⟨d1, h1⟩ | h1 <;> rw [h1] <;> simp only [fine_err, true_and, reduceCtorEq, false_implies, implies_true]
        rcases parseEuroDateE_cases c.date with ⟨d2, h2⟩ | h2 <;> rw [h2] <;> simp only [fine_err, true_and, reduceCtorEq, false_implies, implies_true]
        rcases parseDecimalE_cases c.samount with ⟨d3, h3⟩ | h3 <;> rw [h3] <;> simp only [fine_err, true_and, reduceCtorEq, false_implies, implies_true]
        refine ⟨fine_ok _, ?_⟩
        intro x r' h
        simp only [Outcome.ok.injEq, Prod.mk.injEq] at h
        rw [← h.2]
        exact adv_readLine hr (isEmpty_false_ne hb)
  | err e => simp
  | panic s => have := readLine_fine r; rw [hr] at this; simp at this
  | fuelOut => have := readLine_fine r; rw [hr] at this; simp at this

/-- `parse_fee`: fine, and a success consumes no line (no fee) or exactly one -/
theorem parseFee_spec (r : Reader) :
    Fine (parseFee r) ∧ ∀ f r', parseFee r = .ok (f, r') → ∃ k, Adv k r r' := by
  unfold parseFee
  cases hp : r.peek with
  | ok next =>
    simp only []
    split
    · refine ⟨fine_ok _, ?_⟩
      intro f r' h
      simp only [Outcome.ok.injEq, Prod.mk.injEq] at h
      exact ⟨0, by rw [← h.2]; exact Adv.refl r⟩
    · cases hr : r.readLine with
      | ok p =>
        obtain ⟨buf, r1⟩ := p
        simp only []
        cases hb : buf.isEmpty with
        | true => simp
        | false =>
          simp only [Bool.false_eq_true, if_false]
          cases feeLine (Parse.trimEnd buf) with
          | none => simp
          | some c =>
            simp only []
            rcases parseDecimalE_cases c.percent with ⟨d1, h1⟩ | h1 <;> rw [h1] <;> simp only [fine_err, true_and, reduceCtorEq, false_implies, implies_true]
            rcases parseDecimalE_cases c.famount with ⟨d3, h3⟩ | h3 <;> rw [h3] <;> simp only [fine_err, true_and, reduceCtorEq, false_implies, implies_true]
            refine ⟨fine_ok _, ?_⟩
            intro x r' h
            simp only [Outcome.ok.injEq, Prod.mk.injEq] at h
            rw [← h.2]
            exact ⟨1, adv_readLine hr (isEmpty_false_ne hb)⟩
      | err e => simp
      | panic s => have := readLine_fine r; rw [hr] at this; simp at this
      | fuelOut => have := readLine_fine r; rw [hr] at this; simp at this
  | err e => simp
  | panic s => have := peek_fine r; rw [hp] at this; simp at this
  | fuelOut => have := peek_fine r; rw [hp] at this; simp at this

/-- `skip_air_tags`: fine, and it only consumes lines -/
theorem skipAirLines_spec : ∀ (lines : List RawLine) (n : Nat),
    Fine (skipAirLines lines n) ∧ ∀ r', skipAirLines lines n = .ok r' → ∃ k, Adv k ⟨lines, n⟩ r' := by
  intro lines
  induction lines with
  | nil =>
    intro n
    refine ⟨by simp [skipAirLines], ?_⟩
    intro r' h
    simp only [skipAirLines, Outcome.ok.injEq] at h
    exact ⟨0, by rw [← h]; exact Adv.refl _⟩
  | cons l rest ih =>
    intro n
    cases l with
    | invalidUtf8 => simp [skipAirLines]
    | text cs =>
      rw [skipAirLines]
      split
      · refine ⟨fine_ok _, ?_⟩
        intro r' h
        simp only [Outcome.ok.injEq] at h
        exact ⟨0, by rw [← h]; exact Adv.refl _⟩
      · refine ⟨(ih (n + 1)).1, ?_⟩
        intro r' h
        obtain ⟨k, hk⟩ := (ih (n + 1)).2 r' h
        have h1 : Adv 1 ⟨RawLine.text cs :: rest, n⟩ ⟨rest, n + 1⟩ := ⟨rfl, rfl, by simp⟩
        exact ⟨1 + k, h1.trans hk⟩

theorem skipAirTags_spec (r : Reader) : Fine (skipAirTags r) ∧ ∀ r', skipAirTags r = .ok r' → ∃ k, Adv k r r' :=
  skipAirLines_spec r.rest r.lineCount

theorem parseExchangeOpt_spec (primary : String) (spent : Option OwnedAmount) (r : Reader) :
    Fine (parseExchangeOpt primary spent r) ∧ ∀ x r', parseExchangeOpt primary spent r = .ok (x, r') → ∃ k, Adv k r r' := by
  unfold parseExchangeOpt
  split
  · split
    · have hs := parseExchange_spec r
      cases hpe : parseExchange r with
      | ok p =>
        obtain ⟨ex, r3⟩ := p
        refine ⟨fine_ok _, ?_⟩
        intro x r3' h
        simp only [Outcome.ok.injEq, Prod.mk.injEq] at h
        exact ⟨1, by rw [← h.2]; exact hs.2 ex r3 hpe⟩
      | err e => simp
      | panic s => rw [hpe] at hs; simp at hs
      | fuelOut => rw [hpe] at hs; simp at hs
    · refine ⟨fine_ok _, ?_⟩
      intro x r3 h
      simp only [Outcome.ok.injEq, Prod.mk.injEq] at h
      exact ⟨0, by rw [← h.2]; exact Adv.refl _⟩
  · refine ⟨fine_ok _, ?_⟩
    intro x r3 h
    simp only [Outcome.ok.injEq, Prod.mk.injEq] at h
    exact ⟨0, by rw [← h.2]; exact Adv.refl _⟩

theorem parseFeeOpt_spec (spent : Option OwnedAmount) (r : Reader) :
    Fine (parseFeeOpt spent r) ∧ ∀ f r', parseFeeOpt spent r = .ok (f, r') → ∃ k, Adv k r r' := by
  unfold parseFeeOpt
  split
  · exact parseFee_spec r
  · refine ⟨fine_ok _, ?_⟩
    intro f r4 h
    simp only [Outcome.ok.injEq, Prod.mk.injEq] at h
    exact ⟨0, by rw [← h.2]; exact Adv.refl _⟩

/-- the detail lines: fine; a success yields the entry under the head line's number and only consumes lines -/
theorem parseDetails_spec (primary : String) (lc : Nat) (base : Entry) (cat : String) (r2 : Reader) :
    Fine (parseDetails primary lc base cat r2) ∧
    ∀ oe r', parseDetails primary lc base cat r2 = .ok (oe, r') →
      (∃ e, oe = some e ∧ e.lineCount = lc ∧ e.date = base.date ∧ e.effectiveDate = base.effectiveDate ∧ e.payee = base.payee ∧
        e.amount = base.amount ∧ e.spent = base.spent ∧ e.category = cat) ∧ ∃ k, Adv k r2 r' := by
  unfold parseDetails
  have h1 := parseExchangeOpt_spec primary base.spent r2
  cases hx : parseExchangeOpt primary base.spent r2 with
  | ok p =>
    obtain ⟨exchange, r3⟩ := p
    obtain ⟨k1, hk1⟩ := h1.2 exchange r3 hx
    simp only []
    have h2 := parseFeeOpt_spec base.spent r3
    cases hf : parseFeeOpt base.spent r3 with
    | ok q =>
      obtain ⟨fee, r4⟩ := q
      obtain ⟨k2, hk2⟩ := h2.2 fee r4 hf
      simp only []
      have hs := skipAirTags_spec r4
      cases hsk : skipAirTags r4 with
      | ok r5 =>
        refine ⟨fine_ok _, ?_⟩
        intro oe r' h
        simp only [Outcome.ok.injEq, Prod.mk.injEq] at h
        obtain ⟨k3, hk3⟩ := hs.2 r5 hsk
        refine ⟨⟨_, h.1.symm, rfl, rfl, rfl, rfl, rfl, rfl, rfl⟩, k1 + k2 + k3, ?_⟩
        rw [← h.2]
        exact (hk1.trans hk2).trans hk3
      | err e => simp
      | panic s => rw [hsk] at hs; simp at hs
      | fuelOut => rw [hsk] at hs; simp at hs
    | err e => simp
    | panic s => rw [hf] at h2; simp at h2
    | fuelOut => rw [hf] at h2; simp at h2
  | err e => simp
  | panic s => rw [hx] at h1; simp at h1
  | fuelOut => rw [hx] at h1; simp at h1

/-- what a successful `parse_entry` says about the file: the entry was read at a head line, numbered by that line, and only
whole lines after it were consumed, each counted -/
def ReadAt (r : Reader) (e : Entry) (r' : Reader) : Prop :=
  ∃ cs k, r.rest.head? = some (.text cs) ∧ (firstLine (Parse.trimEnd cs)).isSome = true ∧
    e.lineCount = r.lineCount + 1 ∧ Adv (k + 1) r r'

/-- **`parse_entry` is total** (never a panic, no fuel), and a record it returns was read at a head line -/
theorem parseEntry_spec (primary : String) (r : Reader) :
    Fine (parseEntry primary r) ∧
    ∀ oe r', parseEntry primary r = .ok (oe, r') → oe = none ∨ ∃ e, oe = some e ∧ ReadAt r e r' := by
  unfold parseEntry
  cases hr : r.readLine with
  | ok p =>
    obtain ⟨buf, r1⟩ := p
    simp only []
    cases hb : buf.isEmpty with
    | true =>
      simp only [if_true]
      refine ⟨fine_ok _, ?_⟩
      intro oe r' h
      simp only [Outcome.ok.injEq, Prod.mk.injEq] at h
      exact Or.inl h.1.symm
    | false =>
      simp only [Bool.false_eq_true, if_false]
      have hne := isEmpty_false_ne hb
      have hadv := adv_readLine hr hne
      obtain ⟨hrest, hlc⟩ := readLine_ok_ne hr hne
      cases hfl : firstLine (Parse.trimEnd buf) with
      | none => simp
      | some c =>
        simp only []
        have hpf := parseFirstLine_fine r1.lineCount c
        cases hbase : parseFirstLine r1.lineCount c with
        | ok base =>
          simp only []
          cases hpk : r1.peek with
          | ok next =>
            simp only []
            have hhead : r.rest.head? = some (.text buf) := by rw [hrest]; rfl
            by_cases hc : (next.isEmpty || startsWithDigit next) = true
            · rw [if_pos hc]
              refine ⟨fine_ok _, ?_⟩
              intro oe r' h
              simp only [Outcome.ok.injEq, Prod.mk.injEq] at h
              refine Or.inr ⟨_, h.1.symm, buf, 0, hhead, by rw [hfl]; rfl, hlc, ?_⟩
              rw [← h.2]; exact hadv
            · rw [if_neg hc]
              cases hr2 : r1.readLine with
              | ok p2 =>
                obtain ⟨buf2, r2⟩ := p2
                simp only []
                cases hb2 : buf2.isEmpty with
                | true => simp
                | false =>
                  simp only [Bool.false_eq_true, if_false]
                  have hadv2 := adv_readLine hr2 (isEmpty_false_ne hb2)
                  have hd := parseDetails_spec primary r1.lineCount base (String.ofList (Parse.trim buf2)) r2
                  refine ⟨hd.1, ?_⟩
                  intro oe r' h
                  obtain ⟨⟨e, he, hlce, _⟩, k, hk⟩ := hd.2 oe r' h
                  refine Or.inr ⟨e, he, buf, 1 + k, hhead, by rw [hfl]; rfl, by rw [hlce, hlc], ?_⟩
                  have := (hadv.trans hadv2).trans hk
                  have he2 : 1 + 1 + k = 1 + k + 1 := by omega
                  rw [← he2]; exact this
              | err e => simp
              | panic s => have := readLine_fine r1; rw [hr2] at this; simp at this
              | fuelOut => have := readLine_fine r1; rw [hr2] at this; simp at this
          | err e => simp
          | panic s => have := peek_fine r1; rw [hpk] at this; simp at this
          | fuelOut => have := peek_fine r1; rw [hpk] at this; simp at this
        | err e => simp
        | panic s => rw [hbase] at hpf; simp at hpf
        | fuelOut => rw [hbase] at hpf; simp at hpf
  | err e => simp
  | panic s => have := readLine_fine r; rw [hr] at this; simp at this
  | fuelOut => have := readLine_fine r; rw [hr] at this; simp at this

theorem ReadAt.length_lt {r r' : Reader} {e : Entry} (h : ReadAt r e r') : r'.rest.length < r.rest.length := by
  obtain ⟨_, k, _, _, _, hadv⟩ := h
  have := hadv.length
  omega

/-- **the record loop needs no fuel**: with one unit of fuel per line (plus one) it never runs out, and it never panics -/
theorem parseEntriesFuel_fine (primary : String) : ∀ (fuel : Nat) (r : Reader), r.rest.length < fuel →
    Fine (parseEntriesFuel primary fuel r) := by
  intro fuel
  induction fuel with
  | zero => intro r h; omega
  | succ fuel ih =>
    intro r h
    rw [parseEntriesFuel]
    have hs := parseEntry_spec primary r
    cases hp : parseEntry primary r with
    | ok p =>
      obtain ⟨oe, r'⟩ := p
      cases oe with
      | none => simp
      | some e =>
        simp only []
        rcases hs.2 (some e) r' hp with h0 | ⟨e', he', hra⟩
        · simp at h0
        · have hlt := hra.length_lt
          have := ih r' (by omega)
          cases hrec : parseEntriesFuel primary fuel r' with
          | ok es => simp
          | err x => simp
          | panic s => rw [hrec] at this; simp at this
          | fuelOut => rw [hrec] at this; simp at this
    | err x => simp
    | panic s => rw [hp] at hs; simp at hs
    | fuelOut => rw [hp] at hs; simp at hs

/-- **(a) the parser is total**: for every list of lines, `parseEntries` returns the records or an `ImportError` -/
theorem parseEntries_total (primary : String) (lines : List RawLine) : Fine (parseEntries primary lines) :=
  parseEntriesFuel_fine primary _ ⟨lines, 0⟩ (Nat.lt_succ_self _)

/-- every record was read at a head line of the file, and the records follow each other in the file -/
def Heads (lines : List RawLine) (lo : Nat) (es : List Entry) : Prop :=
  (∀ e ∈ es, lo < e.lineCount ∧ ∃ cs, lines[e.lineCount - 1]? = some (.text cs) ∧ (firstLine (Parse.trimEnd cs)).isSome = true) ∧
  es.Pairwise (fun a b => a.lineCount < b.lineCount)

theorem parseEntriesFuel_heads (primary : String) (lines : List RawLine) : ∀ (fuel : Nat) (r : Reader) (es : List Entry),
    r.rest = lines.drop r.lineCount → parseEntriesFuel primary fuel r = .ok es → Heads lines r.lineCount es := by
  intro fuel
  induction fuel with
  | zero => intro r es _ h; simp [parseEntriesFuel] at h
  | succ fuel ih =>
    intro r es hinv h
    rw [parseEntriesFuel] at h
    have hs := parseEntry_spec primary r
    cases hp : parseEntry primary r with
    | ok p =>
      obtain ⟨oe, r'⟩ := p
      rw [hp] at h
      cases oe with
      | none =>
        simp only [Outcome.ok.injEq] at h
        subst h
        exact ⟨by simp, List.Pairwise.nil⟩
      | some e =>
        simp only [] at h
        rcases hs.2 (some e) r' hp with h0 | ⟨e', he', cs, k, hhead, hfl, hlc, hadv⟩
        · simp at h0
        · simp only [Option.some.injEq] at he'
          subst he'
          cases hrec : parseEntriesFuel primary fuel r' with
          | ok es' =>
            rw [hrec] at h
            simp only [Outcome.ok.injEq] at h
            subst h
            have hinv' : r'.rest = lines.drop r'.lineCount := by
              rw [hadv.1, hinv, List.drop_drop, hadv.2.1]
            obtain ⟨hall, hpw⟩ := ih r' es' hinv' hrec
            have hline : lines[e.lineCount - 1]? = some (.text cs) := by
              rw [hinv, List.head?_drop] at hhead
              rw [hlc]; simpa using hhead
            have hlo : ∀ x ∈ es', e.lineCount < x.lineCount := by
              intro x hx
              have := (hall x hx).1
              rw [hadv.2.1] at this
              omega
            refine ⟨?_, List.Pairwise.cons hlo hpw⟩
            intro x hx
            rcases List.mem_cons.mp hx with rfl | hx
            · exact ⟨by omega, cs, hline, hfl⟩
            · have := hall x hx
              exact ⟨by have := hlo x hx; omega, this.2⟩
          | err x => rw [hrec] at h; simp at h
          | panic s => rw [hrec] at h; simp at h
          | fuelOut => rw [hrec] at h; simp at h
    | err x => rw [hp] at h; simp at h
    | panic s => rw [hp] at h; simp at h
    | fuelOut => rw [hp] at h; simp at h

/-- **(b, parser side) every record comes from a head line**: the records `parseEntries` returns carry the numbers of the lines
they start at, strictly increasing, and each of those lines matches `FIRST_LINE` (after `trim_end`) -/
theorem parseEntries_heads (primary : String) (lines : List RawLine) (es : List Entry) (h : parseEntries primary lines = .ok es) :
    Heads lines 0 es :=
  parseEntriesFuel_heads primary lines _ ⟨lines, 0⟩ es (by simp) h

/-! ## the importer -/

theorem addRate_fine (t : Txn) (key : CommodityPair) (rate : Dec) : Fine (t.addRate key rate) := by
  unfold Txn.addRate
  split
  · simp
  · simp only []
    split
    · split <;> simp
    · simp

theorem withSpent_fine (t : Txn) (e : Entry) : Fine (withSpent t e) := by
  unfold withSpent
  cases e.exchange with
  | some exchange =>
    cases e.spent with
    | none => simp
    | some spent =>
      simp only []
      have := addRate_fine t ⟨exchange.equivalent.commodity, spent.commodity⟩ exchange.rate
      revert this
      cases Txn.addRate _ _ _ <;> simp
  | none => cases e.spent <;> simp

theorem withFee_fine (cfg : ConfigEntry) (t : Txn) (e : Entry) : Fine (withFee cfg t e) := by
  unfold withFee
  cases e.fee with
  | none => simp
  | some f => simp only []; cases cfg.operator <;> simp

/-- the conversion of one entry never crashes -/
theorem entryToTxn_fine (env : VisecaEnv) (cfg : ConfigEntry) (e : Entry) : Fine (entryToTxn env cfg e) := by
  unfold entryToTxn
  have := withSpent_fine (baseTxn env cfg e) e
  revert this
  cases withSpent (baseTxn env cfg e) e with
  | ok t => intro _; exact withFee_fine cfg t e
  | err x => simp
  | panic s => simp
  | fuelOut => simp

theorem importLoop_fine (env : VisecaEnv) (cfg : ConfigEntry) : ∀ (fuel : Nat) (r : Reader), r.rest.length < fuel →
    Fine (importLoop env cfg fuel r) := by
  intro fuel
  induction fuel with
  | zero => intro r h; omega
  | succ fuel ih =>
    intro r h
    rw [importLoop]
    have hs := parseEntry_spec cfg.commodity.primary r
    cases hp : parseEntry cfg.commodity.primary r with
    | ok p =>
      obtain ⟨oe, r'⟩ := p
      cases oe with
      | none => simp
      | some e =>
        simp only []
        have ht := entryToTxn_fine env cfg e
        cases hte : entryToTxn env cfg e with
        | ok t =>
          simp only []
          rcases hs.2 (some e) r' hp with h0 | ⟨e', he', hra⟩
          · simp at h0
          · have hlt := hra.length_lt
            have := ih r' (by omega)
            cases hrec : importLoop env cfg fuel r' with
            | ok es => simp
            | err x => simp
            | panic s => rw [hrec] at this; simp at this
            | fuelOut => rw [hrec] at this; simp at this
        | err x => simp
        | panic s => rw [hte] at ht; simp at ht
        | fuelOut => rw [hte] at ht; simp at ht
    | err x => simp
    | panic s => rw [hp] at hs; simp at hs
    | fuelOut => rw [hp] at hs; simp at hs

theorem forM_cons' {α : Type} (f : α → Outcome ImportErr Unit) (a : α) (as : List α) :
    (a :: as).forM f = (f a >>= fun _ => as.forM f) := rfl

theorem forM_fine {α : Type} (f : α → Outcome ImportErr Unit) (hf : ∀ x, Fine (f x)) : ∀ (l : List α), Fine (l.forM f) := by
  intro l
  induction l with
  | nil => exact fine_ok ()
  | cons a as ih =>
    rw [forM_cons']
    have := hf a
    revert this
    cases f a with
    | ok u => intro _; simpa using ih
    | err e => intro _; simp
    | panic s => simp
    | fuelOut => simp

theorem checkRules_fine (kind : ImporterKind) (vp : String → Bool) (vc : Field → String → Bool) (rules : List Rule) :
    Fine (checkRules kind vp vc rules) := by
  unfold checkRules
  simp only []
  apply forM_fine
  intro rule
  apply forM_fine
  intro m
  have hbind : ∀ (x : Outcome ImportErr Unit) (y : Outcome ImportErr Unit), Fine x → Fine y → Fine (x >>= fun _ => y) := by
    intro x y hx hy
    cases x with
    | ok u => simpa using hy
    | err e => simp
    | panic s => simp at hx
    | fuelOut => simp at hx
  apply hbind
  · apply forM_fine
    intro fp
    split
    · split
      · split <;> simp
      · split
        · simp
        · split <;> simp
    · split
      · simp
      · split <;> simp
  · split <;> simp

/-- **(a) the Viseca importer is total**: for every regex engine, every configuration and every list of lines (also lines that
are not UTF-8), `visecaImport` returns transactions or an `ImportError` — no panic site, and the line-per-turn fuel is never
exhausted. -/
theorem visecaImport_total (env : VisecaEnv) (cfg : ConfigEntry) (lines : List RawLine) : Fine (visecaImport env cfg lines) := by
  unfold visecaImport
  have := checkRules_fine .viseca env.validPattern (fun _ _ => true) cfg.rewrite
  revert this
  cases checkRules .viseca env.validPattern (fun _ _ => true) cfg.rewrite with
  | ok u => intro _; exact importLoop_fine env cfg _ ⟨lines, 0⟩ (Nat.lt_succ_self _)
  | err e => simp
  | panic s => simp
  | fuelOut => simp

/-! ## (b) one transaction per statement record -/

/-- two lists related element by element (core has no `Forall₂`) -/
inductive Each₂ {α β : Type} (R : α → β → Prop) : List α → List β → Prop
  | nil : Each₂ R [] []
  | cons {a : α} {b : β} {as : List α} {bs : List β} : R a b → Each₂ R as bs → Each₂ R (a :: as) (b :: bs)

theorem Each₂.length_eq {α β : Type} {R : α → β → Prop} {as : List α} {bs : List β} (h : Each₂ R as bs) :
    as.length = bs.length := by
  induction h with
  | nil => rfl
  | cons _ _ ih => simp [ih]

/-- the conversions of the records, in order; the first failing one ends the import -/
def convertAll (env : VisecaEnv) (cfg : ConfigEntry) : List Entry → Outcome ImportErr (List Txn)
  | [] => .ok []
  | e :: es =>
    match entryToTxn env cfg e with
    | .ok t =>
      match convertAll env cfg es with
      | .ok ts => .ok (t :: ts)
      | .err x => .err x
      | .panic s => .panic s
      | .fuelOut => .fuelOut
    | .err x => .err x
    | .panic s => .panic s
    | .fuelOut => .fuelOut

theorem convertAll_ok (env : VisecaEnv) (cfg : ConfigEntry) : ∀ (es : List Entry) (ts : List Txn),
    convertAll env cfg es = .ok ts ↔ Each₂ (fun e t => entryToTxn env cfg e = .ok t) es ts := by
  intro es
  induction es with
  | nil =>
    intro ts
    cases ts with
    | nil => simp only [convertAll, true_iff]; exact Each₂.nil
    | cons t ts => simp only [convertAll, Outcome.ok.injEq, reduceCtorEq, false_iff]; intro h; cases h
  | cons e es ih =>
    intro ts
    rw [convertAll]
    cases he : entryToTxn env cfg e with
    | ok t =>
      simp only []
      cases hc : convertAll env cfg es with
      | ok ts' =>
        simp only [Outcome.ok.injEq]
        constructor
        · intro h; subst h; exact Each₂.cons he ((ih ts').mp hc)
        · intro h
          cases h with
          | cons h1 h2 =>
            rw [he] at h1
            simp only [Outcome.ok.injEq] at h1
            subst h1
            have := (ih _).mpr h2
            rw [hc] at this
            simp only [Outcome.ok.injEq] at this
            rw [this]
      | err x =>
        simp only [reduceCtorEq, false_iff]
        intro h
        cases h with
        | cons h1 h2 => have := (ih _).mpr h2; rw [hc] at this; simp at this
      | panic s =>
        simp only [reduceCtorEq, false_iff]
        intro h
        cases h with
        | cons h1 h2 => have := (ih _).mpr h2; rw [hc] at this; simp at this
      | fuelOut =>
        simp only [reduceCtorEq, false_iff]
        intro h
        cases h with
        | cons h1 h2 => have := (ih _).mpr h2; rw [hc] at this; simp at this
    | err x =>
      simp only [reduceCtorEq, false_iff]
      intro h; cases h with | cons h1 h2 => rw [he] at h1; simp at h1
    | panic s =>
      simp only [reduceCtorEq, false_iff]
      intro h; cases h with | cons h1 h2 => rw [he] at h1; simp at h1
    | fuelOut =>
      simp only [reduceCtorEq, false_iff]
      intro h; cases h with | cons h1 h2 => rw [he] at h1; simp at h1

/-- when the parser reads the whole statement, the import loop is the conversion of its records -/
theorem importLoop_of_parse (env : VisecaEnv) (cfg : ConfigEntry) : ∀ (fuel : Nat) (r : Reader) (es : List Entry),
    parseEntriesFuel cfg.commodity.primary fuel r = .ok es → importLoop env cfg fuel r = convertAll env cfg es := by
  intro fuel
  induction fuel with
  | zero => intro r es h; simp [parseEntriesFuel] at h
  | succ fuel ih =>
    intro r es h
    rw [parseEntriesFuel] at h
    rw [importLoop]
    cases hp : parseEntry cfg.commodity.primary r with
    | ok p =>
      obtain ⟨oe, r'⟩ := p
      rw [hp] at h
      cases oe with
      | none =>
        simp only [Outcome.ok.injEq] at h
        subst h; rfl
      | some e =>
        simp only [] at h ⊢
        cases hrec : parseEntriesFuel cfg.commodity.primary fuel r' with
        | ok es' =>
          rw [hrec] at h
          simp only [Outcome.ok.injEq] at h
          subst h
          rw [ih r' es' hrec]
          rfl
        | err x => rw [hrec] at h; simp at h
        | panic s => rw [hrec] at h; simp at h
        | fuelOut => rw [hrec] at h; simp at h
    | err x => rw [hp] at h; simp at h
    | panic s => rw [hp] at h; simp at h
    | fuelOut => rw [hp] at h; simp at h

/-- a successful import loop has read the whole statement -/
theorem importLoop_ok_parse (env : VisecaEnv) (cfg : ConfigEntry) : ∀ (fuel : Nat) (r : Reader) (ts : List Txn),
    importLoop env cfg fuel r = .ok ts → ∃ es, parseEntriesFuel cfg.commodity.primary fuel r = .ok es := by
  intro fuel
  induction fuel with
  | zero => intro r ts h; simp [importLoop] at h
  | succ fuel ih =>
    intro r ts h
    rw [importLoop] at h
    rw [parseEntriesFuel]
    cases hp : parseEntry cfg.commodity.primary r with
    | ok p =>
      obtain ⟨oe, r'⟩ := p
      rw [hp] at h
      cases oe with
      | none => exact ⟨[], rfl⟩
      | some e =>
        simp only [] at h ⊢
        cases hte : entryToTxn env cfg e with
        | ok t =>
          rw [hte] at h
          simp only [] at h
          cases hrec : importLoop env cfg fuel r' with
          | ok ts' =>
            obtain ⟨es', hes'⟩ := ih r' ts' hrec
            exact ⟨e :: es', by rw [hes']⟩
          | err x => rw [hrec] at h; simp at h
          | panic s => rw [hrec] at h; simp at h
          | fuelOut => rw [hrec] at h; simp at h
        | err x => rw [hte] at h; simp at h
        | panic s => rw [hte] at h; simp at h
        | fuelOut => rw [hte] at h; simp at h
    | err x => rw [hp] at h; simp at h
    | panic s => rw [hp] at h; simp at h
    | fuelOut => rw [hp] at h; simp at h

/-- **(b) one transaction per statement record, in order**: when the import succeeds, the parser alone reads the whole statement,
the transactions are exactly the conversions of its records, one each and in the same order, and every record starts at its
own head line of the file (`Heads`: the line numbered `lineCount` matches `FIRST_LINE`, numbers strictly increasing) — so the
number of transactions is the number of head lines consumed. -/
theorem visecaImport_one_per_record (env : VisecaEnv) (cfg : ConfigEntry) (lines : List RawLine) (ts : List Txn)
    (h : visecaImport env cfg lines = .ok ts) :
    ∃ es, parseEntries cfg.commodity.primary lines = .ok es ∧
      Each₂ (fun e t => entryToTxn env cfg e = .ok t) es ts ∧ ts.length = es.length ∧ Heads lines 0 es := by
  unfold visecaImport at h
  cases hc : checkRules .viseca env.validPattern (fun _ _ => true) cfg.rewrite with
  | ok u =>
    rw [hc] at h
    simp only [] at h
    obtain ⟨es, hes⟩ := importLoop_ok_parse env cfg _ _ ts h
    have h2 := importLoop_of_parse env cfg _ _ es hes
    rw [h] at h2
    have hf := (convertAll_ok env cfg es ts).mp h2.symm
    exact ⟨es, hes, hf, hf.length_eq.symm, parseEntries_heads _ lines es hes⟩
  | err e => rw [hc] at h; simp at h
  | panic s => rw [hc] at h; simp at h
  | fuelOut => rw [hc] at h; simp at h

/-- the other direction: a statement the parser reads is imported as the conversions of its records (once the rewrite
rules compile) -/
theorem visecaImport_of_parse (env : VisecaEnv) (cfg : ConfigEntry) (lines : List RawLine) (es : List Entry)
    (hc : checkRules .viseca env.validPattern (fun _ _ => true) cfg.rewrite = .ok ())
    (h : parseEntries cfg.commodity.primary lines = .ok es) :
    visecaImport env cfg lines = convertAll env cfg es := by
  unfold visecaImport
  rw [hc]
  exact importLoop_of_parse env cfg _ _ es h

/-! ## (c) round trip: lines -/

theorem isDigit_eq_digitChar {c : Char} (h : c.isDigit = true) : ∃ k, k < 10 ∧ c = digitChar k := by
  simp only [Char.isDigit, Bool.and_eq_true, decide_eq_true_eq] at h
  have h1 : 48 ≤ c.val.toNat := h.1
  have h2 : c.val.toNat ≤ 57 := h.2
  refine ⟨c.toNat - 48, by show c.val.toNat - 48 < 10; omega, ?_⟩
  unfold digitChar
  have : 48 + (c.toNat - 48) = c.toNat := by show 48 + (c.val.toNat - 48) = c.val.toNat; omega
  rw [this, Char.ofNat_toNat]

theorem digitChar_not_ws : ∀ k, k < 10 → Parse.isRustWhitespace (digitChar k) = false := by decide

theorem isDigit_not_ws {c : Char} (h : c.isDigit = true) : Parse.isRustWhitespace c = false := by
  obtain ⟨k, hk, rfl⟩ := isDigit_eq_digitChar h
  exact digitChar_not_ws k hk

theorem trimEnd_line (s pre : List Char) (c : Char) (hs : s = pre ++ [c]) (hc : Parse.isRustWhitespace c = false) :
    Parse.trimEnd (s ++ ['\n']) = s := by
  subst hs
  have hnl : Parse.isRustWhitespace '\n' = true := by decide
  simp [Parse.trimEnd, List.dropWhile_cons, hnl, hc]

/-- a text that ends in a digit or in the ` -` marker: `trim_end` of its line is the text -/
theorem trimEnd_endsDigit {s : List Char} (h : EndsDigit s) : Parse.trimEnd (s ++ ['\n']) = s := by
  obtain ⟨pre, c, hs, hc⟩ := h
  exact trimEnd_line s pre c hs (isDigit_not_ws hc)

theorem printHead_trimEnd (e : Entry) : Parse.trimEnd (printHead e ++ ['\n']) = printHead e := by
  cases hn : negMark e with
  | true =>
    have : printHead e = (printEuroDate e.date ++ [' '] ++ printEuroDate e.effectiveDate ++ [' '] ++ e.payee.toList ++
        (match e.spent with
         | some s => [' '] ++ s.commodity.toList ++ [' '] ++ printGrouped s.value
         | none => []) ++ [' '] ++ printGrouped e.amount ++ [' ']) ++ ['-'] := by
      cases hsp : e.spent <;> simp [printHead, hn, hsp]
    exact trimEnd_line _ _ '-' this (by decide)
  | false =>
    apply trimEnd_endsDigit
    have : printHead e = (printEuroDate e.date ++ [' '] ++ printEuroDate e.effectiveDate ++ [' '] ++ e.payee.toList ++
        (match e.spent with
         | some s => [' '] ++ s.commodity.toList ++ [' '] ++ printGrouped s.value
         | none => []) ++ [' ']) ++ printGrouped e.amount := by
      cases hsp : e.spent <;> simp [printHead, hn, hsp]
    rw [this]
    exact endsDigit_append (printGrouped_endsDigit _)

theorem printExchange_trimEnd (x : Viseca.Exchange) : Parse.trimEnd (printExchange x ++ ['\n']) = printExchange x := by
  apply trimEnd_endsDigit
  unfold printExchange
  exact endsDigit_append (printGrouped_endsDigit _)

theorem printFee_trimEnd (f : Fee) : Parse.trimEnd (printFee f ++ ['\n']) = printFee f := by
  apply trimEnd_endsDigit
  unfold printFee
  exact endsDigit_append (printGrouped_endsDigit _)
