import Okane.Model.Query
import Okane.Lemmas.Price
/-!
# Lemmas for C10: what `convert_amount` and the two conversion loops of `Ledger::balance` compute
-/
set_option linter.unusedSectionVars false
namespace Okane.Query
open Okane.Price
variable {α κ : Type} [DecidableEq α] [DecidableEq κ]

/-- the unit rate `convert_single` uses for commodity `c` into `T` at `D`: 1 for `T` itself, the tabled rate
otherwise; `none` when the table has no entry (or could not be computed). -/
def rateOf (cfg : Cfg κ) (repo : Builder κ) (T : κ) (D : Date) (c : κ) : Option Rat :=
  if c = T then some 1
  else
    match priceTable cfg repo T D with
    | .ok tbl => (AMap.get? tbl c).map (·.2)
    | _ => none

/-- Σ over the entries of an amount of value × unit rate. -/
def convValue (rate : κ → Option Rat) : List (κ × Rat) → Rat
  | [] => 0
  | (c, v) :: l => v * (rate c).getD 0 + convValue rate l

/-- rounding to the target's declared precision. -/
def roundT (prec : κ → Option Nat) (T : κ) (x : Rat) : Rat :=
  match prec T with
  | none => x
  | some dp => roundHalfEven x dp

/-- an amount that holds nothing but (possibly) the target commodity. -/
def Single (T : κ) (m : Amount κ) : Prop := m = [] ∨ ∃ s, m = [(T, s)]

/-- every account's amount is `Single T`. -/
def AllSingle (T : κ) (b : Balance α κ) : Prop := ∀ e ∈ b, Single T e.2

theorem roundHalfEven_zero (dp : Nat) : roundHalfEven 0 dp = 0 := by
  have h : roundHalfEvenInt 0 = 0 := by decide +kernel
  unfold roundHalfEven
  rw [Rat.zero_mul, h]
  simp [Rat.div_def, Rat.zero_mul]

/-! ## single conversions -/

theorem convertSingle_ok {cfg : Cfg κ} {repo : Builder κ} {v : Rat} {c T : κ} {D : Date} {w : SingleAmount κ}
    (h : convertSingle cfg repo ⟨v, c⟩ T D = .ok w) :
    ∃ r, rateOf cfg repo T D c = some r ∧ w = ⟨v * r, T⟩ := by
  unfold convertSingle at h
  unfold rateOf
  by_cases hc : c = T
  · simp only [hc, if_true, Outcome.ok.injEq] at h
    subst h; subst hc
    exact ⟨1, by simp, by simp [Rat.mul_one]⟩
  · simp only [hc, if_false] at h ⊢
    cases hp : priceTable cfg repo T D with
    | ok tbl =>
      simp only [hp] at h
      cases hg : AMap.get? tbl c with
      | none => simp [hg] at h
      | some x =>
        obtain ⟨d, r⟩ := x
        simp only [hg, Outcome.ok.injEq] at h
        exact ⟨r, by simp [hg], h.symm⟩
    | err e => simp [hp] at h
    | panic s => simp [hp] at h
    | fuelOut => simp [hp] at h

theorem convertSingle_of_rate {cfg : Cfg κ} {repo : Builder κ} {c T : κ} {D : Date} {r : Rat}
    (h : rateOf cfg repo T D c = some r) (v : Rat) :
    convertSingle cfg repo ⟨v, c⟩ T D = .ok ⟨v * r, T⟩ := by
  unfold rateOf at h
  unfold convertSingle
  by_cases hc : c = T
  · simp only [hc, if_true, Option.some.injEq] at h
    subst h; subst hc; simp [Rat.mul_one]
  · simp only [hc, if_false] at h ⊢
    cases hp : priceTable cfg repo T D with
    | ok tbl =>
      simp only [hp] at h
      cases hg : AMap.get? tbl c with
      | none => simp [hg] at h
      | some x => obtain ⟨d, r'⟩ := x; simp [hg] at h; subst h; simp [hg]
    | err e => simp [hp] at h
    | panic s => simp [hp] at h
    | fuelOut => simp [hp] at h

/-! ## `convert_amount` -/

theorem addSingle_single (T : κ) (m : Amount κ) (hm : Single T m) (v : Rat) :
    Single T (m.addSingle T v) ∧ Amount.getPart (m.addSingle T v) T = Amount.getPart m T + v := by
  rcases hm with rfl | ⟨s, rfl⟩
  · refine ⟨Or.inr ⟨0 + v, ?_⟩, ?_⟩ <;> simp [Amount.addSingle, Amount.getPart, AMap.insert, AMap.get?]
  · refine ⟨Or.inr ⟨s + v, ?_⟩, ?_⟩ <;> simp [Amount.addSingle, Amount.getPart, AMap.insert, AMap.get?]

theorem getPart_single_ne (T : κ) (m : Amount κ) (hm : Single T m) (k : κ) (hk : k ≠ T) : AMap.get? m k = none := by
  rcases hm with rfl | ⟨s, rfl⟩
  · rfl
  · simp [AMap.get?, Ne.symm hk]

theorem convertLoop_ok (cfg : Cfg κ) (repo : Builder κ) (T : κ) (D : Date) :
    ∀ (l : List (κ × Rat)) (acc res : Amount κ), Single T acc →
      convertLoop cfg repo T D l acc = .ok res →
      Single T res ∧ (∀ cv ∈ l, (rateOf cfg repo T D cv.1).isSome) ∧
      Amount.getPart res T = Amount.getPart acc T + convValue (rateOf cfg repo T D) l := by
  intro l
  induction l with
  | nil =>
    intro acc res hacc h
    simp only [convertLoop, Outcome.ok.injEq] at h
    subst h
    exact ⟨hacc, by simp, by simp [convValue, Rat.add_zero]⟩
  | cons cv l ih =>
    intro acc res hacc h
    obtain ⟨c, v⟩ := cv
    simp only [convertLoop] at h
    cases hs : convertSingle cfg repo ⟨v, c⟩ T D with
    | ok w =>
      simp only [hs] at h
      obtain ⟨r, hr, hw⟩ := convertSingle_ok hs
      subst hw
      obtain ⟨hsing, hpart⟩ := addSingle_single T acc hacc (v * r)
      obtain ⟨h1, h2, h3⟩ := ih _ res hsing h
      refine ⟨h1, ?_, ?_⟩
      · intro cv hcv
        rcases List.mem_cons.1 hcv with rfl | hcv
        · simp [hr]
        · exact h2 cv hcv
      · rw [h3, hpart]
        simp only [convValue, hr, Option.getD_some]
        rw [Rat.add_assoc]
    | err e => simp [hs] at h
    | panic s => simp [hs] at h
    | fuelOut => simp [hs] at h

theorem convValue_insertBy (rate : κ → Option Rat) (le : κ × Rat → κ × Rat → Bool) (x : κ × Rat) (l : List (κ × Rat)) :
    convValue rate (insertBy le x l) = convValue rate (x :: l) := by
  induction l with
  | nil => rfl
  | cons y ys ih =>
    simp only [insertBy]
    split
    · rfl
    · obtain ⟨c, v⟩ := x; obtain ⟨c', v'⟩ := y
      simp only [convValue] at ih ⊢
      rw [ih]
      simp only [Rat.add_comm, Rat.add_left_comm]

theorem convValue_isortBy (rate : κ → Option Rat) (le : κ × Rat → κ × Rat → Bool) (l : List (κ × Rat)) :
    convValue rate (isortBy le l) = convValue rate l := by
  induction l with
  | nil => rfl
  | cons x xs ih =>
    simp only [isortBy]
    rw [convValue_insertBy]
    obtain ⟨c, v⟩ := x
    simp only [convValue, ih]

/-- `convert_amount` succeeds only if every entry has a rate, and then yields nothing but the target commodity,
holding Σ value × rate. -/
theorem convertAmount_ok {cfg : Cfg κ} {repo : Builder κ} {leK : κ → κ → Bool} {a res : Amount κ} {T : κ} {D : Date}
    (h : convertAmount cfg repo leK a T D = .ok res) :
    Single T res ∧ (∀ cv ∈ a, (rateOf cfg repo T D cv.1).isSome) ∧
    Amount.getPart res T = convValue (rateOf cfg repo T D) a := by
  unfold convertAmount at h
  obtain ⟨h1, h2, h3⟩ := convertLoop_ok cfg repo T D _ [] res (Or.inl rfl) h
  refine ⟨h1, fun cv hcv => h2 cv ((mem_isortBy _ _ _).2 hcv), ?_⟩
  rw [h3, convValue_isortBy]
  simp [Amount.getPart, Rat.zero_add]

/-- … and it does succeed when every entry has a rate (given the loop's shape, by induction). -/
theorem convertLoop_total (cfg : Cfg κ) (repo : Builder κ) (T : κ) (D : Date) :
    ∀ (l : List (κ × Rat)) (acc : Amount κ), (∀ cv ∈ l, (rateOf cfg repo T D cv.1).isSome) →
      ∃ res, convertLoop cfg repo T D l acc = .ok res := by
  intro l
  induction l with
  | nil => intro acc _; exact ⟨acc, rfl⟩
  | cons cv l ih =>
    intro acc h
    obtain ⟨c, v⟩ := cv
    have hc := h (c, v) (List.mem_cons_self)
    obtain ⟨r, hr⟩ := Option.isSome_iff_exists.1 hc
    simp only [convertLoop, convertSingle_of_rate hr v]
    exact ih _ (fun cv hcv => h cv (List.mem_cons_of_mem _ hcv))

/-! ## adding a converted amount to an account -/

theorem add_single_removeZero (T : κ) (cur x : Amount κ) (hc : Single T cur) (hx : Single T x) :
    Single T ((cur.add x).removeZero) ∧
    Amount.getPart ((cur.add x).removeZero) T = Amount.getPart cur T + Amount.getPart x T := by
  rcases hc with rfl | ⟨s, rfl⟩ <;> rcases hx with rfl | ⟨v, rfl⟩
  · refine ⟨Or.inl ?_, ?_⟩ <;> simp [Amount.add, Amount.removeZero, AMap.filterVals, Amount.getPart, Rat.add_zero]
  · by_cases h0 : (0 : Rat) + v = 0
    · refine ⟨Or.inl ?_, ?_⟩ <;>
        simp [Amount.add, Amount.addSingle, Amount.removeZero, AMap.filterVals, Amount.getPart, AMap.insert, AMap.get?, h0]
    · refine ⟨Or.inr ⟨0 + v, ?_⟩, ?_⟩ <;>
        simp [Amount.add, Amount.addSingle, Amount.removeZero, AMap.filterVals, Amount.getPart, AMap.insert, AMap.get?, h0]
  · by_cases h0 : s = 0
    · refine ⟨Or.inl ?_, ?_⟩ <;>
        simp [Amount.add, Amount.removeZero, AMap.filterVals, Amount.getPart, AMap.get?, h0, Rat.add_zero]
    · refine ⟨Or.inr ⟨s, ?_⟩, ?_⟩ <;>
        simp [Amount.add, Amount.removeZero, AMap.filterVals, Amount.getPart, AMap.get?, h0, Rat.add_zero]
  · by_cases h0 : s + v = 0
    · refine ⟨Or.inl ?_, ?_⟩ <;>
        simp [Amount.add, Amount.addSingle, Amount.removeZero, AMap.filterVals, Amount.getPart, AMap.insert, AMap.get?, h0]
    · refine ⟨Or.inr ⟨s + v, ?_⟩, ?_⟩ <;>
        simp [Amount.add, Amount.addSingle, Amount.removeZero, AMap.filterVals, Amount.getPart, AMap.insert, AMap.get?, h0]

theorem mem_insert {ν : Type} (m : AMap α ν) (k : α) (v : ν) (x : α × ν) (hx : x ∈ AMap.insert m k v) :
    x = (k, v) ∨ x ∈ m := by
  induction m with
  | nil => simp [AMap.insert] at hx; left; exact hx
  | cons hd tl ih =>
    obtain ⟨a, b⟩ := hd
    simp only [AMap.insert] at hx
    by_cases h : a = k
    · simp only [h, if_true, List.mem_cons] at hx
      rcases hx with hx | hx
      · left; exact hx
      · right; exact List.mem_cons_of_mem _ hx
    · simp only [h, if_false, List.mem_cons] at hx
      rcases hx with hx | hx
      · right; rw [hx]; exact List.mem_cons_self
      · rcases ih hx with h1 | h1
        · left; exact h1
        · right; exact List.mem_cons_of_mem _ h1

theorem allSingle_get (T : κ) (b : Balance α κ) (h : AllSingle T b) (a : α) : Single T (Balance.get b a) := by
  unfold Balance.get
  cases hg : AMap.get? b a with
  | none => exact Or.inl rfl
  | some m => exact h (a, m) (AMap.mem_of_get?_some b hg)

/-- one `bal.add_amount(account, converted)` step. -/
theorem addAmount_single (T : κ) (b : Balance α κ) (hb : AllSingle T b) (a : α) (x : Amount κ) (hx : Single T x) :
    AllSingle T (Balance.addAmount b a x).1 ∧
    ∀ a', Amount.getPart (Balance.get (Balance.addAmount b a x).1 a') T =
      Amount.getPart (Balance.get b a') T + (if a' = a then Amount.getPart x T else 0) := by
  obtain ⟨hs, hp⟩ := add_single_removeZero T (Balance.get b a) x (allSingle_get T b hb a) hx
  constructor
  · intro e he
    rcases mem_insert _ _ _ _ he with rfl | he
    · exact hs
    · exact hb e he
  · intro a'
    unfold Balance.addAmount
    simp only
    by_cases haa : a' = a
    · subst haa
      simp only [Balance.get, AMap.get?_insert_self, Option.getD_some, if_true] at hp ⊢
      exact hp
    · simp only [Balance.get, AMap.get?_insert_ne _ _ (Ne.symm haa), haa, if_false, Rat.add_zero]

/-! ## the two loops -/

/-- Σ over the postings of account `a` dated in the range, each converted at its transaction date. -/
def histValue (rate : Date → κ → Option Rat) (range : DateRange) (a : α) : List (Date × OutPosting α κ) → Rat
  | [] => 0
  | (d, p) :: rest =>
    (if range.contains d = true ∧ p.account = a then convValue (rate d) p.amount else 0) + histValue rate range a rest

/-- Σ over the balance entries of account `a`, converted at one date. -/
def utdValue (rate : κ → Option Rat) (a : α) : List (α × Amount κ) → Rat
  | [] => 0
  | (a', amt) :: rest => (if a' = a then convValue rate amt else 0) + utdValue rate a rest

theorem liftConv_ok {β : Type} {x : Outcome (ConvErr κ) β} {b : β} (h : liftConv x = .ok b) : x = .ok b := by
  cases x <;> simp [liftConv] at h ⊢; exact h

theorem recomputeLoop_hist (env : Env α κ) (q : BalanceQuery κ) (T : κ) (hq : q.conversion = some ⟨.historical, T⟩) :
    ∀ (l : List (Date × OutPosting α κ)) (bal B : Balance α κ), AllSingle T bal →
      recomputeLoop env q l bal = .ok B →
      AllSingle T B ∧
      (∀ a, Amount.getPart (Balance.get B a) T =
        Amount.getPart (Balance.get bal a) T + histValue (rateOf env.cfg env.repo T) q.range a l) ∧
      (∀ dp ∈ l, q.range.contains dp.1 = true → ∀ cv ∈ dp.2.amount, (rateOf env.cfg env.repo T dp.1 cv.1).isSome) := by
  intro l
  induction l with
  | nil =>
    intro bal B hb h
    simp only [recomputeLoop, Outcome.ok.injEq] at h
    subst h
    exact ⟨hb, fun a => by simp [histValue, Rat.add_zero], by simp⟩
  | cons dp l ih =>
    intro bal B hb h
    obtain ⟨d, p⟩ := dp
    simp only [recomputeLoop] at h
    by_cases hc : q.range.contains d = true
    · simp only [hc, Bool.not_true, Bool.false_eq_true, if_false, hq] at h
      cases hconv : liftConv (convertAmount env.cfg env.repo env.leK p.amount T d) with
      | ok delta =>
        simp only [hconv] at h
        obtain ⟨hs, hrates, hval⟩ := convertAmount_ok (liftConv_ok hconv)
        obtain ⟨hb', hget⟩ := addAmount_single T bal hb p.account delta hs
        obtain ⟨h1, h2, h3⟩ := ih _ B hb' h
        refine ⟨h1, ?_, ?_⟩
        · intro a
          rw [h2 a, hget a]
          simp only [histValue, hc, true_and]
          by_cases ha : a = p.account
          · subst ha; simp only [if_true, hval]; rw [Rat.add_assoc]
          · have : ¬ p.account = a := fun h => ha h.symm
            simp only [ha, this, if_false, Rat.add_zero, Rat.zero_add]
        · intro dp' hdp' hcon cv hcv
          rcases List.mem_cons.1 hdp' with rfl | hdp'
          · exact hrates cv hcv
          · exact h3 dp' hdp' hcon cv hcv
      | err e => simp [hconv] at h
      | panic s => simp [hconv] at h
      | fuelOut => simp [hconv] at h
    · simp only [hc, Bool.not_false, if_true] at h
      have hc' : q.range.contains d = false := by simpa using hc
      obtain ⟨h1, h2, h3⟩ := ih _ B hb h
      refine ⟨h1, ?_, ?_⟩
      · intro a
        rw [h2 a]
        simp [histValue, hc', Rat.zero_add]
      · intro dp' hdp' hcon cv hcv
        rcases List.mem_cons.1 hdp' with rfl | hdp'
        · simp [hc'] at hcon
        · exact h3 dp' hdp' hcon cv hcv

theorem upToDateLoop_ok (env : Env α κ) (T : κ) (now : Date) :
    ∀ (l : List (α × Amount κ)) (acc B : Balance α κ), AllSingle T acc →
      upToDateLoop env T now l acc = .ok B →
      AllSingle T B ∧
      (∀ a, Amount.getPart (Balance.get B a) T =
        Amount.getPart (Balance.get acc a) T + utdValue (rateOf env.cfg env.repo T now) a l) ∧
      (∀ e ∈ l, ∀ cv ∈ e.2, (rateOf env.cfg env.repo T now cv.1).isSome) := by
  intro l
  induction l with
  | nil =>
    intro acc B hb h
    simp only [upToDateLoop, Outcome.ok.injEq] at h
    subst h
    exact ⟨hb, fun a => by simp [utdValue, Rat.add_zero], by simp⟩
  | cons e l ih =>
    intro acc B hb h
    obtain ⟨a0, amt⟩ := e
    simp only [upToDateLoop] at h
    cases hconv : liftConv (convertAmount env.cfg env.repo env.leK amt T now) with
    | ok x =>
      simp only [hconv] at h
      obtain ⟨hs, hrates, hval⟩ := convertAmount_ok (liftConv_ok hconv)
      obtain ⟨hb', hget⟩ := addAmount_single T acc hb a0 x hs
      obtain ⟨h1, h2, h3⟩ := ih _ B hb' h
      refine ⟨h1, ?_, ?_⟩
      · intro a
        rw [h2 a, hget a]
        simp only [utdValue]
        by_cases ha : a = a0
        · subst ha; simp only [if_true, hval]; rw [Rat.add_assoc]
        · have : ¬ a0 = a := fun h => ha h.symm
          simp only [ha, this, if_false, Rat.add_zero, Rat.zero_add]
      · intro e' he' cv hcv
        rcases List.mem_cons.1 he' with rfl | he'
        · exact hrates cv hcv
        · exact h3 e' he' cv hcv
    | err e => simp [hconv] at h
    | panic s => simp [hconv] at h
    | fuelOut => simp [hconv] at h

theorem utdValue_insertBy (rate : κ → Option Rat) (a : α) (le : α × Amount κ → α × Amount κ → Bool)
    (x : α × Amount κ) (l : List (α × Amount κ)) :
    utdValue rate a (insertBy le x l) = utdValue rate a (x :: l) := by
  induction l with
  | nil => rfl
  | cons y ys ih =>
    simp only [insertBy]
    split
    · rfl
    · obtain ⟨c, v⟩ := x; obtain ⟨c', v'⟩ := y
      simp only [utdValue] at ih ⊢
      rw [ih]
      simp only [Rat.add_comm, Rat.add_left_comm]

theorem utdValue_isortBy (rate : κ → Option Rat) (a : α) (le : α × Amount κ → α × Amount κ → Bool)
    (l : List (α × Amount κ)) : utdValue rate a (isortBy le l) = utdValue rate a l := by
  induction l with
  | nil => rfl
  | cons x xs ih =>
    simp only [isortBy]
    rw [utdValue_insertBy]
    obtain ⟨c, v⟩ := x
    simp only [utdValue, ih]

/-- with unique account keys the Σ over entries of account `a` is the conversion of `a`'s amount. -/
theorem utdValue_of_WF (rate : κ → Option Rat) (a : α) (b : Balance α κ) (h : AMap.WF b) :
    utdValue rate a b = convValue rate (Balance.get b a) := by
  induction b with
  | nil => simp [utdValue, Balance.get, convValue]
  | cons hd tl ih =>
    obtain ⟨a', amt⟩ := hd
    have htl : AMap.WF tl := by unfold AMap.WF AMap.keys at *; simp at h; exact h.2
    have hnot : a' ∉ AMap.keys tl := by unfold AMap.WF AMap.keys at *; simp at h; simpa [AMap.keys] using h.1
    simp only [utdValue, ih htl]
    by_cases ha : a' = a
    · subst ha
      have hnone : AMap.get? tl a' = none := (AMap.get?_none_iff_not_mem tl a').2 hnot
      simp [Balance.get, AMap.get?, hnone, convValue, Rat.add_zero]
    · simp [Balance.get, AMap.get?, ha, Rat.zero_add]

/-! ## rounding a balance whose amounts are all in the target commodity -/

theorem round_single (prec : κ → Option Nat) (T : κ) (m : Amount κ) (hm : Single T m) :
    Single T (Amount.round prec m) ∧ Amount.getPart (Amount.round prec m) T = roundT prec T (Amount.getPart m T) := by
  rcases hm with rfl | ⟨s, rfl⟩
  · refine ⟨Or.inl rfl, ?_⟩
    simp only [Amount.round, AMap.mapValsK, List.map_nil, Amount.getPart, AMap.get?_nil, Option.getD_none, roundT]
    cases prec T with
    | none => rfl
    | some dp => simp [roundHalfEven_zero]
  · refine ⟨Or.inr ⟨_, rfl⟩, ?_⟩
    simp only [Amount.round, AMap.mapValsK, List.map_cons, List.map_nil, Amount.getPart, AMap.get?, if_true,
      Option.getD_some, roundT]
    cases prec T <;> rfl

theorem round_balance_get (prec : κ → Option Nat) (T : κ) (b : Balance α κ) (hb : AllSingle T b) (a : α) :
    Single T (Balance.get (Balance.round prec b) a) ∧
    Amount.getPart (Balance.get (Balance.round prec b) a) T = roundT prec T (Amount.getPart (Balance.get b a) T) := by
  unfold Balance.round Balance.get
  rw [AMap.get?_mapVals]
  cases hg : AMap.get? b a with
  | none =>
    simp only [Option.map_none, Option.getD_none]
    exact round_single prec T [] (Or.inl rfl)
  | some m =>
    simp only [Option.map_some, Option.getD_some]
    exact round_single prec T m (hb (a, m) (AMap.mem_of_get?_some b hg))

/-- rounding such a balance reads no precision but the target's. -/
theorem round_balance_congr (prec prec' : κ → Option Nat) (T : κ) (hT : prec T = prec' T) (b : Balance α κ)
    (hb : AllSingle T b) : Balance.round prec b = Balance.round prec' b := by
  unfold Balance.round AMap.mapVals
  apply List.map_congr_left
  intro e he
  rcases hb e he with h | ⟨s, h⟩
  · rw [h]; rfl
  · rw [h]; simp [Amount.round, AMap.mapValsK, hT]

end Okane.Query
