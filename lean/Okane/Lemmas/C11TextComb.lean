import Okane.Model.Parse
import Okane.Lemmas.ParseTotalGrammar
/-!
# Locality of the parser combinators (C11 at the level of texts)

A ledger text `a` is cut in front of a text `t`.  The parsers run over `a ++ t` instead of `a`.  `Loc C x y p` says that
`p` cannot tell the difference as long as it stands inside `a` at a position of kind `x`, and leaves a position of kind `y`:

* the **context** `C : Ctx` fixes the tail `C.z` of `a` (nothing, or blank lines: `a = … ++ "\n" ++ z`) and the text `C.t`
  that follows, with the one assumption `Follows t` when there is no blank tail: if `t` starts with a blank or a tab then its
  first line is blank (true of every ledger; an indented posting / detail line would be captured by the last entry of `a`).
  Top-level comments need `C.NoCm` in addition: no blank tail means `t` does not start with a comment prefix;
* positions (`Pos`): `mid` — the remaining text `u` of `a` still holds a line end in front of the tail (`u = w ++ "\n" ++ z`);
  `bol` — the same, or `u = z`: the parser stands at the beginning of a line and there may be no line of `a` left;
* `Res.Ext t (p u) (p (u ++ t))`: a success on `u` is the same success on `u ++ t` (same value, rest `++ t`), a backtrack is a
  backtrack (positions of failures are not compared); nothing is claimed about `Cut` (the entry then fails in `a` already),
  `panic` and `fuel` (excluded by `Safe`).

One rule per combinator of `Okane.Comb`; the loops compare runs with *different* fuel (`length + 1` of different texts), which
is why they ask for `Safe 1` elements.  `WL p` ("within the line") is the context-free fact that holds for every token
parser that stops at `\n`: on a text that contains `\n` its result is decided, and it consumes no `\n`.
-/
namespace Okane.Parse
open Okane Okane.Comb

variable {α β γ : Type}

/-- the text that follows the cut does not start with a blank, a tab or a comment prefix -/
def Cont (t : List Char) : Prop := ∀ c r, t = c :: r → isSpace c = false ∧ isCommentPrefix c = false

theorem cont_nil : Cont [] := by intro c r h; cases h
theorem cont_nl (r : List Char) : Cont ('\n' :: r) := by
  intro c r' h; injection h with h1 _; subst h1; exact ⟨by decide, by decide⟩

theorem mem_takeWhile_true {f : Char → Bool} {c : Char} : ∀ {l : List Char}, c ∈ l.takeWhile f → f c = true := by
  intro l
  induction l with
  | nil => intro h; cases h
  | cons d r ih =>
    intro h
    by_cases hd : f d = true
    · simp only [List.takeWhile_cons, hd, if_true, List.mem_cons] at h
      rcases h with rfl | h
      · exact hd
      · exact ih h
    · simp [hd] at h

theorem getLast?_append_cons (l : List Char) (y : Char) (ys : List Char) :
    (l ++ y :: ys).getLast? = (y :: ys).getLast? := by
  induction l with
  | nil => rfl
  | cons d r ih =>
    cases r with
    | nil => simp [List.getLast?_cons_cons]
    | cons e r' => rw [List.cons_append, List.cons_append, List.getLast?_cons_cons, ← List.cons_append]; exact ih

/-- at a line end (`\n` or `\r\n`) or at the end of the text -/
def EolOrEnd (s : List Char) : Prop := s = [] ∨ ∃ r, s = '\n' :: r ∨ s = '\r' :: '\n' :: r

/-- the text starts with a line that holds nothing but blanks and tabs (at least one) -/
def BlankStart (t : List Char) : Prop :=
  ∃ ws s, t = ws ++ s ∧ ws ≠ [] ∧ (∀ c ∈ ws, isSpace c = true) ∧ EolOrEnd s

/-- if the text starts with a blank or a tab then its first line is blank (true of every ledger: `follows_of_ledger`) -/
def Follows (t : List Char) : Prop := ∀ c r, t = c :: r → isSpace c = true → BlankStart t

theorem follows_nil : Follows [] := by intro c r h; cases h

theorem Cont.follows {t : List Char} (h : Cont t) : Follows t := by
  intro c r ht hc
  rw [(h c r ht).1] at hc; cases hc

/-- blank lines: only line feeds, blanks and tabs, and the last character (if any) is a line feed -/
def BlankTail (z : List Char) : Prop :=
  (∀ c ∈ z, c = '\n' ∨ isSpace c = true) ∧ ∀ c, z.getLast? = some c → c = '\n'

theorem blankTail_nil : BlankTail [] := ⟨by simp, by simp⟩

/-- a non-empty run of blank lines starts with a blank line -/
theorem BlankTail.split {z : List Char} (h : BlankTail z) (hne : z ≠ []) :
    ∃ ws x, z = ws ++ '\n' :: x ∧ (∀ c ∈ ws, isSpace c = true) ∧ BlankTail x := by
  have h1 := List.takeWhile_append_dropWhile (p := isSpace) (l := z)
  cases hd : z.dropWhile isSpace with
  | nil =>
    -- all blanks: the last character is a blank, not a line feed
    rw [hd, List.append_nil] at h1
    obtain ⟨c, hc⟩ : ∃ c, z.getLast? = some c := by
      cases hl : z.getLast? with
      | none => exact absurd (List.getLast?_eq_none_iff.1 hl) hne
      | some c => exact ⟨c, rfl⟩
    have hcz : c ∈ z := List.mem_of_getLast? hc
    have := h.2 c hc
    subst this
    rw [← h1] at hcz
    have := mem_takeWhile_true hcz
    exact absurd this (by decide)
  | cons d x =>
    rw [hd] at h1
    have hdz : d ∈ z := by rw [← h1]; simp
    have hdn : isSpace d = false := by
      have := List.head_dropWhile_not isSpace (l := z) (by rw [hd]; simp)
      simpa [hd] using this
    have hd' : d = '\n' := by
      rcases h.1 d hdz with h' | h'
      · exact h'
      · rw [hdn] at h'; cases h'
    subst hd'
    refine ⟨z.takeWhile isSpace, x, h1.symm, fun c hc => mem_takeWhile_true hc, ?_, ?_⟩
    · intro c hc; exact h.1 c (by rw [← h1]; simp [hc])
    · intro c hc
      apply h.2 c
      rw [← h1]
      cases x with
      | nil => simp at hc
      | cons y ys =>
        rw [getLast?_append_cons, List.getLast?_cons_cons]
        exact hc

theorem BlankTail.cons_line {ws x : List Char} (hws : ∀ c ∈ ws, isSpace c = true) (hx : BlankTail x) :
    BlankTail (ws ++ '\n' :: x) := by
  constructor
  · intro c hc
    rcases List.mem_append.1 hc with h | h
    · exact Or.inr (hws c h)
    · rcases List.mem_cons.1 h with h | h
      · exact Or.inl h
      · exact hx.1 c h
  · intro c hc
    cases x with
    | nil => simpa using hc.symm
    | cons y ys =>
      rw [getLast?_append_cons, List.getLast?_cons_cons] at hc
      exact hx.2 c hc

/-- a run of blank lines, followed by anything, starts with a blank line or a line feed: `Follows` -/
theorem BlankTail.follows {z : List Char} (h : BlankTail z) (hne : z ≠ []) (t : List Char) : Follows (z ++ t) := by
  obtain ⟨ws, x, rfl, hws, _⟩ := h.split hne
  intro c r hcr hc
  cases ws with
  | nil =>
    simp only [List.nil_append, List.cons_append, List.cons.injEq] at hcr
    rw [← hcr.1] at hc; cases hc
  | cons w ws' =>
    exact ⟨w :: ws', '\n' :: x ++ t, by simp, by simp, hws, Or.inr ⟨x ++ t, Or.inl rfl⟩⟩

/-- where the text is cut: `z` = the blank lines at the end of the first part, `t` = the text that follows; when there is no
blank line, `t` must not start with an indented line that holds more than blanks -/
structure Ctx where
  z : List Char
  t : List Char
  hz : BlankTail z
  ht : z ≠ [] ∨ Follows t

theorem Ctx.follows_zt (C : Ctx) : Follows (C.z ++ C.t) := by
  rcases C.ht with h | h
  · exact C.hz.follows h C.t
  · by_cases hz : C.z = []
    · rw [hz]; exact h
    · exact C.hz.follows hz C.t

theorem Ctx.follows_z (C : Ctx) : Follows C.z := by
  by_cases hz : C.z = []
  · rw [hz]; exact follows_nil
  · have := C.hz.follows hz []
    simpa using this

/-- the text after the cut does not start with a comment prefix, or blank lines precede it: needed for top-level comments only -/
def Ctx.NoCm (C : Ctx) : Prop := C.z ≠ [] ∨ ∀ c r, C.t = c :: r → isCommentPrefix c = false

/-- kinds of positions inside the first part -/
inductive Pos where
  | mid
  | bol
  deriving DecidableEq

/-- a line end of the first part is still ahead -/
def Ctx.Mid (C : Ctx) (u : List Char) : Prop := ∃ w, u = w ++ '\n' :: C.z

def Ctx.At (C : Ctx) : Pos → List Char → Prop
  | .mid, u => C.Mid u
  | .bol, u => u = C.z ∨ C.Mid u

theorem Ctx.at_bol_of_mid {C : Ctx} {u : List Char} (h : C.Mid u) : C.At .bol u := Or.inr h
theorem Ctx.at_bol {C : Ctx} {a : Pos} {u : List Char} (h : C.At a u) : C.At .bol u := by
  cases a with
  | mid => exact Or.inr h
  | bol => exact h

theorem Ctx.Mid.ne_nil {C : Ctx} {u : List Char} (h : C.Mid u) : u ≠ [] := by
  obtain ⟨w, rfl⟩ := h; simp

theorem Ctx.Mid.mem_nl {C : Ctx} {u : List Char} (h : C.Mid u) : '\n' ∈ u := by
  obtain ⟨w, rfl⟩ := h; simp

/-- what is left after a prefix without `\n` has been consumed is still `mid` -/
theorem Ctx.Mid.drop {C : Ctx} {u c r : List Char} (h : C.Mid u) (hu : u = c ++ r) (hc : '\n' ∉ c) : C.Mid r := by
  obtain ⟨w, hw⟩ := h
  rw [hw] at hu
  rcases List.append_eq_append_iff.1 hu with ⟨x, h1, h2⟩ | ⟨x, h1, h2⟩
  · -- c = w ++ x, '\n' :: z = x ++ r
    cases x with
    | nil => exact ⟨[], by simpa using h2.symm⟩
    | cons y ys =>
      simp only [List.cons_append, List.cons.injEq] at h2
      exfalso; apply hc; rw [h1, ← h2.1]; simp
  · exact ⟨x, h2⟩

/-- the first part of a `mid` position up to and including its first `\n`: what follows is a `bol` position -/
theorem Ctx.Mid.after_nl {C : Ctx} {u c r : List Char} (h : C.Mid u) (hu : u = c ++ '\n' :: r) (hc : '\n' ∉ c) :
    C.At .bol r := by
  obtain ⟨w, hw⟩ := h
  rw [hw] at hu
  rcases List.append_eq_append_iff.1 hu with ⟨x, h1, h2⟩ | ⟨x, h1, h2⟩
  · cases x with
    | nil => simp only [List.nil_append, List.cons.injEq, true_and] at h2; exact Or.inl h2.symm
    | cons y ys =>
      simp only [List.cons_append, List.cons.injEq] at h2
      exfalso; apply hc; rw [h1, ← h2.1]; simp
  · cases x with
    | nil => simp only [List.nil_append, List.cons.injEq, true_and] at h2; exact Or.inl h2
    | cons y ys =>
      simp only [List.cons_append, List.cons.injEq] at h2
      exact Or.inr ⟨ys, h2.2⟩

/-- a non-empty suffix of a run of blank lines starts with a blank line -/
theorem BlankTail.suffix {z r : List Char} (h : BlankTail z) (hs : r <:+ z) : BlankTail r := by
  constructor
  · intro c hc; exact h.1 c (hs.subset hc)
  · intro c hc
    apply h.2 c
    obtain ⟨pre, rfl⟩ := hs
    cases r with
    | nil => simp at hc
    | cons y ys => rw [getLast?_append_cons]; exact hc

/-- a non-empty suffix of a `bol` position that does not start with a blank line is a `mid` position -/
theorem Ctx.mid_of_suffix {C : Ctx} {u r : List Char} (h : C.At .bol u) (hs : r <:+ u) (hne : r ≠ [])
    (hh : ∀ ws x, (∀ c ∈ ws, isSpace c = true) → r ≠ ws ++ '\n' :: x) : C.Mid r := by
  have hz : r <:+ C.z → False := by
    intro hr
    obtain ⟨ws, x, hx, hws, _⟩ := (C.hz.suffix hr).split hne
    exact hh ws x hws hx
  rcases h with rfl | ⟨w, rfl⟩
  · exact (hz hs).elim
  · obtain ⟨pre, hpre⟩ := hs
    rcases List.append_eq_append_iff.1 hpre with ⟨x, h1, h2⟩ | ⟨x, h1, h2⟩
    · -- w = pre ++ x, r = x ++ '\n' :: z
      exact ⟨x, h2⟩
    · -- pre = w ++ x, '\n' :: z = x ++ r
      cases x with
      | nil => exact ⟨[], by simpa using h2.symm⟩
      | cons y ys =>
        simp only [List.cons_append, List.cons.injEq] at h2
        have : r <:+ C.z := ⟨ys, h2.2.symm⟩
        exact (hz this).elim

/-! ## comparing the two runs -/

/-- result on `u` versus result on `u ++ t` -/
def Res.Ext (t : List Char) : Res α → Res α → Prop
  | .ok a r, y => y = .ok a (r ++ t)
  | .bt _, y => ∃ q, y = .bt q
  | _, _ => True

/-- the same for successes only -/
def Res.ExtOk (t : List Char) : Res α → Res α → Prop
  | .ok a r, y => y = .ok a (r ++ t)
  | _, _ => True

@[simp] theorem Res.ext_ok {t : List Char} {a : α} {r : List Char} {y : Res α} :
    Res.Ext t (.ok a r) y ↔ y = .ok a (r ++ t) := Iff.rfl
@[simp] theorem Res.ext_bt {t : List Char} {p : List Char} {y : Res α} :
    Res.Ext t (.bt p : Res α) y ↔ ∃ q, y = .bt q := Iff.rfl
@[simp] theorem Res.ext_cut {t : List Char} {p : List Char} {y : Res α} : Res.Ext t (.cut p : Res α) y ↔ True := Iff.rfl
@[simp] theorem Res.ext_panic {t : List Char} {s : String} {y : Res α} : Res.Ext t (.panic s : Res α) y ↔ True := Iff.rfl
@[simp] theorem Res.ext_fuel {t : List Char} {y : Res α} : Res.Ext t (.fuel : Res α) y ↔ True := Iff.rfl
@[simp] theorem Res.extOk_ok {t : List Char} {a : α} {r : List Char} {y : Res α} :
    Res.ExtOk t (.ok a r) y ↔ y = .ok a (r ++ t) := Iff.rfl
@[simp] theorem Res.extOk_bt {t : List Char} {p : List Char} {y : Res α} : Res.ExtOk t (.bt p : Res α) y ↔ True := Iff.rfl
@[simp] theorem Res.extOk_cut {t : List Char} {p : List Char} {y : Res α} : Res.ExtOk t (.cut p : Res α) y ↔ True := Iff.rfl
@[simp] theorem Res.extOk_panic {t : List Char} {s : String} {y : Res α} : Res.ExtOk t (.panic s : Res α) y ↔ True := Iff.rfl
@[simp] theorem Res.extOk_fuel {t : List Char} {y : Res α} : Res.ExtOk t (.fuel : Res α) y ↔ True := Iff.rfl

theorem Res.Ext.toOk {t : List Char} {x y : Res α} (h : Res.Ext t x y) : Res.ExtOk t x y := by
  cases x <;> simp_all

/-- `p` behaves on `u ++ t` as on `u`, from positions of kind `a`, and leaves positions of kind `b` -/
structure Loc (C : Ctx) (a b : Pos) (p : Parser α) : Prop where
  ext : ∀ u, C.At a u → Res.Ext C.t (p u) (p (u ++ C.t))
  post : ∀ u x r, C.At a u → p u = .ok x r → C.At b r

/-- the same for successes only (what is needed under `cut_err`) -/
structure LocOk (C : Ctx) (a b : Pos) (p : Parser α) : Prop where
  ext : ∀ u, C.At a u → Res.ExtOk C.t (p u) (p (u ++ C.t))
  post : ∀ u x r, C.At a u → p u = .ok x r → C.At b r

variable {C : Ctx} {a b c : Pos}

theorem Loc.ok {p : Parser α} (h : Loc C a b p) : LocOk C a b p := ⟨fun u hu => (h.ext u hu).toOk, h.post⟩

/-- a parser that works from the beginning of a line works inside a line -/
theorem Loc.of_bol {p : Parser α} (h : Loc C .bol b p) : Loc C a b p :=
  ⟨fun u hu => h.ext u (Ctx.at_bol hu), fun u x r hu => h.post u x r (Ctx.at_bol hu)⟩
theorem Loc.to_bol {p : Parser α} (h : Loc C a b p) : Loc C a .bol p :=
  ⟨h.ext, fun u x r hu he => Ctx.at_bol (h.post u x r hu he)⟩
theorem LocOk.of_bol {p : Parser α} (h : LocOk C .bol b p) : LocOk C a b p :=
  ⟨fun u hu => h.ext u (Ctx.at_bol hu), fun u x r hu => h.post u x r (Ctx.at_bol hu)⟩
theorem LocOk.to_bol {p : Parser α} (h : LocOk C a b p) : LocOk C a .bol p :=
  ⟨h.ext, fun u x r hu he => Ctx.at_bol (h.post u x r hu he)⟩

/-- a parser that works inside a line and backtracks on every text that starts with a blank line or without indentation
works from the beginning of a line -/
theorem Loc.bol_start {p : Parser α} (h : Loc C .mid b p) (hbt : ∀ s, Follows s → ∃ q, p s = .bt q) : Loc C .bol b p := by
  constructor
  · intro u hu
    rcases hu with rfl | hu
    · obtain ⟨q, hq⟩ := hbt C.z C.follows_z
      obtain ⟨q', hq'⟩ := hbt (C.z ++ C.t) C.follows_zt
      rw [hq, hq']; exact ⟨q', rfl⟩
    · exact h.ext u hu
  · intro u x r hu he
    rcases hu with rfl | hu
    · obtain ⟨q, hq⟩ := hbt C.z C.follows_z
      rw [hq] at he; cases he
    · exact h.post u x r hu he

/-! ## sequencing -/

theorem loc_pure (x : α) : Loc C a a (pure x) :=
  ⟨fun u _ => by simp [Comb.pure], fun u y r hu he => by simp only [Comb.pure, Res.ok.injEq] at he; rw [← he.2]; exact hu⟩

theorem loc_fail : Loc C a b (fail : Parser α) :=
  ⟨fun u _ => by simp [Comb.fail], fun u y r _ he => by simp [Comb.fail] at he⟩

theorem loc_bind {p : Parser α} {f : α → Parser β} (hp : Loc C a b p) (hf : ∀ x, Loc C b c (f x)) :
    Loc C a c (p >>- f) := by
  constructor
  · intro u hu
    have h1 := hp.ext u hu
    simp only [Comb.bind]
    cases he : p u with
    | ok x r =>
      rw [he] at h1
      simp only [Res.ext_ok] at h1
      rw [h1]
      exact (hf x).ext r (hp.post u x r hu he)
    | bt q =>
      rw [he] at h1
      obtain ⟨q', hq'⟩ := h1
      rw [hq']; exact ⟨q', rfl⟩
    | cut q => simp
    | panic s => simp
    | fuel => simp
  · intro u y r hu he
    simp only [Comb.bind] at he
    cases h1 : p u with
    | ok x r' =>
      rw [h1] at he
      exact (hf x).post r' y r (hp.post u x r' hu h1) he
    | bt q => rw [h1] at he; cases he
    | cut q => rw [h1] at he; cases he
    | panic s => rw [h1] at he; cases he
    | fuel => rw [h1] at he; cases he

theorem locOk_bind {p : Parser α} {f : α → Parser β} (hp : LocOk C a b p) (hf : ∀ x, LocOk C b c (f x)) :
    LocOk C a c (p >>- f) := by
  constructor
  · intro u hu
    have h1 := hp.ext u hu
    simp only [Comb.bind]
    cases he : p u with
    | ok x r =>
      rw [he] at h1
      simp only [Res.extOk_ok] at h1
      rw [h1]
      exact (hf x).ext r (hp.post u x r hu he)
    | bt q => simp
    | cut q => simp
    | panic s => simp
    | fuel => simp
  · intro u y r hu he
    simp only [Comb.bind] at he
    cases h1 : p u with
    | ok x r' =>
      rw [h1] at he
      exact (hf x).post r' y r (hp.post u x r' hu h1) he
    | bt q => rw [h1] at he; cases he
    | cut q => rw [h1] at he; cases he
    | panic s => rw [h1] at he; cases he
    | fuel => rw [h1] at he; cases he

theorem loc_map {p : Parser α} (f : α → β) (hp : Loc C a b p) : Loc C a b (map f p) := by
  constructor
  · intro u hu
    have h1 := hp.ext u hu
    simp only [Comb.map]
    cases he : p u with
    | ok x r => rw [he] at h1; simp only [Res.ext_ok] at h1; rw [h1]; simp
    | bt q => rw [he] at h1; obtain ⟨q', hq'⟩ := h1; rw [hq']; exact ⟨q', rfl⟩
    | cut q => simp [Res.map]
    | panic s => simp [Res.map]
    | fuel => simp [Res.map]
  · intro u y r hu he
    simp only [Comb.map] at he
    cases h1 : p u with
    | ok x r' => rw [h1] at he; simp only [Res.map_ok, Res.ok.injEq] at he; rw [← he.2]; exact hp.post u x r' hu h1
    | bt q => rw [h1] at he; cases he
    | cut q => rw [h1] at he; cases he
    | panic s => rw [h1] at he; cases he
    | fuel => rw [h1] at he; cases he

theorem locOk_map {p : Parser α} (f : α → β) (hp : LocOk C a b p) : LocOk C a b (map f p) := by
  constructor
  · intro u hu
    have h1 := hp.ext u hu
    simp only [Comb.map]
    cases he : p u with
    | ok x r => rw [he] at h1; simp only [Res.extOk_ok] at h1; rw [h1]; simp
    | bt q => simp
    | cut q => simp [Res.map]
    | panic s => simp [Res.map]
    | fuel => simp [Res.map]
  · intro u y r hu he
    simp only [Comb.map] at he
    cases h1 : p u with
    | ok x r' => rw [h1] at he; simp only [Res.map_ok, Res.ok.injEq] at he; rw [← he.2]; exact hp.post u x r' hu h1
    | bt q => rw [h1] at he; cases he
    | cut q => rw [h1] at he; cases he
    | panic s => rw [h1] at he; cases he
    | fuel => rw [h1] at he; cases he

theorem loc_value {p : Parser α} (x : β) (hp : Loc C a b p) : Loc C a b (value x p) := loc_map _ hp
theorem loc_void {p : Parser α} (hp : Loc C a b p) : Loc C a b (void p) := loc_map _ hp
theorem loc_pair {p : Parser α} {q : Parser β} (hp : Loc C a b p) (hq : Loc C b c q) : Loc C a c (pair p q) :=
  loc_bind hp fun _ => loc_map _ hq
theorem loc_preceded {p : Parser α} {q : Parser β} (hp : Loc C a b p) (hq : Loc C b c q) : Loc C a c (preceded p q) :=
  loc_bind hp fun _ => hq
theorem loc_terminated {p : Parser α} {q : Parser β} (hp : Loc C a b p) (hq : Loc C b c q) :
    Loc C a c (terminated p q) := loc_bind hp fun _ => loc_map _ hq
theorem loc_delimited {d : Pos} {l : Parser α} {p : Parser β} {r : Parser γ} (hl : Loc C a b l) (hp : Loc C b c p)
    (hr : Loc C c d r) : Loc C a d (delimited l p r) := loc_preceded hl (loc_terminated hp hr)

/-! ## control -/

theorem loc_opt {p : Parser α} (hp : Loc C a a p) : Loc C a a (opt p) := by
  constructor
  · intro u hu
    have h1 := hp.ext u hu
    simp only [opt]
    cases he : p u with
    | ok x r => rw [he] at h1; simp only [Res.ext_ok] at h1; rw [h1]; simp
    | bt q => rw [he] at h1; obtain ⟨q', hq'⟩ := h1; rw [hq']; simp
    | cut q => simp
    | panic s => simp
    | fuel => simp
  · intro u y r hu he
    simp only [opt] at he
    cases h1 : p u with
    | ok x r' => rw [h1] at he; simp only [Res.ok.injEq] at he; rw [← he.2]; exact hp.post u x r' hu h1
    | bt q => rw [h1] at he; simp only [Res.ok.injEq] at he; rw [← he.2]; exact hu
    | cut q => rw [h1] at he; cases he
    | panic s => rw [h1] at he; cases he
    | fuel => rw [h1] at he; cases he

theorem loc_peek {p : Parser α} (hp : Loc C a b p) : Loc C a a (peek p) := by
  constructor
  · intro u hu
    have h1 := hp.ext u hu
    simp only [peek]
    cases he : p u with
    | ok x r => rw [he] at h1; simp only [Res.ext_ok] at h1; rw [h1]; simp
    | bt q => rw [he] at h1; obtain ⟨q', hq'⟩ := h1; rw [hq']; simp
    | cut q => simp
    | panic s => simp
    | fuel => simp
  · intro u y r hu he
    simp only [peek] at he
    cases h1 : p u with
    | ok x r' => rw [h1] at he; simp only [Res.ok.injEq] at he; rw [← he.2]; exact hu
    | bt q => rw [h1] at he; cases he
    | cut q => rw [h1] at he; cases he
    | panic s => rw [h1] at he; cases he
    | fuel => rw [h1] at he; cases he

theorem loc_not {p : Parser α} (hp : Loc C a b p) : Loc C a a (Comb.not p) := by
  constructor
  · intro u hu
    have h1 := hp.ext u hu
    simp only [Comb.not]
    cases he : p u with
    | ok x r => rw [he] at h1; simp only [Res.ext_ok] at h1; rw [h1]; simp
    | bt q => rw [he] at h1; obtain ⟨q', hq'⟩ := h1; rw [hq']; simp
    | cut q => simp
    | panic s => simp
    | fuel => simp
  · intro u y r hu he
    simp only [Comb.not] at he
    cases h1 : p u with
    | ok x r' => rw [h1] at he; cases he
    | bt q => rw [h1] at he; simp only [Res.ok.injEq] at he; rw [← he.2]; exact hu
    | cut q => rw [h1] at he; cases he
    | panic s => rw [h1] at he; cases he
    | fuel => rw [h1] at he; cases he

theorem loc_hasPeek {p : Parser α} (hp : Loc C a b p) : Loc C a a (hasPeek p) := by
  constructor
  · intro u hu
    have h1 := hp.ext u hu
    simp only [hasPeek]
    cases he : p u with
    | ok x r => rw [he] at h1; simp only [Res.ext_ok] at h1; rw [h1]; simp
    | bt q => rw [he] at h1; obtain ⟨q', hq'⟩ := h1; rw [hq']; simp
    | cut q => simp
    | panic s => simp
    | fuel => simp
  · intro u y r hu he
    simp only [hasPeek] at he
    cases h1 : p u with
    | ok x r' => rw [h1] at he; simp only [Res.ok.injEq] at he; rw [← he.2]; exact hu
    | bt q => rw [h1] at he; simp only [Res.ok.injEq] at he; rw [← he.2]; exact hu
    | cut q => rw [h1] at he; cases he
    | panic s => rw [h1] at he; cases he
    | fuel => rw [h1] at he; cases he

/-- under `cut_err` only the successes of `p` matter: its backtracks become `Cut` -/
theorem loc_cutErr {p : Parser α} (hp : LocOk C a b p) : Loc C a b (cutErr p) := by
  constructor
  · intro u hu
    have h1 := hp.ext u hu
    simp only [cutErr]
    cases he : p u with
    | ok x r => rw [he] at h1; simp only [Res.extOk_ok] at h1; rw [h1]; simp
    | bt q => simp
    | cut q => simp
    | panic s => simp
    | fuel => simp
  · intro u y r hu he
    simp only [cutErr] at he
    cases h1 : p u with
    | ok x r' => rw [h1] at he; simp only [Res.ok.injEq] at he; rw [← he.2, ← he.1] at *; exact hp.post u x r' hu h1
    | bt q => rw [h1] at he; cases he
    | cut q => rw [h1] at he; cases he
    | panic s => rw [h1] at he; cases he
    | fuel => rw [h1] at he; cases he

theorem loc_alt2 {p q : Parser α} (hp : Loc C a b p) (hq : Loc C a b q) : Loc C a b (p <|| q) := by
  constructor
  · intro u hu
    have h1 := hp.ext u hu
    have h2 := hq.ext u hu
    simp only [alt2]
    cases he : p u with
    | ok x r => rw [he] at h1; simp only [Res.ext_ok] at h1; rw [h1]; simp
    | bt q' => rw [he] at h1; obtain ⟨q'', hq''⟩ := h1; rw [hq'']; exact h2
    | cut q' => simp
    | panic s => simp
    | fuel => simp
  · intro u y r hu he
    simp only [alt2] at he
    cases h1 : p u with
    | ok x r' => rw [h1] at he; simp only [Res.ok.injEq] at he; rw [← he.2, ← he.1] at *; exact hp.post u x r' hu h1
    | bt q' => rw [h1] at he; exact hq.post u y r hu he
    | cut q' => rw [h1] at he; cases he
    | panic s => rw [h1] at he; cases he
    | fuel => rw [h1] at he; cases he

theorem loc_cond {p : Parser α} (x : Bool) (hp : Loc C a a p) : Loc C a a (cond x p) := by
  unfold Comb.cond
  split
  · exact loc_map _ hp
  · exact loc_pure _

theorem loc_condElse {p q : Parser α} (x : Bool) (hp : Loc C a b p) (hq : Loc C a b q) : Loc C a b (condElse x p q) := by
  unfold condElse
  split
  · exact hp
  · exact hq

theorem loc_ite {p q : Parser α} (x : Prop) [Decidable x] (hp : Loc C a b p) (hq : Loc C a b q) :
    Loc C a b (if x then p else q) := by
  split
  · exact hp
  · exact hq

theorem loc_tryMap {p : Parser α} (f : α → Option β) (hp : Loc C a b p) : Loc C a b (tryMap p f) := by
  constructor
  · intro u hu
    have h1 := hp.ext u hu
    simp only [tryMap]
    cases he : p u with
    | ok x r =>
      rw [he] at h1; simp only [Res.ext_ok] at h1; rw [h1]
      simp only
      cases hf : f x <;> simp
    | bt q => rw [he] at h1; obtain ⟨q', hq'⟩ := h1; rw [hq']; simp
    | cut q => simp
    | panic s => simp
    | fuel => simp
  · intro u y r hu he
    simp only [tryMap] at he
    cases h1 : p u with
    | ok x r' =>
      rw [h1] at he
      simp only at he
      cases hf : f x with
      | none => rw [hf] at he; cases he
      | some v => rw [hf] at he; simp only [Res.ok.injEq] at he; rw [← he.2]; exact hp.post u x r' hu h1
    | bt q => rw [h1] at he; cases he
    | cut q => rw [h1] at he; cases he
    | panic s => rw [h1] at he; cases he
    | fuel => rw [h1] at he; cases he

theorem consumed_append_right (u r t : List Char) : consumed (u ++ t) (r ++ t) = consumed u r := by
  simp only [consumed, List.length_append]
  have : u.length + t.length - (r.length + t.length) = u.length - r.length := by omega
  rw [this, List.take_append_of_le_length (by omega)]

theorem loc_withTaken {p : Parser α} (hp : Loc C a b p) : Loc C a b (withTaken p) := by
  constructor
  · intro u hu
    have h1 := hp.ext u hu
    simp only [withTaken]
    cases he : p u with
    | ok x r => rw [he] at h1; simp only [Res.ext_ok] at h1; rw [h1]; simp [consumed_append_right]
    | bt q => rw [he] at h1; obtain ⟨q', hq'⟩ := h1; rw [hq']; simp
    | cut q => simp
    | panic s => simp
    | fuel => simp
  · intro u y r hu he
    simp only [withTaken] at he
    cases h1 : p u with
    | ok x r' => rw [h1] at he; simp only [Res.ok.injEq] at he; rw [← he.2]; exact hp.post u x r' hu h1
    | bt q => rw [h1] at he; cases he
    | cut q => rw [h1] at he; cases he
    | panic s => rw [h1] at he; cases he
    | fuel => rw [h1] at he; cases he

theorem loc_take {p : Parser α} (hp : Loc C a b p) : Loc C a b (take p) := loc_map _ (loc_withTaken hp)

theorem loc_dispatch {arms : Char → Parser α} (h : ∀ c, Loc C .mid b (arms c)) : Loc C .mid b (dispatch arms) := by
  constructor
  · intro u hu
    cases u with
    | nil => exact absurd rfl (Ctx.Mid.ne_nil hu)
    | cons c r => exact (h c).ext (c :: r) hu
  · intro u y r hu he
    cases u with
    | nil => exact absurd rfl (Ctx.Mid.ne_nil hu)
    | cons c r' => exact (h c).post (c :: r') y r hu he

theorem loc_dispatchOpt {arms : Option Char → Parser α} (h : ∀ c, Loc C .mid b (arms (some c))) :
    Loc C .mid b (dispatchOpt arms) := by
  constructor
  · intro u hu
    cases u with
    | nil => exact absurd rfl (Ctx.Mid.ne_nil hu)
    | cons c r => exact (h c).ext (c :: r) hu
  · intro u y r hu he
    cases u with
    | nil => exact absurd rfl (Ctx.Mid.ne_nil hu)
    | cons c r' => exact (h c).post (c :: r') y r hu he

/-! ## repetition: the two runs are given different fuel -/

theorem repeat0Loop_ext {p : Parser α} (hp : Loc C a a p) (hs : Safe 1 p) :
    ∀ (n m : Nat) (u : List Char) (acc : List α), C.At a u → u.length < n → (u ++ C.t).length < m →
      Res.Ext C.t (repeat0Loop p n u acc) (repeat0Loop p m (u ++ C.t) acc) := by
  intro n
  induction n with
  | zero => intro m u acc _ h; omega
  | succ n ih =>
    intro m u acc hu hn hm
    obtain ⟨m, rfl⟩ : ∃ m', m = m' + 1 := ⟨m - 1, by omega⟩
    have h1 := hp.ext u hu
    have h2 := hs.good u
    simp only [repeat0Loop]
    cases he : p u with
    | ok x r =>
      rw [he] at h1 h2
      simp only [Res.ext_ok] at h1
      obtain ⟨h3, h4⟩ := h2
      rw [h1]
      simp only [List.length_append] at hm ⊢
      rw [if_neg (by omega), if_neg (by omega)]
      exact ih m r _ (hp.post u x r hu he) (by omega) (by simp only [List.length_append]; omega)
    | bt q => rw [he] at h1; obtain ⟨q', hq'⟩ := h1; rw [hq']; simp
    | cut q => simp
    | panic s => simp
    | fuel => simp

theorem repeat0Loop_post {p : Parser α} (hp : Loc C a a p) :
    ∀ (n : Nat) (u : List Char) (acc l : List α) (r : List Char), C.At a u → repeat0Loop p n u acc = .ok l r → C.At a r := by
  intro n
  induction n with
  | zero => intro u acc l r _ h; simp [repeat0Loop] at h
  | succ n ih =>
    intro u acc l r hu h
    simp only [repeat0Loop] at h
    cases he : p u with
    | ok x r' =>
      rw [he] at h
      simp only at h
      split at h
      · cases h
      · exact ih r' _ l r (hp.post u x r' hu he) h
    | bt q => rw [he] at h; simp only [Res.ok.injEq] at h; rw [← h.2]; exact hu
    | cut q => rw [he] at h; cases h
    | panic s => rw [he] at h; cases h
    | fuel => rw [he] at h; cases h

theorem loc_repeat0 {p : Parser α} (hp : Loc C a a p) (hs : Safe 1 p) : Loc C a a (repeat0 p) :=
  ⟨fun u hu => repeat0Loop_ext hp hs _ _ u [] hu (Nat.lt_succ_self _) (Nat.lt_succ_self _),
   fun u l r hu he => repeat0Loop_post hp _ u [] l r hu he⟩

theorem loc_repeat1 {p : Parser α} (hp : Loc C a a p) (hs : Safe 1 p) : Loc C a a (repeat1 p) := by
  constructor
  · intro u hu
    have h1 := hp.ext u hu
    simp only [repeat1]
    cases he : p u with
    | ok x r =>
      rw [he] at h1; simp only [Res.ext_ok] at h1; rw [h1]
      exact repeat0Loop_ext hp hs _ _ r [x] (hp.post u x r hu he) (Nat.lt_succ_self _) (Nat.lt_succ_self _)
    | bt q => rw [he] at h1; obtain ⟨q', hq'⟩ := h1; rw [hq']; simp
    | cut q => simp
    | panic s => simp
    | fuel => simp
  · intro u l r hu h
    simp only [repeat1] at h
    cases he : p u with
    | ok x r' => rw [he] at h; exact repeat0Loop_post hp _ r' [x] l r (hp.post u x r' hu he) h
    | bt q => rw [he] at h; cases h
    | cut q => rw [he] at h; cases h
    | panic s => rw [he] at h; cases h
    | fuel => rw [he] at h; cases h

theorem repeatTillLoop_ext {f : Parser α} {g : Parser β} (hf : Loc C a a f) (hg : Loc C a b g) (hs : Safe 1 f) :
    ∀ (n m : Nat) (u : List Char) (acc : List α), C.At a u → u.length < n → (u ++ C.t).length < m →
      Res.Ext C.t (repeatTillLoop f g n u acc) (repeatTillLoop f g m (u ++ C.t) acc) := by
  intro n
  induction n with
  | zero => intro m u acc _ h; omega
  | succ n ih =>
    intro m u acc hu hn hm
    obtain ⟨m, rfl⟩ : ∃ m', m = m' + 1 := ⟨m - 1, by omega⟩
    have h0 := hg.ext u hu
    have h1 := hf.ext u hu
    have h2 := hs.good u
    simp only [repeatTillLoop]
    cases hge : g u with
    | ok y r => rw [hge] at h0; simp only [Res.ext_ok] at h0; rw [h0]; simp
    | bt q0 =>
      rw [hge] at h0; obtain ⟨q0', hq0'⟩ := h0; rw [hq0']
      simp only
      cases he : f u with
      | ok x r =>
        rw [he] at h1 h2
        simp only [Res.ext_ok] at h1
        obtain ⟨h3, h4⟩ := h2
        rw [h1]
        simp only [List.length_append] at hm ⊢
        rw [if_neg (by omega), if_neg (by omega)]
        exact ih m r _ (hf.post u x r hu he) (by omega) (by simp only [List.length_append]; omega)
      | bt q => rw [he] at h1; obtain ⟨q', hq'⟩ := h1; rw [hq']; simp
      | cut q => simp
      | panic s => simp
      | fuel => simp
    | cut q => simp
    | panic s => simp
    | fuel => simp

theorem repeatTillLoop_post {f : Parser α} {g : Parser β} (hf : Loc C a a f) (hg : Loc C a b g) :
    ∀ (n : Nat) (u : List Char) (acc : List α) (l : List α × β) (r : List Char), C.At a u →
      repeatTillLoop f g n u acc = .ok l r → C.At b r := by
  intro n
  induction n with
  | zero => intro u acc l r _ h; simp [repeatTillLoop] at h
  | succ n ih =>
    intro u acc l r hu h
    simp only [repeatTillLoop] at h
    cases hge : g u with
    | ok y r' => rw [hge] at h; simp only [Res.ok.injEq] at h; rw [← h.2]; exact hg.post u y r' hu hge
    | bt q0 =>
      rw [hge] at h
      simp only at h
      cases he : f u with
      | ok x r' =>
        rw [he] at h
        simp only at h
        split at h
        · cases h
        · exact ih r' _ l r (hf.post u x r' hu he) h
      | bt q => rw [he] at h; cases h
      | cut q => rw [he] at h; cases h
      | panic s => rw [he] at h; cases h
      | fuel => rw [he] at h; cases h
    | cut q => rw [hge] at h; cases h
    | panic s => rw [hge] at h; cases h
    | fuel => rw [hge] at h; cases h

theorem loc_repeatTill1 {f : Parser α} {g : Parser β} (hf : Loc C a a f) (hg : Loc C a b g) (hs : Safe 1 f) :
    Loc C a b (repeatTill1 f g) := by
  constructor
  · intro u hu
    have h1 := hf.ext u hu
    simp only [repeatTill1]
    cases he : f u with
    | ok x r =>
      rw [he] at h1; simp only [Res.ext_ok] at h1; rw [h1]
      exact repeatTillLoop_ext hf hg hs _ _ r [x] (hf.post u x r hu he) (Nat.lt_succ_self _) (Nat.lt_succ_self _)
    | bt q => rw [he] at h1; obtain ⟨q', hq'⟩ := h1; rw [hq']; simp
    | cut q => simp
    | panic s => simp
    | fuel => simp
  · intro u l r hu h
    simp only [repeatTill1] at h
    cases he : f u with
    | ok x r' => rw [he] at h; exact repeatTillLoop_post hf hg _ r' [x] l r (hf.post u x r' hu he) h
    | bt q => rw [he] at h; cases h
    | cut q => rw [he] at h; cases h
    | panic s => rw [he] at h; cases h
    | fuel => rw [he] at h; cases h

theorem separatedLoop_ext {p : Parser α} {sep : Parser β} (hp : Loc C b a p) (hsep : Loc C a b sep) (hs : Safe 1 sep)
    (hs' : Safe 0 p) :
    ∀ (n m : Nat) (u : List Char) (acc : List α), C.At a u → u.length < n → (u ++ C.t).length < m →
      Res.Ext C.t (separatedLoop p sep n u acc) (separatedLoop p sep m (u ++ C.t) acc) := by
  intro n
  induction n with
  | zero => intro m u acc _ h; omega
  | succ n ih =>
    intro m u acc hu hn hm
    obtain ⟨m, rfl⟩ : ∃ m', m = m' + 1 := ⟨m - 1, by omega⟩
    have h0 := hsep.ext u hu
    have h2 := hs.good u
    simp only [separatedLoop]
    cases hse : sep u with
    | bt q0 => rw [hse] at h0; obtain ⟨q0', hq0'⟩ := h0; rw [hq0']; simp
    | ok y r =>
      rw [hse] at h0 h2
      simp only [Res.ext_ok] at h0
      obtain ⟨h3, h4⟩ := h2
      rw [h0]
      simp only [List.length_append] at hm ⊢
      rw [if_neg (by omega), if_neg (by omega)]
      have hr := hsep.post u y r hu hse
      have h1 := hp.ext r hr
      have h5 := hs'.good r
      cases he : p r with
      | ok x r' =>
        rw [he] at h1 h5
        simp only [Res.ext_ok] at h1
        obtain ⟨h6, h7⟩ := h5
        rw [h1]
        exact ih m r' _ (hp.post r x r' hr he) (by omega) (by simp only [List.length_append]; omega)
      | bt q => rw [he] at h1; obtain ⟨q', hq'⟩ := h1; rw [hq']; simp
      | cut q => simp
      | panic s => simp
      | fuel => simp
    | cut q => simp
    | panic s => simp
    | fuel => simp

theorem separatedLoop_post {p : Parser α} {sep : Parser β} (hp : Loc C b a p) (hsep : Loc C a b sep) :
    ∀ (n : Nat) (u : List Char) (acc l : List α) (r : List Char), C.At a u →
      separatedLoop p sep n u acc = .ok l r → C.At a r := by
  intro n
  induction n with
  | zero => intro u acc l r _ h; simp [separatedLoop] at h
  | succ n ih =>
    intro u acc l r hu h
    simp only [separatedLoop] at h
    cases hse : sep u with
    | bt q0 => rw [hse] at h; simp only [Res.ok.injEq] at h; rw [← h.2]; exact hu
    | ok y r1 =>
      rw [hse] at h
      simp only at h
      split at h
      · cases h
      · have hr := hsep.post u y r1 hu hse
        cases he : p r1 with
        | ok x r' => rw [he] at h; exact ih r' _ l r (hp.post r1 x r' hr he) h
        | bt q => rw [he] at h; simp only [Res.ok.injEq] at h; rw [← h.2]; exact hu
        | cut q => rw [he] at h; cases h
        | panic s => rw [he] at h; cases h
        | fuel => rw [he] at h; cases h
    | cut q => rw [hse] at h; cases h
    | panic s => rw [hse] at h; cases h
    | fuel => rw [hse] at h; cases h

theorem loc_separated1 {p : Parser α} {sep : Parser β} (hp : Loc C b a p) (hsep : Loc C a b sep) (hs : Safe 1 sep)
    (hs' : Safe 0 p) : Loc C b a (separated1 p sep) := by
  constructor
  · intro u hu
    have h1 := hp.ext u hu
    simp only [separated1]
    cases he : p u with
    | ok x r =>
      rw [he] at h1; simp only [Res.ext_ok] at h1; rw [h1]
      exact separatedLoop_ext hp hsep hs hs' _ _ r [x] (hp.post u x r hu he) (Nat.lt_succ_self _) (Nat.lt_succ_self _)
    | bt q => rw [he] at h1; obtain ⟨q', hq'⟩ := h1; rw [hq']; simp
    | cut q => simp
    | panic s => simp
    | fuel => simp
  · intro u l r hu h
    simp only [separated1] at h
    cases he : p u with
    | ok x r' => rw [he] at h; exact separatedLoop_post hp hsep _ r' [x] l r (hp.post u x r' hu he) h
    | bt q => rw [he] at h; cases h
    | cut q => rw [he] at h; cases h
    | panic s => rw [he] at h; cases h
    | fuel => rw [he] at h; cases h

/-! ## tokens that stay within the line -/

/-- on every text that holds a `\n` the result of `p` is decided whatever follows the text, and `p` consumes no `\n` -/
def WL (p : Parser α) : Prop :=
  ∀ u, '\n' ∈ u → (∀ t, Res.Ext t (p u) (p (u ++ t))) ∧ ∀ x r, p u = .ok x r → ∃ c, u = c ++ r ∧ '\n' ∉ c

theorem WL.loc {p : Parser α} (h : WL p) : Loc C .mid .mid p :=
  ⟨fun u hu => (h u hu.mem_nl).1 C.t, fun u x r hu he => by
    obtain ⟨c, h1, h2⟩ := (h u hu.mem_nl).2 x r he
    exact hu.drop h1 h2⟩

theorem takeWhile_append_of_mem {f : Char → Bool} {u : List Char} {c : Char} (hc : c ∈ u) (hf : f c = false)
    (t : List Char) : (u ++ t).takeWhile f = u.takeWhile f ∧ (u ++ t).dropWhile f = u.dropWhile f ++ t := by
  induction u with
  | nil => cases hc
  | cons d r ih =>
    by_cases hd : f d = true
    · have hc' : c ∈ r := by
        rcases List.mem_cons.1 hc with rfl | h
        · rw [hf] at hd; cases hd
        · exact h
      simp [hd, ih hc']
    · simp [hd]

theorem not_mem_takeWhile {f : Char → Bool} {c : Char} (hf : f c = false) (u : List Char) : c ∉ u.takeWhile f := by
  induction u with
  | nil => simp
  | cons d r ih =>
    by_cases hd : f d = true
    · simp only [List.takeWhile_cons, hd, if_true, List.mem_cons, not_or]
      exact ⟨fun h => by (rw [h, hd] at hf; cases hf), ih⟩
    · simp [hd]

theorem wl_takeWhile0 (f : Char → Bool) (hf : f '\n' = false) : WL (takeWhile0 f) := by
  intro u hu
  refine ⟨fun t => ?_, fun x r he => ?_⟩
  · obtain ⟨h1, h2⟩ := takeWhile_append_of_mem hu hf t
    simp [takeWhile0, h1, h2]
  · simp only [takeWhile0, Res.ok.injEq] at he
    exact ⟨u.takeWhile f, by rw [← he.2]; exact (List.takeWhile_append_dropWhile).symm, not_mem_takeWhile hf u⟩

theorem wl_takeWhile1 (f : Char → Bool) (hf : f '\n' = false) : WL (takeWhile1 f) := by
  intro u hu
  cases u with
  | nil => cases hu
  | cons d r =>
    refine ⟨fun t => ?_, fun x r' he => ?_⟩
    · obtain ⟨h1, h2⟩ := takeWhile_append_of_mem hu hf t
      simp only [takeWhile1, List.cons_append]
      split
      · rw [← List.cons_append, h1, h2]; simp
      · simp
    · simp only [takeWhile1] at he
      split at he
      · simp only [Res.ok.injEq] at he
        exact ⟨(d :: r).takeWhile f, by rw [← he.2]; exact (List.takeWhile_append_dropWhile).symm, not_mem_takeWhile hf _⟩
      · cases he

theorem wl_takeTill0 (f : Char → Bool) (hf : f '\n' = true) : WL (takeTill0 f) := wl_takeWhile0 _ (by simp [hf])
theorem wl_takeTill1 (f : Char → Bool) (hf : f '\n' = true) : WL (takeTill1 f) := wl_takeWhile1 _ (by simp [hf])
theorem wl_space0 : WL space0 := wl_takeWhile0 _ (by decide)
theorem wl_space1 : WL space1 := wl_takeWhile1 _ (by decide)
theorem wl_digit1 : WL digit1 := wl_takeWhile1 _ (by decide)

theorem wl_oneOf (f : Char → Bool) (hf : f '\n' = false) : WL (oneOf f) := by
  intro u hu
  cases u with
  | nil => cases hu
  | cons d r =>
    refine ⟨fun t => ?_, fun x r' he => ?_⟩
    · simp only [oneOf, List.cons_append]
      split <;> simp
    · simp only [oneOf] at he
      split at he
      · rename_i hd
        simp only [Res.ok.injEq] at he
        refine ⟨[d], by rw [← he.2]; rfl, ?_⟩
        intro hm
        simp only [List.mem_singleton] at hm
        rw [← hm, hf] at hd; cases hd
      · cases he

theorem wl_char (c : Char) (hc : c ≠ '\n') : WL (char c) :=
  wl_oneOf _ (by simp only [beq_eq_false_iff_ne, ne_eq]; exact fun h => hc h.symm)

theorem isPrefixOf_append_of_mem_nl {s u : List Char} (hs : '\n' ∉ s) (hu : '\n' ∈ u) (t : List Char) :
    s.isPrefixOf (u ++ t) = s.isPrefixOf u := by
  induction s generalizing u with
  | nil => simp
  | cons c s ih =>
    cases u with
    | nil => cases hu
    | cons d r =>
      simp only [List.cons_append, List.isPrefixOf_cons_cons]
      by_cases hcd : c = d
      · subst hcd
        have hr : '\n' ∈ r := by
          rcases List.mem_cons.1 hu with h | h
          · exfalso; apply hs; rw [h]; simp
          · exact h
        rw [ih (fun h => hs (List.mem_cons_of_mem _ h)) hr]
      · have h : (c == d) = false := beq_eq_false_iff_ne.2 hcd
        simp [h]

theorem wl_literal (s : List Char) (hs : '\n' ∉ s) : WL (literal s) := by
  intro u hu
  refine ⟨fun t => ?_, fun x r he => ?_⟩
  · simp only [literal, isPrefixOf_append_of_mem_nl hs hu t]
    split
    · rename_i h
      have hl : s.length ≤ u.length := (List.isPrefixOf_iff_prefix.1 h).length_le
      simp [List.drop_append_of_le_length hl]
    · simp
  · simp only [literal] at he
    split at he
    · rename_i h
      simp only [Res.ok.injEq] at he
      obtain ⟨v, hv⟩ := List.isPrefixOf_iff_prefix.1 h
      refine ⟨s, ?_, hs⟩
      rw [← he.2, ← hv]; simp
    · cases he

theorem wl_tillLineEnding : WL tillLineEnding := by
  intro u hu
  have hf : (fun c => !isEol c) '\n' = false := by decide
  refine ⟨fun t => ?_, fun x r he => ?_⟩
  · obtain ⟨h1, h2⟩ := takeWhile_append_of_mem (f := fun c => !isEol c) hu hf t
    simp only [tillLineEnding, h1, h2]
    have hmem : '\n' ∈ u.dropWhile (fun c => !isEol c) := by
      have := List.takeWhile_append_dropWhile (p := fun c => !isEol c) (l := u)
      rw [← this] at hu
      rcases List.mem_append.1 hu with h | h
      · exact absurd h (not_mem_takeWhile hf u)
      · exact h
    generalize u.dropWhile (fun c => !isEol c) = rest at hmem
    match rest, hmem with
    | '\r' :: '\n' :: r', _ => simp
    | ['\r'], hm => exact absurd hm (by decide)
    | '\r' :: d :: r', _ =>
      by_cases hd : d = '\n'
      · subst hd; simp
      · simp only [List.cons_append]
        split <;> simp_all
    | d :: r', hm =>
      by_cases hd : d = '\r'
      · subst hd
        cases r' with
        | nil => exact absurd hm (by decide)
        | cons e r'' =>
          by_cases he : e = '\n'
          · subst he; simp
          · simp only [List.cons_append]
            split <;> simp_all
      · simp only [List.cons_append]
        split <;> simp_all
  · simp only [tillLineEnding] at he
    have hx : r = u.dropWhile (fun c => !isEol c) := by
      split at he <;> simp_all
    exact ⟨u.takeWhile (fun c => !isEol c), by rw [hx]; exact (List.takeWhile_append_dropWhile).symm,
      not_mem_takeWhile hf u⟩

/-! ## tokens at the end of the line -/

theorem loc_lineEnding : Loc C .mid .bol lineEnding := by
  constructor
  · intro u hu
    obtain ⟨w, rfl⟩ := hu
    match w with
    | [] => simp [lineEnding]
    | '\n' :: w' => simp [lineEnding]
    | ['\r'] => simp [lineEnding]
    | '\r' :: '\n' :: w' => simp [lineEnding]
    | '\r' :: d :: w' =>
      by_cases hd : d = '\n'
      · subst hd; simp [lineEnding]
      · simp only [List.cons_append]
        unfold lineEnding
        split <;> simp_all
    | d :: w' =>
      by_cases hd : d = '\n'
      · subst hd; simp [lineEnding]
      · by_cases hd' : d = '\r'
        · subst hd'
          cases w' with
          | nil => simp [lineEnding]
          | cons e w'' =>
            by_cases he : e = '\n'
            · subst he; simp [lineEnding]
            · simp only [List.cons_append]
              unfold lineEnding
              split <;> simp_all
        · simp only [List.cons_append]
          unfold lineEnding
          split <;> simp_all
  · intro u x r hu he
    unfold lineEnding at he
    split at he
    · simp only [Res.ok.injEq] at he
      exact hu.after_nl (c := []) (by rw [← he.2]; rfl) (by simp)
    · simp only [Res.ok.injEq] at he
      exact hu.after_nl (c := ['\r']) (by rw [← he.2]; rfl) (by decide)
    · cases he

theorem loc_eof : Loc C .mid b eof := by
  constructor
  · intro u hu
    cases u with
    | nil => exact absurd rfl hu.ne_nil
    | cons d r => simp [eof]
  · intro u x r hu he
    cases u with
    | nil => exact absurd rfl hu.ne_nil
    | cons d r' => simp [eof] at he

/-- any single character, possibly the line end itself -/
theorem loc_oneOf_any (f : Char → Bool) : Loc C .mid .bol (oneOf f) := by
  constructor
  · intro u hu
    cases u with
    | nil => exact absurd rfl hu.ne_nil
    | cons d r =>
      simp only [oneOf, List.cons_append]
      split <;> simp
  · intro u x r hu he
    cases u with
    | nil => exact absurd rfl hu.ne_nil
    | cons d r' =>
      simp only [oneOf] at he
      split at he
      · simp only [Res.ok.injEq] at he
        rw [← he.2]
        by_cases hd : d = '\n'
        · subst hd; exact hu.after_nl (c := []) rfl (by simp)
        · exact Or.inr (hu.drop (c := [d]) rfl (by simpa using fun h => hd h.symm))
      · cases he

/-! ## the beginning of a line: an indented element refuses a blank line and a line without indentation -/

theorem space1_blankStart {s : List Char} (h : BlankStart s) :
    ∃ ws s', space1 s = .ok ws s' ∧ EolOrEnd s' := by
  obtain ⟨ws, s', rfl, hne, hws, he⟩ := h
  have hstop : ∀ c r, s' = c :: r → isSpace c = false := by
    intro c r hc
    rcases he with h | ⟨r', h | h⟩
    · rw [h] at hc; cases hc
    · rw [h] at hc; injection hc with h1 _; rw [← h1]; decide
    · rw [h] at hc; injection hc with h1 _; rw [← h1]; decide
  have h1 : (ws ++ s').takeWhile isSpace = ws ∧ (ws ++ s').dropWhile isSpace = s' := by
    clear hne
    induction ws with
    | nil =>
      cases s' with
      | nil => simp
      | cons c r => simp [hstop c r rfl]
    | cons w ws ih =>
      have hw := hws w (by simp)
      have := ih (fun c hc => hws c (List.mem_cons_of_mem _ hc))
      simp [hw, this]
  cases ws with
  | nil => exact absurd rfl hne
  | cons w ws' =>
    refine ⟨w :: ws', s', ?_, he⟩
    have hw := hws w (by simp)
    simp only [space1, takeWhile1, List.cons_append, hw, if_true]
    rw [← List.cons_append, h1.1, h1.2]

/-- `(space1, y)`-shaped elements: `y` must refuse a line end and the end of the text -/
theorem space1_then_bt {f : List Char → Parser β} (hy : ∀ ws s, EolOrEnd s → ∃ q, f ws s = .bt q) (s : List Char)
    (hs : Follows s) : ∃ q, (space1 >>- f) s = .bt q := by
  cases s with
  | nil => exact ⟨[], by simp [Comb.bind, space1, takeWhile1]⟩
  | cons c r =>
    by_cases hc : isSpace c = true
    · obtain ⟨ws, s', h1, h2⟩ := space1_blankStart (hs c r rfl hc)
      obtain ⟨q, hq⟩ := hy ws s' h2
      exact ⟨q, by simp [Comb.bind, h1, hq]⟩
    · exact ⟨c :: r, by simp [Comb.bind, space1, takeWhile1, hc]⟩

theorem loc_space1_mid : Loc C .mid .mid space1 := WL.loc wl_space1

/-- `preceded(space1, y)` from the beginning of a line -/
theorem loc_preceded_space1 {y : Parser β} (hy : Loc C .mid b y) (hbt : ∀ s, EolOrEnd s → ∃ q, y s = .bt q) :
    Loc C .bol b (preceded space1 y) :=
  (loc_preceded loc_space1_mid hy).bol_start (space1_then_bt (fun _ s hs => hbt s hs))

/-- `(space1, y)` from the beginning of a line -/
theorem loc_pair_space1 {y : Parser β} (hy : Loc C .mid b y) (hbt : ∀ s, EolOrEnd s → ∃ q, y s = .bt q) :
    Loc C .bol b (pair space1 y) :=
  (loc_pair loc_space1_mid hy).bol_start (space1_then_bt (fun ws s hs => by
    obtain ⟨q, hq⟩ := hbt s hs
    exact ⟨q, by simp [Comb.map, hq]⟩))

/-- the same with `take_while(1.., [' ', '\t'])` written out (`transaction`) -/
theorem loc_pair_spaces1 {y : Parser β} (hy : Loc C .mid b y) (hbt : ∀ s, EolOrEnd s → ∃ q, y s = .bt q) :
    Loc C .bol b (pair (takeWhile1 isSpace) y) := loc_pair_space1 hy hbt

/-- a comment prefix at the beginning of a line: the text after the cut must not start with one (`NoCm`) -/
theorem loc_commentPrefix_bol (hcm : C.NoCm) : Loc C .bol .mid (takeWhile1 isCommentPrefix) := by
  have hmid : Loc C .mid .mid (takeWhile1 isCommentPrefix) := WL.loc (wl_takeWhile1 _ (by decide))
  have hbl : ∀ s : List Char, (∀ c r, s = c :: r → isCommentPrefix c = false) → ∃ q, takeWhile1 isCommentPrefix s = .bt q := by
    intro s hs
    cases s with
    | nil => exact ⟨[], rfl⟩
    | cons c r => exact ⟨c :: r, by simp [takeWhile1, hs c r rfl]⟩
  have hzc : ∀ c r, C.z = c :: r → isCommentPrefix c = false := by
    intro c r h
    rcases C.hz.1 c (by rw [h]; simp) with h' | h'
    · rw [h']; decide
    · simp only [isSpace, Bool.or_eq_true, beq_iff_eq] at h'
      rcases h' with h' | h' <;> (rw [h']; decide)
  constructor
  · intro u hu
    rcases hu with rfl | hu
    · obtain ⟨q, hq⟩ := hbl C.z hzc
      have : ∀ c r, C.z ++ C.t = c :: r → isCommentPrefix c = false := by
        intro c r h
        cases hz : C.z with
        | nil =>
          rcases hcm with h' | h'
          · exact absurd hz h'
          · rw [hz] at h; exact h' c r h
        | cons d x =>
          rw [hz] at h
          simp only [List.cons_append, List.cons.injEq] at h
          rw [← h.1]; exact hzc d x hz
      obtain ⟨q', hq'⟩ := hbl _ this
      rw [hq, hq']; exact ⟨q', rfl⟩
    · exact hmid.ext u hu
  · intro u x r hu he
    rcases hu with rfl | hu
    · obtain ⟨q, hq⟩ := hbl C.z hzc
      rw [hq] at he; cases he
    · exact hmid.post u x r hu he

/-- `separated(1.., p, space1)` where `p` ends a line (`block_metadata`): after the last line the separator may succeed on
a blank line of the text that follows, but then `p` refuses and the stream is reset -/
theorem sepLoop_follows {p : Parser α} (hbt : ∀ s, EolOrEnd s → ∃ q, p s = .bt q) (s : List Char) (hs : Follows s)
    (n : Nat) (acc : List α) : separatedLoop p space1 (n + 1) s acc = .ok acc s := by
  simp only [separatedLoop]
  cases s with
  | nil => simp [space1, takeWhile1]
  | cons c r =>
    by_cases hc : isSpace c = true
    · obtain ⟨ws, s', h1, h2⟩ := space1_blankStart (hs c r rfl hc)
      obtain ⟨q, hq⟩ := hbt s' h2
      have hlen := (safe_space1 (Nat.le_refl 1)).good (c :: r)
      rw [h1] at hlen
      rw [h1]
      simp only
      rw [if_neg (by have := hlen.2; omega), hq]
    · simp [space1, takeWhile1, hc]

theorem loc_separated1_space1 {p : Parser α} (hp : Loc C .mid .bol p) (hs' : Safe 0 p)
    (hbt : ∀ s, EolOrEnd s → ∃ q, p s = .bt q) : Loc C .mid .bol (separated1 p space1) := by
  have hsafe : Safe 1 space1 := safe_space1 (Nat.le_refl 1)
  have ext : ∀ (n m : Nat) (u : List Char) (acc : List α), C.At .bol u → u.length < n → (u ++ C.t).length < m →
      Res.Ext C.t (separatedLoop p space1 n u acc) (separatedLoop p space1 m (u ++ C.t) acc) := by
    intro n
    induction n with
    | zero => intro m u acc _ h; omega
    | succ n ih =>
      intro m u acc hu hn hm
      obtain ⟨m, rfl⟩ : ∃ m', m = m' + 1 := ⟨m - 1, by omega⟩
      rcases hu with rfl | hu
      · rw [sepLoop_follows hbt _ C.follows_z, sepLoop_follows hbt _ C.follows_zt]; simp
      · have h0 := (loc_space1_mid (C := C)).ext u hu
        have h2 := hsafe.good u
        simp only [separatedLoop]
        cases hse : space1 u with
        | bt q0 => rw [hse] at h0; obtain ⟨q0', hq0'⟩ := h0; rw [hq0']; simp
        | ok y r =>
          rw [hse] at h0 h2
          simp only [Res.ext_ok] at h0
          obtain ⟨h3, h4⟩ := h2
          rw [h0]
          simp only [List.length_append] at hm ⊢
          rw [if_neg (by omega), if_neg (by omega)]
          have hr := (loc_space1_mid (C := C)).post u y r hu hse
          have h1 := hp.ext r hr
          have h5 := hs'.good r
          cases he : p r with
          | ok x r' =>
            rw [he] at h1 h5
            simp only [Res.ext_ok] at h1
            obtain ⟨h6, h7⟩ := h5
            rw [h1]
            exact ih m r' _ (hp.post r x r' hr he) (by omega) (by simp only [List.length_append]; omega)
          | bt q => rw [he] at h1; obtain ⟨q', hq'⟩ := h1; rw [hq']; simp
          | cut q => simp
          | panic s => simp
          | fuel => simp
        | cut q => simp
        | panic s => simp
        | fuel => simp
  have post : ∀ (n : Nat) (u : List Char) (acc l : List α) (r : List Char), C.At .bol u →
      separatedLoop p space1 n u acc = .ok l r → C.At .bol r := by
    intro n
    induction n with
    | zero => intro u acc l r _ h; simp [separatedLoop] at h
    | succ n ih =>
      intro u acc l r hu h
      rcases hu with rfl | hu
      · rw [sepLoop_follows hbt _ C.follows_z] at h
        simp only [Res.ok.injEq] at h
        rw [← h.2]; exact Or.inl rfl
      · simp only [separatedLoop] at h
        cases hse : space1 u with
        | bt q0 => rw [hse] at h; simp only [Res.ok.injEq] at h; rw [← h.2]; exact Or.inr hu
        | ok y r1 =>
          rw [hse] at h
          simp only at h
          split at h
          · cases h
          · have hr := (loc_space1_mid (C := C)).post u y r1 hu hse
            cases he : p r1 with
            | ok x r' => rw [he] at h; exact ih r' _ l r (hp.post r1 x r' hr he) h
            | bt q => rw [he] at h; simp only [Res.ok.injEq] at h; rw [← h.2]; exact Or.inr hu
            | cut q => rw [he] at h; cases h
            | panic s => rw [he] at h; cases h
            | fuel => rw [he] at h; cases h
        | cut q => rw [hse] at h; cases h
        | panic s => rw [hse] at h; cases h
        | fuel => rw [hse] at h; cases h
  constructor
  · intro u hu
    have h1 := hp.ext u hu
    simp only [separated1]
    cases he : p u with
    | ok x r =>
      rw [he] at h1; simp only [Res.ext_ok] at h1; rw [h1]
      exact ext _ _ r [x] (hp.post u x r hu he) (Nat.lt_succ_self _) (Nat.lt_succ_self _)
    | bt q => rw [he] at h1; obtain ⟨q', hq'⟩ := h1; rw [hq']; simp
    | cut q => simp
    | panic s => simp
    | fuel => simp
  · intro u l r hu h
    simp only [separated1] at h
    cases he : p u with
    | ok x r' => rw [he] at h; exact post _ r' [x] l r (hp.post u x r' hu he) h
    | bt q => rw [he] at h; cases h
    | cut q => rw [he] at h; cases h
    | panic s => rw [he] at h; cases h
    | fuel => rw [he] at h; cases h

end Okane.Parse
