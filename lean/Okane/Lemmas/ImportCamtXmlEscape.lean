import Okane.Model.Xml
/-!
# XML character data: `unescape (escape s) = s`

`escape` writes the five characters that have a predefined entity by name and XML white space by character reference;
`unescape` is the model of quick-xml's `escape::unescape_with` (`Model/Xml.lean`).  Also: an escaped text contains no
markup character, no quote and no XML white space, so trimming does not touch it.
-/
namespace Okane.Xml

/-- the characters `escapeChar` rewrites -/
def special (c : Char) : Bool :=
  c == '<' || c == '>' || c == '&' || c == '\'' || c == '"' || c == ' ' || c == '\t' || c == '\n' || c == '\r'

theorem escapeChar_plain (c : Char) (h : special c = false) : escapeChar c = [c] := by
  simp only [special, Bool.or_eq_false_iff] at h
  obtain ⟨⟨⟨⟨⟨⟨⟨⟨h1, h2⟩, h3⟩, h4⟩, h5⟩, h6⟩, h7⟩, h8⟩, h9⟩ := h
  simp [escapeChar, h1, h2, h3, h4, h5, h6, h7, h8, h9]

/-- one escaped character is read back as that character -/
theorem unesc_escapeChar (c : Char) (out : List Char) :
    (escapeChar c).foldl unescStep { out := out, ent := none, bad := false } =
      { out := c :: out, ent := none, bad := false } := by
  by_cases hs : special c = true
  · simp only [special, Bool.or_eq_true, beq_iff_eq] at hs
    rcases hs with (((((((h | h) | h) | h) | h) | h) | h) | h) | h <;> subst h <;>
      simp +decide [escapeChar, unescStep, resolveEntity, charRef, numRadix, hexVal]
  · have hs' : special c = false := by simpa using hs
    rw [escapeChar_plain c hs']
    have hamp : (c == '&') = false := by
      simp only [special, Bool.or_eq_false_iff] at hs'
      exact hs'.1.1.1.1.1.1.2
    simp [unescStep, hamp]

theorem unesc_escape (s : List Char) (out : List Char) :
    (escape s).foldl unescStep { out := out, ent := none, bad := false } =
      { out := s.reverse ++ out, ent := none, bad := false } := by
  induction s generalizing out with
  | nil => simp [escape]
  | cons c rest ih =>
    have : escape (c :: rest) = escapeChar c ++ escape rest := by simp [escape]
    rw [this, List.foldl_append, unesc_escapeChar, ih]
    simp

/-- **text escaping round trip**: every text is read back from its escaped form. -/
theorem unescape_escape (s : List Char) : unescape (escape s) = some s := by
  unfold unescape
  have h := unesc_escape s []
  simp only [List.append_nil] at h
  have h0 : ({} : UnescSt) = { out := [], ent := none, bad := false } := rfl
  rw [h0, h]
  simp

/-- no character of an escaped text is markup, a quote or XML white space -/
theorem escape_clean (s : List Char) :
    ∀ c ∈ escape s, c ≠ '<' ∧ c ≠ '>' ∧ c ≠ '\'' ∧ c ≠ '"' ∧ isWs c = false := by
  intro c hc
  simp only [escape, List.mem_flatMap] at hc
  obtain ⟨x, _, hx⟩ := hc
  have key : ∀ c ∈ escapeChar x, c ≠ '<' ∧ c ≠ '>' ∧ c ≠ '\'' ∧ c ≠ '"' ∧ isWs c = false := by
    by_cases hs : special x = true
    · simp only [special, Bool.or_eq_true, beq_iff_eq] at hs
      rcases hs with (((((((h | h) | h) | h) | h) | h) | h) | h) | h <;> subst h <;> decide
    · have hs' : special x = false := by simpa using hs
      rw [escapeChar_plain x hs']
      intro c hc
      simp at hc
      subst hc
      simp only [special, Bool.or_eq_false_iff, beq_eq_false_iff_ne] at hs'
      obtain ⟨⟨⟨⟨⟨⟨⟨⟨h1, h2⟩, h3⟩, h4⟩, h5⟩, h6⟩, h7⟩, h8⟩, h9⟩ := hs'
      refine ⟨h1, h2, h4, h5, ?_⟩
      simp [isWs, h6, h7, h8, h9]
  exact key c hx

/-- non-vacuity: markup, quotes, white space at both ends, a non-ASCII character -/
example : unescape (escape " a<b> & \"q\" 'x'\t山\n".toList) = some " a<b> & \"q\" 'x'\t山\n".toList := unescape_escape _
example : escape " <&".toList = "&#32;&lt;&amp;".toList := by decide
/-- and `unescape` is not the identity: it fails on what `escape` never writes -/
example : unescape "a & b".toList = none := by decide

end Okane.Xml
