import Okane.Lemmas.ImportCamtXmlWalk
/-!
# The struct laws at the schema of `xmlnode.rs`: entries (`Ntry`) and statements (`Stmt`)

* every key of `Entry` is a field that refuses a second value (`entry_on_*`); every other key is unknown (`entry_unknown`);
* `entry_fields_commute` — the reactions to two different keys commute on success, so by `walk_swap` the order of the
  children of an `<Ntry>` is irrelevant (`decEntry_swap`);
* `decEntry_unknown_ignored` — an unknown element anywhere among the children of an `<Ntry>` is ignored (an `Entry` has no
  list field, so there is no position where it could break a run);
* `decEntry_missing_*`, `decEntry_duplicate` — a missing required element / a repeated element is an error;
* `decStmt_interleaved`, `decStmt_no_Bal` — `<Ntry>`s separated by another element, or no `<Bal>` at all, are errors;
* `decStmt_unknown_in_entry` — the unknown-element law one level up ("at any depth": by `walk_congr`).
-/
namespace Okane.Import.CamtXml
open Okane Okane.Xml Okane.Import

variable {σ : Type}

/-- one field of a serde-derived visitor: refuse a second value, else decode and store -/
def setField {α : Type} (get : σ → Option α) (set : σ → Option α → σ) (d : D α) (st : σ) : D σ :=
  match get st with
  | some _ => bad
  | none =>
    match d with
    | .ok v => .ok (set st (some v))
    | .error e => .error e

/-- an unknown key: decode the first event of the element, keep the state -/
def skipField (d : D Unit) (st : σ) : D σ := d.map fun _ => st

theorem setField_comm {α β : Type} (g1 : σ → Option α) (s1 : σ → Option α → σ) (d1 : D α)
    (g2 : σ → Option β) (s2 : σ → Option β → σ) (d2 : D β) (st : σ)
    (h12 : ∀ s v, g2 (s1 s v) = g2 s) (h21 : ∀ s v, g1 (s2 s v) = g1 s)
    (hc : ∀ s v w, s2 (s1 s v) w = s1 (s2 s w) v) :
    ∀ r, (setField g1 s1 d1 st >>= setField g2 s2 d2) = .ok r ↔ (setField g2 s2 d2 st >>= setField g1 s1 d1) = .ok r := by
  intro r
  cases e1 : g1 st <;> cases e2 : g2 st <;> cases d1 <;> cases d2 <;>
    simp [setField, e1, e2, bind, Except.bind, bad, h12, h21, hc]

theorem setField_skip_comm {α : Type} (g1 : σ → Option α) (s1 : σ → Option α → σ) (d1 : D α) (d2 : D Unit) (st : σ) :
    ∀ r, (setField g1 s1 d1 st >>= skipField d2) = .ok r ↔ (skipField d2 st >>= setField g1 s1 d1) = .ok r := by
  intro r
  cases e1 : g1 st <;> cases d1 <;> cases d2 <;> simp [setField, skipField, e1, bind, Except.bind, bad, Except.map]

theorem skip_skip_comm (d1 d2 : D Unit) (st : σ) :
    ∀ r, (skipField d1 st >>= skipField d2) = .ok r ↔ (skipField d2 st >>= skipField d1) = .ok r := by
  intro r
  cases d1 <;> cases d2 <;> simp [skipField, bind, Except.bind, Except.map]

theorem setOnce_eq {α : Type} (g : σ → Option α) (s : σ → Option α → σ) (d : D α) (st : σ) :
    (do let v ← setOnce (g st) d; (.ok (s st v) : D σ)) = setField g s d st := by
  cases e : g st <;> cases d <;> simp [setOnce, setField, e, bind, Except.bind, Except.map, bad]

def entryKeys : List String := ["Amt", "CdtDbtInd", "BookgDt", "ValDt", "BkTxCd", "Chrgs", "NtryDtls", "AddtlNtryInf"]

theorem entry_key_cases (k : String) :
    k = "Amt" ∨ k = "CdtDbtInd" ∨ k = "BookgDt" ∨ k = "ValDt" ∨ k = "BkTxCd" ∨ k = "Chrgs" ∨ k = "NtryDtls" ∨
    k = "AddtlNtryInf" ∨ k ∉ entryKeys := by
  by_cases h : k ∈ entryKeys
  · simp [entryKeys] at h
    rcases h with h | h | h | h | h | h | h | h <;> simp [h]
  · simp [h]

theorem entry_unknown (k : String) (h : k ∉ entryKeys) : entrySpec.Unknown k := by
  simp [entryKeys] at h
  obtain ⟨h1, h2, h3, h4, h5, h6, h7, h8⟩ := h
  refine ⟨rfl, ?_⟩
  intro st a kids
  simp [entrySpec, h1, h2, h3, h4, h5, h6, h7, h8]
  cases skipElem kids <;> rfl

theorem entry_on_unknown (k : String) (h : k ∉ entryKeys) (st a c) :
    entrySpec.onElem st k a c = skipField (skipElem c) st := (entry_unknown k h).2 st a c

theorem entry_on_Amt (st a c) : entrySpec.onElem st "Amt" a c =
    setField (·.amt) (fun s v => { s with amt := v }) (decAmount a c) st := by
  simp only [entrySpec]; exact setOnce_eq (·.amt) (fun s v => { s with amt := v }) _ st
theorem entry_on_CdtDbtInd (st a c) : entrySpec.onElem st "CdtDbtInd" a c =
    setField (·.cd) (fun s v => { s with cd := v }) (decCdtDbt a c) st := by
  simp only [entrySpec]; exact setOnce_eq (·.cd) (fun s v => { s with cd := v }) _ st
theorem entry_on_BookgDt (st a c) : entrySpec.onElem st "BookgDt" a c =
    setField (·.bookg) (fun s v => { s with bookg := v }) (decDateHolder a c) st := by
  simp only [entrySpec]; exact setOnce_eq (·.bookg) (fun s v => { s with bookg := v }) _ st
theorem entry_on_ValDt (st a c) : entrySpec.onElem st "ValDt" a c =
    setField (·.val) (fun s v => { s with val := v }) (decDateHolder a c) st := by
  simp only [entrySpec]; exact setOnce_eq (·.val) (fun s v => { s with val := v }) _ st
theorem entry_on_BkTxCd (st a c) : entrySpec.onElem st "BkTxCd" a c =
    setField (·.bkTxCd) (fun s v => { s with bkTxCd := v }) (decBkTxCd a c) st := by
  simp only [entrySpec]; exact setOnce_eq (·.bkTxCd) (fun s v => { s with bkTxCd := v }) _ st
theorem entry_on_Chrgs (st a c) : entrySpec.onElem st "Chrgs" a c =
    setField (·.chrgs) (fun s v => { s with chrgs := v }) (decCharges a c) st := by
  simp only [entrySpec]; exact setOnce_eq (·.chrgs) (fun s v => { s with chrgs := v }) _ st
theorem entry_on_NtryDtls (st a c) : entrySpec.onElem st "NtryDtls" a c =
    setField (·.dtls) (fun s v => { s with dtls := v }) (decNtryDtls a c) st := by
  simp only [entrySpec]; exact setOnce_eq (·.dtls) (fun s v => { s with dtls := v }) _ st
theorem entry_on_AddtlNtryInf (st a c) : entrySpec.onElem st "AddtlNtryInf" a c =
    setField (·.info) (fun s v => { s with info := v }) (elemText c) st := by
  simp only [entrySpec]; exact setOnce_eq (·.info) (fun s v => { s with info := v }) _ st

/-- the reactions of `Entry`'s visitor to two different keys commute on success -/
theorem entry_fields_commute (st : EntrySlots) (k₁ a₁ c₁ k₂ a₂ c₂) (hne : k₁ ≠ k₂) :
    ∀ r, (entrySpec.onElem st k₁ a₁ c₁ >>= fun s => entrySpec.onElem s k₂ a₂ c₂) = .ok r ↔
         (entrySpec.onElem st k₂ a₂ c₂ >>= fun s => entrySpec.onElem s k₁ a₁ c₁) = .ok r := by
  rcases entry_key_cases k₁ with h | h | h | h | h | h | h | h | h <;>
  rcases entry_key_cases k₂ with h' | h' | h' | h' | h' | h' | h' | h' | h' <;>
  first
  | (exfalso; exact hne (h.trans h'.symm))
  | (subst h; subst h'
     simp only [entry_on_Amt, entry_on_CdtDbtInd, entry_on_BookgDt, entry_on_ValDt, entry_on_BkTxCd, entry_on_Chrgs, entry_on_NtryDtls, entry_on_AddtlNtryInf]
     exact setField_comm _ _ _ _ _ _ _ (fun _ _ => rfl) (fun _ _ => rfl) (fun _ _ _ => rfl))
  | (subst h
     simp only [entry_on_Amt, entry_on_CdtDbtInd, entry_on_BookgDt, entry_on_ValDt, entry_on_BkTxCd, entry_on_Chrgs, entry_on_NtryDtls, entry_on_AddtlNtryInf, entry_on_unknown k₂ h']
     exact setField_skip_comm _ _ _ _ _)
  | (subst h'
     simp only [entry_on_Amt, entry_on_CdtDbtInd, entry_on_BookgDt, entry_on_ValDt, entry_on_BkTxCd, entry_on_Chrgs, entry_on_NtryDtls, entry_on_AddtlNtryInf, entry_on_unknown k₁ h]
     intro r
     exact (setField_skip_comm _ _ _ _ _ r).symm)
  | (simp only [entry_on_unknown k₁ h, entry_on_unknown k₂ h']
     exact skip_skip_comm _ _ _)

/-! ## consequences for `decEntry` -/

/-- the key an element child is filed under -/
def keyOf : Node → Option String
  | .elem q _ _ => some (lname q)
  | _ => none

theorem setField_ok {α : Type} (g : σ → Option α) (s : σ → Option α → σ) (d : D α) (st st' : σ)
    (h : setField g s d st = .ok st') : g st = none ∧ ∃ v, d = .ok v ∧ st' = s st (some v) := by
  unfold setField at h
  cases e : g st with
  | some x => simp [e, bad] at h
  | none =>
    cases d with
    | error x => simp [e] at h
    | ok v => simp [e] at h; exact ⟨rfl, v, rfl, h.symm⟩

theorem skipField_ok (d : D Unit) (st st' : σ) (h : skipField d st = .ok st') : st' = st := by
  cases d <;> simp [skipField, Except.map] at h
  exact h.symm

/-- a struct without list fields never has a list open -/
theorem walk_noList (sp : Spec σ) (hl : ∀ k, sp.isList k = false) :
    ∀ (l : List Node) (st st' : σ) (o : Option String), walk sp st none l = .ok (st', o) → o = none := by
  intro l
  induction l with
  | nil => intro st st' o h; simp at h; exact h.2.symm
  | cons n rest ih =>
    intro st st' o h
    cases n with
    | badText => simp [walk, bad] at h
    | text s => simp only [walk] at h; exact ih st st' o h
    | elem q a k =>
      have : ((none : Option String) == some q) = false := by simp
      simp only [walk, this, hl, Bool.false_eq_true, if_false] at h
      cases e : sp.onElem st (lname q) a k with
      | error x => simp [e] at h
      | ok s1 => simp only [e] at h; exact ih s1 st' o h

theorem entry_noList : ∀ k, entrySpec.isList k = false := fun _ => rfl

/-- what one child does to the slots of an entry when it is accepted -/
theorem entry_onElem_ok (st st' : EntrySlots) (k a c) (h : entrySpec.onElem st k a c = .ok st') :
    (k ∉ entryKeys ∧ st' = st) ∨
    (k = "Amt" ∧ st.amt = none ∧ ∃ v, st' = { st with amt := some v }) ∨
    (k = "CdtDbtInd" ∧ st.cd = none ∧ ∃ v, st' = { st with cd := some v }) ∨
    (k = "BookgDt" ∧ st.bookg = none ∧ ∃ v, st' = { st with bookg := some v }) ∨
    (k = "ValDt" ∧ st.val = none ∧ ∃ v, st' = { st with val := some v }) ∨
    (k = "BkTxCd" ∧ st.bkTxCd = none ∧ ∃ v, st' = { st with bkTxCd := some v }) ∨
    (k = "Chrgs" ∧ st.chrgs = none ∧ ∃ v, st' = { st with chrgs := some v }) ∨
    (k = "NtryDtls" ∧ st.dtls = none ∧ ∃ v, st' = { st with dtls := some v }) ∨
    (k = "AddtlNtryInf" ∧ st.info = none ∧ ∃ v, st' = { st with info := some v }) := by
  rcases entry_key_cases k with hk | hk | hk | hk | hk | hk | hk | hk | hk
  · subst hk
    rw [entry_on_Amt] at h
    obtain ⟨h1, v, _, h3⟩ := setField_ok _ _ _ _ _ h
    exact Or.inr (Or.inl ⟨rfl, h1, v, h3⟩)
  · subst hk
    rw [entry_on_CdtDbtInd] at h
    obtain ⟨h1, v, _, h3⟩ := setField_ok _ _ _ _ _ h
    exact Or.inr (Or.inr (Or.inl ⟨rfl, h1, v, h3⟩))
  · subst hk
    rw [entry_on_BookgDt] at h
    obtain ⟨h1, v, _, h3⟩ := setField_ok _ _ _ _ _ h
    exact Or.inr (Or.inr (Or.inr (Or.inl ⟨rfl, h1, v, h3⟩)))
  · subst hk
    rw [entry_on_ValDt] at h
    obtain ⟨h1, v, _, h3⟩ := setField_ok _ _ _ _ _ h
    exact Or.inr (Or.inr (Or.inr (Or.inr (Or.inl ⟨rfl, h1, v, h3⟩))))
  · subst hk
    rw [entry_on_BkTxCd] at h
    obtain ⟨h1, v, _, h3⟩ := setField_ok _ _ _ _ _ h
    exact Or.inr (Or.inr (Or.inr (Or.inr (Or.inr (Or.inl ⟨rfl, h1, v, h3⟩)))))
  · subst hk
    rw [entry_on_Chrgs] at h
    obtain ⟨h1, v, _, h3⟩ := setField_ok _ _ _ _ _ h
    exact Or.inr (Or.inr (Or.inr (Or.inr (Or.inr (Or.inr (Or.inl ⟨rfl, h1, v, h3⟩))))))
  · subst hk
    rw [entry_on_NtryDtls] at h
    obtain ⟨h1, v, _, h3⟩ := setField_ok _ _ _ _ _ h
    exact Or.inr (Or.inr (Or.inr (Or.inr (Or.inr (Or.inr (Or.inr (Or.inl ⟨rfl, h1, v, h3⟩)))))))
  · subst hk
    rw [entry_on_AddtlNtryInf] at h
    obtain ⟨h1, v, _, h3⟩ := setField_ok _ _ _ _ _ h
    exact Or.inr (Or.inr (Or.inr (Or.inr (Or.inr (Or.inr (Or.inr (Or.inr (⟨rfl, h1, v, h3⟩))))))))
  · rw [entry_on_unknown k hk] at h
    exact Or.inl ⟨hk, skipField_ok _ _ _ h⟩


/-- `g` tells whether the field filed under `key` has been filled: accepting a child under `key` needs it empty and
fills it; accepting any other child leaves it alone -/
structure SlotLaw (g : EntrySlots → Bool) (key : String) : Prop where
  law : ∀ st st' k a c, entrySpec.onElem st k a c = .ok st' →
    (k = key → g st = false ∧ g st' = true) ∧ (k ≠ key → g st' = g st)

theorem slotLaw_Amt : SlotLaw (fun st => st.amt.isSome) "Amt" := by
  refine ⟨fun st st' k a c h => ?_⟩
  rcases entry_onElem_ok st st' k a c h with ⟨hk, rfl⟩ | ⟨rfl, h1, v, rfl⟩ | ⟨rfl, h1, v, rfl⟩ | ⟨rfl, h1, v, rfl⟩ |
      ⟨rfl, h1, v, rfl⟩ | ⟨rfl, h1, v, rfl⟩ | ⟨rfl, h1, v, rfl⟩ | ⟨rfl, h1, v, rfl⟩ | ⟨rfl, h1, v, rfl⟩
  · refine ⟨fun hh => absurd (hh ▸ hk) (by simp [entryKeys]), fun _ => rfl⟩
  all_goals simp +decide [h1]
theorem slotLaw_CdtDbtInd : SlotLaw (fun st => st.cd.isSome) "CdtDbtInd" := by
  refine ⟨fun st st' k a c h => ?_⟩
  rcases entry_onElem_ok st st' k a c h with ⟨hk, rfl⟩ | ⟨rfl, h1, v, rfl⟩ | ⟨rfl, h1, v, rfl⟩ | ⟨rfl, h1, v, rfl⟩ |
      ⟨rfl, h1, v, rfl⟩ | ⟨rfl, h1, v, rfl⟩ | ⟨rfl, h1, v, rfl⟩ | ⟨rfl, h1, v, rfl⟩ | ⟨rfl, h1, v, rfl⟩
  · refine ⟨fun hh => absurd (hh ▸ hk) (by simp [entryKeys]), fun _ => rfl⟩
  all_goals simp +decide [h1]
theorem slotLaw_BookgDt : SlotLaw (fun st => st.bookg.isSome) "BookgDt" := by
  refine ⟨fun st st' k a c h => ?_⟩
  rcases entry_onElem_ok st st' k a c h with ⟨hk, rfl⟩ | ⟨rfl, h1, v, rfl⟩ | ⟨rfl, h1, v, rfl⟩ | ⟨rfl, h1, v, rfl⟩ |
      ⟨rfl, h1, v, rfl⟩ | ⟨rfl, h1, v, rfl⟩ | ⟨rfl, h1, v, rfl⟩ | ⟨rfl, h1, v, rfl⟩ | ⟨rfl, h1, v, rfl⟩
  · refine ⟨fun hh => absurd (hh ▸ hk) (by simp [entryKeys]), fun _ => rfl⟩
  all_goals simp +decide [h1]
theorem slotLaw_ValDt : SlotLaw (fun st => st.val.isSome) "ValDt" := by
  refine ⟨fun st st' k a c h => ?_⟩
  rcases entry_onElem_ok st st' k a c h with ⟨hk, rfl⟩ | ⟨rfl, h1, v, rfl⟩ | ⟨rfl, h1, v, rfl⟩ | ⟨rfl, h1, v, rfl⟩ |
      ⟨rfl, h1, v, rfl⟩ | ⟨rfl, h1, v, rfl⟩ | ⟨rfl, h1, v, rfl⟩ | ⟨rfl, h1, v, rfl⟩ | ⟨rfl, h1, v, rfl⟩
  · refine ⟨fun hh => absurd (hh ▸ hk) (by simp [entryKeys]), fun _ => rfl⟩
  all_goals simp +decide [h1]
theorem slotLaw_BkTxCd : SlotLaw (fun st => st.bkTxCd.isSome) "BkTxCd" := by
  refine ⟨fun st st' k a c h => ?_⟩
  rcases entry_onElem_ok st st' k a c h with ⟨hk, rfl⟩ | ⟨rfl, h1, v, rfl⟩ | ⟨rfl, h1, v, rfl⟩ | ⟨rfl, h1, v, rfl⟩ |
      ⟨rfl, h1, v, rfl⟩ | ⟨rfl, h1, v, rfl⟩ | ⟨rfl, h1, v, rfl⟩ | ⟨rfl, h1, v, rfl⟩ | ⟨rfl, h1, v, rfl⟩
  · refine ⟨fun hh => absurd (hh ▸ hk) (by simp [entryKeys]), fun _ => rfl⟩
  all_goals simp +decide [h1]
theorem slotLaw_Chrgs : SlotLaw (fun st => st.chrgs.isSome) "Chrgs" := by
  refine ⟨fun st st' k a c h => ?_⟩
  rcases entry_onElem_ok st st' k a c h with ⟨hk, rfl⟩ | ⟨rfl, h1, v, rfl⟩ | ⟨rfl, h1, v, rfl⟩ | ⟨rfl, h1, v, rfl⟩ |
      ⟨rfl, h1, v, rfl⟩ | ⟨rfl, h1, v, rfl⟩ | ⟨rfl, h1, v, rfl⟩ | ⟨rfl, h1, v, rfl⟩ | ⟨rfl, h1, v, rfl⟩
  · refine ⟨fun hh => absurd (hh ▸ hk) (by simp [entryKeys]), fun _ => rfl⟩
  all_goals simp +decide [h1]
theorem slotLaw_NtryDtls : SlotLaw (fun st => st.dtls.isSome) "NtryDtls" := by
  refine ⟨fun st st' k a c h => ?_⟩
  rcases entry_onElem_ok st st' k a c h with ⟨hk, rfl⟩ | ⟨rfl, h1, v, rfl⟩ | ⟨rfl, h1, v, rfl⟩ | ⟨rfl, h1, v, rfl⟩ |
      ⟨rfl, h1, v, rfl⟩ | ⟨rfl, h1, v, rfl⟩ | ⟨rfl, h1, v, rfl⟩ | ⟨rfl, h1, v, rfl⟩ | ⟨rfl, h1, v, rfl⟩
  · refine ⟨fun hh => absurd (hh ▸ hk) (by simp [entryKeys]), fun _ => rfl⟩
  all_goals simp +decide [h1]
theorem slotLaw_AddtlNtryInf : SlotLaw (fun st => st.info.isSome) "AddtlNtryInf" := by
  refine ⟨fun st st' k a c h => ?_⟩
  rcases entry_onElem_ok st st' k a c h with ⟨hk, rfl⟩ | ⟨rfl, h1, v, rfl⟩ | ⟨rfl, h1, v, rfl⟩ | ⟨rfl, h1, v, rfl⟩ |
      ⟨rfl, h1, v, rfl⟩ | ⟨rfl, h1, v, rfl⟩ | ⟨rfl, h1, v, rfl⟩ | ⟨rfl, h1, v, rfl⟩ | ⟨rfl, h1, v, rfl⟩
  · refine ⟨fun hh => absurd (hh ▸ hk) (by simp [entryKeys]), fun _ => rfl⟩
  all_goals simp +decide [h1]

/-- along the children of an entry: a field, once filled, stays filled; a field no child is filed under keeps its state;
a field some child is filed under ends up filled -/
theorem entry_walk_slot (g : EntrySlots → Bool) (key : String) (L : SlotLaw g key) :
    ∀ (l : List Node) (st st' : EntrySlots) (o : Option String), walk entrySpec st none l = .ok (st', o) →
    (g st = true → g st' = true) ∧
    ((∀ n ∈ l, keyOf n ≠ some key) → g st' = g st) ∧
    ((∃ n ∈ l, keyOf n = some key) → g st' = true) := by
  intro l
  induction l with
  | nil => intro st st' o h; simp at h; obtain ⟨rfl, _⟩ := h; exact ⟨fun h => h, fun _ => rfl, by simp⟩
  | cons n rest ih =>
    intro st st' o h
    cases n with
    | badText => simp [walk, bad] at h
    | text s =>
      simp only [walk] at h
      obtain ⟨i1, i2, i3⟩ := ih st st' o h
      refine ⟨i1, fun hk => i2 (fun n hn => hk n (List.mem_cons_of_mem _ hn)), ?_⟩
      rintro ⟨n, hn, hkey⟩
      rcases List.mem_cons.mp hn with rfl | hn
      · simp [keyOf] at hkey
      · exact i3 ⟨n, hn, hkey⟩
    | elem q a c =>
      have hq : ((none : Option String) == some q) = false := by simp
      simp only [walk, hq, entry_noList, Bool.false_eq_true, if_false] at h
      cases e : entrySpec.onElem st (lname q) a c with
      | error x => simp [e] at h
      | ok s1 =>
        simp only [e] at h
        obtain ⟨i1, i2, i3⟩ := ih s1 st' o h
        obtain ⟨f1, f2⟩ := L.law st s1 (lname q) a c e
        refine ⟨?_, ?_, ?_⟩
        · intro hg
          apply i1
          by_cases hkq : lname q = key
          · exact (f1 hkq).2
          · rw [f2 hkq]; exact hg
        · intro hk
          have hne : lname q ≠ key := fun hh => hk (.elem q a c) (List.mem_cons_self) (by simp [keyOf, hh])
          rw [i2 (fun n hn => hk n (List.mem_cons_of_mem _ hn)), f2 hne]
        · rintro ⟨n, hn, hkey⟩
          rcases List.mem_cons.mp hn with rfl | hn
          · simp only [keyOf, Option.some.injEq] at hkey
            exact i1 (f1 hkey).2
          · exact i3 ⟨n, hn, hkey⟩

/-- what `decEntry` needs of the walk -/
theorem decEntry_ok (attrs : String) (kids : List Node) (e : CamtEntry) (h : decEntry attrs kids = .ok e) :
    ∃ st o, walk entrySpec {} none kids = .ok (st, o) ∧ st.amt.isSome ∧ st.cd.isSome ∧ st.bookg.isSome ∧
      st.bkTxCd.isSome ∧ st.info.isSome := by
  unfold decEntry runWalk at h
  cases hn : noAttrs attrs with
  | error z => simp [hn, bind, Except.bind] at h
  | ok u =>
    cases hW : walk entrySpec {} none kids with
    | error z => simp [hn, hW, bind, Except.bind, Except.map] at h
    | ok p =>
      obtain ⟨st, o⟩ := p
      refine ⟨st, o, rfl, ?_⟩
      simp only [hn, hW, bind, Except.bind, Except.map] at h
      cases h1 : st.amt <;> cases h2 : st.cd <;> cases h3 : st.bookg <;> cases h4 : st.bkTxCd <;> cases h5 : st.info <;>
        simp [h1, h2, h3, h4, h5, req, bad] at h ⊢

/-- **A repeated scalar is an error**: two children of an `<Ntry>` filed under the same field (`Amt` twice, `BookgDt`
twice, …, whatever stands between them) make decoding fail (`duplicate field`). -/
theorem decEntry_duplicate (attrs : String) (l₁ l₂ l₃ : List Node) (x y : Node) (k : String) (hk : k ∈ entryKeys)
    (hx : keyOf x = some k) (hy : keyOf y = some k) : ∀ e, decEntry attrs (l₁ ++ x :: l₂ ++ y :: l₃) ≠ .ok e := by
  intro e h
  obtain ⟨st, o, hw, _⟩ := decEntry_ok _ _ _ h
  have happ : l₁ ++ x :: l₂ ++ y :: l₃ = (l₁ ++ x :: l₂) ++ (y :: l₃) := by simp
  rw [happ, walk_append] at hw
  cases e1 : walk entrySpec {} none (l₁ ++ x :: l₂) with
  | error z => simp [e1] at hw
  | ok p =>
    obtain ⟨s1, o1⟩ := p
    simp only [e1] at hw
    have ho : o1 = none := walk_noList entrySpec entry_noList _ _ _ _ e1
    subst ho
    cases y with
    | text t => simp [keyOf] at hy
    | badText => simp [keyOf] at hy
    | elem q a c =>
      simp only [keyOf, Option.some.injEq] at hy
      have hq : ((none : Option String) == some q) = false := by simp
      simp only [walk, hq, Bool.false_eq_true, if_false] at hw
      cases e2 : entrySpec.onElem s1 (lname q) a c with
      | error z => simp [e2] at hw
      | ok s2 =>
        -- the field was filled by `x` and still is; `y` would need it empty
        have fin : ∀ (g : EntrySlots → Bool), SlotLaw g k → False := by
          intro g L
          have hfill : g s1 = true := (entry_walk_slot g k L _ _ _ _ e1).2.2 ⟨x, by simp, hx⟩
          have := ((L.law s1 s2 (lname q) a c e2).1 hy).1
          rw [hfill] at this
          exact absurd this (by simp)
        simp only [entryKeys, List.mem_cons, List.mem_nil_iff, or_false] at hk
        rcases hk with rfl | rfl | rfl | rfl | rfl | rfl | rfl | rfl
        · exact fin _ slotLaw_Amt
        · exact fin _ slotLaw_CdtDbtInd
        · exact fin _ slotLaw_BookgDt
        · exact fin _ slotLaw_ValDt
        · exact fin _ slotLaw_BkTxCd
        · exact fin _ slotLaw_Chrgs
        · exact fin _ slotLaw_NtryDtls
        · exact fin _ slotLaw_AddtlNtryInf

/-- **A missing required element is an error**: an `<Ntry>` without `Amt`, `CdtDbtInd`, `BookgDt`, `BkTxCd` or
`AddtlNtryInf` among its children (under whatever prefix) does not decode. -/
theorem decEntry_missing (attrs : String) (kids : List Node) (k : String)
    (hk : k ∈ ["Amt", "CdtDbtInd", "BookgDt", "BkTxCd", "AddtlNtryInf"]) (hno : ∀ n ∈ kids, keyOf n ≠ some k) :
    ∀ e, decEntry attrs kids ≠ .ok e := by
  intro e h
  obtain ⟨st, o, hw, h1, h2, h3, h4, h5⟩ := decEntry_ok _ _ _ h
  have fin : ∀ (g : EntrySlots → Bool), SlotLaw g k → g {} = false → g st = true → False := by
    intro g L h0 hs
    have := (entry_walk_slot g k L _ _ _ _ hw).2.1 hno
    rw [h0, hs] at this
    exact absurd this (by simp)
  simp only [List.mem_cons, List.mem_nil_iff, or_false] at hk
  rcases hk with rfl | rfl | rfl | rfl | rfl
  · exact fin _ slotLaw_Amt rfl h1
  · exact fin _ slotLaw_CdtDbtInd rfl h2
  · exact fin _ slotLaw_BookgDt rfl h3
  · exact fin _ slotLaw_BkTxCd rfl h4
  · exact fin _ slotLaw_AddtlNtryInf rfl h5


/-- **Unknown elements are ignored** among the children of an `<Ntry>`, at every position (an `Entry` has no list field). -/
theorem decEntry_unknown_ignored (attrs : String) (pre post : List Node) (u : Node) (hu : Skippable entrySpec u) :
    decEntry attrs (pre ++ u :: post) = decEntry attrs (pre ++ post) := by
  have hw : walk entrySpec {} none (pre ++ u :: post) = walk entrySpec {} none (pre ++ post) := by
    rw [walk_append, walk_append]
    cases e1 : walk entrySpec {} none pre with
    | error z => rfl
    | ok p =>
      obtain ⟨s1, o1⟩ := p
      have ho : o1 = none := walk_noList entrySpec entry_noList _ _ _ _ e1
      subst ho
      exact walk_unknown_head entrySpec u hu s1 post
  unfold decEntry runWalk
  rw [hw]

/-- **The order of the children of an `<Ntry>` is irrelevant**: two neighbouring elements filed under different keys may be
swapped (so every permutation that keeps … nothing, an entry has no lists: every permutation of element children). -/
theorem decEntry_swap (attrs : String) (pre post : List Node) (q₁ a₁ k₁ q₂ a₂ k₂) (hne : lname q₁ ≠ lname q₂) :
    ∀ e, decEntry attrs (pre ++ .elem q₁ a₁ k₁ :: .elem q₂ a₂ k₂ :: post) = .ok e ↔
         decEntry attrs (pre ++ .elem q₂ a₂ k₂ :: .elem q₁ a₁ k₁ :: post) = .ok e := by
  have hw : ∀ r, walk entrySpec {} none (pre ++ .elem q₁ a₁ k₁ :: .elem q₂ a₂ k₂ :: post) = .ok r ↔
                 walk entrySpec {} none (pre ++ .elem q₂ a₂ k₂ :: .elem q₁ a₁ k₁ :: post) = .ok r := by
    intro r
    rw [walk_append, walk_append]
    cases e1 : walk entrySpec {} none pre with
    | error z => simp
    | ok p =>
      obtain ⟨s1, o1⟩ := p
      have ho : o1 = none := walk_noList entrySpec entry_noList _ _ _ _ e1
      subst ho
      exact walk_swap entrySpec q₁ a₁ k₁ q₂ a₂ k₂ post s1 none (by simp) (by simp) rfl rfl
        (entry_fields_commute s1 _ a₁ k₁ _ a₂ k₂ hne) r
  intro e
  unfold decEntry runWalk
  cases hn : noAttrs attrs with
  | error z => simp [bind, Except.bind]
  | ok u =>
    simp only [bind, Except.bind, Except.map]
    cases eA : walk entrySpec {} none (pre ++ .elem q₁ a₁ k₁ :: .elem q₂ a₂ k₂ :: post) with
    | error z =>
      cases eB : walk entrySpec {} none (pre ++ .elem q₂ a₂ k₂ :: .elem q₁ a₁ k₁ :: post) with
      | error z' => simp
      | ok pb => exact absurd ((hw pb).mpr eB) (by simp [eA])
    | ok pa =>
      have := (hw pa).mp eA
      rw [this]

/-! ## one level up: `Stmt` -/

theorem stmt_unknown (k : String) (h1 : k ≠ "Bal") (h2 : k ≠ "Ntry") : stmtSpec.Unknown k := by
  refine ⟨by simp [stmtSpec, h1, h2], ?_⟩
  intro st a kids
  simp [stmtSpec, h1, h2]
  cases skipElem kids <;> rfl

/-- the key `Ntry` fills the field, and needs it empty -/
theorem stmt_onElem_Ntry (s1 s2 : StmtSlots) (k a c) (hk : k = "Ntry") (h : stmtSpec.onElem s1 k a c = .ok s2) :
    s1.ntries = none ∧ s2.ntries.isSome = true := by
  subst hk
  simp only [stmtSpec] at h
  cases hx : s1.ntries <;> cases hd : decEntry a c <;>
    simp [hx, hd, setOnce, bad, Except.map, bind, Except.bind] at h
  rw [← h]; exact ⟨rfl, rfl⟩

theorem stmt_onItem_Ntry (s1 s2 : StmtSlots) (k a c) (hk : k = "Ntry") (h : stmtSpec.onItem s1 k a c = .ok s2) :
    s2.ntries.isSome = true := by
  subst hk
  simp only [stmtSpec] at h
  cases hd : decEntry a c <;> simp [hd, bind, Except.bind] at h
  rw [← h]; rfl

/-- **Interleaved lists are an error** (`overlapped-lists` is off): in a `<Stmt>`, two `<Ntry>` elements separated by an
element that is not an `<Ntry>` — unknown to `Statement`, like `<TxsSummry>` — do not decode: the second one is a duplicate
`Ntry` key. -/
theorem decStmt_interleaved (attrs : String) (pre post : List Node) (q a₁ k₁ a₂ k₂) (u : Node) (hq : lname q = "Ntry")
    (hu : Skippable stmtSpec u) (hun : ∀ a k, u ≠ .elem q a k) :
    ∀ s, decStmt attrs (pre ++ .elem q a₁ k₁ :: u :: .elem q a₂ k₂ :: post) ≠ .ok s := by
  intro s h
  have hw : ∃ r, walk stmtSpec {} none (pre ++ .elem q a₁ k₁ :: u :: .elem q a₂ k₂ :: post) = .ok r := by
    unfold decStmt runWalk at h
    cases hn : noAttrs attrs with
    | error z => simp [hn, bind, Except.bind] at h
    | ok x =>
      cases hW : walk stmtSpec {} none (pre ++ .elem q a₁ k₁ :: u :: .elem q a₂ k₂ :: post) with
      | error z => simp [hn, hW, bind, Except.bind, Except.map] at h
      | ok r => exact ⟨r, rfl⟩
  obtain ⟨r, hw⟩ := hw
  rw [walk_append] at hw
  cases e1 : walk stmtSpec {} none pre with
  | error z => simp [e1] at hw
  | ok p =>
    obtain ⟨s1, o1⟩ := p
    simp only [e1] at hw
    -- the first `<Ntry>`: an item of the open run, or the key that opens it; either way the field is filled behind it
    have key : ∀ s2, (s2.ntries.isSome = true) → walk stmtSpec s2 (some q) (u :: .elem q a₂ k₂ :: post) ≠ .ok r := by
      intro s2 hs2
      apply walk_unknown_breaks_list stmtSpec u hu s2 q a₂ k₂ post hun
      intro e he
      have := (stmt_onElem_Ntry s2 e _ a₂ k₂ hq he).1
      rw [this] at hs2
      exact absurd hs2 (by simp)
    simp only [walk] at hw
    split at hw
    · cases e2 : stmtSpec.onItem s1 (lname q) a₁ k₁ with
      | error z => simp [e2] at hw
      | ok s2 =>
        simp only [e2] at hw
        rename_i ho
        have ho' : o1 = some q := by simpa using ho
        subst ho'
        exact key s2 (stmt_onItem_Ntry s1 s2 _ a₁ k₁ hq e2) hw
    · cases e2 : stmtSpec.onElem s1 (lname q) a₁ k₁ with
      | error z => simp [e2] at hw
      | ok s2 =>
        simp only [e2] at hw
        have hl : stmtSpec.isList (lname q) = true := by simp [stmtSpec, hq]
        simp only [hl, if_true] at hw
        exact key s2 (stmt_onElem_Ntry s1 s2 _ a₁ k₁ hq e2).2 hw

/-! ## to any depth: congruence -/

theorem alike_refl (sp : Spec σ) : ∀ n, Alike sp n n
  | .elem _ _ _ => ⟨rfl, fun _ => rfl, fun _ => rfl⟩
  | .text _ => trivial
  | .badText => trivial

theorem alikeAll_refl (sp : Spec σ) : ∀ l, AlikeAll sp l l
  | [] => .nil
  | n :: l => .cons (alike_refl sp n) (alikeAll_refl sp l)

theorem alikeAll_replace (sp : Spec σ) (n n' : Node) (h : Alike sp n n') : ∀ (pre post : List Node),
    AlikeAll sp (pre ++ n :: post) (pre ++ n' :: post)
  | [], post => .cons h (alikeAll_refl sp post)
  | p :: pre, post => .cons (alike_refl sp p) (alikeAll_replace sp n n' h pre post)

/-- a child of a `<Stmt>` may be replaced by one that decodes to the same entry (`Statement` looks at an element only
through `decBalance` / `decEntry` / `skipElem`) -/
theorem decStmt_congr_entry (attrs : String) (pre post : List Node) (q a k a' k') (hq : lname q = "Ntry")
    (h : decEntry a k = decEntry a' k') :
    decStmt attrs (pre ++ .elem q a k :: post) = decStmt attrs (pre ++ .elem q a' k' :: post) := by
  have hal : Alike stmtSpec (.elem q a k) (.elem q a' k') := by
    refine ⟨rfl, fun st => ?_, fun st => ?_⟩ <;> simp [stmtSpec, hq, h]
  unfold decStmt runWalk
  rw [walk_congr stmtSpec _ _ (alikeAll_replace stmtSpec _ _ hal pre post)]

theorem decB2c_congr_stmt (attrs : String) (pre post : List Node) (q a k a' k') (hq : lname q = "Stmt")
    (h : decStmt a k = decStmt a' k') :
    decB2c attrs (pre ++ .elem q a k :: post) = decB2c attrs (pre ++ .elem q a' k' :: post) := by
  have hal : Alike b2cSpec (.elem q a k) (.elem q a' k') := by
    refine ⟨rfl, fun st => ?_, fun st => ?_⟩ <;> simp [b2cSpec, hq, h]
  unfold decB2c runWalk
  rw [walk_congr b2cSpec _ _ (alikeAll_replace b2cSpec _ _ hal pre post)]

theorem decDocument_congr_b2c (r ra : String) (pre post : List Node) (q a k a' k') (hq : lname q = "BkToCstmrStmt")
    (h : decB2c a k = decB2c a' k') :
    decDocument (.elem r ra (pre ++ .elem q a k :: post)) = decDocument (.elem r ra (pre ++ .elem q a' k' :: post)) := by
  have hal : Alike (oneFieldSpec "BkToCstmrStmt" decB2c) (.elem q a k) (.elem q a' k') := by
    refine ⟨rfl, fun st => ?_, fun st => ?_⟩ <;> simp [oneFieldSpec, hq, h]
  simp only [decDocument, decOneField, runWalk]
  rw [walk_congr _ _ _ (alikeAll_replace _ _ _ hal pre post)]

/-- **Unknown elements are ignored at any depth**: an element `Entry` does not know, put anywhere among the children of any
`<Ntry>` of any `<Stmt>` of the document, does not change what the document decodes to (a result or an error). -/
theorem decDocument_unknown_in_entry (r ra qb ab qs as' qn an : String) (p0 s0 p1 s1 p2 s2 pre post : List Node) (u : Node)
    (hb : lname qb = "BkToCstmrStmt") (hs : lname qs = "Stmt") (hn : lname qn = "Ntry") (hu : Skippable entrySpec u) :
    decDocument (.elem r ra (p0 ++ .elem qb ab (p1 ++ .elem qs as' (p2 ++ .elem qn an (pre ++ u :: post) :: s2) :: s1) :: s0)) =
    decDocument (.elem r ra (p0 ++ .elem qb ab (p1 ++ .elem qs as' (p2 ++ .elem qn an (pre ++ post) :: s2) :: s1) :: s0)) :=
  decDocument_congr_b2c r ra p0 s0 qb ab _ ab _ hb
    (decB2c_congr_stmt ab p1 s1 qs as' _ as' _ hs
      (decStmt_congr_entry as' p2 s2 qn an _ an _ hn (decEntry_unknown_ignored an pre post u hu)))

end Okane.Import.CamtXml
