import Okane.Lemmas.LiteralSpec
/-!
# C07 — the printer (`printPDec`) produces a well-formed literal that says what the decimal is

Main results: `printPlain_spec`, `printComma_spec`: the printed text is a well-formed literal within range whose sign,
mantissa, scale are the decimal's, with the grouping style determined by the size of the integer part.
-/
set_option linter.unusedSimpArgs false
namespace Okane.C07
open Okane Okane.Literal

/-! ## decimal digits -/

theorem digitChar_isDigit : ∀ k, k < 10 → (digitChar k).isDigit = true := by decide
theorem digitVal_digitChar : ∀ k, k < 10 → digitVal (digitChar k) = k := by decide

theorem digits_all (n : Nat) : (digits n).all Char.isDigit = true := by
  fun_induction digits n with
  | case1 n h => simp [digitChar_isDigit n h]
  | case2 n h ih => simp [List.all_append, ih, digitChar_isDigit (n % 10) (by omega)]

theorem foldMant_snoc (m : Nat) (a : List Char) (c : Char) : foldMant m (a ++ [c]) = foldMant m a * 10 + digitVal c := by
  rw [foldMant_append, foldMant_cons, foldMant_nil]

theorem foldMant_digits (n : Nat) : foldMant 0 (digits n) = n := by
  fun_induction digits n with
  | case1 n h => simp [foldMant_cons, digitVal_digitChar n h]
  | case2 n h ih => rw [foldMant_snoc, ih, digitVal_digitChar (n % 10) (by omega)]; omega

theorem digits_length_pos (n : Nat) : 1 ≤ (digits n).length := by
  fun_induction digits n with
  | case1 n h => simp
  | case2 n h ih => simp

/-- `n` has at least `k + 2` digits iff `n ≥ 10^(k+1)` -/
theorem digits_length_ge (n : Nat) : ∀ k, k + 2 ≤ (digits n).length ↔ 10 ^ (k + 1) ≤ n := by
  fun_induction digits n with
  | case1 n h =>
    intro k
    have : 10 ≤ 10 ^ (k + 1) := by
      have := Nat.pow_le_pow_right (n := 10) (by omega) (show 1 ≤ k + 1 by omega)
      simpa using this
    simp only [List.length_singleton]
    omega
  | case2 n h ih =>
    intro k
    simp only [List.length_append, List.length_singleton]
    cases k with
    | zero =>
      have := digits_length_pos (n / 10)
      simp only [Nat.zero_add, Nat.pow_one]
      omega
    | succ k =>
      have := ih k
      rw [Nat.pow_succ, ← Nat.le_div_iff_mul_le (by omega)]
      omega

theorem foldMant_zeros (k : Nat) (ds : List Char) : foldMant 0 (List.replicate k '0' ++ ds) = foldMant 0 ds := by
  induction k with
  | zero => simp
  | succ k ih =>
    rw [List.replicate_succ, List.cons_append, foldMant_cons]
    exact ih

theorem digits0_all (n : Nat) : (digits0 n).all Char.isDigit = true := by
  unfold digits0; split
  · rfl
  · exact digits_all n

theorem foldMant_digits0 (n : Nat) : foldMant 0 (digits0 n) = n := by
  unfold digits0; split
  · rename_i h; rw [h]; rfl
  · exact foldMant_digits n

theorem padZeros_all (w : Nat) (ds : List Char) (h : ds.all Char.isDigit = true) :
    (padZeros w ds).all Char.isDigit = true := by
  unfold padZeros
  rw [List.all_append, h, List.all_replicate]
  split <;> simp

theorem foldMant_padZeros (w : Nat) (ds : List Char) : foldMant 0 (padZeros w ds) = foldMant 0 ds :=
  foldMant_zeros _ ds

theorem padZeros_length (w : Nat) (ds : List Char) : (padZeros w ds).length = max w ds.length := by
  unfold padZeros
  simp only [List.length_append, List.length_replicate]
  omega


/-! ## the Spec functions on a text of the printed shape: sign, integer text, optional point and fraction -/

def noDot (l : List Char) : Prop := ∀ a ∈ l, (a != '.') = true

def dotTail (frac : List Char) : List Char := if frac.isEmpty then [] else '.' :: frac

theorem bIntPart_body (W frac : List Char) (hW : noDot W) : bIntPart (W ++ dotTail frac) = W := by
  unfold bIntPart
  rw [List.takeWhile_append_of_pos (p := fun x => x != '.') hW]
  unfold dotTail
  split
  · simp
  · rw [tw_cons_dot]; simp

theorem bFracPart_body (W frac : List Char) (hW : noDot W) : bFracPart (W ++ dotTail frac) = frac := by
  unfold bFracPart
  rw [List.dropWhile_append_of_pos (p := fun x => x != '.') hW]
  unfold dotTail
  split
  · rename_i h
    have : frac = [] := by simpa using h
    subst this; rfl
  · rw [dw_cons_dot]; rfl

theorem dotTail_filter (frac : List Char) (hf : frac.all Char.isDigit = true) :
    (dotTail frac).filter Char.isDigit = frac := by
  unfold dotTail
  split
  · rename_i h
    have : frac = [] := by simpa using h
    subst this; rfl
  · rw [List.filter_cons_of_neg (by decide), filter_digits_of_all frac hf]

theorem dotTail_contains_comma (frac : List Char) (hf : frac.all Char.isDigit = true) :
    (dotTail frac).contains ',' = false := by
  unfold dotTail
  split
  · rfl
  · rw [List.contains_cons, contains_comma_digits hf]; decide

def signText (neg : Bool) : List Char := if neg then ['-'] else []

theorem stripMinus_sign (neg : Bool) (c : Char) (B : List Char) (hc : c.isDigit = true) :
    Spec.stripMinus (signText neg ++ c :: B) = c :: B ∧ Spec.isNegative (signText neg ++ c :: B) = neg := by
  cases neg with
  | true => exact ⟨rfl, rfl⟩
  | false =>
    have hne : c ≠ '-' := (digit_ne hc).1
    simp only [signText, Bool.false_eq_true, if_false, List.nil_append]
    constructor
    · unfold Spec.stripMinus; split <;> simp_all
    · unfold Spec.isNegative; split <;> simp_all

/-- what the specification says about a text of the printed shape -/
theorem printed_spec (neg : Bool) (c : Char) (W' frac : List Char) (hc : c.isDigit = true) (hW : noDot (c :: W'))
    (hf : frac.all Char.isDigit = true) :
    let p := signText neg ++ (c :: W') ++ dotTail frac
    Spec.WellFormedLiteral p = Spec.intOk (c :: W') ∧
    Spec.litMant p = foldMant 0 ((c :: W').filter Char.isDigit ++ frac) ∧
    Spec.litScale p = frac.length ∧
    Spec.isNegative p = neg ∧
    Spec.grouping p = (if (c :: W').contains ',' then some Fmt.comma3dot
                       else if (c :: W').length ≥ 4 then some Fmt.plain else none) := by
  intro p
  have hp : p = signText neg ++ c :: (W' ++ dotTail frac) := by simp [p]
  obtain ⟨hs, hn⟩ := stripMinus_sign neg c (W' ++ dotTail frac) hc
  rw [← hp] at hs hn
  have hB : c :: (W' ++ dotTail frac) = (c :: W') ++ dotTail frac := rfl
  have e1 := bIntPart_body (c :: W') frac hW
  have e2 := bFracPart_body (c :: W') frac hW
  refine ⟨?_, ?_, ?_, hn, ?_⟩
  · rw [wf_eq_bWF, hs, hB]
    unfold bWF
    rw [e1, e2, hf]
    simp [hc]
  · rw [litMant_eq, hs, hB]
    unfold bMant
    rw [List.filter_append, dotTail_filter frac hf]
  · rw [litScale_eq, hs, hB, e2]
  · rw [grouping_eq, hs, hB]
    unfold bFmt
    rw [e1, List.contains_append, dotTail_contains_comma frac hf, Bool.or_false]


/-! ## the digit vector split into integer and fraction digits -/

def wholeOf (C : List Char) (sc : Nat) : List Char := C.take (C.length - sc)
def fracOf (C : List Char) (sc : Nat) : List Char := C.drop (C.length - sc)

theorem whole_append_frac (C : List Char) (sc : Nat) : wholeOf C sc ++ fracOf C sc = C := List.take_append_drop _ _

theorem fracOf_length (C : List Char) (sc : Nat) (h : sc ≤ C.length) : (fracOf C sc).length = sc := by
  unfold fracOf; rw [List.length_drop]; omega

theorem wholeOf_length (C : List Char) (sc : Nat) : (wholeOf C sc).length = C.length - sc := by
  unfold wholeOf; rw [List.length_take]; omega

theorem wholeOf_all (C : List Char) (sc : Nat) (h : C.all Char.isDigit = true) : (wholeOf C sc).all Char.isDigit = true := by
  rw [List.all_eq_true] at *
  intro x hx; exact h x (List.mem_of_mem_take hx)

theorem fracOf_all (C : List Char) (sc : Nat) (h : C.all Char.isDigit = true) : (fracOf C sc).all Char.isDigit = true := by
  rw [List.all_eq_true] at *
  intro x hx; exact h x (List.mem_of_mem_drop hx)

theorem noDot_of_digits {l : List Char} (h : l.all Char.isDigit = true) : noDot l := all_ne_dot_of_digits h

theorem intpart_ge (mant sc : Nat) : 1000 ≤ mant / 10 ^ sc ↔ 10 ^ (sc + 3) ≤ mant := by
  rw [Nat.le_div_iff_mul_le (Nat.pow_pos (by omega)), Nat.pow_add]
  have : (10 : Nat) ^ 3 = 1000 := by decide
  rw [this, Nat.mul_comm]

theorem digits0_length_ge (mant sc : Nat) : sc + 4 ≤ (digits0 mant).length ↔ 10 ^ (sc + 3) ≤ mant := by
  have h := digits_length_ge mant (sc + 2)
  have hp : 0 < 10 ^ (sc + 3) := Nat.pow_pos (by omega)
  unfold digits0
  split
  · rename_i h0; subst h0; simp only [List.length_nil]; omega
  · rw [← h]

/-! ## `printPlain` -/

theorem printPlain_eq (d : PDec) :
    printPlain d = signText d.neg ++
      (if (wholeOf (padZeros d.scale (digits0 d.mant)) d.scale).isEmpty then ['0']
       else wholeOf (padZeros d.scale (digits0 d.mant)) d.scale) ++
      dotTail (fracOf (padZeros d.scale (digits0 d.mant)) d.scale) := by
  have hlen : d.scale ≤ (padZeros d.scale (digits0 d.mant)).length := by rw [padZeros_length]; omega
  have hfl := fracOf_length _ _ hlen
  have hdt : (if d.scale = 0 then [] else '.' :: fracOf (padZeros d.scale (digits0 d.mant)) d.scale)
      = dotTail (fracOf (padZeros d.scale (digits0 d.mant)) d.scale) := by
    unfold dotTail
    by_cases h0 : d.scale = 0
    · have : fracOf (padZeros d.scale (digits0 d.mant)) d.scale = [] := List.eq_nil_of_length_eq_zero (by omega)
      rw [this, if_pos h0]; rfl
    · have : (fracOf (padZeros d.scale (digits0 d.mant)) d.scale).isEmpty = false := by
        cases hf : fracOf (padZeros d.scale (digits0 d.mant)) d.scale with
        | nil => rw [hf] at hfl; simp at hfl; omega
        | cons _ _ => rfl
      simp [h0, this]
  rw [← hdt]
  rfl

/-- **the plain printer says what the decimal is**: `Display for Decimal` yields a well-formed literal whose sign,
mantissa and scale are the decimal's; it carries no comma, and is `plain`-styled iff the integer part has ≥ 4 digits. -/
theorem printPlain_spec (d : PDec) :
    Spec.WellFormedLiteral (printPlain d) = true ∧
    Spec.litMant (printPlain d) = d.mant ∧
    Spec.litScale (printPlain d) = d.scale ∧
    Spec.isNegative (printPlain d) = d.neg ∧
    Spec.grouping (printPlain d) = (if 1000 ≤ d.mant / 10 ^ d.scale then some Fmt.plain else none) := by
  have hC : (padZeros d.scale (digits0 d.mant)).all Char.isDigit = true := padZeros_all _ _ (digits0_all _)
  have hlen : d.scale ≤ (padZeros d.scale (digits0 d.mant)).length := by rw [padZeros_length]; omega
  have hm : foldMant 0 (padZeros d.scale (digits0 d.mant)) = d.mant := by rw [foldMant_padZeros, foldMant_digits0]
  have hwf := whole_append_frac (padZeros d.scale (digits0 d.mant)) d.scale
  have hwa := wholeOf_all _ d.scale hC
  have hfa := fracOf_all _ d.scale hC
  have hfl := fracOf_length _ _ hlen
  have hwl := wholeOf_length (padZeros d.scale (digits0 d.mant)) d.scale
  rw [padZeros_length] at hwl
  have hge := digits0_length_ge d.mant d.scale
  have hip := intpart_ge d.mant d.scale
  rw [printPlain_eq]
  generalize wholeOf (padZeros d.scale (digits0 d.mant)) d.scale = whole at *
  generalize fracOf (padZeros d.scale (digits0 d.mant)) d.scale = frac at *
  cases whole with
  | nil =>
    obtain ⟨h1, h2, h3, h4, h5⟩ := printed_spec d.neg '0' [] frac (by decide) (by intro a ha; simp at ha; subst ha; decide) hfa
    simp only [List.isEmpty_nil, if_true]
    refine ⟨?_, ?_, ?_, h4, ?_⟩
    · rw [h1]; decide
    · rw [h2, ← hm, ← hwf]
      simp [foldMant_cons, digitVal]
    · rw [h3, hfl]
    · rw [h5]
      simp only [List.length_nil] at hwl
      have : ¬ (1000 ≤ d.mant / 10 ^ d.scale) := by rw [hip, ← hge]; omega
      simp [this]
  | cons c W' =>
    have hc : c.isDigit = true := by simp only [List.all_cons, Bool.and_eq_true] at hwa; exact hwa.1
    obtain ⟨h1, h2, h3, h4, h5⟩ := printed_spec d.neg c W' frac hc (noDot_of_digits hwa) hfa
    simp only [List.isEmpty_cons, Bool.false_eq_true, if_false]
    refine ⟨?_, ?_, ?_, h4, ?_⟩
    · rw [h1]
      have := intOk_append (c :: W') [] hwa (by intro _ _ h; simp at h)
      simpa using this
    · rw [h2, filter_digits_of_all _ hwa, hwf, hm]
    · rw [h3, hfl]
    · rw [h5, contains_comma_digits hwa]
      simp only [Bool.false_eq_true, if_false]
      have : (c :: W').length ≥ 4 ↔ 1000 ≤ d.mant / 10 ^ d.scale := by rw [hip, ← hge, hwl]; omega
      simp only [this]


/-! ## `printComma`: the grouping loop -/

/-- `k` groups `,ddd` cut from the front of `x` -/
def commaGroups : Nat → List Char → List Char
  | 0, _ => []
  | k + 1, x => ',' :: x.take 3 ++ commaGroups k (x.drop 3)

/-- the loop once `comma_pos = 3` and `initial_integer = false`: it writes exactly `k` complete groups when the integer
digits left are `3 k` -/
theorem groupLoop_tail (scale : Nat) : ∀ (k fuel : Nat) (rem : List Char), rem.length = scale + 3 * k → k ≤ fuel →
    groupLoop fuel rem scale 3 false = (commaGroups k rem, rem.drop (3 * k), false) := by
  intro k
  induction k with
  | zero =>
    intro fuel rem hlen _
    cases fuel with
    | zero => simp [groupLoop, commaGroups]
    | succ f =>
      have : ¬ (rem.length > scale) := by omega
      simp [groupLoop, commaGroups, this]
  | succ k ih =>
    intro fuel rem hlen hf
    cases fuel with
    | zero => omega
    | succ f =>
      have h1 : rem.length > scale := by omega
      have h2 : (rem.drop 3).length = scale + 3 * k := by rw [List.length_drop]; omega
      simp only [groupLoop, h1, if_true, Bool.false_eq_true, if_false]
      rw [ih f (rem.drop 3) h2 (by omega)]
      simp only [commaGroups, List.drop_drop]
      rw [show 3 + 3 * k = 3 * (k + 1) by omega]
      simp

/-- the first iteration takes the short leading group -/
theorem groupLoop_first (scale L : Nat) (rem : List Char) (hL : 1 ≤ L) (hlen : rem.length = scale + L) :
    groupLoop rem.length rem scale (if L % 3 = 0 then 3 else L % 3) true =
      (rem.take (if L % 3 = 0 then 3 else L % 3) ++
         commaGroups ((L - (if L % 3 = 0 then 3 else L % 3)) / 3) (rem.drop (if L % 3 = 0 then 3 else L % 3)),
       rem.drop L, false) := by
  have hcp : 1 ≤ (if L % 3 = 0 then 3 else L % 3) ∧ (if L % 3 = 0 then 3 else L % 3) ≤ L ∧
      (L - (if L % 3 = 0 then 3 else L % 3)) % 3 = 0 := by
    split <;> omega
  generalize (if L % 3 = 0 then 3 else L % 3) = cp at *
  obtain ⟨c1, c2, c3⟩ := hcp
  have hk : L - cp = 3 * ((L - cp) / 3) := by omega
  cases hfu : rem.length with
  | zero => omega
  | succ f =>
    have h1 : rem.length > scale := by omega
    simp only [groupLoop, h1, if_true]
    rw [groupLoop_tail scale ((L - cp) / 3) f (rem.drop cp) (by rw [List.length_drop]; omega) (by omega)]
    simp only [List.nil_append, List.drop_drop]
    rw [← hk, show cp + (L - cp) = L by omega]


theorem commaGroups_succ_cons (k : Nat) (a b c : Char) (tl : List Char) :
    commaGroups (k + 1) (a :: b :: c :: tl) = ',' :: a :: b :: c :: commaGroups k tl := rfl

theorem commaGroups_props : ∀ (k : Nat) (x : List Char), x.all Char.isDigit = true → 3 * k ≤ x.length →
    Spec.groupsOk (commaGroups k x) = true ∧
    (commaGroups k x).filter Char.isDigit = x.take (3 * k) ∧
    noDot (commaGroups k x) ∧
    (commaGroups k x).contains ',' = decide (1 ≤ k) := by
  intro k
  induction k with
  | zero => intro x _ _; exact ⟨rfl, by simp [commaGroups], by intro a ha; simp [commaGroups] at ha, rfl⟩
  | succ k ih =>
    intro x hx hlen
    match x, hx, hlen with
    | a :: b :: c :: tl, hx, hlen =>
      simp only [List.all_cons, Bool.and_eq_true] at hx
      obtain ⟨ha, hb, hc, htl⟩ := hx
      obtain ⟨i1, i2, i3, _⟩ := ih tl htl (by simp only [List.length_cons] at hlen; omega)
      rw [commaGroups_succ_cons]
      refine ⟨?_, ?_, ?_, ?_⟩
      · simp [Spec.groupsOk, ha, hb, hc, i1]
      · rw [List.filter_cons_of_neg (by decide), List.filter_cons_of_pos ha, List.filter_cons_of_pos hb,
          List.filter_cons_of_pos hc, i2, show 3 * (k + 1) = 3 * k + 1 + 1 + 1 by omega]
        simp only [List.take_succ_cons]
      · intro y hy
        simp only [List.mem_cons] at hy
        rcases hy with h | h | h | h | h
        · subst h; decide
        · subst h; exact isDigit_ne_dot ha
        · subst h; exact isDigit_ne_dot hb
        · subst h; exact isDigit_ne_dot hc
        · exact i3 y h
      · simp [List.contains_cons]
    | [], _, hlen => simp at hlen
    | [_], _, hlen => simp at hlen; omega
    | [_, _], _, hlen => simp at hlen; omega

theorem commaGroups_head (k : Nat) (x : List Char) : ∀ c cs, commaGroups k x = c :: cs → c.isDigit = false := by
  intro c cs h
  cases k with
  | zero => simp [commaGroups] at h
  | succ k =>
    simp only [commaGroups, List.cons_append] at h
    injection h with h1 _
    rw [← h1]; decide


/-- the integer text the grouped printer writes for `L ≥ 1` integer digits -/
def groupedWhole (C : List Char) (L : Nat) : List Char :=
  C.take (if L % 3 = 0 then 3 else L % 3) ++
    commaGroups ((L - (if L % 3 = 0 then 3 else L % 3)) / 3) (C.drop (if L % 3 = 0 then 3 else L % 3))

theorem groupLoop_none (fuel : Nat) (rem : List Char) (scale cp : Nat) (ini : Bool) (h : ¬ rem.length > scale) :
    groupLoop fuel rem scale cp ini = ([], rem, ini) := by
  cases fuel <;> simp [groupLoop, h]

theorem dotTail_eq (rem : List Char) : (if rem.isEmpty then [] else '.' :: rem) = dotTail rem := by
  unfold dotTail; cases rem <;> rfl

theorem printComma_eq (d : PDec) :
    printComma d =
      if (padZeros d.scale (digits d.mant)).length - d.scale = 0 then
        signText d.neg ++ ['0'] ++ dotTail (fracOf (padZeros d.scale (digits d.mant)) d.scale)
      else
        signText d.neg ++ groupedWhole (padZeros d.scale (digits d.mant)) ((padZeros d.scale (digits d.mant)).length - d.scale)
          ++ dotTail (fracOf (padZeros d.scale (digits d.mant)) d.scale) := by
  have hlen : d.scale ≤ (padZeros d.scale (digits d.mant)).length := by rw [padZeros_length]; omega
  unfold printComma
  simp only []
  generalize padZeros d.scale (digits d.mant) = C at *
  by_cases hL : C.length - d.scale = 0
  · rw [if_pos hL, groupLoop_none _ _ _ _ _ (by omega)]
    simp only [if_true, dotTail_eq, List.append_nil]
    unfold fracOf
    rw [hL, List.drop_zero]
    rfl
  · rw [if_neg hL]
    have := groupLoop_first d.scale (C.length - d.scale) C (by omega) (by omega)
    rw [this]
    simp only [Bool.false_eq_true, if_false, List.append_nil, dotTail_eq]
    rfl


theorem drop_all {C : List Char} (n : Nat) (h : C.all Char.isDigit = true) : (C.drop n).all Char.isDigit = true := by
  rw [List.all_eq_true] at *
  intro x hx; exact h x (List.mem_of_mem_drop hx)

theorem take_all {C : List Char} (n : Nat) (h : C.all Char.isDigit = true) : (C.take n).all Char.isDigit = true := by
  rw [List.all_eq_true] at *
  intro x hx; exact h x (List.mem_of_mem_take hx)

/-- what the grouped integer text is: a leading group of 1–3 digits, then complete groups; its digits are the integer
digits; it has a comma iff there are at least four integer digits -/
theorem groupedWhole_props (C : List Char) (sc L : Nat) (hC : C.all Char.isDigit = true) (hL : 1 ≤ L)
    (hlen : C.length = sc + L) :
    (∃ c W', groupedWhole C L = c :: W' ∧ c.isDigit = true) ∧
    Spec.intOk (groupedWhole C L) = true ∧
    noDot (groupedWhole C L) ∧
    (groupedWhole C L).filter Char.isDigit = C.take L ∧
    (groupedWhole C L).contains ',' = decide (4 ≤ L) ∧
    (L ≤ 3 → (groupedWhole C L).length = L) := by
  unfold groupedWhole
  have hcp : 1 ≤ (if L % 3 = 0 then 3 else L % 3) ∧ (if L % 3 = 0 then 3 else L % 3) ≤ L ∧
      (if L % 3 = 0 then 3 else L % 3) ≤ 3 ∧ (L - (if L % 3 = 0 then 3 else L % 3)) % 3 = 0 ∧
      (L ≤ 3 → (if L % 3 = 0 then 3 else L % 3) = L) := by
    split <;> omega
  generalize (if L % 3 = 0 then 3 else L % 3) = cp at *
  obtain ⟨c1, c2, c3, c4, c5⟩ := hcp
  have hk : L - cp = 3 * ((L - cp) / 3) := by omega
  have hlead := take_all cp hC
  have hrest := drop_all cp hC
  have hleadlen : (C.take cp).length = cp := by rw [List.length_take]; omega
  obtain ⟨g1, g2, g3, g4⟩ := commaGroups_props ((L - cp) / 3) (C.drop cp) hrest (by rw [List.length_drop]; omega)
  have ghead := commaGroups_head ((L - cp) / 3) (C.drop cp)
  refine ⟨?_, ?_, ?_, ?_, ?_, ?_⟩
  · cases hl : C.take cp with
    | nil => rw [hl] at hleadlen; simp at hleadlen; omega
    | cons c l' =>
      refine ⟨c, l' ++ _, rfl, ?_⟩
      rw [hl] at hlead
      simp only [List.all_cons, Bool.and_eq_true] at hlead
      exact hlead.1
  · rw [intOk_append _ _ hlead ghead, hleadlen, g1]
    simp [c1, c3]
  · intro a ha
    rw [List.mem_append] at ha
    rcases ha with h | h
    · exact noDot_of_digits hlead a h
    · exact g3 a h
  · rw [List.filter_append, filter_digits_of_all _ hlead, g2, ← hk, ← List.take_add, show cp + (L - cp) = L by omega]
  · rw [List.contains_append, contains_comma_digits hlead, g4, Bool.false_or]
    have : 1 ≤ (L - cp) / 3 ↔ 4 ≤ L := by omega
    simp only [this]
  · intro h3
    have : (L - cp) / 3 = 0 := by have := c5 h3; omega
    rw [this]
    simp only [commaGroups, List.append_nil, hleadlen]
    exact c5 h3


/-- **the grouped printer says what the decimal is**: the `Comma3Dot` branch of `Display for PrettyDecimal` yields a
well-formed literal whose sign, mantissa and scale are the decimal's; it carries commas iff the integer part has at least
four digits (i.e. is ≥ 1000). -/
theorem printComma_spec (d : PDec) :
    Spec.WellFormedLiteral (printComma d) = true ∧
    Spec.litMant (printComma d) = d.mant ∧
    Spec.litScale (printComma d) = d.scale ∧
    Spec.isNegative (printComma d) = d.neg ∧
    Spec.grouping (printComma d) = (if 1000 ≤ d.mant / 10 ^ d.scale then some Fmt.comma3dot else none) := by
  have hC : (padZeros d.scale (digits d.mant)).all Char.isDigit = true := padZeros_all _ _ (digits_all _)
  have hlen : d.scale ≤ (padZeros d.scale (digits d.mant)).length := by rw [padZeros_length]; omega
  have hm : foldMant 0 (padZeros d.scale (digits d.mant)) = d.mant := by rw [foldMant_padZeros, foldMant_digits]
  have hwf := whole_append_frac (padZeros d.scale (digits d.mant)) d.scale
  have hfa := fracOf_all _ d.scale hC
  have hfl := fracOf_length _ _ hlen
  have hCl := padZeros_length d.scale (digits d.mant)
  have hge := digits_length_ge d.mant (d.scale + 2)
  have hip := intpart_ge d.mant d.scale
  rw [printComma_eq]
  unfold wholeOf at hwf
  generalize padZeros d.scale (digits d.mant) = C at *
  generalize hfr : fracOf C d.scale = frac at *
  by_cases hL : C.length - d.scale = 0
  · rw [if_pos hL]
    rw [hL, List.take_zero, List.nil_append] at hwf
    obtain ⟨h1, h2, h3, h4, h5⟩ := printed_spec d.neg '0' [] frac (by decide) (by intro a ha; simp at ha; subst ha; decide) hfa
    refine ⟨?_, ?_, ?_, h4, ?_⟩
    · rw [h1]; decide
    · rw [h2, ← hm, ← hwf]
      simp [foldMant_cons, digitVal]
    · rw [h3, hfl]
    · rw [h5]
      have : ¬ (1000 ≤ d.mant / 10 ^ d.scale) := by rw [hip, ← hge]; omega
      simp [this]
  · rw [if_neg hL]
    obtain ⟨⟨c, W', hW, hc⟩, p2, p3, p4, p5, p6⟩ :=
      groupedWhole_props C d.scale (C.length - d.scale) hC (by omega) (by omega)
    rw [hW] at p2 p3 p4 p5 p6 ⊢
    obtain ⟨h1, h2, h3, h4, h5⟩ := printed_spec d.neg c W' frac hc p3 hfa
    refine ⟨?_, ?_, ?_, h4, ?_⟩
    · rw [h1, p2]
    · rw [h2, p4, hwf, hm]
    · rw [h3, hfl]
    · rw [h5, p5]
      have h4L : 4 ≤ C.length - d.scale ↔ 1000 ≤ d.mant / 10 ^ d.scale := by rw [hip, ← hge]; omega
      by_cases h4 : 4 ≤ C.length - d.scale
      · simp [h4, h4L.mp h4]
      · have := p6 (by omega)
        have hn : ¬ (1000 ≤ d.mant / 10 ^ d.scale) := fun h => h4 (h4L.mpr h)
        have hl : ¬ ((c :: W').length ≥ 4) := by omega
        rw [show decide (4 ≤ C.length - d.scale) = false by simpa using h4, if_neg (by simp), if_neg hl, if_neg hn]

/-- **`Display for PrettyDecimal` says what the decimal is** -/
theorem printPDec_spec (d : PDec) :
    Spec.WellFormedLiteral (printPDec d) = true ∧
    Spec.litMant (printPDec d) = d.mant ∧
    Spec.litScale (printPDec d) = d.scale ∧
    Spec.isNegative (printPDec d) = d.neg ∧
    Spec.grouping (printPDec d) =
      (if 1000 ≤ d.mant / 10 ^ d.scale then (if d.fmt = some .comma3dot then some Fmt.comma3dot else some Fmt.plain)
       else none) := by
  unfold printPDec
  split
  · rename_i h
    have := printComma_spec d
    simpa [h] using this
  · rename_i h
    have := printPlain_spec d
    have hne : ¬ (d.fmt = some .comma3dot) := fun h' => h h'
    simpa [hne] using this


/-! ## a literal without grouping style is below 1000 -/

theorem digitVal_le {c : Char} (h : c.isDigit = true) : digitVal c ≤ 9 := by
  simp only [Char.isDigit, Bool.and_eq_true, decide_eq_true_eq] at h
  unfold digitVal Char.toNat
  have h2 := h.2
  rw [UInt32.le_iff_toNat_le] at h2
  have : ('9' : Char).val.toNat = 57 := by decide
  omega

theorem foldMant_split : ∀ (ds : List Char) (m : Nat), foldMant m ds = m * 10 ^ ds.length + foldMant 0 ds := by
  intro ds
  induction ds with
  | nil => intro m; simp
  | cons c cs ih =>
    intro m
    rw [foldMant_cons, foldMant_cons, ih (m * 10 + digitVal c), ih (0 * 10 + digitVal c), List.length_cons, Nat.pow_succ]
    grind

theorem foldMant_lt : ∀ (ds : List Char), ds.all Char.isDigit = true → foldMant 0 ds < 10 ^ ds.length := by
  intro ds
  induction ds with
  | nil => intro _; simp
  | cons c cs ih =>
    intro h
    simp only [List.all_cons, Bool.and_eq_true] at h
    have := ih h.2
    have hv := digitVal_le h.1
    rw [foldMant_cons, foldMant_split, List.length_cons, Nat.pow_succ]
    have : (0 * 10 + digitVal c) * 10 ^ cs.length ≤ 9 * 10 ^ cs.length := Nat.mul_le_mul_right _ (by omega)
    omega

theorem groupsOk_head {x : List Char} (h : Spec.groupsOk x = true) (hne : x ≠ []) : ∃ t, x = ',' :: t := by
  unfold Spec.groupsOk at h
  split at h
  · exact absurd rfl hne
  · exact ⟨_, rfl⟩
  · simp at h

/-- a well-formed body with no comma and fewer than four integer digits denotes a number below 1000 -/
theorem bFmt_none_small (b : List Char) (hw : bWF b = true) (hf : bFmt b = none) :
    bMant b / 10 ^ (bFracPart b).length < 1000 := by
  unfold bFmt at hf
  have hcomma : b.contains ',' = false := by
    by_cases h : b.contains ',' = true
    · rw [if_pos h] at hf; simp at hf
    · simpa using h
  have hlen : (bIntPart b).length < 4 := by
    rw [hcomma] at hf
    by_cases h : (bIntPart b).length ≥ 4
    · simp [h] at hf
    · omega
  unfold bWF at hw
  simp only [Bool.and_eq_true] at hw
  obtain ⟨⟨hio, hfa⟩, _⟩ := hw
  have hb : bIntPart b ++ b.dropWhile (· != '.') = b := List.takeWhile_append_dropWhile
  -- the integer part is all digits
  have hip : (bIntPart b).all Char.isDigit = true := by
    have hsplit : (bIntPart b).takeWhile Char.isDigit ++ (bIntPart b).dropWhile Char.isDigit = bIntPart b :=
      List.takeWhile_append_dropWhile
    unfold Spec.intOk at hio
    simp only [Bool.or_eq_true, Bool.and_eq_true] at hio
    have hrest : (bIntPart b).dropWhile Char.isDigit = [] := by
      rcases hio with h | ⟨_, h⟩
      · simpa using h
      · by_cases hne : (bIntPart b).dropWhile Char.isDigit = []
        · exact hne
        · exfalso
          obtain ⟨t, ht⟩ := groupsOk_head h hne
          have h1 : ',' ∈ bIntPart b := by rw [← hsplit, ht]; simp
          have h2 : ',' ∈ b := by rw [← hb]; exact List.mem_append_left _ h1
          have : b.contains ',' = true := by simpa using h2
          rw [hcomma] at this; simp at this
    rw [hrest, List.append_nil] at hsplit
    rw [← hsplit]
    exact all_takeWhile _ _
  -- the digits of the body are the integer digits followed by the fraction digits
  have hfil : b.filter Char.isDigit = bIntPart b ++ bFracPart b := by
    have e : (b.dropWhile (· != '.')).filter Char.isDigit = bFracPart b := by
      unfold bFracPart at hfa ⊢
      cases hd : b.dropWhile (· != '.') with
      | nil => rfl
      | cons c cs =>
        have hc := dropWhile_head_not (p := fun x => x != '.') b hd
        have hc' : c = '.' := by simpa using hc
        subst hc'
        rw [hd] at hfa
        simp only [List.drop_succ_cons, List.drop_zero] at hfa ⊢
        rw [List.filter_cons_of_neg (by decide), filter_digits_of_all _ hfa]
    conv => lhs; rw [← hb]
    rw [List.filter_append, filter_digits_of_all _ hip, e]
  unfold bMant
  rw [hfil, foldMant_append, foldMant_split]
  have h1 := foldMant_lt _ hip
  have h2 := foldMant_lt _ hfa
  have h3 : 10 ^ (bIntPart b).length ≤ 10 ^ 3 := Nat.pow_le_pow_right (by omega) (by omega)
  rw [Nat.div_lt_iff_lt_mul (Nat.pow_pos (by omega))]
  have h4 : (foldMant 0 (bIntPart b) + 1) * 10 ^ (bFracPart b).length ≤ 1000 * 10 ^ (bFracPart b).length :=
    Nat.mul_le_mul_right _ (by omega)
  rw [Nat.add_mul] at h4
  omega

theorem grouping_none_small (s : List Char) (hw : Spec.WellFormedLiteral s = true) (hf : Spec.grouping s = none) :
    Spec.litMant s / 10 ^ Spec.litScale s < 1000 := by
  rw [litMant_eq, litScale_eq]
  rw [wf_eq_bWF] at hw
  rw [grouping_eq] at hf
  exact bFmt_none_small _ hw hf

end Okane.C07
