import Lean.Elab.Tactic
import Okane.Lemmas.C11TextExpr
/-!
# `loc_tac`: proving `Loc C x y p` for a grammar rule by following the structure of `p`

The rule for a parser whose head symbol is `foo` is the lemma `Okane.Parse.loc_foo` (`loc_pair`, `loc_opt`, `loc_literal`,
`loc_date`, …): `loc_head` looks the lemma up by that name, closes the goal with it (weakening the two positions when
necessary), or applies it and continues with its premises; side conditions are closed by `decide` (a token does not match
`\n`) or `safe_tac` (a repeated element consumes).
-/
namespace Okane.Parse
open Okane Okane.Comb

variable {α β : Type} {C : Ctx} {a b : Pos}

/-! ## the tokens, as `Loc` rules -/

theorem loc_space0 : Loc C .mid .mid space0 := WL.loc wl_space0
theorem loc_space1 : Loc C .mid .mid space1 := loc_space1_mid
theorem loc_digit1 : Loc C .mid .mid digit1 := WL.loc wl_digit1
theorem loc_tillLineEnding : Loc C .mid .mid tillLineEnding := WL.loc wl_tillLineEnding
theorem loc_literal (s : List Char) (hs : '\n' ∉ s) : Loc C .mid .mid (literal s) := WL.loc (wl_literal s hs)
theorem loc_char (c : Char) (hc : c ≠ '\n') : Loc C .mid .mid (char c) := WL.loc (wl_char c hc)
theorem loc_oneOf (f : Char → Bool) (hf : f '\n' = false) : Loc C .mid .mid (oneOf f) := WL.loc (wl_oneOf f hf)
theorem loc_takeWhile0 (f : Char → Bool) (hf : f '\n' = false) : Loc C .mid .mid (takeWhile0 f) := WL.loc (wl_takeWhile0 f hf)
theorem loc_takeWhile1 (f : Char → Bool) (hf : f '\n' = false) : Loc C .mid .mid (takeWhile1 f) := WL.loc (wl_takeWhile1 f hf)
theorem loc_takeTill0 (f : Char → Bool) (hf : f '\n' = true) : Loc C .mid .mid (takeTill0 f) := WL.loc (wl_takeTill0 f hf)
theorem loc_takeTill1 (f : Char → Bool) (hf : f '\n' = true) : Loc C .mid .mid (takeTill1 f) := WL.loc (wl_takeTill1 f hf)
theorem loc_valueExpr : Loc C .mid .mid valueExpr := WL.loc wl_valueExpr
theorem loc_amount : Loc C .mid .mid amount := WL.loc wl_amount

/-! ## the tactic -/

/-- close a goal `Loc C x y p` with the lemma `L`, weakening its two positions if necessary -/
macro "loc_use " L:term : tactic => `(tactic| first
  | exact $L
  | exact Loc.to_bol $L
  | exact Loc.of_bol $L
  | exact Loc.to_bol (Loc.of_bol $L))

syntax "loc_tac" : tactic

/-- extension point for premises that are not `Loc` goals (`LocOk` under `cut_err`) -/
syntax "loc_side" : tactic
macro_rules | `(tactic| loc_side) => `(tactic| fail "no registered side rule applies")

/-- the premises of a rule: `Loc` goals, `Safe` goals, decidable side conditions -/
macro "loc_sub" : tactic => `(tactic| first
  | loc_tac
  | assumption
  | (safe_tac; done)
  | decide
  | loc_side
  | (with_reducible apply Loc.ok; loc_tac))

/-- use the rule `L` for the head symbol of the goal's parser -/
macro "loc_rule " L:term : tactic => `(tactic| first
  | (loc_use $L)
  | (with_reducible apply $L <;> loc_sub)
  | (with_reducible apply Loc.to_bol; with_reducible apply $L <;> loc_sub)
  | (with_reducible apply Loc.of_bol; with_reducible apply $L <;> loc_sub)
  | (with_reducible apply Loc.to_bol; with_reducible apply Loc.of_bol; with_reducible apply $L <;> loc_sub))

open Lean Elab Tactic Meta in
/-- look up `Okane.Parse.loc_<head symbol>` -/
elab "loc_head" : tactic => do
  let g ← getMainGoal
  let t ← whnfR (← instantiateMVars (← g.getType))
  unless t.isAppOfArity ``Loc 5 do throwError "loc_head: not a Loc goal"
  let p ← instantiateMVars t.appArg!
  match p.consumeMData.getAppFn with
  | .const n _ =>
    let base := match n with
      | .str _ s => s
      | _ => "?"
    let lem := mkIdent (`Okane.Parse ++ Name.mkSimple ("loc_" ++ base))
    evalTactic (← `(tactic| loc_rule $lem))
  | _ => throwError "loc_head: the parser has no head symbol"

macro_rules | `(tactic| loc_tac) => `(tactic| first
  | (intro _; loc_tac)
  | (loc_use (by assumption))
  | loc_head
  | (with_reducible apply loc_pair_space1 <;> loc_sub)
  | (with_reducible apply loc_pair_spaces1 <;> loc_sub)
  | (with_reducible apply loc_preceded_space1 <;> loc_sub)
  | (with_reducible apply loc_commentPrefix_bol; assumption))

example : Loc C .mid .mid (pair (opt (literal [' '])) (takeTill1 fun c => c == '\n')) := by loc_tac
example : Loc C .mid .bol (char 'a' >>- fun _ => space0 >>- fun _ => lineEnding) := by loc_tac

end Okane.Parse
