import Okane.Lemmas.C11TextAppend
import Okane.Lemmas.C05Round
import Okane.Lemmas.Load
/-!
# The loader over a file system of TEXTS (C11 at the level of file contents)

`TextFS`: the `FileSystem` trait with `file_content_utf8` answering a text.  `parseFS T : FSI` parses every file with the
parser model (`parse_ledger` run to its first error: the entries delivered so far, and whether there was an error — what
`Loader::load_impl` sees of a file), so that `Load.load` / `Load.expand` run on texts.

`includeText g` = the paragraph `include g⏎⏎`; `parseEntries_includeText`: on its own it is the one entry `include g`.
-/
namespace Okane.Load
open Okane Okane.Parse Okane.Unparse

/-- a file system whose files are texts (`none` = no such file) -/
structure TextFS where
  canon : Path → Path
  text : Path → Option (List Char)
  glob : String → Outcome LoadErr (List Path)

/-- what the loader sees of a file's text: the entries `parse_ledger` yields until it is exhausted or fails -/
def parsedOf (t : List Char) : Outcome IoKind Parsed :=
  match parseLedgerRun t with
  | (es, .done) => .ok ⟨es.map (·.entry), false⟩
  | (es, .error _) => .ok ⟨es.map (·.entry), true⟩
  | (_, .panic s) => .panic s
  | (_, .fuelOut) => .fuelOut

/-- the parsed view of a text file system -/
def parseFS (T : TextFS) : FSI where
  canon := T.canon
  read p := match T.text p with
    | none => .err .notFound
    | some t => parsedOf t
  glob := T.glob

theorem parsedOf_of_parseEntries {t : List Char} {es : List Entry} (h : parseEntries t = .ok es) :
    parsedOf t = .ok ⟨es, false⟩ := by
  simp only [parseEntries, parseLedger] at h
  unfold parsedOf
  generalize parseLedgerRun t = res at h ⊢
  obtain ⟨xs, en⟩ := res
  cases en <;> simp_all [Outcome.map']

theorem parseFS_read {T : TextFS} {p : Path} {t : List Char} {es : List Entry} (ht : T.text p = some t)
    (h : parseEntries t = .ok es) : (parseFS T).read p = .ok ⟨es, false⟩ := by
  simp [parseFS, ht, parsedOf_of_parseEntries h]

/-- the paragraph that replaces a piece of text cut out of a file: `include g`, its line end, an empty line -/
def includeText (g : String) : List Char := kwInclude ++ ' ' :: (g.toList ++ ['\n', '\n'])

/-- `g` can be written after `include`: no line end inside, not blank at either end (`Unparse.wfRestOfLine`) -/
def wfIncludePath (g : String) : Prop := wfRestOfLine g.toList = true

instance (g : String) : Decidable (wfIncludePath g) := by unfold wfIncludePath; infer_instance

theorem parseEntries_includeText (g : String) (hg : wfIncludePath g) : parseEntries (includeText g) = .ok [.include g] := by
  have h := parseEntries_format (fun _ => 0) [.include g] (fun e he => by
    simp only [List.mem_singleton] at he; subst he; exact entryRT_include _ g hg)
  have e : formatEntries (fun _ => 0) [.include g] = includeText g := by
    simp [formatEntries_eq, pe, printEntry, includeText]
  rw [e] at h
  exact h

theorem endsBlank_includeText (g : String) : EndsBlank (includeText g) :=
  Or.inr ⟨kwInclude ++ ' ' :: g.toList, by simp [includeText]⟩

/-- the include paragraph does not start with a blank or a comment prefix: it may follow any line end -/
theorem cont_includeText (g : String) (rest : List Char) : Cont (includeText g ++ rest) := by
  intro c r h
  simp only [includeText, kwInclude, List.cons_append, List.cons.injEq] at h
  rw [← h.1]
  exact ⟨by decide, by decide⟩

/-- the text is empty or ends with a line end -/
def EndsLine (x : List Char) : Prop := x = [] ∨ ∃ x', x = x' ++ ['\n']

theorem _root_.Okane.Parse.EndsBlank.endsLine {x : List Char} (h : EndsBlank x) : EndsLine x := by
  rcases h with h | ⟨x', h⟩
  · exact Or.inl h
  · exact Or.inr ⟨x' ++ ['\n'], by simp [h]⟩

theorem boundary_includeText {pre : List Char} (h : EndsLine pre) (g : String) (rest : List Char) :
    Boundary pre (includeText g ++ rest) := by
  rcases h with h | h
  · exact Or.inl h
  · exact Or.inr (Or.inr (Or.inl ⟨h, cont_includeText g rest⟩))

/-- **the text with a piece replaced by an include paragraph**: its entries are those of the text in front, the `include`
entry, those of the text behind -/
theorem parseEntries_cut {pre post : List Char} {epre epost : List Entry} (g : String) (hg : wfIncludePath g)
    (hpre : parseEntries pre = .ok epre) (hpost : parseEntries post = .ok epost) (hl : EndsLine pre) :
    parseEntries (pre ++ includeText g ++ post) = .ok (epre ++ .include g :: epost) := by
  have := parseEntries_append3 hpre (parseEntries_includeText g hg) hpost (boundary_includeText hl g post)
    ((endsBlank_includeText g).boundary post)
  simpa using this

end Okane.Load
